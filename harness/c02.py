"""C02 -- the decoder is total, bounded and faithful on arbitrary datagrams.

Stage C (correspondence, result-exact): `DNSIncoming(data)` + `.answers()` of the real code against
`Zc.Wire.DecodeLib.parse` on the same bytes: exception class and where it escapes, `valid`, header
fields, `has_qu_question()`, questions, records, and the work counters (calls of `_read_name`,
activations and deepest nesting of `_decode_labels_at_offset` measured with `sys.setprofile`; label
slices measured with a counting `bytes` subclass).  Also: `Utf8.decodeReplace`/`charCount`/
`reencodedLen` against CPython, `Strict.decode` against the library on strict-accepted datagrams,
and the listener's size guard.

Stage O (the property's own sentences on the implementation's observations):
  (also for two live objects decoded in interleaved order: each datagram is judged on its own);
  never raises; counters within the budget predicate `DecodeSpec.withinBudget` (evaluated by the
  Lean driver); a valid result only has names of <= 253 characters; if the strict RFC 1035 parser
  accepts, only supported types occur and every label can be written back (`reencodable`), the
  object is valid and equals the strict parser's message.
"""
from __future__ import annotations

import itertools
import struct
import sys

from . import common as C
from . import rfc1035
from . import textlayer

TRUSTED = [
    "names are compared as text: the model's label bytes are decoded with CPython's bytes.decode('utf-8','replace') and joined with '.'; "
    "Utf8.decodeReplace/charCount/reencodedLen (used by the model's 253-character and re-encoding tests) are validated against CPython on every run; "
    "the join itself is modelled too (Zc.NameText.textOfLabels, proved: its length is the model's nameLen) and compared with the str DNSIncoming returns, "
    "and with what write_name makes of it, on the `text-reencode` stream",
    "python's recursion limit is modelled as 900 nested activations of _decode_labels_at_offset; the harness pins sys.setrecursionlimit accordingly "
    "and generates no pointer chain whose depth is within 20 of that budget",
    "sys.setprofile call/return events as the measure of activations; a bytes subclass counting slices taken inside _decode_labels_at_offset as the measure of label reads",
    "logging (log.debug / _log_exception_debug) is not modelled; the harness empties incoming._seen_logs when it exceeds 2000 entries: that "
    "module-level dict keeps one exc_info (traceback -> frames -> datagram) per distinct message text and grows without bound under hostile "
    "traffic (named limit DC02a: 20 KB per malformed datagram, for ever; repro and patch proposal in notes/fixes/DC02a-seen-logs*) -- memory "
    "retained across datagrams is outside C02's per-datagram sentence: the stream `seen-logs` only measures it (evidence note) and checks that "
    "decoding never raises with the memo full",
    "the optional Cython build (incoming.pxd: unsigned int offsets/counters) is not exercised: the pure-Python module is what runs",
    "every fifth datagram is decoded as the listener does, DNSIncoming(data, (addr, port), scope_id, now), and must give the same observation; "
    "source/scope_id/now are otherwise not modelled (scope_id is not compared)",
]
ASSUMPTIONS = [
    "the caller passes a `bytes` object of any length (the listener only forwards datagrams of at most 8966 bytes: leaf `oversize`)",
    "'strict RFC 1035 parser' = Zc.Wire.Strict (backward pointers >= 12, <= 128 hops, names <= 253 characters, exact rdlength, no trailing bytes); "
    "agreement is claimed when additionally every label re-encodes to <= 63 bytes of UTF-8 (always true for valid UTF-8 labels; RFC 6762 §16)",
    "name length: the property's own first sentence fixes <= 253 characters, so 'strict' = RFC 1035's 255 wire octets AND that documented limit: an "
    "RFC-legal 255-octet (254-character) ASCII name is rejected by library and Wire.Strict alike; a multi-byte name of <= 253 characters but > 255 "
    "octets is accepted by the library and outside Wire.Strict. harness/rfc1035.py (a third parser written from the RFC) cross-checks Wire.Strict and "
    "counts both deviations of the library from the RFC rule in the evidence (input_distribution rfc1035:*); they are a reading, not a violation",
]

REC_BUDGET = 900  # Zc.Wire.DecodeLib.libCfg.recLimit
EXC_NAMES = {"error": "struct.error"}

_impl = {}


def impl():
    """import the code under verification once"""
    if not _impl:
        from zeroconf import _dns as d
        from zeroconf._protocol import incoming as inc

        _impl["d"] = d
        _impl["inc"] = inc
        _impl["dec_code"] = inc.DNSIncoming._decode_labels_at_offset.__code__
        _impl["name_code"] = inc.DNSIncoming._read_name.__code__
    return _impl


class CountingBytes(bytes):
    """bytes whose slices taken from inside `_decode_labels_at_offset` are counted"""

    reads = 0
    code = None

    def __getitem__(self, k):
        if k.__class__ is slice and sys._getframe(1).f_code is CountingBytes.code:
            CountingBytes.reads += 1
        return bytes.__getitem__(self, k)


def exc_name(e):
    n = type(e).__name__
    return EXC_NAMES.get(n, n)


def rdata_view(r):
    d = impl()["d"]
    if isinstance(r, d.DNSAddress):
        return ("a", bytes(r.address))
    if isinstance(r, d.DNSPointer):
        return ("p", r.alias)
    if isinstance(r, d.DNSText):
        return ("t", bytes(r.text))
    if isinstance(r, d.DNSService):
        return ("s", r.priority, r.weight, r.port, r.server)
    if isinstance(r, d.DNSHinfo):
        return ("h", r.cpu, r.os)
    if isinstance(r, d.DNSNsec):
        return ("n", r.next_name, tuple(r.rdtypes))
    raise TypeError(type(r))


def obj_view(m, answers):
    qs = tuple((q.name, q.type, q.class_ | (0x8000 if q.unique else 0)) for q in m.questions)
    rs = tuple((a.name, a.type, a.class_ | (0x8000 if a.unique else 0), a.ttl, rdata_view(a)) for a in answers)
    return {"valid": bool(m.valid), "qu": bool(m.has_qu_question()),
            "hdr": (m.id, m.flags, m.num_questions, m.num_answers, m.num_authorities, m.num_additionals),
            "questions": qs, "records": rs}


class WorkBudgetExceeded(BaseException):
    """raised by the watchdog timer: the decoder did not finish within WATCHDOG_S seconds of CPU time
    (a decode of an 8966-byte datagram takes milliseconds, a line-traced one well under a second; the property
    demands a fixed work budget).  This is only the hard stop that keeps the harness from hanging: the budget
    itself is measured in executed source lines (`steps`, see `observe`) and, for work hidden inside C calls, in
    CPU time relative to a yardstick loop (`cpu_check`)."""


WATCHDOG_S = 10.0  # CPU seconds; the most expensive legitimate decode (648 records x 127 uncached hops, line-traced) takes about 2.7


def _watchdog(signum, frame):
    raise WorkBudgetExceeded()


LISTENER_ARGS = (("192.0.2.7", 5353), 3, 1000000.0)  # source, scope_id, now -- as _listener.py:147 passes them
# what `AsyncListener` hands over: source is always (addr, port); scope_id is None for an IPv4 socket and the receiving interface's
# index (0 included) for an IPv6 one; `now` is the loop's millisecond clock
LISTENER_V4 = (("192.0.2.7", 5353), None, 1000000.0)
LISTENER_V6 = (("fe80::1", 5353), 3, 1000000.0)
LISTENER_V6_SCOPE0 = (("2001:db8::7", 49152), 0, 1700000000123.5)
LISTENER_VARIANTS = (LISTENER_V4, LISTENER_V6, LISTENER_V6_SCOPE0, LISTENER_ARGS)


def largs_of(x):
    """normalise a listener-argument choice: False/None -> () (plain `DNSIncoming(data)`), True -> LISTENER_ARGS, a (source, scope_id, now)
    triple (tuple or the list a replay file holds) -> that triple"""
    if not x:
        return ()
    if x is True:
        return LISTENER_ARGS
    src, scope, now = x
    return (tuple(src) if src is not None else None, scope, now)


WORK_KEYS = ("questions", "records", "bm_calls", "bm_iters", "bm_bits", "bm_types")
_loops = {}


def loop_lines():
    """Locate, in the source of the tree under test, the loops a datagram drives besides the name decoder: the first
    body line of the `for` loops of `_read_questions` / `_read_others`, and in `_read_bitmap` the first body line of
    the `while`, the bit test and the append.  Found through the AST: the first loop of the kind in source order *anywhere* in the
    function (an added statement, a moved line, a wrapping `if`/`try`/`with` do not break the measurement).  -> {code: {lineno:
    index into the counter list}} or None when no such loop exists: then neither the loop counters nor the line budget can be
    evaluated, and `run` reports that as a **broken tie** (stream `loop-shape`), never silently (third review, finding 4)."""
    if "v" in _loops:
        return _loops["v"]
    import ast
    import inspect
    import textwrap

    cls = impl()["inc"].DNSIncoming

    def first(stmts, kind):
        """first node of `kind` in source order, at any depth below `stmts`"""
        best = None
        for s in stmts:
            for n in ast.walk(s):
                if isinstance(n, kind) and (best is None or (n.lineno, n.col_offset) < (best.lineno, best.col_offset)):
                    best = n
        return best

    out = {}
    try:
        for fname, idx in (("_read_questions", 1), ("_read_others", 2)):
            fn = getattr(cls, fname)
            src, at = inspect.getsourcelines(fn)
            loop = first(ast.parse(textwrap.dedent("".join(src))).body[0].body, ast.For)
            out[fn.__code__] = {at + loop.body[0].lineno - 1: idx}
        fn = cls._read_bitmap
        src, at = inspect.getsourcelines(fn)
        wh = first(ast.parse(textwrap.dedent("".join(src))).body[0].body, ast.While)
        outer = first(wh.body, ast.For)
        inner = first(outer.body, ast.For)
        test = first(inner.body, ast.If)
        lines = {at + wh.body[0].lineno - 1: 4, at + test.lineno - 1: 5, at + test.body[0].lineno - 1: 6}
        if len(lines) != 3:
            raise ValueError("loop lines of _read_bitmap coincide")
        out[fn.__code__] = lines
        _loops["bm_code"] = fn.__code__
    except Exception:  # noqa: BLE001 - a tree without these loops: a broken tie, reported by `run`
        out = None
    _loops["v"] = out
    return out


_sites = {}


def raise_sites():
    """Every place of `DNSIncoming` where an exception can start or is caught (third review, finding 2), from the AST of the tree
    under test: each `raise` statement (`raise:<function>:<k>`), each `except` handler (`except:<function>:<k>`) and, per function that
    subscripts the byte view, the IndexError such a subscript raises (`index:<function>`).
    -> {"required": {site: text}, "lines": {code: {lineno: site}}, "index": {code: site}} (empty dicts if the class cannot be read)"""
    if "v" in _sites:
        return _sites["v"]
    import ast

    inc = impl()["inc"]
    out = {"required": {}, "lines": {}, "index": {}}
    try:
        tree = ast.parse(open(inc.__file__).read())
        cdef = next(n for n in tree.body if isinstance(n, ast.ClassDef) and n.name == "DNSIncoming")
        for fn in cdef.body:
            if not isinstance(fn, ast.FunctionDef):
                continue
            obj = inc.DNSIncoming.__dict__.get(fn.name)
            obj = getattr(obj, "fget", None) or getattr(obj, "__func__", None) or obj
            code = getattr(obj, "__code__", None)
            if code is None:
                continue
            m, k = {}, {"raise": 0, "except": 0}
            for n in sorted((n for n in ast.walk(fn) if isinstance(n, (ast.Raise, ast.ExceptHandler))), key=lambda n: (n.lineno, n.col_offset)):
                kind = "raise" if isinstance(n, ast.Raise) else "except"
                k[kind] += 1
                site = "%s:%s:%d" % (kind, fn.name, k[kind])
                if kind == "raise":
                    for ln in range(n.lineno, n.end_lineno + 1):
                        m[ln] = site
                else:
                    m[n.body[0].lineno] = site
                out["required"][site] = "line %d: %s" % (n.lineno, " ".join(ast.unparse(n).split())[:100])
            for n in ast.walk(fn):
                if (isinstance(n, ast.Subscript) and not isinstance(n.slice, ast.Slice)
                        and (isinstance(n.value, ast.Name) and n.value.id == "view" or isinstance(n.value, ast.Attribute) and n.value.attr == "view")):
                    out["index"][code] = "index:%s" % fn.name
                    out["required"]["index:%s" % fn.name] = "IndexError out of a subscript of the byte view in %s" % fn.name
                    break
            if m:
                out["lines"][code] = m
    except Exception:  # noqa: BLE001
        out = {"required": {}, "lines": {}, "index": {}}
    _sites["v"] = out
    return out


def pkg_prefix():
    import os

    return os.path.dirname(os.path.dirname(impl()["inc"].__file__)) + os.sep


def observe(data: bytes, count_reads=False, listener_args=False, steps=False):
    """run the real decoder; -> dict(status, exc, counters, obj).  `listener_args`: False = `DNSIncoming(data)`, True = LISTENER_ARGS, or a
    (source, scope_id, now) triple.  With `steps`: also `steps` (source lines of the zeroconf package executed, one more per call),
    `work` (the loop counters of WORK_KEYS, None if not measurable) and `sites` (raise / except / IndexError sites reached)"""
    import signal

    old = signal.signal(signal.SIGVTALRM, _watchdog)
    signal.setitimer(signal.ITIMER_VIRTUAL, WATCHDOG_S)
    try:
        return _observe(data, count_reads, listener_args, steps)
    except WorkBudgetExceeded:
        sys.setprofile(None)
        sys.settrace(None)
        return {"status": "nontermination", "exc": "WorkBudgetExceeded", "names": 0, "acts": 0, "depth": 0, "obj": None, "reads": 0,
                "steps": None, "work": None, "largs": largs_of(listener_args) or None}
    finally:
        signal.setitimer(signal.ITIMER_VIRTUAL, 0)
        signal.signal(signal.SIGVTALRM, old)


def _line_tracer(lc, hit):
    """-> global trace function counting into lc = [steps, questions, records, bm_calls, bm_iters, bm_bits, bm_types] and adding the
    raise / except / IndexError sites reached to the set `hit`"""
    special = loop_lines() or {}
    bm_code = _loops.get("bm_code")
    prefix = pkg_prefix()
    rs = raise_sites()

    def plain(frame, event, arg):
        if event == "line":
            lc[0] += 1
        return plain

    def mk(m, sm, isite):
        def sp(frame, event, arg):
            if event == "line":
                lc[0] += 1
                ln = frame.f_lineno
                i = m.get(ln)
                if i is not None:
                    lc[i] += 1
                st = sm.get(ln)
                if st is not None:
                    hit.add(st)
            elif event == "exception" and isite is not None and arg[2] is not None and issubclass(arg[0], IndexError):
                nxt = arg[2].tb_next  # the exception starts here: nothing below, or only the counting `bytes` subclass of this harness
                if nxt is None or nxt.tb_frame.f_code is CountingBytes.__getitem__.__code__:
                    hit.add(isite)
            return sp
        return sp

    sps = {code: mk(special.get(code, {}), rs["lines"].get(code, {}), rs["index"].get(code))
           for code in set(special) | set(rs["lines"]) | set(rs["index"])}

    def tracer(frame, event, arg):
        co = frame.f_code
        if co.co_filename.startswith(prefix):
            lc[0] += 1
            if co is bm_code:
                lc[3] += 1
            return sps.get(co, plain)
        return None

    return tracer


def _observe(data: bytes, count_reads=False, listener_args=False, steps=False):
    I = impl()
    inc = I["inc"]
    dec_code, name_code = I["dec_code"], I["name_code"]
    cnt = [0, 0, 0, 0]  # names, acts, depth, maxdepth
    lc = [0] * 7
    hit = set()
    tracer = _line_tracer(lc, hit) if steps else None
    largs = largs_of(listener_args)

    def prof(frame, event, arg):
        if event == "call":
            co = frame.f_code
            if co is dec_code:
                cnt[1] += 1
                cnt[2] += 1
                if cnt[2] > cnt[3]:
                    cnt[3] = cnt[2]
            elif co is name_code:
                cnt[0] += 1
        elif event == "return":
            if frame.f_code is dec_code:
                cnt[2] -= 1

    if count_reads:
        CountingBytes.code = dec_code
        CountingBytes.reads = 0
        data = CountingBytes(data)
    status, exc, obj, second = "ok", None, None, None
    old_limit = sys.getrecursionlimit()
    # frames below the first activation: this function, __init__/answers, _initial_parse/_read_others, [_read_questions/_read_record], _read_name
    depth_here = len(_stack())
    sys.setrecursionlimit(depth_here + 5 + REC_BUDGET)
    sys.setprofile(prof)
    if tracer is not None:
        sys.settrace(tracer)
    try:
        try:
            m = inc.DNSIncoming(data, *largs)
        except (WorkBudgetExceeded, KeyboardInterrupt):
            raise
        except BaseException as e:  # noqa: BLE001 - the property is about *any* exception (SystemExit and the like included)
            sys.setprofile(None)
            sys.settrace(None)
            status, exc = "init-raised", exc_name(e)
            m = None
        if m is not None:
            try:
                ans = m.answers()
            except (WorkBudgetExceeded, KeyboardInterrupt):
                raise
            except BaseException as e:  # noqa: BLE001
                sys.setprofile(None)
                sys.settrace(None)
                status, exc = "answers-raised", exc_name(e)
                ans = m._answers
            sys.setprofile(None)
            sys.settrace(None)
            obj = obj_view(m, ans)
            if status == "ok":
                # production reads answers() several times per message (record manager, query handler, repr): the second reading
                # must not raise and must show the same object (review escape 8)
                try:
                    obj2 = obj_view(m, m.answers())
                    if obj2 != obj:
                        second = ("differs", _short(obj2))
                except (WorkBudgetExceeded, KeyboardInterrupt):
                    raise
                except BaseException as e:  # noqa: BLE001
                    second = ("raised", exc_name(e))
    finally:
        sys.setprofile(None)
        sys.settrace(None)
        sys.setrecursionlimit(old_limit)
    # `_seen_logs` keeps one exc_info per distinct message text for ever (named limit DC02a, notes/fixes/DC02a-seen-logs.diff): the harness
    # bounds its own memory by emptying the dict; the growth itself, and decoding with a full memo, are the business of `seen_logs_stream`
    if len(inc._seen_logs) > 2000:
        inc._seen_logs.clear()
    out = {"status": status, "exc": exc, "names": cnt[0], "acts": cnt[1], "depth": cnt[3], "obj": obj, "largs": largs or None}
    if second is not None:
        out["second"] = second
    if count_reads:
        out["reads"] = CountingBytes.reads
    if steps:
        out["steps"] = lc[0]
        out["work"] = tuple(lc[1:]) if loop_lines() is not None else None
        out["sites"] = frozenset(hit)
    return out


# ------------------------------------------------------------------------------------------
# work hidden inside C calls (list.sort, `x in list`, list.insert, ...) is invisible to line events: CPU time per
# executed line, relative to a yardstick loop timed on this machine under this load

CPU_SLACK = 25      # allowed: CPU_SLACK * (seconds per yardstick line) * steps(datagram) + CPU_FLOOR_S
CPU_FLOOR_S = 0.05
CPU_MIN_STEPS = 20000  # below that a decode takes about a millisecond: nothing to measure
_yard = {}


def _yardstick_loop(n):
    """the decoder's own inner-loop idiom: bit tests and appends; executes 3 + n * (2 + 8 * 2) + popcounts lines"""
    out = []
    for i in range(n):
        byte = i & 0xFF
        for bit in range(0, 8):
            if byte & (0x80 >> bit):
                out.append(bit + i * 8)
    return out


YARD_N = 100000  # about 70 ms of CPU: with an interval timer armed the kernel accounts process CPU time in ticks (4 ms observed here),
                 # so a yardstick of a few milliseconds reads as 0 or 4 ms


def yardstick(fresh=False):
    """CPU seconds per executed source line of `_yardstick_loop` (best of 2 runs of YARD_N iterations)"""
    import time

    if "lines" not in _yard:
        n = [0]

        def local(frame, event, arg):
            if event == "line":
                n[0] += 1
            return local

        def tr(frame, event, arg):
            return local if frame.f_code is _yardstick_loop.__code__ else None

        sys.settrace(tr)
        try:
            _yardstick_loop(2000)
        finally:
            sys.settrace(None)
        _yard["lines"] = n[0] * (YARD_N // 2000)  # the loop body is the same for every i up to the popcount of i & 0xFF: period 256
    if fresh or "t" not in _yard:
        best = None
        for _ in range(2):
            t = time.process_time()
            _yardstick_loop(YARD_N)
            dt = time.process_time() - t
            best = dt if best is None else min(best, dt)
        _yard["t"] = max(best, 0.004) / _yard["lines"]
    return _yard["t"]


def cpu_seconds(data, listener_args=False):
    listener_args = largs_of(listener_args)
    """CPU time of one untraced DNSIncoming(data) + answers()"""
    import time

    inc = impl()["inc"]
    t = time.process_time()
    try:
        m = inc.DNSIncoming(data, *listener_args)
        m.answers()
    except Exception:  # noqa: BLE001 - reported by observe()
        pass
    return time.process_time() - t


def cpu_check(data, steps):
    """-> (ok, seconds, allowed): the untraced decode must not take more CPU than CPU_SLACK yardstick lines per executed
    line (+ floor).  A failure is re-measured twice with a fresh yardstick; the best ratio counts."""
    import signal

    old = signal.signal(signal.SIGVTALRM, _watchdog)
    try:
        worst = None
        for attempt in range(3):
            per_line = yardstick(fresh=attempt > 0)
            allowed = CPU_SLACK * per_line * steps + CPU_FLOOR_S
            signal.setitimer(signal.ITIMER_VIRTUAL, max(WATCHDOG_S, 4 * allowed))
            try:
                sec = cpu_seconds(data)
            except WorkBudgetExceeded:
                sec = max(WATCHDOG_S, 4 * allowed)
            finally:
                signal.setitimer(signal.ITIMER_VIRTUAL, 0)
            if sec <= allowed:
                return True, sec, allowed
            if worst is None or sec / allowed < worst[0] / worst[1]:
                worst = (sec, allowed)
        return False, worst[0], worst[1]
    finally:
        signal.signal(signal.SIGVTALRM, old)


def _stack():
    f = sys._getframe(1)
    out = []
    while f is not None:
        out.append(f)
        f = f.f_back
    return out


# ------------------------------------------------------------------------------------------
# parsing the driver's lines


def _labels(tok):
    if tok == ".":
        return []
    return [b"" if t == "-" else bytes.fromhex(t) for t in tok.split(".")]


def text_name(labels):
    return ".".join(l.decode("utf-8", "replace") for l in labels) + "."


class Toks:
    def __init__(self, toks):
        self.t = toks
        self.i = 0

    def next(self):
        v = self.t[self.i]
        self.i += 1
        return v

    def nat(self):
        return int(self.next())

    def hexb(self):
        v = self.next()
        return b"" if v == "-" else bytes.fromhex(v)

    def name(self):
        return text_name(_labels(self.next()))

    def rdata(self):
        k = self.next()
        if k == "a":
            return ("a", self.hexb())
        if k == "p":
            return ("p", self.name())
        if k == "t":
            return ("t", self.hexb())
        if k == "s":
            p, w, q = self.nat(), self.nat(), self.nat()
            return ("s", p, w, q, self.name())
        if k == "h":
            c, o = self.hexb(), self.hexb()
            return ("h", c.decode("utf-8", "replace"), o.decode("utf-8", "replace"))
        if k == "n":
            n = self.name()
            v = self.next()
            return ("n", n, tuple(int(x) for x in v.split(",")) if v != "-" else ())
        if k == "o":
            return ("o", self.hexb())
        raise ValueError("rdata kind " + k)

    def questions(self):
        n = self.nat()
        return tuple((self.name(), self.nat(), self.nat()) for _ in range(n))

    def records(self):
        n = self.nat()
        out = []
        for _ in range(n):
            nm, t, c, ttl = self.name(), self.nat(), self.nat(), self.nat()
            out.append((nm, t, c, ttl, self.rdata()))
        return tuple(out)


def parse_run(line):
    """model line -> same shape as observe()"""
    t = Toks(line.split())
    status = t.next()
    exc = None
    if status != "ok":
        exc = t.next()
    names, acts, reads, depth = t.nat(), t.nat(), t.nat(), t.nat()
    obj = None
    if status != "init-raised":
        valid, qu = t.next() == "1", t.next() == "1"
        hdr = tuple(t.nat() for _ in range(6))
        qs = t.questions()
        rs = t.records()
        obj = {"valid": valid, "qu": qu, "hdr": hdr, "questions": qs, "records": rs}
    if t.i != len(t.t):
        raise ValueError("trailing tokens in model line")
    return {"status": status, "exc": exc, "names": names, "acts": acts, "reads": reads, "depth": depth, "obj": obj}


def parse_strict(line):
    """-> None (rejected) | dict(supported, reencodable, hdr, questions, records)"""
    if line == "reject":
        return None
    t = Toks(line.split())
    assert t.next() == "ok"
    sup, ree = t.next() == "1", t.next() == "1"
    assert t.next() == "|"
    hdr = tuple(t.nat() for _ in range(6))
    qs = t.questions()
    rs = t.records()
    if t.i != len(t.t):
        raise ValueError("trailing tokens in strict line")
    return {"supported": sup, "reencodable": ree, "hdr": hdr, "questions": qs, "records": rs}


# ------------------------------------------------------------------------------------------
# generators

ASCII_LABELS = [b"a", b"b", b"foo", b"Foo", b"_tcp", b"_http", b"local", b"x y", b"a.b", b"0"]
UTF8_LABELS = ["é".encode(), "日本".encode(), ("é" * 31).encode(), ("日" * 21).encode(), ("日" * 20 + "ab").encode(), "\U0001f600".encode() * 15]
BAD_LABELS = [b"\xff", b"\xff" * 20, b"\xff" * 21, b"\xff" * 22, b"\xff" * 40, b"\xff" * 63, b"\xc3", b"a\xe6\x97", b"\xed\xa0\x80" * 7 + b"a", b"\xf0\x9f\x98" * 21,
              b"\xc0\xaf" * 11, b"\xf4\x90\x80\x80" * 5 + b"z"]


def rlabel(rng):
    k = rng.random()
    if k < 0.45:
        return rng.choice(ASCII_LABELS)
    if k < 0.65:
        n = rng.choice([1, 2, 10, 31, 62, 63])
        return bytes(rng.choice(b"abcXYZ09-_") for _ in range(n))
    if k < 0.8:
        return rng.choice(UTF8_LABELS)
    if k < 0.9:
        return rng.choice(BAD_LABELS)
    n = rng.choice([1, 3, 21, 22, 63])
    return bytes(rng.randrange(256) for _ in range(n))


class Wire:
    """a small wire-level message builder with optional name compression"""

    def __init__(self, rng, compress=0.7):
        self.rng = rng
        self.b = bytearray(12)
        self.sufs = {}
        self.pool = []
        self.compress = compress
        self.len_fields = []  # offsets of rdlength fields
        self.label_bytes = []  # offsets of label length bytes / pointers

    def name(self, labels):
        for i in range(len(labels)):
            suf = tuple(labels[i:])
            off = self.sufs.get(suf)
            if off is not None and self.rng.random() < self.compress:
                self.label_bytes.append(len(self.b))
                self.b += struct.pack(">H", 0xC000 | off)
                return
            if len(self.b) < 0x3FFF:
                self.sufs.setdefault(suf, len(self.b))
            self.label_bytes.append(len(self.b))
            self.b.append(len(labels[i]))
            self.b += labels[i]
        self.label_bytes.append(len(self.b))
        self.b.append(0)

    def rname(self, boundary=False):
        rng = self.rng
        if boundary:
            # total presentation length (characters) around 253
            target = rng.choice([251, 252, 253, 254, 255])
            labs = []
            n = 0
            while n < target:
                k = min(rng.choice([1, 9, 30, 62, 63]), target - n - 1)
                if k <= 0:
                    break
                labs.append(bytes(rng.choice(b"abc") for _ in range(k)))
                n += k + 1
            self.pool.append(labs)
            return labs
        if self.pool and rng.random() < 0.6:
            base = rng.choice(self.pool)
            k = rng.randint(0, len(base))
            labs = [rlabel(rng) for _ in range(rng.randint(0, 2))] + base[k:]
            if not labs and rng.random() < 0.9:
                labs = [rlabel(rng)]
        else:
            labs = [rlabel(rng) for _ in range(rng.choice([1, 1, 2, 3, 4, 5]))]
        self.pool.append(labs)
        return labs

    def question(self, boundary=False):
        self.name(self.rname(boundary))
        self.b += struct.pack(">HH", self.rng.choice([1, 12, 16, 28, 33, 47, 255, 0, 65535]), self.rng.choice([1, 0x8001, 255, 0x7FFF, 0xFFFF, 0]))

    def record(self, kind=None, boundary=False):
        rng = self.rng
        kind = kind or rng.choice(["a", "aaaa", "ptr", "cname", "txt", "srv", "hinfo", "nsec", "nsec", "unknown"])
        self.name(self.rname(boundary and rng.random() < 0.5))
        t = {"a": 1, "aaaa": 28, "ptr": 12, "cname": 5, "txt": 16, "srv": 33, "hinfo": 13, "nsec": 47}.get(kind)
        if t is None:
            t = rng.choice([0, 2, 6, 10, 41, 46, 48, 255, 256, 65535])
        cls = rng.choice([1, 1, 1, 0x8001, 3, 255, 0x7FFF, 0xFFFF, 0])
        ttl = rng.choice([0, 1, 120, 4500, 2**31 - 1, 2**31, 2**32 - 1, rng.randrange(2**32)])
        self.b += struct.pack(">HHI", t, cls, ttl)
        self.len_fields.append(len(self.b))
        self.b += b"\0\0"
        start = len(self.b)
        if kind == "a":
            self.b += bytes(rng.randrange(256) for _ in range(4))
        elif kind == "aaaa":
            self.b += bytes(rng.randrange(256) for _ in range(16))
        elif kind in ("ptr", "cname"):
            self.name(self.rname(boundary))
        elif kind == "txt":
            n = rng.choice([0, 1, 2, 10, 255, 256, 700])
            self.b += bytes(rng.randrange(256) for _ in range(n))
        elif kind == "srv":
            self.b += struct.pack(">HHH", rng.randrange(65536), rng.randrange(65536), rng.choice([0, 80, 65535]))
            self.name(self.rname(boundary))
        elif kind == "hinfo":
            for _ in range(2):
                s = rng.choice([b"", b"cpu", b"x" * 255, "é".encode() * 100, b"\xff\xfe", bytes(rng.randrange(256) for _ in range(rng.choice([1, 5, 40])))])
                self.b.append(len(s))
                self.b += s
        elif kind == "nsec":
            self.name(self.rname())
            wins = rng.sample(range(0, 256), rng.choice([1, 1, 1, 2, 3]))
            if rng.random() < 0.6:
                wins.sort()
            if rng.random() < 0.5:
                wins[0] = 0
            for w in wins:
                n = rng.choice([1, 1, 2, 6, 32])
                bm = bytes(rng.choice([0, 1, 0x80, 0x40, 0xFF, rng.randrange(256)]) for _ in range(n))
                self.b += bytes([w, n]) + bm
        else:
            n = rng.choice([0, 1, 7, 300])
            self.b += bytes(rng.randrange(256) for _ in range(n))
        struct.pack_into(">H", self.b, start - 2, len(self.b) - start)

    def finish(self, nq, secs, flags=None, id_=None):
        rng = self.rng
        struct.pack_into(">HHHHHH", self.b, 0, rng.randrange(65536) if id_ is None else id_,
                         rng.choice([0, 0x8400, 0x8000, 0x0200, 0xFFFF]) if flags is None else flags, nq, *secs)
        return bytes(self.b)


def gen_valid(rng):
    """a well-formed message built at wire level (the strict decoder accepts most of these)"""
    w = Wire(rng, compress=rng.choice([0.0, 0.7, 1.0]))
    boundary = rng.random() < 0.15
    nq = rng.choice([0, 0, 1, 1, 2, 5])
    for _ in range(nq):
        w.question(boundary)
    secs = [rng.choice([0, 0, 1, 2, 4, 9]) if rng.random() < 0.75 else 0 for _ in range(3)]
    if rng.random() < 0.03:
        secs[0] = rng.choice([60, 150])
    for s in secs:
        for _ in range(s):
            w.record(boundary=boundary)
    return w.finish(nq, secs), w


def gen_outgoing(rng):
    """a message produced by the library's own encoder"""
    from zeroconf import DNSOutgoing, DNSQuestion
    from zeroconf._exceptions import NamePartTooLongException

    d = impl()["d"]
    pool = []

    def nm():
        if pool and rng.random() < 0.6:
            base = rng.choice(pool).split(".")[:-1]
            labs = [rng.choice(["a", "Foo", "_tcp", "é", "日本", "x" * 63]) for _ in range(rng.randint(0, 2))] + base[rng.randint(0, len(base)):]
            labs = labs or ["q"]
        else:
            labs = [rng.choice(["a", "b", "foo", "_http", "_tcp", "local", "é", "x" * rng.choice([1, 62, 63])]) for _ in range(rng.randint(1, 4))]
        n = ".".join(labs) + "."
        pool.append(n)
        return n

    out = DNSOutgoing(rng.choice([0, 0x8400]), rng.random() < 0.7, rng.randrange(65536))
    for _ in range(rng.choice([0, 1, 2])):
        out.add_question(DNSQuestion(nm(), rng.choice([1, 12, 33, 255]), rng.choice([1, 0x8001])))
    for _ in range(rng.choice([0, 1, 3, 8])):
        k = rng.choice("aAptshn")
        name, cls, ttl = nm(), rng.choice([1, 0x8001]), rng.choice([0, 120, 4500])
        if k == "a":
            r = d.DNSAddress(name, 1, cls, ttl, bytes(rng.randrange(256) for _ in range(4)))
        elif k == "A":
            r = d.DNSAddress(name, 28, cls, ttl, bytes(rng.randrange(256) for _ in range(16)))
        elif k == "p":
            r = d.DNSPointer(name, 12, cls, ttl, nm())
        elif k == "t":
            r = d.DNSText(name, 16, cls, ttl, bytes(rng.randrange(256) for _ in range(rng.choice([0, 1, 40]))))
        elif k == "s":
            r = d.DNSService(name, 33, cls, ttl, 0, 0, rng.choice([80, 65535]), nm())
        elif k == "h":
            r = d.DNSHinfo(name, 13, cls, ttl, "cpu", rng.choice(["", "os", "é" * 100]))
        else:
            r = d.DNSNsec(name, 47, cls, ttl, name, sorted(rng.sample(range(1, 256), rng.randint(1, 5))))
        rng.choice([out.add_answer_at_time, lambda r, _n: out.add_additional_answer(r)])(r, 0)
    try:
        return out.packets()[0]
    except NamePartTooLongException:
        return b""


def mutate(rng, p, w=None):
    p = bytearray(p)
    for _ in range(rng.choice([1, 1, 2, 4])):
        if not p:
            break
        m = rng.random()
        i = rng.randrange(len(p))
        if m < 0.25:
            p[i] ^= 1 << rng.randrange(8)
        elif m < 0.4:
            del p[i:]
        elif m < 0.5:
            p[i:i] = bytes([rng.choice([0, 0xC0, 0x0C, 0x40, 0xFF, 63, 64, 1])])
        elif m < 0.6:
            del p[i]
        elif m < 0.72 and len(p) >= 12:
            j = rng.choice([4, 5, 6, 7, 8, 9, 10, 11])
            p[j] = rng.choice([0, 1, 2, 3, 255])
        elif m < 0.84 and w is not None and w.len_fields:
            j = rng.choice(w.len_fields)
            if j + 1 < len(p):
                v = struct.unpack_from(">H", p, j)[0]
                struct.pack_into(">H", p, j, max(0, min(65535, v + rng.choice([-2, -1, 1, 2, 10, 255, -v, 65535 - v]))))
        elif m < 0.94 and w is not None and w.label_bytes:
            j = rng.choice(w.label_bytes)
            if j < len(p):
                p[j] = rng.choice([0, 1, 62, 63, 64, 65, 0xBF, 0xC0, 0xC1, 0xFF, (p[j] + 1) & 0xFF, (p[j] - 1) & 0xFF])
        else:
            p[i] = rng.choice([0xC0, 0xC1, 0x0C, 0, 63, 64, 192, 255])
    return bytes(p)


def chain_packet(depth, forward=True, tail=b"\x01a\x00"):
    """one question whose name needs `depth` pointer hops before it reaches `tail` (D2 at depth 1200)"""
    if depth == 0:
        return struct.pack(">HHHHHH", 0, 0, 1, 0, 0, 0) + tail + struct.pack(">HH", 12, 1)
    base = 12 + 2 + 4
    body = bytearray()
    if forward:
        for i in range(depth - 1):
            body += struct.pack(">H", 0xC000 | (base + 2 * (i + 1)))
        body += tail
        first = base
    else:
        body += tail
        prev = base
        for _ in range(depth - 1):
            cur = base + len(body)
            body += struct.pack(">H", 0xC000 | prev)
            prev = cur
        first = prev
    if base + len(body) > 0x3FFF:
        raise ValueError("chain too long")
    return struct.pack(">HHHHHH", 0, 0, 1, 0, 0, 0) + struct.pack(">H", 0xC000 | first) + struct.pack(">HH", 12, 1) + bytes(body)


def gen_graph(rng):
    """records whose rdata names walk a random pointer graph laid out inside a TXT rdata"""
    n = rng.choice([1, 2, 3, 5, 8, 20, 60, 140, 300])
    hdr_len = 12
    # rec1: owner 'a', TXT, rdata = node region
    pre = b"\x01a\x00" + struct.pack(">HHIH", 16, 1, 120, 0)
    region_at = hdr_len + len(pre)
    style = rng.choice(["forward", "backward", "random", "random", "cycle", "empties"])
    nodes = []
    sizes = []
    for i in range(n):
        lits = []
        if style == "empties":
            k = 0
        else:
            k = rng.choice([0, 0, 1, 1, 2])
        for _ in range(k):
            lits.append(rng.choice([b"a", b"bc", b"\xff", b"x" * 30, b"x" * 63]))
        nodes.append(lits)
        sizes.append(sum(1 + len(l) for l in lits) + 2)  # every node ends in 2 bytes (pointer or 00 + pad)
    offs = []
    o = region_at
    for s in sizes:
        offs.append(o)
        o += s
    region = bytearray()
    end_at = o
    for i in range(n):
        for l in nodes[i]:
            region.append(len(l))
            region += l
        if style == "forward":
            tgt = offs[i + 1] if i + 1 < n else None
        elif style == "backward":
            tgt = offs[i - 1] if i > 0 else None
        elif style == "cycle":
            tgt = offs[(i + 1) % n]
        elif style == "empties":
            tgt = offs[i + 1] if i + 1 < n and rng.random() < 0.8 else None
        else:
            r = rng.random()
            if r < 0.15:
                tgt = None
            elif r < 0.2:
                tgt = offs[i]  # self
            elif r < 0.25:
                tgt = rng.choice([0, 5, 12, 13, end_at + 40, 0x3FFF, "end"])
            else:
                tgt = rng.choice(offs)
        if tgt is None:
            region += b"\x00\x00"
        else:
            nodes_t = tgt
            region += b"\x00\x00"  # patched below once the packet length is known
            nodes[i] = (nodes[i], len(region) - 2, nodes_t)
    k = rng.choice([1, 1, 2, 3, 6]) if n < 100 else rng.choice([1, 2])
    recs = bytearray()
    entries = []
    for _ in range(k):
        t = rng.choice([12, 12, 5, 33, 47])
        recs += b"\xc0\x0c" + struct.pack(">HHI", t, 1, 120)
        if style in ("forward", "cycle", "empties"):
            e = offs[0] if rng.random() < 0.7 else rng.choice(offs)
        elif style == "backward":
            e = offs[-1] if rng.random() < 0.7 else rng.choice(offs)
        else:
            e = rng.choice(offs)
        rd = b""
        if t == 33:
            rd += b"\0\0\0\0\0\x50"
        rd += struct.pack(">H", 0xC000 | (e & 0x3FFF))
        if t == 47:
            rd += b"\x00\x01\x40"
        recs += struct.pack(">H", len(rd)) + rd
        entries.append(e)
    total = hdr_len + len(pre) + len(region) + len(recs)
    for nd in nodes:
        if isinstance(nd, tuple):
            _l, at, tgt = nd
            if tgt == "end":
                tgt = total
            struct.pack_into(">H", region, at, 0xC000 | (tgt & 0x3FFF))
    pre = pre[:-2] + struct.pack(">H", len(region))
    nq = 0
    pkt = struct.pack(">HHHHHH", 0, 0x8400, nq, 1 + k, 0, 0) + pre + bytes(region) + bytes(recs)
    if rng.random() < 0.1:
        pkt = pkt[: rng.randrange(len(pkt))]
    return pkt


def longref_packet(last, via_pointer=True):
    """a PTR whose rdata name is 3 labels of 63 + one of `last` bytes (253 + ... characters around the limit), then a
    second PTR whose rdata is a pointer to the first one's rdata: exercises the cache entry `_read_name` writes
    *before* its length test"""
    owner = b"\x01a\x00"
    rd1 = (b"\x3f" + b"x" * 63) * 3 + bytes([last]) + b"y" * last + b"\x00"
    rec1 = owner + struct.pack(">HHIH", 12, 1, 120, len(rd1)) + rd1
    at = 12 + len(owner) + 10
    rd2 = struct.pack(">H", 0xC000 | at) if via_pointer else b"\x01z" + struct.pack(">H", 0xC000 | at)
    rec2 = b"\xc0\x0c" + struct.pack(">HHIH", 12, 1, 120, len(rd2)) + rd2
    return struct.pack(">HHHHHH", 0, 0x8400, 0, 2, 0, 0) + rec1 + rec2


SAFE_BASES = [[b"local"], [b"_tcp", b"local"], [b"foo", b"_tcp", b"local"], ["\u00e9".encode(), b"local"], [b"x" * 63, b"_tcp", b"local"]]
ALL_KINDS = ["a", "aaaa", "ptr", "cname", "txt", "srv", "hinfo", "nsec"]


def many_entries_packet(rng, nq, secs, owner="mixed", kinds=ALL_KINDS):
    """a strict-accepted message with MANY questions/records (as many as announced, or as fit into 8966 bytes):
    only labels that can be written back, names compressed against earlier ones, minimal rdata of every supported kind.
    -> (datagram, nq, (nan, nau, nad)) with the counts actually written (the header carries exactly those)"""
    w = Wire(rng, compress=1.0)
    LIMIT = 8966

    def owner_name():
        if owner == "root":
            return []
        if owner == "pointer":
            return SAFE_BASES[2]
        return rng.choice(SAFE_BASES + [[]])

    q = 0
    for _ in range(nq):
        nm = owner_name()
        if len(w.b) + 70 + sum(len(l) + 1 for l in nm) > LIMIT:
            break
        w.name(nm)
        w.b += struct.pack(">HH", rng.choice([1, 12, 33, 255]), rng.choice([1, 0x8001]))
        q += 1
    done = []
    k = 0
    for cnt in secs:
        c = 0
        for _ in range(cnt):
            if len(w.b) > LIMIT - 190:
                break
            kind = kinds[k % len(kinds)]
            k += 1
            w.name(owner_name())
            t = {"a": 1, "aaaa": 28, "ptr": 12, "cname": 5, "txt": 16, "srv": 33, "hinfo": 13, "nsec": 47}[kind]
            w.b += struct.pack(">HHI", t, rng.choice([1, 0x8001]), rng.choice([0, 120, 4500]))
            at = len(w.b)
            w.b += b"\0\0"
            if kind == "a":
                w.b += bytes([10, 0, k & 255, (k >> 8) & 255])
            elif kind == "aaaa":
                w.b += b"\xfe\x80" + bytes(12) + bytes([k & 255, (k >> 8) & 255])
            elif kind in ("ptr", "cname"):
                w.name(rng.choice(SAFE_BASES))
            elif kind == "txt":
                w.b += rng.choice([b"", b"\x01x"])
            elif kind == "srv":
                w.b += struct.pack(">HHH", 0, 0, 80)
                w.name(rng.choice(SAFE_BASES))
            elif kind == "hinfo":
                w.b += rng.choice([b"\x00\x00", b"\x01c\x01o"])
            else:
                w.name(rng.choice(SAFE_BASES))
                w.b += b"\x00\x01\x40"
            struct.pack_into(">H", w.b, at, len(w.b) - at - 2)
            c += 1
        done.append(c)
    assert len(w.b) <= LIMIT
    return w.finish(q, done, flags=0x8400 if sum(done) else 0, id_=0), q, tuple(done)


def name_limit_packet(labels):
    """one PTR question with exactly these labels"""
    body = b"".join(bytes([len(l)]) + l for l in labels) + b"\x00"
    return struct.pack(">HHHHHH", 0, 0, 1, 0, 0, 0) + body + struct.pack(">HH", 12, 1)


def late_pointer_packet(rng, target, total=None, padbyte=None):
    """a well-formed response whose names are first written at offset `target` (behind a TXT record used as
    padding) and referenced by compression pointers afterwards: with `target` >= 0x1000 / 0x2000 the pointers
    carry each of the two top payload bits (`0xD0..`, `0xE0..`); with `target` > 8191 the datagram is longer than
    8192 bytes (limit 8966).  Built by hand: the library's encoder never puts a record behind a > 1460-byte one."""
    w = Wire(rng, compress=1.0)
    w.name([b"a"])
    pad = target - (len(w.b) + 10)
    assert pad >= 0
    body = bytes([padbyte]) * pad if padbyte is not None else bytes(rng.randrange(256) for _ in range(pad))
    w.b += struct.pack(">HHIH", 16, 1, 120, pad) + body
    assert len(w.b) == target
    labels = [b"late", rng.choice([b"x", b"Foo", "\u00e9".encode(), b"y" * 63]), b"local"]
    n = 2
    w.name(labels)  # written in full at `target`
    w.b += struct.pack(">HHIH", 1, 0x8001, 120, 4) + bytes(rng.randrange(256) for _ in range(4))
    for kind in rng.sample(["ptr", "srv", "nsec", "a", "cname"], rng.choice([2, 3, 5])):
        if len(w.b) > 8966 - 110:
            break
        n += 1
        w.name(labels if rng.random() < 0.7 else [rlabel(rng)] + labels[rng.choice([0, 1, 2]):])  # pointer to >= target
        t = {"ptr": 12, "cname": 5, "srv": 33, "nsec": 47, "a": 1}[kind]
        w.b += struct.pack(">HHI", t, 1, 4500)
        at = len(w.b)
        w.b += b"\0\0"
        if kind == "a":
            w.b += b"\x0a\x00\x00\x01"
        else:
            if kind == "srv":
                w.b += struct.pack(">HHH", 0, 0, 80)
            w.name([rng.choice([b"q", b"host"])] + labels[rng.choice([0, 1, 2]):])
            if kind == "nsec":
                w.b += b"\x00\x04\x40\x00\x00\x08"
        struct.pack_into(">H", w.b, at, len(w.b) - at - 2)
    if total is not None and total - len(w.b) >= 14:
        n += 1
        w.b += b"\xc0\x0c" + struct.pack(">HHIH", 16, 1, 120, total - len(w.b) - 12)
        w.b += bytes(rng.randrange(256) for _ in range(total - len(w.b)))
    assert len(w.b) <= 8966
    return w.finish(0, [n, 0, 0], flags=0x8400, id_=0), w


def nsec_record(owner, nxt, windows, rdlen=None, cls=1):
    """one NSEC record: `windows` = [(window number, declared length, bitmap bytes actually written)]"""
    rd = nxt + b"".join(bytes([w & 255, n & 255]) + bm for w, n, bm in windows)
    return owner + struct.pack(">HHIH", 47, cls, 120, len(rd) if rdlen is None else rdlen) + rd


def nsec_max_cases(rng, tier):
    """NSEC records that drive `_read_bitmap` as hard as a datagram can: many windows, full bitmaps, datagrams near
    8966 bytes, rdlength past the packet, windows that overshoot `end`, duplicated windows (second review, finding 1).
    The strict parser accepts windows of 1..32 bytes in any order, duplicates included; the library reads any length."""
    hdr = lambda n, nq=0: struct.pack(">HHHHHH", 0, 0x8400 if nq == 0 else 0, nq, n, 0, 0)  # noqa: E731
    A, ROOT, FF = b"\x01a\x00", b"\x00", b"\xff"
    out = []
    # the reviewer's datagram: 34 windows of 255 x 0xFF (8764 bytes, 69 360 rdtypes); library-only (window length > 32)
    out.append(hdr(1) + nsec_record(A, ROOT, [(w, 255, FF * 255) for w in range(34)]))
    # strict-accepted maxima: all 256 windows with 32 x 0xFF (65 536 rdtypes, 8730 bytes); descending; one window 256 times
    out.append(hdr(1) + nsec_record(A, ROOT, [(w, 32, FF * 32) for w in range(256)]))
    out.append(hdr(1) + nsec_record(A, ROOT, [(w, 32, FF * 32) for w in reversed(range(256))]))
    out.append(hdr(1) + nsec_record(A, ROOT, [(7, 32, FF * 32)] * 262))
    out.append(hdr(1) + nsec_record(A, A, [(w, 32, bytes(rng.randrange(256) for _ in range(32))) for w in range(255)]))
    # many small windows: 2 980 windows of one byte (8 966 bytes), 270 of them, alternating empty bitmaps
    out.append(hdr(1) + nsec_record(ROOT, ROOT, [(w & 255, 1, FF) for w in range(2980)]))
    out.append(hdr(1) + nsec_record(A, ROOT, [(w & 255, 1, FF) for w in range(270)]))
    out.append(hdr(1) + nsec_record(A, ROOT, [(w & 255, 1, b"\x00") for w in range(1500)]))
    out.append(hdr(1) + nsec_record(A, ROOT, [(0, 0, b"")] * 4000))                      # zero-length windows: 2 bytes per iteration
    # duplicated windows (strict keeps both copies of every type)
    out.append(hdr(1) + nsec_record(A, b"\x01b\x00", [(0, 1, b"\x40"), (0, 1, b"\x40")]))
    out.append(hdr(1) + nsec_record(A, b"\x01b\x00", [(0, 2, b"\x40\x01"), (1, 1, b"\x80"), (0, 2, b"\x40\x01")]))
    # rdlength past the packet: the loop runs into IndexError at the end of the datagram (record skipped, offset = end)
    out.append(hdr(1) + nsec_record(A, ROOT, [(w, 255, FF * 255) for w in range(34)], rdlen=65535))
    out.append(hdr(2) + nsec_record(A, ROOT, [(w, 32, FF * 32) for w in range(200)], rdlen=9000) + A + struct.pack(">HHIH", 1, 1, 120, 4) + b"\x0a\0\0\1")
    out.append(hdr(1) + nsec_record(A, ROOT, [(1, 32, FF * 32)] * 100 + [(2, 255, FF * 7)]))   # last window silently short
    out.append(hdr(1) + nsec_record(A, ROOT, [(1, 32, FF * 32)] * 100, rdlen=1 + 34 * 100 + 1) + b"\x05")  # a lone window byte at the very end
    # windows that overshoot `end`: the offset is not reset on success, the next record is read from inside the bitmap
    p = hdr(38)
    for i in range(38):
        p += nsec_record(b"\xc0\x0c" if i else A, ROOT, [(i, 8, FF * 8), (i, 200, FF * 200)], rdlen=1 + 10 + 2)
    out.append(p)
    # many NSEC records, each with a full window; compressed owners and next-names
    for k, blen in ((180, 32), (25, 255), (400, 4)):
        p = hdr(k)
        for i in range(k):
            if len(p) + 20 + blen > 8966:
                p = p[:6] + struct.pack(">H", i) + p[8:]
                break
            p += nsec_record(b"\xc0\x0c" if i else A, b"\xc0\x0c" if i else ROOT, [(i & 255, blen, FF * blen)])
        out.append(p)
    # the same behind a question (records read lazily by answers())
    out.append(hdr(1, nq=1) + A + struct.pack(">HH", 47, 1) + nsec_record(b"\xc0\x0c", b"\xc0\x0c", [(w, 32, FF * 32) for w in range(250)]))
    for _ in range(6 if tier == "quick" else 150):
        p = b""
        k = rng.choice([1, 1, 2, 5, 30])
        for i in range(k):
            wins, size = [], 0
            for _w in range(rng.choice([0, 1, 3, 40, 300, 3000]) // k + 1):
                n = rng.choice([0, 1, 31, 32, 33, 255])
                wins.append((rng.randrange(256), n, bytes(rng.choice([0xFF, 0xFF, 0, 0x80, rng.randrange(256)]) for _ in range(n if rng.random() < 0.9 else n // 2))))
                size += 2 + len(wins[-1][2])
                if size > 9000:
                    break
            p += nsec_record(b"\xc0\x0c" if i and rng.random() < 0.7 else A, rng.choice([ROOT, A, b"\xc0\x0c"]), wins,
                             rdlen=None if rng.random() < 0.7 else rng.choice([0, 1, 3, 40, 9000, 65535]))
            if len(p) > 8966 - 12:
                break
        out.append((hdr(k) + p)[:8966])
    res = []
    for p in out:
        assert len(p) <= 8966, len(p)
        res.append(("nsec-max", p))
    for p in out[:: 3 if tier == "quick" else 1]:
        res.append(("nsec-max-mutated", mutate(rng, p)))
    return res


def deep_legal_packet(hops, label=b"a", tail=(b"z",), per_node=1, refs=((12, None, ()),), question=False):
    """A **strict-accepted** message with a deep *backward* pointer chain (second review, finding 2).  A TXT record is the
    container: node 0 = the labels `tail` + root byte; node i = `per_node` labels `label`, then a pointer to node i-1.  Each of
    `refs` = (record type, node index or None = the last node, literal labels in front) is a PTR/CNAME/SRV/NSEC record owned by
    `a.` whose rdata name is those labels + a pointer to the node: following it takes (node index + 1) hops and yields
    per_node * index + len(tail) labels.  The strict parser allows 128 hops and 253 characters; with `question` the records
    are read lazily by answers().  -> datagram"""
    pre = b"\x01a\x00" + struct.pack(">HHIH", 16, 1, 120, 0)
    head = struct.pack(">HH", 12, 1) if question else b""
    qname = b"\x01q\x00" if question else b""
    at = 12 + len(qname) + len(head) + len(pre)
    region, offs = bytearray(), []
    offs.append(at)
    region += b"".join(bytes([len(l)]) + l for l in tail) + b"\x00"
    for _ in range(hops - 1):
        offs.append(at + len(region))
        for _k in range(per_node):
            if label:
                region += bytes([len(label)]) + label
        region += struct.pack(">H", 0xC000 | offs[-2])
    pre = pre[:-2] + struct.pack(">H", len(region))
    recs = b""
    for t, node, front in refs:
        tgt = offs[-1] if node is None else offs[node]
        rd = b"".join(bytes([len(l)]) + l for l in front) + struct.pack(">H", 0xC000 | tgt)
        if t == 33:
            rd = struct.pack(">HHH", 1, 2, 80) + rd
        elif t == 47:
            rd += b"\x00\x01\x40"
        owner = b"\xc0" + bytes([12 + len(qname) + len(head)])
        recs += owner + struct.pack(">HHIH", t, 1, 120, len(rd)) + rd
    return struct.pack(">HHHHHH", 0, 0x8400 if not question else 0, 1 if question else 0, 1 + len(refs), 0, 0) + qname + head + pre + bytes(region) + recs


def deep_legal_cases(rng, tier):
    """backward chains of 21..128 hops (129/130: rejected by both parsers), names of up to 126 labels through pointers"""
    out = []
    kinds = [12, 5, 33, 47]
    k = 0
    for h in [1, 2, 20, 21, 22, 31, 32, 33, 34, 48, 63, 64, 65, 66, 96, 100, 101, 120, 125, 126, 127, 128, 129, 130]:
        for label, tail in ((b"", (b"z",)), (b"", ()), (b"a", (b"z",)), (b"a", ())):
            # with a one-byte label per hop the name has (h - 1) + len(tail) labels of one character: 253 characters = 126 labels
            if label and (h - 1) + len(tail) > 127:
                continue
            t = kinds[k % 4]
            k += 1
            out.append(deep_legal_packet(h, label, tail, refs=((t, None, ()),), question=(k % 5 == 0)))
    # the same chain referenced at several depths by several records (cache hits at every depth, both orders)
    for h, nodes in ((128, (127, 60, 0)), (128, (0, 60, 127)), (100, (99, 99, 98)), (126, (125, 124, 64)), (70, (69, 33, 32))):
        for label in (b"", b"a"):
            if label and h > 126:
                continue
            out.append(deep_legal_packet(h, label, (b"z",), refs=tuple((kinds[i % 4], n, ()) for i, n in enumerate(nodes))))
            out.append(deep_legal_packet(h, label, (b"z",), refs=tuple((kinds[(i + 1) % 4], n, (b"f",) if i == 1 and (not label or n < 120) else ()) for i, n in enumerate(nodes)),
                                         question=True))
    # many labels, fewer hops: several labels per node, a long literal tail, longer labels
    for h, per, label, tail in ((63, 2, b"a", ()), (64, 2, b"a", ()), (32, 4, b"a", ()), (33, 3, b"b", (b"z",)), (2, 1, b"a", (b"t",) * 125), (2, 1, b"a", (b"t",) * 100),
                                (3, 1, b"a", (b"t",) * 63), (3, 1, b"a", (b"t",) * 64), (3, 1, b"a", (b"t",) * 65), (41, 1, b"abcde", (b"local",)), (4, 1, b"x" * 63, (b"y" * 55,)),
                                (31, 1, "é".encode() * 3, (b"z",)), (128, 1, b"", (b"x" * 63, b"y" * 63, b"z" * 63, b"w" * 59))):
        out.append(deep_legal_packet(h, label, tail, per_node=per, refs=((kinds[k % 4], None, ()),)))
        k += 1
    for _ in range(8 if tier == "quick" else 300):
        h = rng.choice([rng.randrange(21, 129), rng.randrange(100, 129), 128])
        label = rng.choice([b"", b"a", b"a", rng.choice([b"bc", b"_t"])])
        tail = rng.choice([(), (b"z",), (b"local",), (b"_tcp", b"local")])
        per = 1
        while label and (h - 1) * per * (len(label) + 1) + sum(len(t) + 1 for t in tail) > 250:
            h -= 1
        if h < 2:
            continue
        refs = tuple((rng.choice(kinds), rng.choice([None, rng.randrange(h)]), ()) for _ in range(rng.choice([1, 2, 3])))
        out.append(deep_legal_packet(h, label, tail, per_node=per, refs=refs, question=rng.random() < 0.3))
    res = [("deep-legal", p) for p in out]
    res += [("deep-legal-mutated", mutate(rng, p)) for p in out[:: 4 if tier == "quick" else 1]]
    return res


LARGS_ALL = (None, LISTENER_V4, LISTENER_V6, LISTENER_V6_SCOPE0, LISTENER_ARGS)


def rdata_cut_cases():
    """third review, finding 1 (seed C02-w5-seed1: `AttributeError` out of the constructor when the datagram ends inside AAAA rdata and
    the listener's scope_id is passed).  Deterministic: a response of two records, the second of every kind the library decodes, cut at
    **every** offset from the start of the second record to its end, each cut decoded plainly and with every listener-argument
    variant (scope_id None / 0 / 3, two clocks); the same behind a question (records read by answers()) for two of the variants."""
    def fixed(t, rd, cls=0x8001):
        return struct.pack(">HHIH", t, cls, 120, len(rd)) + rd

    first = b"\x01a\x05local\x00" + fixed(1, b"\x0a\x00\x00\x01")
    ptr = b"\xc0\x0c"
    kinds = [
        ("a", fixed(1, b"\xc0\x00\x02\x07")),
        ("aaaa-linklocal", fixed(28, bytes.fromhex("fe80000000000000021122fffe334455"))),
        ("aaaa-global", fixed(28, bytes.fromhex("20010db8000000000000000000000007"))),
        ("aaaa-v4mapped", fixed(28, bytes.fromhex("00000000000000000000ffffc0000207"))),
        ("ptr", fixed(12, b"\x03srv" + ptr, 1)),
        ("cname", fixed(5, b"\x01c" + ptr, 1)),
        ("txt", fixed(16, b"\x03a=1\x00\x02b=")),
        ("srv", fixed(33, struct.pack(">HHH", 1, 2, 8080) + b"\x04host" + ptr)),
        ("hinfo", fixed(13, b"\x03cpu\x02os")),
        ("nsec", fixed(47, ptr + b"\x00\x04\x40\x00\x00\x08\x01\x01\x80")),
        ("unknown", fixed(99, b"\x01\x02\x03")),
    ]
    out = []
    for name, rec in kinds:
        for lazy in (False, True):
            q = (b"\x01q\x00" + struct.pack(">HH", 255, 1)) if lazy else b""
            head = struct.pack(">HHHHHH", 0, 0x8400 if not lazy else 0, 1 if lazy else 0, 2, 0, 0) + q
            # with a question in front the first record's owner sits behind it: its pointer target moves
            own = b"\xc0" + bytes([12 + len(q)])
            body = head + first + own + rec.replace(ptr, own)
            start = len(head) + len(first)
            for cut in range(start, len(body) + 1):
                for la in (LARGS_ALL if not lazy else (None, LISTENER_V6)):
                    out.append(("rdata-cut", body[:cut], la if la is not None else False))
    return out


def raise_site_cases():
    """third review, finding 2: every `raise` of `_decode_labels_at_offset` / `_read_name` reached deterministically, from each place a
    name is read -- question (constructor's handler), record owner (eager: constructor's handler; behind a question: the handler of
    answers()), PTR rdata (the per-record handler) -- decoded plainly and with two listener-argument variants.  A trigger is
    (bytes of the name at its place, tail appended to the datagram and referenced by a pointer at the end of those bytes)."""
    def ptr(o):
        return struct.pack(">H", 0xC000 | o)

    triggers = [
        ("unencodable-label", lambda at: b"\x28" + b"\xff" * 40 + b"\x00", None),
        ("unknown-label-type", lambda at: b"\x01a\x80", None),
        ("pointer-beyond", lambda at: b"\x01a\xff\xff", None),
        ("pointer-to-itself", lambda at: b"\x01a" + ptr(at + 2), None),
        ("pointer-seen-again", lambda at: b"", lambda to, at: ptr(at)),
        ("max-pointers", lambda at: b"", lambda to, at: b"".join(ptr(to + 2 * (i + 1)) for i in range(129)) + b"\x00"),
        ("max-labels-129", lambda at: b"\x01a", lambda to, at: b"\x01b" * 128 + b"\x00"),
        ("max-labels-130", lambda at: b"\x01a", lambda to, at: b"\x01b" * 129 + b"\x00"),
        ("max-labels-201", lambda at: b"\x01a", lambda to, at: b"\x01b" * 200 + b"\x00"),
        ("labels-128-name-too-long", lambda at: b"\x01a", lambda to, at: b"\x01b" * 127 + b"\x00"),
        ("name-254-characters", lambda at: (b"\x3f" + b"x" * 63) * 3 + b"\x3d" + b"y" * 61 + b"\x00", None),
        ("name-254-characters-through-pointer", lambda at: b"\x3d" + b"y" * 61, lambda to, at: (b"\x3f" + b"x" * 63) * 3 + b"\x00"),
        ("runs-off-the-end", lambda at: b"\x01a", lambda to, at: b"\x3f" + b"z"),
        ("second-pointer-byte-missing", lambda at: b"\x01a", lambda to, at: b"\xc0"),
    ]
    a_rec = struct.pack(">HHIH", 1, 1, 120, 4) + b"\x0a\x00\x00\x02"
    out = []
    for tname, pre_f, tail_f in triggers:
        for place in ("question", "owner", "owner-lazy", "rdata", "rdata-lazy"):
            lazy = place.endswith("lazy")
            q = (b"\x01q\x00" + struct.pack(">HH", 12, 1)) if lazy else b""
            if place == "question":
                head, post = struct.pack(">HHHHHH", 0, 0, 1, 0, 0, 0), struct.pack(">HH", 12, 1)
            elif place.startswith("owner"):
                head, post = struct.pack(">HHHHHH", 0, 0 if lazy else 0x8400, 1 if lazy else 0, 2, 0, 0) + q, a_rec + b"\x01e\x00" + a_rec
            else:
                head = struct.pack(">HHHHHH", 0, 0 if lazy else 0x8400, 1 if lazy else 0, 2, 0, 0) + q + b"\x01o\x00" + struct.pack(">HHIH", 12, 1, 120, 0)
                post = b"\x01e\x00" + a_rec
            at = len(head)
            name = pre_f(at)
            if tail_f is not None:
                to = at + len(name) + 2 + len(post)
                name += ptr(to)
                tail = tail_f(to, at)
            else:
                tail = b""
            if place.startswith("rdata"):
                head = head[:-2] + struct.pack(">H", len(name))
            pkt = head + name + post + tail
            for la in (False, LISTENER_V4, LISTENER_V6):
                out.append(("raise-sites", pkt, la))
    return out


def text_form_cases():
    """labels whose text has more than one Unicode normal form (third review: NFC-normalising the decoded label went unnoticed): base
    letter + combining mark, the precomposed letter, Hangul jamo vs syllable, a singleton (OHM SIGN), a compatibility ligature, a
    combining sequence in non-canonical order.  Strict-accepted PTR question + answer: the faithfulness oracle compares the names."""
    forms = ["e\u0301", "\u00e9", "A\u030a", "\u00c5", "\u212b", "\u1112\u1161\u11ab", "\ud55c", "\u2126", "\ufb01", "q\u0323\u0307", "q\u0307\u0323",
             "caf" + "e\u0301" * 3, "\u0041\u0300\u0041\u0301", "\u1e9b\u0323", "\u0958", "\u0915\u093c"]
    out = []
    for i, f in enumerate(forms):
        lab = f.encode()
        name = bytes([len(lab)]) + lab + b"\x05local\x00"
        tgt = bytes([len(lab) + 1]) + b"x" + lab + b"\xc0\x0c"
        pkt = (struct.pack(">HHHHHH", 0, 0x8400, 1, 1, 0, 0) + name + struct.pack(">HH", 12, 1)
               + b"\xc0\x0c" + struct.pack(">HHIH", 12, 1, 120, len(tgt)) + tgt)
        out.append(("text-forms", pkt, LISTENER_VARIANTS[i % 4] if i % 2 else False))
    return out


def uncached_chain_packet(nrec, hops=127, label=b"a"):
    """the product term of the name decoder's budget (third review, finding 8): `nrec` PTR records whose rdata is a pointer to a backward
    chain of `hops` nodes that ends in a reserved label type -- every record walks the whole chain again, because a failed name is
    never cached.  nrec = 648 fills 8957 bytes: 2.4 million source lines, 84 000 activations on the pinned tree."""
    pre = b"\x00" + struct.pack(">HHIH", 16, 1, 120, 0)
    at = 12 + len(pre)
    region, offs = bytearray(b"\x80\x00"), [at]
    for _ in range(hops):
        offs.append(at + len(region))
        region += (bytes([len(label)]) + label if label else b"") + struct.pack(">H", 0xC000 | offs[-2])
    pre = pre[:-2] + struct.pack(">H", len(region))
    rec = b"\x00" + struct.pack(">HHIH", 12, 1, 120, 2) + struct.pack(">H", 0xC000 | offs[-1])
    nrec = min(nrec, (8966 - 12 - len(pre) - len(region)) // len(rec))
    return struct.pack(">HHHHHH", 0, 0x8400, 0, 1 + nrec, 0, 0) + pre + bytes(region) + rec * nrec


ALPHABET = [0x00, 0x01, 0x3F, 0x40, 0xC0, 0x0C, 0xFF, 0x61]
HEADERS = [struct.pack(">HHHHHH", 0, 0, 1, 0, 0, 0), struct.pack(">HHHHHH", 0, 0x8400, 0, 1, 0, 0)]


def exhaustive(maxlen_q, maxlen_r):
    for hdr, L in ((HEADERS[0], maxlen_q), (HEADERS[1], maxlen_r)):
        for n in range(L + 1):
            for t in itertools.product(ALPHABET, repeat=n):
                yield hdr + bytes(t)


UTF8_ALPHABET = [0x00, 0x41, 0x7F, 0x80, 0x8F, 0x90, 0x9F, 0xA0, 0xBF, 0xC0, 0xC1, 0xC2, 0xDF, 0xE0, 0xE1, 0xEC, 0xED, 0xEE, 0xEF, 0xF0, 0xF1, 0xF3, 0xF4,
                 0xF5, 0xFF]


# ------------------------------------------------------------------------------------------


def disagree_facet(obs, ref):
    """which part of the object differs from the strict parser's message: the signature of a faithfulness violation names it, so that
    recording one class as a known finding could not hide another (second review, section 1)"""
    obj = obs["obj"]
    if obs["status"] != "ok" or obj is None:
        return "raised"
    if not obj["valid"]:
        return "marked-invalid"
    if obj["hdr"] != ref["hdr"]:
        return "header"
    if obj["questions"] != ref["questions"]:
        return "questions"
    a, b = obj["records"], ref["records"]
    for x, y in zip(a, b):
        if x != y:
            if x[0] != y[0]:
                return "record-owner:type-%d" % y[1]
            if x[1:4] != y[1:4]:
                return "record-fixed-fields:type-%d" % y[1]
            return "record-rdata:type-%d" % y[1]
    return "records-%s" % ("missing" if len(a) < len(b) else "extra")


def sig_of(obs):
    if obs["status"] != "ok":
        return "C02:escape:%s" % obs["exc"]
    return None


def check_case(res, data, stream, obs, mline, sline, bline, model_ok=True, wline=None, wbline=None):
    """compare one datagram's observations; returns nothing, records into `res`"""
    case = {"hex": C.hx(data), "len": len(data), "stream": stream}
    if obs.get("largs"):
        # decoded as the listener does: DNSIncoming(data, source, scope_id, now) -- part of the input, replayed with it
        case["largs"] = [list(obs["largs"][0]) if obs["largs"][0] is not None else None, obs["largs"][1], obs["largs"][2]]
        res.count("decoded-with-listener-arguments")
    res.evaluations += 1
    res.count("stream:" + stream)
    # ---------------- O: the property's sentences on the implementation
    if obs["status"] == "nontermination":
        res.violate("C02:budget:no-termination", "decoding a %d-byte datagram did not finish within %.0f s of CPU time (a decode takes milliseconds: unbounded or super-linear loop)"
                    % (len(data), WATCHDOG_S), case)
        return
    if obs["status"] != "ok":
        res.violate("C02:escape:%s" % obs["exc"], "%s escapes %s for a %d-byte datagram (recursion depth %d)"
                    % (obs["exc"], ("DNSIncoming(data, %r, %r, %r)" % tuple(obs["largs"]) if obs.get("largs") else "DNSIncoming(data)")
                       if obs["status"] == "init-raised" else "answers()" + (" of DNSIncoming(data, %r, %r, %r)" % tuple(obs["largs"]) if obs.get("largs") else ""),
                       len(data), obs["depth"]), case)
    obj = obs["obj"]
    if obs.get("second") is not None:
        kind, what = obs["second"]
        if kind == "raised":
            res.violate("C02:escape:%s" % what, "%s escapes the second answers() call on the same object for a %d-byte datagram" % (what, len(data)), case)
        else:
            # no sentence of the property fixes what a second reading shows for an invalid message: a broken correspondence (the model's
            # answers() is idempotent: `_did_read_others` is set before anything can fail)
            res.disagree("second-answers-call", case, what, "the same object as the first call: " + _short(obj))
    if obj is not None and obj["valid"]:
        for nm in [q[0] for q in obj["questions"]] + [r[0] for r in obj["records"]] + [r[4][-1] if r[4][0] in ("p", "s") else r[4][1] for r in obj["records"] if r[4][0] in ("p", "s", "n")]:
            if len(nm) > 253:
                res.violate("C02:long-name", "a valid message carries a name of %d characters" % len(nm), case)
                break
    if bline is not None and bline != "1":
        res.violate("C02:budget", "work counters exceed the budget: names=%d activations=%d reads=%s depth=%d for %d bytes"
                    % (obs["names"], obs["acts"], obs.get("reads"), obs["depth"], len(data)), case)
    # the loops besides the name decoder, and the executed source lines (second review, finding 1)
    work = obs.get("work")
    if obs.get("steps") is not None:
        res.count("steps-measured")
        if obs["steps"] > res.streams.get("max-steps", 0):
            res.streams["max-steps"] = obs["steps"]
            res.streams["max-steps-len"] = len(data)
        if work is not None and work[4] % 8 == 0:
            for k, v in zip(WORK_KEYS, work):
                if v > res.streams.get("max-" + k, 0):
                    res.streams["max-" + k] = v
    if wbline is not None:
        loops_ok, lines_ok = wbline.split()
        if loops_ok != "1":
            res.violate("C02:budget:loops", "loop counters exceed the linear budget for %d bytes: %s"
                        % (len(data), ", ".join("%s=%d" % kv for kv in zip(WORK_KEYS, work))), case)
        if lines_ok != "1":
            res.violate("C02:budget:lines", "decoding a %d-byte datagram executed %d source lines of the package: more than the calibrated cost model allows "
                        "for its loop counters (names=%d activations=%d reads=%s %s)"
                        % (len(data), obs["steps"], obs["names"], obs["acts"], obs.get("reads"),
                           " ".join("%s=%d" % kv for kv in zip(WORK_KEYS, work)) if work else "loops not measurable"), case)
    if obs.get("cpu") is not None and not obs["cpu"][0]:
        res.violate("C02:budget:cpu", "decoding a %d-byte datagram takes %.3f s of CPU time for %d executed source lines: more than %.3f s = %d yardstick lines "
                    "per line (work hidden inside C calls: sort / membership test / insert on a list that grows with the datagram)"
                    % (len(data), obs["cpu"][1], obs["steps"], obs["cpu"][2], CPU_SLACK), dict(case, rank=-obs["cpu"][1] / obs["cpu"][2]))
    strict = None
    if sline is not None:
        strict = parse_strict(sline)
        if strict is not None:
            res.count("strict-accepted")
            if strict["supported"] and strict["reencodable"]:
                res.count("strict-accepted-in-scope")
                ok = (obs["status"] == "ok" and obj["valid"] and obj["hdr"] == strict["hdr"] and obj["questions"] == strict["questions"]
                      and obj["records"] == strict["records"])
                if not ok:
                    res.violate("C02:strict-disagrees:" + disagree_facet(obs, strict), "the strict RFC 1035 parser accepts this datagram but the library's result "
                                "differs (valid=%s)" % (obj["valid"] if obj else None), dict(case, strict=sline[:400]))
                else:
                    nr, nqs = len(obj["records"]), len(obj["questions"])
                    res.nontriv(("agree", min(nqs, 64) // 8, min(nr, 64) // 8, tuple(sorted({r[4][0] for r in obj["records"]})), min(obs["depth"], 130) // 8))
                    if obs["depth"] > res.streams.get("max-agreeing-nesting", 0):
                        res.streams["max-agreeing-nesting"] = obs["depth"]
                    if nr > res.streams.get("max-agreeing-records", 0):
                        res.streams["max-agreeing-records"] = nr
                    if nqs > res.streams.get("max-agreeing-questions", 0):
                        res.streams["max-agreeing-questions"] = nqs
            elif strict["reencodable"]:
                # outside the property's hypothesis only because a record of an unsupported type is present (second review, finding 4):
                # judged on the supported part -- `C02_agrees_strict_supported_part`: such a record is skipped and disturbs nothing.
                # The property does not demand this, so a difference is a broken correspondence (stage C), not a violation.
                res.count("strict-accepted-mixed")
                sup = tuple(r for r in strict["records"] if r[4][0] != "o")
                ok = (obs["status"] == "ok" and obj["valid"] and obj["hdr"] == strict["hdr"] and obj["questions"] == strict["questions"]
                      and obj["records"] == sup)
                if not ok:
                    res.disagree("strict-supported-part", case, _short({"valid": obj["valid"] if obj else None, "records": obj["records"] if obj else None}),
                                 "the strict parser's records of supported types: " + _short(sup))
                else:
                    res.count("strict-accepted-mixed-agree")
                    res.nontriv(("agree-mixed", min(len(sup), 64) // 8, min(len(strict["records"]) - len(sup), 64) // 8, tuple(sorted({r[4][0] for r in sup}))))
            else:
                res.count("strict-accepted-unencodable-label")
    third_parser(res, data, case, obs, strict, sline is not None)
    # ---------------- C: model vs implementation
    if mline is not None:
        try:
            mod = parse_run(mline)
        except Exception as ex:  # noqa: BLE001
            res.disagree(stream, case, "parsed", "unreadable model line: %s: %s" % (ex, mline[:200]))
            return
        keys = ["status", "exc", "names", "acts", "depth", "obj"]
        if "reads" in obs:
            keys.append("reads")
        diff = [k for k in keys if obs[k] != mod[k]]
        if wline is not None and work is not None:
            try:
                mw = tuple(int(x) for x in wline.split())
            except ValueError:
                mw = None
            # the implementation's bit tests are eight per scanned bitmap byte
            iw = work[:4] + ((work[4] // 8) if work[4] % 8 == 0 else ("%d/8" % work[4]),) + work[5:]
            if mw is None or len(mw) != 6 or iw != mw:
                obs = dict(obs, loops=iw)
                mod = dict(mod, loops=mw if mw is not None else wline[:80])
                diff.append("loops")
        grey = min(obs["depth"], mod["depth"]) >= REC_BUDGET - 20 and max(obs["depth"], mod["depth"]) <= REC_BUDGET + 20
        if diff and not grey:
            res.disagree(stream, case, {k: _short(obs[k]) for k in diff}, {k: _short(mod[k]) for k in diff})
        kind = (obs["status"], obs["exc"], obj["valid"] if obj else None, min(obs["depth"], 130), len(obj["questions"]) if obj else 0,
                tuple(sorted({r[4][0] for r in obj["records"]})) if obj else (), strict is not None)
        res.nontriv(kind)


def _py_decode(data, rule):
    try:
        return rfc1035.decode(data, rule)
    except rfc1035.Reject:
        return None


def _reenc_ok(names):
    return all(len(l.decode("utf-8", "replace").encode("utf-8")) <= 63 for n in names for l in n)


def third_parser(res, data, case, obs, strict, have_lean):
    """harness/rfc1035.py, written from the RFC: (i) cross-check of Lean's Wire.Strict under the same 253-character rule,
    (ii) the agreement sentence judged without Lean, (iii) observations against RFC 1035's own 255-octet rule"""
    obj = obs["obj"]
    p253 = _py_decode(data, "strict")      # the rule of Wire.Strict: <= 255 octets and <= 253 characters
    prfc = _py_decode(data, "rfc")
    pchars = _py_decode(data, "chars253")  # the library's documented rule alone
    if have_lean:
        if (p253 is None) != (strict is None):
            res.disagree("strict-vs-rfc1035.py", case, "python parser %s" % ("rejects" if p253 is None else "accepts"),
                         "Wire.Strict %s" % ("rejects" if strict is None else "accepts"))
        elif p253 is not None:
            same = (p253["hdr"] == strict["hdr"] and p253["questions"] == strict["questions"] and p253["records"] == strict["records"]
                    and p253["supported"] == strict["supported"] and _reenc_ok(p253["names"]) == strict["reencodable"])
            if not same:
                res.disagree("strict-vs-rfc1035.py", case, _short({k: p253[k] for k in ("hdr", "questions", "records", "supported")}), _short(strict))
    if p253 is not None and p253["supported"] and _reenc_ok(p253["names"]):
        res.count("rfc1035.py-accepted-in-scope")
        ok = (obs["status"] == "ok" and obj["valid"] and obj["hdr"] == p253["hdr"] and obj["questions"] == p253["questions"]
              and obj["records"] == p253["records"])
        if ok and obs["depth"] > 1:  # a name that went through at least one pointer
            nl = max((len(n) for n in p253["names"]), default=0)
            if nl > res.streams.get("max-agreeing-labels", 0):
                res.streams["max-agreeing-labels"] = nl
        if not ok and not (strict is not None and strict["supported"] and strict["reencodable"]):  # else already reported above
            res.violate("C02:strict-disagrees:" + disagree_facet(obs, p253), "an independent strict RFC 1035 parser (253-character names) accepts this datagram "
                        "but the library's result differs (valid=%s)" % (obj["valid"] if obj else None), case)
    elif p253 is not None and _reenc_ok(p253["names"]):
        # the supported part of a message that also carries unsupported records, judged without Lean
        res.count("rfc1035.py-accepted-mixed")
        sup = tuple(r for r in p253["records"] if r[4][0] != "o")
        ok = (obs["status"] == "ok" and obj["valid"] and obj["hdr"] == p253["hdr"] and obj["questions"] == p253["questions"] and obj["records"] == sup)
        if not ok and not (strict is not None and strict["reencodable"]):  # else already reported by check_case
            res.disagree("strict-supported-part", case, _short({"valid": obj["valid"] if obj else None, "records": obj["records"] if obj else None}),
                         "rfc1035.py's records of supported types: " + _short(sup))
    # ---- observations against the RFC's own name-length rule (a reading, never a violation)
    if prfc is not None and p253 is None and prfc["supported"] and _reenc_ok(prfc["names"]):
        res.count("rfc1035:legal-name-of-254-characters-rejected-by-the-253-rule")
        res.count("rfc1035:legal-254-character-name:library-marks-message-%s" % ("valid(record-skipped)" if obj and obj["valid"] else "invalid"))
    if pchars is not None and prfc is None and pchars["supported"]:
        res.count("rfc1035:name-over-255-octets-accepted-by-the-253-character-rule")
        res.count("rfc1035:over-255-octet-name:library-marks-message-%s" % ("valid" if obj and obj["valid"] else "invalid"))


def _short(v):
    s = repr(v)
    return s if len(s) < 600 else s[:600] + "..."


# ------------------------------------------------------------------------------------------
# interleaved objects: the sentence is about each datagram, whatever else is decoded meanwhile

SCHEDULES = [
    ("newA", "newB", "ansA", "ansB"),
    ("newA", "newB", "ansB", "ansA"),
    ("newA", "ansA", "newB", "ansA", "ansB"),
    ("newA", "newB", "ansA", "newB", "ansB", "ansA"),
]


def relabel(p, w, rng):
    """the same message with every label replaced by a different one of the same length: same offsets, same pointers,
    different names -- what a second datagram looks like to state keyed by offset"""
    q = bytearray(p)
    for at in w.label_bytes:
        if at < len(q) and 0 < q[at] < 64 and at + 1 + q[at] <= len(q):
            for i in range(at + 1, at + 1 + q[at]):
                q[i] = rng.choice(b"klmnopqrstuvwxyz")
    return bytes(q)


def run_schedule(a, b, schedule):
    """-> {"A": view, "B": view} after the schedule; a view is obj_view + status/exc of the last answers() call"""
    inc = impl()["inc"]
    objs, out = {}, {}
    data = {"A": a, "B": b}
    dead = set()
    for step in schedule:
        op, who = step[:3], step[3]
        if who in dead and op != "new":
            continue  # its constructor raised: that exception is the observation (not the harness's own KeyError on the missing object)
        try:
            if op == "new":
                dead.discard(who)
                objs[who] = inc.DNSIncoming(data[who], *LISTENER_ARGS)
            else:
                ans = objs[who].answers()
                out[who] = dict(obj_view(objs[who], ans), status="ok", exc=None)
        except (WorkBudgetExceeded, KeyboardInterrupt):
            raise
        except BaseException as e:  # noqa: BLE001
            if op == "new":
                dead.add(who)
            out[who] = {"status": "raised", "exc": exc_name(e), "where": "DNSIncoming(data)" if op == "new" else "answers()",
                        "valid": None, "qu": None, "hdr": None, "questions": (), "records": ()}
    return out


def check_interleaved(res, a, b, schedule, views, lines_a, lines_b):
    for who, data, (ml, sl) in (("A", a, lines_a), ("B", b, lines_b)):
        v = views.get(who)
        if v is None:
            continue
        res.evaluations += 1
        case = {"interleave": {"A": C.hx(a), "B": C.hx(b), "schedule": list(schedule), "which": who}, "len": len(data), "stream": "interleave"}
        if v["status"] != "ok":
            res.violate("C02:escape:%s" % v["exc"], "%s escapes %s while decoding datagram %s of an interleaved pair" % (v["exc"], v.get("where", ""), who), case)
            continue
        obj = {k: v[k] for k in ("valid", "qu", "hdr", "questions", "records")}
        strict = parse_strict(sl) if sl is not None else None
        py = _py_decode(data, "strict")
        ref = None
        if strict is not None and strict["supported"] and strict["reencodable"]:
            ref = strict
        elif sl is None and py is not None and py["supported"] and _reenc_ok(py["names"]):
            ref = py
        if ref is not None:
            res.count("interleave:strict-accepted-in-scope")
            if not (obj["valid"] and obj["hdr"] == ref["hdr"] and obj["questions"] == ref["questions"] and obj["records"] == ref["records"]):
                res.violate("C02:strict-disagrees:interleaved", "the strict RFC 1035 parser accepts datagram %s, but decoded while another DNSIncoming object exists "
                            "(schedule %s) the library's questions/records differ from the strict parser's" % (who, ",".join(schedule)), case)
            else:
                res.nontriv(("interleave-agree", tuple(schedule), who))
        if ml is not None:
            try:
                mod = parse_run(ml)
            except Exception as ex:  # noqa: BLE001
                res.disagree("interleave", case, "parsed", "unreadable model line: %s" % ex)
                continue
            if mod["status"] != "ok" or mod["obj"] != obj:
                res.disagree("interleave", case, _short(obj), _short(mod["obj"]))


def interleave_stream(res, rng, tier, driver_ok):
    """pairs of datagrams decoded by two live objects under several schedules; every datagram is judged on its own"""
    pairs = []
    n = 60 if tier == "quick" else 1500
    for i in range(n):
        k = rng.random()
        if k < 0.5:
            p, w = gen_valid(rng)           # may have 0 questions (eager) or several (lazy records)
            pairs.append((p, relabel(p, w, rng)))
        elif k < 0.8:
            p, nq, _d = many_entries_packet(rng, rng.choice([1, 1, 2, 5]), [rng.choice([1, 3, 8]), rng.choice([0, 2]), rng.choice([0, 2])],
                                            owner=rng.choice(["pointer", "mixed"]))
            q, _nq, _d2 = many_entries_packet(rng, nq, _d, owner="pointer")
            pairs.append((p, q))
        else:
            p1, _w1 = gen_valid(rng)
            p2, w2 = gen_valid(rng)
            pairs.append((p1, mutate(rng, p2, w2) if rng.random() < 0.5 else p2))
    # a fixed pair: question a.local / answer owned by a pointer to it, against the same bytes with other letters
    fa = (struct.pack(">HHHHHH", 0, 0x8400, 1, 1, 0, 0) + b"\x01a\x05local\x00" + struct.pack(">HH", 12, 1)
          + b"\xc0\x0c" + struct.pack(">HHIH", 12, 1, 120, 4) + b"\x01b\xc0\x0c")
    fb = fa.replace(b"\x01a\x05local", b"\x01z\x05LOCAL").replace(b"\x01b\xc0", b"\x01y\xc0")
    pairs.insert(0, (fa, fb))
    lines = []
    if driver_ok:
        try:
            for a, b in pairs:
                lines += ["c02 " + C.hx(a), "c02s " + C.hx(a), "c02 " + C.hx(b), "c02s " + C.hx(b)]
            lines = C.run_driver(lines)
        except C.DriverUnavailable as ex:
            res.notes.append("driver unavailable: %s" % ex)
            lines = []
    for i, (a, b) in enumerate(pairs):
        la = (lines[4 * i], lines[4 * i + 1]) if lines else (None, None)
        lb = (lines[4 * i + 2], lines[4 * i + 3]) if lines else (None, None)
        for schedule in SCHEDULES:
            views = run_schedule(a, b, schedule)
            check_interleaved(res, a, b, schedule, views, la, lb)
    res.count("stream:interleave", len(pairs) * len(SCHEDULES))


def utf8_stream(res, rng, tier, driver_ok):
    cases = []
    for n in range(0, 4):
        for t in itertools.product(UTF8_ALPHABET, repeat=n):
            cases.append(bytes(t))
    nrand = 3000 if tier == "quick" else 40000
    for _ in range(nrand):
        n = rng.choice([4, 5, 6, 8, 16, 63, 64])
        if rng.random() < 0.5:
            cases.append(bytes(rng.choice(UTF8_ALPHABET) for _ in range(n)))
        else:
            s = "".join(chr(rng.choice([0x41, 0xE9, 0x65E5, 0x1F600, 0x7FF, 0x800, 0xFFFF, 0x10000, 0x10FFFF, 0xD7FF, 0xE000])) for _ in range(n // 2)).encode()
            b = bytearray(s)
            if b and rng.random() < 0.6:
                b[rng.randrange(len(b))] = rng.choice(UTF8_ALPHABET)
            if rng.random() < 0.3:
                b = b[: rng.randrange(len(b) + 1)]
            cases.append(bytes(b))
    if not driver_ok:
        return
    out = C.run_driver(["utf8 " + C.hx(b) for b in cases])
    for b, line in zip(cases, out):
        res.evaluations += 1
        s = b.decode("utf-8", "replace")
        want = "%d %d %s" % (len(s), len(s.encode("utf-8")), C.natlist([ord(ch) for ch in s]))
        if line != want:
            res.disagree("utf8", {"hex": C.hx(b)}, want[:200], line[:200])
    res.count("stream:utf8", len(cases))


def seen_logs_stream(res, tier):
    """`incoming._seen_logs` (second review, finding 3): decode a run of malformed datagrams with pairwise distinct exception texts
    *without* the harness emptying the memo in between.  (i) O: none of them may raise, whatever the memo holds by then (a cap that
    raises, an eviction that trips over its own iteration ... would show here and nowhere else, because `observe` empties the dict);
    (ii) observation, not a C02 verdict: how many entries and how many bytes stay behind per datagram.  The property's sentence is about
    each datagram's result and work; memory retained *across* datagrams is outside it (DESIGN §6.6) -- reported as the named limit
    `DC02a` (notes/fixes/DC02a-seen-logs-repro.py, proposed patch notes/fixes/DC02a-seen-logs.diff)."""
    import gc
    import tracemalloc

    inc = impl()["inc"]
    memo = getattr(inc, "_seen_logs", None)
    n = 600 if tier == "quick" else 3000
    if memo is not None:
        memo.clear()
    gc.collect()
    tracemalloc.start()
    base = tracemalloc.get_traced_memory()[0]
    for i in range(n):
        body = b"\x01a" * i + b"\x80"  # reserved label type at offset 12 + 2i: a distinct message text per datagram
        pkt = (struct.pack(">HHHHHH", i, 0, 1, 0, 0, 0) + body + b"\x00" * 9000)[:8966]
        res.evaluations += 1
        try:
            m = inc.DNSIncoming(pkt, *LISTENER_ARGS)
            m.answers()
            if m.valid:
                res.disagree("seen-logs", {"hex": C.hx(pkt[:12 + 2 * i + 4]), "len": len(pkt)}, "valid", "a reserved label type makes the message invalid")
        except Exception as e:  # noqa: BLE001
            res.violate("C02:escape:%s" % exc_name(e), "%s escapes while decoding the %d-th of a run of malformed datagrams with distinct error texts "
                        "(incoming._seen_logs holds %s entries)" % (exc_name(e), i + 1, len(memo) if memo is not None else "?"),
                        {"hex": C.hx(pkt), "len": len(pkt), "stream": "seen-logs", "run": "datagram i = header(id=i, 1 question) + i x 01 61 + 80, zero-padded to 8966 bytes; i = 0..%d" % i})
            break
    m = pkt = body = None
    gc.collect()
    retained = tracemalloc.get_traced_memory()[0] - base
    tracemalloc.stop()
    entries = len(memo) if memo is not None else 0
    res.count("stream:seen-logs", n)
    res.streams["seen-logs-entries"] = entries
    res.streams["seen-logs-retained-kb"] = retained // 1000
    unbounded = entries >= n or retained > 20 * n * 100
    res.count("seen-logs:growth-%s" % ("unbounded" if unbounded else "bounded"))
    res.notes.append("named limit DC02a (memory across datagrams, outside C02's sentence): after %d malformed datagrams with distinct error texts incoming._seen_logs "
                     "holds %d entries and %.1f MB stay allocated (%.1f KB per datagram) -- %s"
                     % (n, entries, retained / 1e6, retained / 1e3 / n,
                        "UNBOUNDED: one exc_info (traceback -> frames -> the datagram) per distinct text, for ever; patch proposal notes/fixes/DC02a-seen-logs.diff"
                        if unbounded else "bounded"))
    if memo is not None:
        memo.clear()


def pxd_pin(res):
    """The shipped wheels are the Cython build of incoming.py, typed by incoming.pxd; what runs here is the pure-Python module (TRUSTED).
    A static pin on the one thing a .pxd edit can silently change -- the width of the C integers that hold offsets, lengths, counts and
    links (review escape 6): every integer type in the file must be `unsigned int` / `cython.uint`; the only narrower type allowed is the
    byte view `const unsigned char [:] view`.  Anything else is a broken tie (stage C), not a verdict about behaviour."""
    import re

    path = C.REPO / "src" / "zeroconf" / "_protocol" / "incoming.pxd"
    res.evaluations += 1
    if not path.exists():
        res.count("pxd:absent")
        return
    bad = []
    for no, line in enumerate(path.read_text().splitlines(), 1):
        code = line.split("#")[0]
        if re.search(r"const\s+unsigned\s+char\s*\[:\]\s*view", code):
            continue
        # every C integer type must be *exactly* `unsigned int` / `cython.uint` (32 bits, unsigned: offsets, lengths, counts, links, the
        # TTL up to 2**32-1, rdtypes up to 65535); `bint` / `double` / object types are fine.  What is left after removing the allowed
        # spellings must not name any C integer type (third review, finding 6: `int ttl` passed the earlier 8/16-bit-only test)
        rest = re.sub(r"\bunsigned\s+int\b|\bcython\.uint\b|\bbint\b|\bdouble\b", " ", code)
        if re.search(r"\b(int|long|short|char|signed|unsigned|size_t|ssize_t|Py_ssize_t|u?int\d+_t|cython\.(u?int|u?long|u?short|u?char|s?char|u?longlong|size_t|Py_ssize_t))\b", rest):
            bad.append((no, line.strip()))
    res.count("pxd:integer-declarations-checked")
    for no, line in bad:
        res.disagree("pxd-types", {"file": "src/zeroconf/_protocol/incoming.pxd", "line": no}, line,
                     "every C integer declared in the file is exactly `unsigned int` / `cython.uint` (offsets + rdlength up to 16 383 + 65 535, TTL up to 2**32 - 1)")


def guard_stream(res, driver_ok):
    """the listener's size guard: lengths around 8966 against the leaf and the real `datagram_received`"""
    from zeroconf import _listener as L

    class Probe(L.AsyncListener):
        __slots__ = ("got",)

        def __init__(self):  # no Zeroconf instance: only the guard runs
            self.got = []

        def _process_datagram_at_time(self, debug, data_len, now, data, addrs):
            self.got.append(data_len)

    lens = [0, 1, 12, 1460, 8965, 8966, 8967, 9000, 65535]
    p = Probe()
    for n in lens:
        p.datagram_received(b"\0" * n, ("127.0.0.1", 5353))
    impl_acc = [n in p.got for n in lens]
    for n, a in zip(lens, impl_acc):
        res.evaluations += 1
        if a != (n <= 8966):
            res.violate("C02:size-guard", "datagram_received %s a %d-byte datagram" % ("forwards" if a else "drops", n), {"len": n})
    if driver_ok:
        out = C.run_driver(["c02g %d" % n for n in lens])
        for n, a, line in zip(lens, impl_acc, out):
            if (line == "1") != a:
                res.disagree("guard", {"len": n}, a, line)
    res.count("stream:guard", len(lens))


def gen_cases(tier, rng, budget, res):
    """yield (stream, datagram): corpus, the D2 chain family, the exhaustive sub-space, then the random streams"""
    for name, body in C.load_corpus("C02"):
        yield ("corpus:" + name, bytes.fromhex(body["hex"]) if body["hex"] != "-" else b"")
    # chains: the D2 family (on the repaired tree they stop at the hop bound)
    for d in [0, 1, 2, 3, 126, 127, 128, 129, 130, 131, 200, 600, 870, 1200, 2500, 4000]:
        for fwd in (True, False):
            yield ("chain", chain_packet(d, fwd))
            yield ("chain", chain_packet(d, fwd, tail=b"\x00"))
    yield ("chain", chain_packet(128, True, tail=b"\x3f" + b"x" * 63 + b"\x00"))
    for last in (57, 58, 59, 60, 61, 62, 63):
        for via in (True, False):
            yield ("longref", longref_packet(last, via))
    # many entries: the section loops far beyond a handful of iterations, counts around powers of two
    rec_counts = [15, 63, 64, 65, 127, 128, 129, 255, 256, 257, 500, 640]
    for i, n in enumerate(rec_counts):
        split = [(n, 0, 0), (0, n, 0), (0, 0, n), (n // 3, n // 3, n - 2 * (n // 3))][i % 4]
        yield ("many-entries", many_entries_packet(rng, rng.choice([0, 1, 2]), split, owner=rng.choice(["mixed", "pointer"]))[0])
    yield ("many-entries", many_entries_packet(rng, 0, (700, 0, 0), owner="root", kinds=["a"])[0])            # ~596 root-owned A records
    yield ("many-entries", many_entries_packet(rng, 0, (300, 300, 300), owner="pointer", kinds=["ptr"])[0])    # compressed PTRs
    for kind in ALL_KINDS:
        yield ("many-entries", many_entries_packet(rng, 1, (0, 70, 70), owner="pointer", kinds=[kind])[0])
    for nq in [6, 15, 16, 17, 63, 64, 65, 127, 128, 129, 255, 256, 257, 700]:
        yield ("many-entries", many_entries_packet(rng, nq, (rng.choice([0, 0, 3]), 0, 0), owner=rng.choice(["mixed", "pointer"]))[0])
    yield ("many-entries", many_entries_packet(rng, 1790, (0, 0, 0), owner="root")[0])                          # 1790 minimal questions
    for _ in range(4 if tier == "quick" else 200):
        p, _q, _d = many_entries_packet(rng, rng.choice([0, 1, 5, 40, 300]), [rng.choice([0, 10, 66, 130, 300]) for _ in range(3)])
        yield ("many-entries", p)
        yield ("many-entries-mutated", mutate(rng, p))
    # as many records / questions as 8966 bytes hold (11 / 5 bytes each): the largest counts the section loops can reach
    hd = lambda nq, n: struct.pack(">HHHHHH", 0, 0x8400 if nq == 0 else 0, nq, n, 0, 0)  # noqa: E731
    yield ("max-records", hd(0, 814) + (b"\x00" + struct.pack(">HHIH", 16, 1, 120, 0)) * 814)          # 814 empty TXT records owned by the root: strict-accepted
    yield ("max-records", hd(0, 814) + (b"\x00" + struct.pack(">HHIH", 99, 1, 120, 0)) * 814)          # 814 records of an unsupported type
    yield ("max-records", hd(0, 814) + (b"\x00" + struct.pack(">HHIH", 1, 1, 120, 0)) * 814)           # A records with rdlength 0: each reads into the next
    yield ("max-records", hd(0, 65535) + (b"\x00" + struct.pack(">HHIH", 16, 1, 120, 0)) * 814)        # count field larger than the packet holds
    yield ("max-records", hd(1790, 0) + (b"\x00" + struct.pack(">HH", 12, 1)) * 1790)                   # 1790 root questions
    yield ("max-records", hd(5, 700) + (b"\x00" + struct.pack(">HH", 12, 0x8001)) * 5 + (b"\xc0\x0c" + struct.pack(">HHIH", 16, 1, 120, 0)) * 700)
    # names around the length limit: 253 characters (library/Strict) vs 255 wire octets (RFC 1035)
    for last in (58, 59, 60, 61, 62):
        yield ("name-limit", name_limit_packet([b"a" * 63] * 3 + [b"b" * last]))          # 251..255 characters, ASCII
    yield ("name-limit", name_limit_packet(["\u00e9".encode() * 31] * 7))                  # 224 characters, 442 octets
    yield ("name-limit", name_limit_packet(["\u65e5".encode() * 21] * 11 + [b"abcdefghij"]))  # 253 characters, 705 octets
    yield ("name-limit", name_limit_packet(["\u65e5".encode() * 21] * 11 + [b"abcdefghijk"]))  # 254 characters
    yield ("name-limit", name_limit_packet([b"a"] * 126))                                  # 126 labels, 252 characters
    yield ("name-limit", name_limit_packet([b"a"] * 127))                                  # 254 characters
    # large datagrams whose pointer targets lie late in the packet (all 14 pointer bits matter)
    for target, total in [(0x0FF0, None), (0x1000, None), (0x1001, 8966), (0x1FFF, None), (0x2000, None), (0x2001, 8966), (0x2100, None),
                          (8193 - 17, 8193), (8300, 8400), (8700, None), (8800, 8966), (8966 - 120, None)]:
        for padbyte in (None, 0x00, 0xC0):
            p, w = late_pointer_packet(rng, target, total, padbyte)
            yield ("late-pointer", p)
        yield ("late-pointer-mutated", mutate(rng, p, w))
    for _ in range(10 if tier == "quick" else 300):
        p, w = late_pointer_packet(rng, rng.choice([rng.randrange(0x1000, 0x2000), rng.randrange(0x2000, 8800), rng.randrange(8180, 8210)]),
                                   rng.choice([None, 8966, 8193]) , rng.choice([None, 0, 0xC0, 0x01]))
        yield ("late-pointer", p)
    # deterministic families of the third review: truncation inside every rdata kind x listener arguments; every raise site from every
    # place a name is read x listener arguments; labels with several Unicode normal forms; the uncached-chain worst case
    for case in rdata_cut_cases():
        yield case
    for case in raise_site_cases():
        yield case
    for case in text_form_cases():
        yield case
    yield ("uncached-chain", uncached_chain_packet(648), False)
    yield ("uncached-chain", uncached_chain_packet(200, 127, b""), LISTENER_V6)
    yield ("uncached-chain", uncached_chain_packet(60, 100), LISTENER_V4)
    # deep legal chains: strict-accepted names through up to 128 backward hops / up to 126 labels
    for case in deep_legal_cases(rng, tier):
        yield case
    # NSEC bitmaps as heavy as a datagram can make them
    for case in nsec_max_cases(rng, tier):
        yield case
    # exhaustive small strings
    Lq, Lr = (4, 3) if tier == "quick" else (6, 5)
    n_ex = 0
    for b in exhaustive(Lq, Lr):
        n_ex += 1
        yield ("exhaustive", b)
    res.notes.append("exhaustive sub-space: all strings over 8 boundary bytes up to length %d (behind a 1-question header) / %d (behind a 1-record header): %d datagrams"
                     % (Lq, Lr, n_ex))
    # random streams
    for _ in range(budget):
        k = rng.random()
        if k < 0.08:
            n = rng.choice([0, 1, 5, 11, 12, 13, 14, 17, 30, 200, 1500, 8966])
            b = bytes(rng.randrange(256) for _ in range(n))
            if n >= 12 and rng.random() < 0.7:
                b = b[:4] + bytes([0, rng.choice([0, 1, 2]), 0, rng.choice([0, 1, 3]), 0, rng.choice([0, 1]), 0, rng.choice([0, 1])]) + b[12:]
            yield ("random", b)
        elif k < 0.3:
            p, w = gen_valid(rng)
            yield ("valid", p)
        elif k < 0.36:
            yield ("outgoing", gen_outgoing(rng))
        elif k < 0.72:
            p, w = gen_valid(rng)
            yield ("mutated", mutate(rng, p, w))
        elif k < 0.78:
            yield ("mutated-outgoing", mutate(rng, gen_outgoing(rng)))
        else:
            yield ("graph", gen_graph(rng))
    # a few large ones
    for _ in range(6 if tier == "quick" else 60):
        w = Wire(rng, 0.8)
        nrec = 0
        for _ in range(rng.choice([100, 300, 500])):
            if len(w.b) > 8500:
                break
            w.record(kind=rng.choice(["a", "ptr", "srv", "txt", "nsec"]))
            nrec += 1
        p = w.finish(0, [nrec, 0, 0])[:8966]
        yield ("large", p)
        yield ("large-mutated", mutate(rng, p, w))


def work_budget_line(b, o):
    """the driver line that evaluates `workWithin` / `linesWithin` on the counters measured on the implementation; when the loop
    counters could not be measured (a tree whose loops look different) or the label reads were not counted for this case, a
    placeholder that keeps the line count (its one-token answer is mapped to None)"""
    w = o.get("work")
    if o.get("steps") is None or w is None or w[4] % 8 or "reads" not in o:
        return "c02g 0"
    return "c02wb %d %d %d %d %d %d %d %d %d %d %d" % (len(b), o["names"], o["acts"], o["reads"], w[0], w[1], w[2], w[3], w[4] // 8, w[5], o["steps"])


_site_hits = {}


def site_coverage(res):
    """third review, finding 2: every raise / except / IndexError site of DNSIncoming must have been reached by this run both with and
    without the listener's constructor arguments; a site nothing reached is code the run says nothing about -> broken tie (stage C)"""
    req = raise_sites()["required"]
    if not req:
        res.disagree("raise-site-coverage", {"file": "src/zeroconf/_protocol/incoming.py"}, "class DNSIncoming could not be read", "its raise sites are enumerated from the AST")
        return
    rows = []
    for site in sorted(req):
        plain, with_args = _site_hits.get(site, [0, 0])
        rows.append("%s %d/%d" % (site, plain, with_args))
        res.count("site:%s:plain" % site, plain)
        res.count("site:%s:listener-args" % site, with_args)
        if plain == 0 or with_args == 0:
            res.disagree("raise-site-coverage", {"site": site, "where": req[site]}, "reached by %d datagrams decoded plainly and %d decoded with the listener's arguments" % (plain, with_args),
                         "every raise site, except handler and IndexError site of DNSIncoming is exercised in both ways on every run")
    res.notes.append("raise-site coverage (datagrams reaching the site: plain / with listener arguments): " + "; ".join(rows))


def process(res, cases, driver_ok, base):
    """one chunk: run the implementation, the model, the strict decoder and the budget predicate; compare"""
    obs = []
    cases = [c if len(c) == 3 else (c[0], c[1], None) for c in cases]
    for i, (stream, b, fixed_largs) in enumerate(cases):
        i += base
        count_reads = (i % 3 == 0) or stream in ("graph", "chain") or stream.startswith("corpus")
        # a case may name its listener arguments (the deterministic families do, for every variant); the others get them one time in five,
        # cycling through the variants (IPv4 socket: scope_id None; IPv6: an interface index, 0 included)
        largs = fixed_largs if fixed_largs is not None else (LISTENER_VARIANTS[(i // 5) % len(LISTENER_VARIANTS)] if i % 5 == 1 else False)
        # label reads (counting `bytes` subclass) and executed lines (line tracer) are measured on every case; every twelfth case is
        # decoded again without either: neither instrument may change behaviour
        o = observe(b, True, largs, steps=True)
        if i % 12 == 0 or count_reads and i % 4 == 0:
            o2 = observe(b, False, largs)
            o2["reads"] = o["reads"]
            if o2 != {k: v for k, v in o.items() if k not in ("steps", "work", "sites")}:
                res.disagree("counting-bytes", {"hex": C.hx(b)}, _short(o2), _short(o))
        if o.get("steps") is not None and o["steps"] >= CPU_MIN_STEPS:
            o["cpu"] = cpu_check(b, o["steps"])
            res.count("cpu-checked")
        for st in o.get("sites") or ():
            _site_hits.setdefault(st, [0, 0])[1 if o.get("largs") else 0] += 1
        obs.append(o)
    cases = [(stream, b) for stream, b, _l in cases]
    mlines = slines = blines = wlines = wblines = [None] * len(cases)
    if driver_ok:
        try:
            lines = []
            for (stream, b), o in zip(cases, obs):
                h = C.hx(b)
                lines.append("c02 " + h)
                lines.append("c02s " + h)
                lines.append("c02b %d %d %d %d %d" % (len(b), o["names"], o["acts"], o.get("reads", 0), o["depth"]))
                lines.append("c02w " + h)
                lines.append(work_budget_line(b, o))
            out = C.run_driver(lines)
            mlines, slines, blines, wlines, wblines = out[0::5], out[1::5], out[2::5], out[3::5], out[4::5]
            wblines = [x if " " in x else None for x in wblines]
        except C.DriverUnavailable as ex:
            res.notes.append("driver unavailable: %s" % ex)
            driver_ok = False
    for (stream, b), o, ml, sl, bl, wl, wbl in zip(cases, obs, mlines, slines, blines, wlines, wblines):
        check_case(res, b, stream, o, ml, sl, bl, wline=wl, wbline=wbl)
        if stream == "valid":
            res.sample({"hex": C.hx(b)[:120], "status": o["status"], "valid": o["obj"]["valid"] if o["obj"] else None}, limit=3)
    if not driver_ok:
        # python-only budget (mirror of DecodeSpec.withinBudget / DecodeLib.workWithin / lineCost, used only when the driver does not build)
        for (stream, b), o in zip(cases, obs):
            case = {"hex": C.hx(b), "len": len(b), "stream": stream}
            if o["depth"] > 129 or o["acts"] > 129 * max(1, o["names"]):
                res.violate("C02:budget", "recursion depth %d / %d activations for %d names" % (o["depth"], o["acts"], o["names"]), case)
            w = o.get("work")
            if o.get("steps") is not None and w is not None and w[4] % 8 == 0 and "reads" in o:
                q, r, calls, iters, bits, types = w
                n = len(b)
                if not (5 * q <= n + 5 and 11 * r <= n + 11 and calls <= r and bits // 8 + 2 * iters <= n + 2 and types <= bits):
                    res.violate("C02:budget:loops", "loop counters exceed the linear budget for %d bytes: %s" % (n, ", ".join("%s=%d" % kv for kv in zip(WORK_KEYS, w))), case)
                cost = (400 + 120 * q + 400 * r + 120 * o["names"] + 120 * o["acts"] + 80 * o["reads"] + 80 * calls + 60 * iters + 10 * bits + 12 * types)
                if o["steps"] > cost:
                    res.violate("C02:budget:lines", "decoding a %d-byte datagram executed %d source lines of the package: more than the calibrated cost model "
                                "allows (%d)" % (n, o["steps"], cost), case)
    return driver_ok


def run(ctx):
    res = C.Result("C02")
    seed, tier = ctx["seed"], ctx["tier"]
    rng = C.rng_for(seed, "c02")
    driver_ok = ctx["driver_ok"]
    budget = C.Budget(tier, 9000, 150000).n
    if ctx["widened"]:
        budget = budget * 5 // 4
    res.rule = ("datagrams from six streams (corpus; uniform random; wire-built valid messages and messages from the library's encoder, "
                "plain and mutated by bit flips/truncation/insertion/count- and length-field corruption; pointer graphs: chains up to depth 4000, cycles, "
                "NSEC records with as many / as full bitmap windows as 8966 bytes hold, rdlength past the packet, overshooting and duplicated windows; "
                "self/forward references, pointers into rdata, empty-label chains; large datagrams (up to 8966 bytes) whose names are first defined "
                "at offsets >= 0x1000 / 0x2000 / 8192 and referenced by pointers afterwards; exhaustive strings over {00,01,3F,40,C0,0C,FF,'a'} behind two fixed headers); "
                "non-trivial = distinct (outcome, exception, valid, recursion depth, #questions, record kinds, strict-accepted) signature")
    chunk, base = [], 0
    _site_hits.clear()
    for case in gen_cases(tier, rng, budget, res):
        chunk.append(case)
        if len(chunk) >= 20000:
            driver_ok = process(res, chunk, driver_ok, base)
            base += len(chunk)
            chunk = []
    if chunk:
        driver_ok = process(res, chunk, driver_ok, base)
    interleave_stream(res, rng, tier, driver_ok)
    seen_logs_stream(res, tier)
    utf8_stream(res, rng, tier, driver_ok)
    # the text layer: names the decoder returns (text, len(name)) and what write_name makes of them, against Zc.NameText
    textlayer.reencode_stream(res, rng, tier, driver_ok, rlabel)
    guard_stream(res, driver_ok)
    pxd_pin(res)
    site_coverage(res)
    if loop_lines() is None:
        res.disagree("loop-shape", {"file": "src/zeroconf/_protocol/incoming.py"}, "no `for` loop in _read_questions / _read_others, or no while > for > for > if nest in _read_bitmap",
                     "the loop counters and the line budget (C02:budget:loops, C02:budget:lines) are measured at these loops: without them that part of the oracle did not run")
    res.notes.append("largest message on which the library agreed with the strict parser: %d records, %d questions; deepest agreeing pointer chain: nesting %d "
                     "(= %d hops; the strict parser allows 128); longest agreeing name in a message with compressed names: %d labels"
                     % (res.streams.get("max-agreeing-records", 0), res.streams.get("max-agreeing-questions", 0), res.streams.get("max-agreeing-nesting", 0),
                        max(0, res.streams.get("max-agreeing-nesting", 0) - 1), res.streams.get("max-agreeing-labels", 0)))
    acc = res.dist.get("strict-accepted", 0)
    if acc:
        inscope, mixed, unenc = res.dist.get("strict-accepted-in-scope", 0), res.dist.get("strict-accepted-mixed", 0), res.dist.get("strict-accepted-unencodable-label", 0)
        res.notes.append("faithfulness: of %d strict-accepted datagrams %d (%.0f %%) are in the property's scope and judged in full, %d (%.0f %%) carry a record of an "
                         "unsupported type and are judged on their supported part (C02_agrees_strict_supported_part; %d agree), "
                         "%d (%.0f %%) carry a label that cannot be written back and are outside the `reencodable` proviso (not judged)"
                         % (acc, inscope, 100.0 * inscope / acc, mixed, 100.0 * mixed / acc, res.dist.get("strict-accepted-mixed-agree", 0), unenc, 100.0 * unenc / acc))
    res.notes.append("work besides the name decoder (measured on the implementation with a line tracer, compared with the model's counters on every datagram): "
                     "the most expensive datagram GENERATED in this run cost %d source lines of the package (a %d-byte one; this is the generators' maximum, not a bound "
                     "on the decoder: the bound is C02_lines_8966); largest loop counters: %s; %d decodes of >= %d lines also held to the "
                     "CPU-time yardstick (%d yardstick lines per executed line + %.2f s)"
                     % (res.streams.get("max-steps", 0), res.streams.get("max-steps-len", 0),
                        ", ".join("%s=%d" % (k, res.streams.get("max-" + k, 0)) for k in WORK_KEYS), res.dist.get("cpu-checked", 0), CPU_MIN_STEPS, CPU_SLACK, CPU_FLOOR_S))
    if loop_lines() is None:
        res.notes.append("the loops of _read_questions/_read_others/_read_bitmap were not found: loop counters not measured, line budget NOT evaluated (reported as broken tie `loop-shape`)")
    res.notes.append("RFC 1035 name-length rule (255 wire octets) vs the 253-character rule of the property: %d RFC-legal datagrams rejected only because of "
                     "a 254-character name, %d datagrams accepted although a name exceeds 255 octets (reading, see ASSUMPTIONS)"
                     % (res.dist.get("rfc1035:legal-name-of-254-characters-rejected-by-the-253-rule", 0),
                        res.dist.get("rfc1035:name-over-255-octets-accepted-by-the-253-character-rule", 0)))
    # report an escaping exception before anything else, and the shortest witness of each signature first
    # (for the CPU budget the most blatant witness first: `rank` = -seconds/allowed)
    res.violations.sort(key=lambda v: (0 if v["sig"].startswith("C02:escape") else 1, v["sig"], v["case"].get("rank", v["case"].get("len", 0))))
    return res


def replay(body):
    case = body.get("case", body)
    if "interleave" in case:
        il = case["interleave"]
        a = bytes.fromhex(il["A"]) if il["A"] != "-" else b""
        b = bytes.fromhex(il["B"]) if il["B"] != "-" else b""
        res = C.Result("C02")
        lines = [None] * 4
        try:
            lines = C.run_driver(["c02 " + C.hx(a), "c02s " + C.hx(a), "c02 " + C.hx(b), "c02s " + C.hx(b)])
        except C.DriverUnavailable:
            pass
        views = run_schedule(a, b, tuple(il["schedule"]))
        check_interleaved(res, a, b, tuple(il["schedule"]), views, (lines[0], lines[1]), (lines[2], lines[3]))
        alone = observe(bytes.fromhex(il[il["which"]]), False)
        return {"schedule": il["schedule"], "which": il["which"], "violates": bool(res.violations),
                "violations": [v["sig"] + ": " + v["what"] for v in res.violations],
                "decoded_alone": _short(alone["obj"]), "decoded_interleaved": _short(views.get(il["which"])),
                "model_disagrees": bool(res.disagreements)}
    data = bytes.fromhex(case["hex"]) if case.get("hex", "-") != "-" else b""
    largs = largs_of(case.get("largs"))
    o = observe(data, True, largs, steps=True)
    out = {"listener_args": list(largs) if largs else None, "len": len(data), "status": o["status"], "exception": o["exc"], "depth": o["depth"], "activations": o["acts"], "names": o["names"],
           "reads": o["reads"], "valid": o["obj"]["valid"] if o["obj"] else None, "steps": o.get("steps"),
           "loops": dict(zip(WORK_KEYS, o["work"])) if o.get("work") else None}
    if o.get("steps"):
        o["cpu"] = cpu_check(data, max(o["steps"], CPU_MIN_STEPS))
        out["cpu_seconds"], out["cpu_allowed"] = round(o["cpu"][1], 4), round(o["cpu"][2], 4)
    res = C.Result("C02")
    ml = sl = bl = wl = wbl = None
    try:
        ml, sl, bl, wl, wbl = C.run_driver(["c02 " + C.hx(data), "c02s " + C.hx(data), "c02b %d %d %d %d %d" % (len(data), o["names"], o["acts"], o["reads"], o["depth"]),
                                            "c02w " + C.hx(data), work_budget_line(data, o)])
        wbl = wbl if " " in wbl else None
    except C.DriverUnavailable:
        pass
    check_case(res, data, "replay", o, ml, sl, bl, wline=wl, wbline=wbl)
    out["violates"] = bool(res.violations)
    out["violations"] = [v["sig"] + ": " + v["what"] for v in res.violations]
    out["model"] = (ml or "")[:300]
    out["model_disagrees"] = bool(res.disagreements)
    return out
