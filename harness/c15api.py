"""C15, stream `c15api` -- the API / timer blocks of a running instance, replayed through the closed composite.

A real `Zeroconf` instance runs under the virtual-time simulator while a scenario registers, updates and unregisters services,
starts and cancels browsers, starts lookups, adds a user `RecordUpdateListener`, lets the 10 s cache cleanup fire, and receives
announcements, goodbyes, short-lived records, queries and hostile datagrams in between.  Every block that can change what is
compared is logged at class level (no source hooks): `datagram_received`, `ServiceRegistry.async_add / async_update / async_remove`,
`RecordManager.async_add_listener / async_remove_listener`, `AsyncServiceInfo.async_request`, `AsyncEngine._async_cache_cleanup`.

Stage O: no exception leaves `datagram_received`, the loop exception handler is never called (purge and browser-start blocks
included), no API coroutine raises anything but what the scenario provokes on purpose.
Stage C: the block log is replayed through `Zc.Survive.Closed.hstep` (driver command `c15api`); after every block the browser
callbacks fired in it, the registered keys, `has_entries`, the number of cached record objects, of browsers, of lookups in progress
and the user listener's call counts must agree.

Finding replays (`corpus/C15/finding-*.json`) are scenarios of the same format that provoke behaviour outside the hypotheses of
`C15_history_closed_partial` (`UserOK`, `ApiSafe`): they are run first, must still reproduce, and are reported as candidates
(`KNOWN-FINDING` once their signature is listed in `known_findings.json`)."""
from __future__ import annotations

import asyncio
import json
import socket

from . import common as C
from . import c15 as B

TA, TB, TC_ = "_a._tcp.local.", "_b._tcp.local.", "_c._udp.local."
TYPES = [TA, TB, TC_]
SELF_IP, PEER = "10.0.0.1", "10.0.0.2"
TTLS = [1, 2, 5, 120, 4500]


def txt_bytes(d):
    """the TXT rdata `ServiceInfo` builds from a properties dict"""
    out = b""
    for k, v in d.items():
        k = k.encode() if isinstance(k, str) else k
        v = v.encode() if isinstance(v, str) else v
        e = k if v is None else k + b"=" + v
        out += bytes([len(e)]) + e
    return out or b"\x00"


# what the application registers (review 3): [addresses], TXT, instance-name prefix, host names
API_PROFILES = [
    (["10.0.0.1"], None, "s", ["ha.local.", "HA.local.", "hb.local."]),
    (["10.0.0.1", "fe80::1"], None, "s", ["ha.local.", "HA.local.", "hb.local."]),
    (["10.0.0.1", "10.0.1.1", "fe80::1", "2001:db8::1", "fd00::1:2"], txt_bytes(B.BIN_TXT).hex(), "s", ["ha.local.", "hb.local."]),
    (["fe80::1", "2001:db8::1"], txt_bytes(B.LONG_TXT).hex(), "caf\u00e9 \u65e5\u672c ", ["h\u00e4-\u65e5.local.", "hb.local."]),
    (["2001:db8::1", "10.0.0.1"], txt_bytes(B.BIN_TXT).hex(), "\u2615 b\u00fcro ", [None, "h\u00f6st.local."]),
    (["10.0.1.1", "10.0.0.1"], "00", "n" * 62, ["\u65e5" * 20 + "abc.local."]),
]


def reg_step(rng, prof, k, port):
    addrs, text, prefix, servers = API_PROFILES[prof]
    st_ = {"op": "register", "name": "%s%d.%s" % (prefix, k, TA), "type": TA, "server": rng.choice(servers), "port": port, "coop": True, "addrs": list(addrs)}
    if text is not None:
        st_["text"] = text
    return st_


def gen_scenario(seed, idx):
    rng = C.rng_for(seed, "c15api", idx)
    steps = []
    if rng.random() < 0.7:
        steps.append({"op": "user"})
    prof = rng.randrange(len(API_PROFILES))
    prefix = API_PROFILES[prof][2]
    host0 = API_PROFILES[prof][3][0] or (prefix + "1." + TA)
    nsvc = rng.choice([0, 1, 1, 2])
    for i in range(nsvc):
        steps.append(reg_step(rng, prof, i + 1, 80 + i))
    insts = ["i1", "i2", "Inst3", "i4"]
    live_b = 0
    live_s = nsvc
    for _ in range(rng.choice([6, 12, 20, 30])):
        k = rng.choice(["ann", "ann", "ann", "bye", "query", "browser", "cancel", "lookup", "register", "unregister", "update", "sleep", "sleep",
                        "hostile", "addr", "txt", "user", "tcq"])
        if k == "user":
            # a second user listener comes and (sometimes) goes: blocks `addUser` / `removeUser`
            steps.append({"op": "user"} if rng.random() < 0.5 else {"op": "unuser", "i": rng.randrange(4)})
            continue
        if k == "tcq":
            # a truncated query (deferred; its timer fires 400-500 ms later: block `tcFire`), sometimes followed by the closing packet
            src = [rng.choice([PEER, "10.0.0.9"]), rng.choice([5353, 40000])]
            steps.append({"op": "deliver", "kind": "raw", "src": src,
                          "data": (B.hdr(rng.randrange(65536), 0x0200, 1) + B.q(B.labels_of(rng.choice([TA, prefix + "1." + TA])), rng.choice([12, 33]))).hex()})
            steps.append({"op": "sleep", "ms": rng.choice([0, 100, 450, 600])})
            if rng.random() < 0.4:
                steps.append({"op": "deliver", "kind": "raw", "src": src, "data": (B.hdr(rng.randrange(65536), 0, 1) + B.q(B.labels_of(TA), 12)).hex()})
            continue
        if k == "ann":
            steps.append({"op": "deliver", "kind": "ann", "inst": rng.choice(insts), "type": rng.choice(TYPES), "ttl": rng.choice(TTLS),
                          "host_ttl": rng.choice(TTLS), "host": rng.choice(["hx.local.", "hy.local."]), "port": rng.choice([81, 82])})
        elif k == "bye":
            steps.append({"op": "deliver", "kind": "ann", "inst": rng.choice(insts), "type": rng.choice(TYPES), "ttl": 0, "host_ttl": 0,
                          "host": "hx.local.", "port": 81})
        elif k == "addr":
            steps.append({"op": "deliver", "kind": "addr", "host": rng.choice(["hx.local.", "hy.local."]), "ip": rng.choice(["10.0.0.7", "10.0.0.8"]),
                          "ttl": rng.choice(TTLS)})
        elif k == "txt":
            steps.append({"op": "deliver", "kind": "txt", "inst": rng.choice(insts), "type": rng.choice(TYPES), "ttl": rng.choice(TTLS),
                          "txt": rng.choice(["036b3d76", "036b3d77", "00"])})
        elif k == "query":
            st_ = {"op": "deliver", "kind": "query", "name": rng.choice([TA, prefix + "1." + TA, host0, host0, "_services._dns-sd._udp.local."]),
                   "qtype": rng.choice([12, 33, 16, 1, 1, 28, 28, 255]), "port": rng.choice([5353, 5353, 40000]), "qu": rng.random() < 0.3}
            if rng.random() < 0.35:
                # known answers: the host's address records (right and wrong), heard on an IPv6 socket (4-tuple source) or an IPv4 one
                st_["ka"] = [[host0, 28 if ":" in a else 1, (socket.inet_pton(socket.AF_INET6, a) if ":" in a else socket.inet_aton(a)).hex(), rng.choice([120, 60, 1])]
                             for a in rng.sample(API_PROFILES[prof][0] + ["10.0.0.77", "fe80::77"], rng.choice([1, 2]))]
                if rng.random() < 0.6:
                    st_["src"] = [rng.choice(["fe80::2", "fe80::9"]), st_["port"], 0, rng.choice([0, 3])]
            steps.append(st_)
        elif k == "hostile":
            steps.append({"op": "deliver", "kind": "hostile", "n": rng.randrange(1 << 30)})
        elif k == "browser":
            steps.append({"op": "browser", "types": rng.choice([[TB], [TA], [TB, TC_], [TA, TB, TC_]])})
            live_b += 1
        elif k == "cancel" and live_b:
            steps.append({"op": "cancel", "i": rng.randrange(live_b)})
            live_b -= 1
        elif k == "lookup":
            steps.append({"op": "lookup", "inst": rng.choice(insts), "type": rng.choice(TYPES), "timeout": rng.choice([200, 1500, 3000])})
        elif k == "register":
            live_s += 1
            st_ = reg_step(rng, prof, rng.choice([1, 2, 3, 4]), 90)
            if rng.random() < 0.12:
                # arguments at and over what the encoder can write (D28): 63/64-byte server labels (ASCII and 3-byte UTF-8), port 65535/65536
                st_["server"], st_["port"] = rng.choice([("h" * 63 + ".local.", 90), ("h" * 64 + ".local.", 90), ("\u20ac" * 21 + ".local.", 90),
                                                         ("\u20ac" * 22 + ".local.", 90), ("hc.local.", 65535), ("hc.local.", 65536)])
                st_["coop"] = rng.random() < 0.5
                if len(st_["server"].split(".")[0].encode()) > 63 or st_["port"] > 65535:
                    st_["unsafe"] = True
                steps.append(st_)
                # ... and a query that makes the responder write its records (legacy unicast: answered inside the block)
                steps.append({"op": "sleep", "ms": rng.choice([0, 1500])})
                steps.append({"op": "deliver", "kind": "query", "name": st_["name"], "qtype": 33, "port": 40000, "src": ["10.0.0.9", 40000]})
            else:
                steps.append(st_)
        elif k == "unregister":
            steps.append({"op": "unregister", "i": rng.randrange(4)})
        elif k == "update":
            steps.append({"op": "update", "i": rng.randrange(4), "port": rng.choice([91, 92])})
        else:
            steps.append({"op": "sleep", "ms": rng.choice([0, 30, 200, 1000, 1001, 3000, 6000, 11000])})
    if rng.random() < 0.3:
        # a browser created in the very millisecond a cached pointer of its type runs out (purge and replay of `async_add_listener` must
        # agree about that record: seeded C15-w5-seed1), and the service announced again before the next clean-up
        t_ = rng.choice([TB, TB, TC_])
        steps.append({"op": "deliver", "kind": "ann", "inst": rng.choice(insts), "type": t_, "ttl": rng.choice([2, 120, 4500]), "host_ttl": 120,
                      "host": "hx.local.", "port": 81})
        steps.append({"op": "browser_at_expiry", "types": [t_], "off": rng.choice([0, 0, 0, -1, 1])})
        steps.append({"op": "sleep", "ms": rng.choice([1, 2000, 9000])})
        steps.append({"op": "reannounce"})
        steps.append({"op": "sleep", "ms": 200})
    steps.append({"op": "sleep", "ms": rng.choice([0, 1500, 12000])})
    return {"seed": seed, "idx": idx, "steps": steps}


def packet_of(step, rng_hostile):
    k = step["kind"]
    if k == "ann":
        return B.announce_packet(step["inst"], step["type"], step["host"], PEER, port=step["port"], ttl=step["ttl"], host_ttl=step["host_ttl"])
    if k == "addr":
        return B.hdr(0, 0x8400, 0, 1) + B.rr(B.wname(B.labels_of(step["host"])), 1, 0x8001, step["ttl"], socket.inet_aton(step["ip"]))
    if k == "txt":
        owner = B.wname([step["inst"].encode()] + B.labels_of(step["type"]))
        return B.hdr(0, 0x8400, 0, 1) + B.rr(owner, 16, 0x8001, step["ttl"], bytes.fromhex(step["txt"]))
    if k == "query":
        ka = step.get("ka", [])
        return (B.hdr(step.get("id", 77), 0, 1, len(ka)) + B.q(B.labels_of(step["name"]), step["qtype"], 0x8001 if step.get("qu") else 1)
                + b"".join(B.rr(B.wname(B.labels_of(o)), t, 0x8001, ttl, bytes.fromhex(rd)) for o, t, rd, ttl in ka))
    if k == "hostile":
        import random
        r = random.Random(step["n"])
        kind, data = B.gen_item(r, [], [TA, "s1." + TA, "ha.local.", "_services._dns-sd._udp.local.", "s2." + TA, TB], None,
                                r.choice(["rand", "c02valid", "c02mut", "c02out", "c02outmut", "graph", "chain", "query", "querymut", "resp", "hostile", "lookup",
                                          "lookuptrunc", "d8", "d8b", "oversize", "nsec", "nsec"]))
        return data
    if k == "raw":
        return bytes.fromhex(step["data"])
    raise ValueError(k)


def simulate(sc):
    """run one scenario on the real code; returns the block log and what stage O needs"""
    from . import vsim
    from zeroconf import RecordUpdateListener, ServiceInfo, ServiceListener
    from zeroconf.asyncio import AsyncServiceBrowser, AsyncServiceInfo
    import zeroconf._engine as eng
    import zeroconf._handlers.record_manager as rmm
    import zeroconf._services.browser as brm
    import zeroconf._services.info as inf
    import zeroconf._services.registry as regm

    sim = vsim.Sim(seed=sc["seed"] * 7919 + sc["idx"], maxdelay=0, loopback=True)
    obs = {"blocks": [], "escapes": [], "api_raised": [], "notes": [], "inv": [], "canary_fail": []}
    saved = []
    st = {"zc": None, "on": False, "browsers": [], "lookups": [], "users": [], "cbs": [], "strict": True, "seen": set(), "events": [], "reann": None, "listeners": []}

    def patch(cls, name, fn):
        orig = getattr(cls, name)
        setattr(cls, name, fn(orig))
        saved.append((cls, name, orig))

    def snapshot():
        zc = st["zc"]
        ls = zc.record_manager.listeners
        return {"keys": sorted(k for k in zc.registry._services), "has": bool(zc.registry.has_entries),
                "cached": sum(len(v) for v in zc.cache.cache.values()),
                "browsers": sum(1 for l in ls if isinstance(l, brm._ServiceBrowserBase)),
                "lookups": sum(1 for l in ls if isinstance(l, inf.ServiceInfo)),
                "users": ["%d+%d" % (u.n1, u.n2) for u in st["users"]]}

    def inv_line():
        """the real instance's state at a block boundary, as `c15inv` reads it (review 2: the invariants of the composite are
        evaluated on the implementation, not only on the model)"""
        import zeroconf
        zc = st["zc"]
        hs, hx = C.hs, C.hx
        V4, V6 = zeroconf.IPVersion.V4Only, zeroconf.IPVersion.V6Only
        t = []
        svcs = list(zc.registry._services.values())
        t.append(str(len(svcs)))
        for i in svcs:
            a4, a6 = i.addresses_by_version(V4), i.addresses_by_version(V6)
            t += [hs(i.name), hs(i.type), hs(i.server or i.name), str(i.port or 0), hx(i.text or b""), str(len(a4))] + [hx(a) for a in a4]
            t += [str(len(a6))] + [hx(a) for a in a6] + [str(i.host_ttl), str(i.other_ttl)]
        for idx in (zc.registry.types, zc.registry.servers):
            t.append(str(len(idx)))
            for k, v in idx.items():
                t += [hs(k), str(len(v))] + [hs(x) for x in v]
        t.append("1" if zc.registry.has_entries else "0")
        for idx in (zc.cache.cache, zc.cache.service_cache):
            t.append(str(len(idx)))
            for k, v in idx.items():
                t += [hs(k), str(len(v))] + [C.rec_line(r) for r in v.values()]
        t.append(str(len(st["browsers"])))
        for b in st["browsers"]:
            qs = b.query_scheduler
            ids = {}
            for o in list(qs._next_scheduled_for_alias.values()) + list(qs._query_heap):
                ids.setdefault(id(o), len(ids))
            t.append(str(len(qs._next_scheduled_for_alias)))
            for a, o in qs._next_scheduled_for_alias.items():
                t += [hs(a), str(ids[id(o)])]
            t.append(str(len(qs._query_heap)))
            for o in qs._query_heap:
                t += [str(ids[id(o)]), hs(o.alias), hs(o.name), "1" if o.cancelled else "0"]
            t += [str(len(qs._types))] + [hs(x) for x in sorted(qs._types)]
            t.append(str(len(b._pending_handlers)))
        names = []
        for i in st["lookups"]:
            names += [i.name] + ([i.server] if i.server else [])
        t += [str(len(names))] + [hs(n) for n in names]
        return "c15inv " + " ".join(t)

    def close_prev():
        """the state at the start of a logged block is the state after the previous one"""
        if obs["blocks"]:
            b = obs["blocks"][-1]
            if "after" not in b:
                b["after"] = snapshot()
                b["cbs"] = sorted(st["cbs"])
                st["cbs"] = []

    def log(op, **kw):
        if not st["on"]:
            return None
        close_prev()
        if len(obs["blocks"]) % 7 == 3 and len(obs["inv"]) < 6:
            try:
                obs["inv"].append((len(obs["blocks"]), inv_line()))
            except Exception as e:   # e.g. a name that is not text: the harness must not crash
                obs["notes"].append("inv extraction failed: %s" % B.exc_name(e))
        b = dict(op=op, t=int(sim.loop.ms), **kw)
        obs["blocks"].append(b)
        return b

    def svc_fields(info):
        ipv = __import__("zeroconf").IPVersion
        return {"name": info.name, "type": info.type, "server": info.server or info.name, "port": info.port or 0, "text": (info.text or b"").hex(),
                "v4": [a.hex() for a in info.addresses_by_version(ipv.V4Only)], "v6": [a.hex() for a in info.addresses_by_version(ipv.V6Only)]}

    def w_add(orig):
        def f(self, info):
            st["seen"].add("g")
            log("g", strict=st["strict"], **svc_fields(info))
            return orig(self, info)
        return f

    def w_update(orig):
        def f(self, info):
            st["seen"].add("u")
            log("u", **svc_fields(info))
            return orig(self, info)
        return f

    def w_remove(orig):
        def f(self, info):
            infos = info if isinstance(info, list) else [info]
            if st["on"] and self is st["zc"].registry:
                st["seen"].add("x")
                for i in infos:
                    log("x", **svc_fields(i))
            return orig(self, info)
        return f

    def w_api(op):
        """the API coroutine must have reached the registry operation the model's block performs: if it returned normally without it,
        the block is logged after the fact (and the comparison shows the registry the code did not touch)"""
        def w(orig):
            async def f(self, info, *a, **k):
                if self is not st["zc"] or not st["on"]:
                    return await orig(self, info, *a, **k)
                st["seen"].discard(op)
                r = await orig(self, info, *a, **k)
                if op not in st["seen"]:
                    log(op, late=True, **dict(svc_fields(info), **({"strict": st["strict"]} if op == "g" else {})))
                return r
            return f
        return w

    def w_addl(orig):
        def f(self, listener, question):
            if st["on"] and self is st["zc"].record_manager:
                if isinstance(listener, brm._ServiceBrowserBase):
                    st["browsers"].append(listener)
                    log("b", types=sorted(listener.types))
                elif isinstance(listener, inf.ServiceInfo):
                    st["lookups"].append(listener)
                elif isinstance(listener, RecordUpdateListener):
                    log("a")      # (the snapshot that closes the previous block is taken here: the new user joins the list afterwards)
                    st["users"].append(listener)
            return orig(self, listener, question)
        return f

    def w_reml(orig):
        def f(self, listener):
            if st["on"] and self is st["zc"].record_manager:
                if listener in st["browsers"]:
                    i = st["browsers"].index(listener)
                    st["browsers"].pop(i)
                    log("c", i=i)
                elif listener in st["lookups"]:
                    j = st["lookups"].index(listener)
                    st["lookups"].pop(j)
                    log("f", j=j)
                elif listener in st["users"]:
                    i = st["users"].index(listener)
                    log("d", i=i)
                    st["users"].pop(i)
            return orig(self, listener)
        return f

    def w_request(orig):
        async def f(self, zc, timeout, *a, **k):
            if zc is st["zc"] and zc.started:
                log("l", name=self.name)
            return await orig(self, zc, timeout, *a, **k)
        return f

    def w_tc(orig):
        def f(self, msg, addr, port, transport, v6):
            if msg is None and st["on"] and not st.get("in_recv"):
                log("t", addr=addr)       # the timer of a deferred truncated query fired: block `tcFire`
            return orig(self, msg, addr, port, transport, v6)
        return f

    def w_cleanup(orig):
        def f(self):
            if st["on"] and self.zc is st["zc"]:
                log("p")
            return orig(self)
        return f

    class User(RecordUpdateListener):
        def __init__(s, raises=None):
            s.n1 = s.n2 = 0
            s.raises = raises

        def async_update_records(s, zc, now, records):
            s.n1 += 1
            if s.raises == "update":
                raise ValueError("user listener raised in async_update_records")

        def async_update_records_complete(s):
            s.n2 += 1
            if s.raises == "complete":
                raise ValueError("user listener raised in async_update_records_complete")

    class L(ServiceListener):
        def __init__(s, bad=None):
            s.browser = None
            s.bad = bad

        def _cb(s, ch, t, n):
            # callbacks of the initial replay fire inside the constructor: the browser being created is the last one registered
            i = st["browsers"].index(s.browser) if s.browser in st["browsers"] else (len(st["browsers"]) - 1 if s.browser is None else -1)
            st["cbs"].append("%d:%s:%s:%s" % (i, ch, C.hs(t), C.hs(n)))
            st["events"].append((id(s), ch, t, n))
            if s.bad is not None and n.startswith(s.bad):
                raise ValueError("user handler raised for " + n)

        def add_service(s, zc, t, n):
            s._cb("add", t, n)

        def remove_service(s, zc, t, n):
            s._cb("rem", t, n)

        def update_service(s, zc, t, n):
            s._cb("upd", t, n)

    async def main(sim):
        patch(regm.ServiceRegistry, "async_add", w_add)
        patch(regm.ServiceRegistry, "async_update", w_update)
        patch(regm.ServiceRegistry, "async_remove", w_remove)
        import zeroconf._core as core
        patch(core.Zeroconf, "async_register_service", w_api("g"))
        patch(core.Zeroconf, "async_update_service", w_api("u"))
        patch(core.Zeroconf, "async_unregister_service", w_api("x"))
        patch(rmm.RecordManager, "async_add_listener", w_addl)
        patch(rmm.RecordManager, "async_remove_listener", w_reml)
        patch(inf.ServiceInfo, "async_request", w_request)
        patch(eng.AsyncEngine, "_async_cache_cleanup", w_cleanup)
        import zeroconf._listener as lsm
        patch(lsm.AsyncListener, "_respond_query", w_tc)
        a = sim.make_host("A", SELF_IP)
        zc = a.zc
        st["zc"] = zc
        await zc.async_wait_for_start()
        lst = zc.engine.protocols[0]
        st["on"] = True

        def deliver(data, src, top=True):
            if a.transport is None or a.transport.closed:
                return
            b = log("r", data=data.hex(), addr=src[0], port=src[1])
            st["in_recv"] = True
            try:
                with B.Guard(B.HANG_S):
                    lst.datagram_received(data, src)
            except B.HangDetected:
                if b is not None:
                    b["raised"] = "HangDetected"
                obs["escapes"].append({"exc": "HangDetected", "block": len(obs["blocks"]) - 1, "len": len(data), "msg": "no return", "data": data.hex(), "src": list(src)})
                obs["hung"] = True
            except Exception as e:
                if b is not None:
                    b["raised"] = B.exc_name(e)
                obs["escapes"].append({"exc": B.exc_name(e), "block": len(obs["blocks"]) - 1, "len": len(data), "msg": str(e)[:80]})
                if not top:
                    st["in_recv"] = False
                    raise
            finally:
                st["in_recv"] = False

        a.deliver = lambda data, src: deliver(data, src, top=False)
        infos, tasks, pending = [], [], []
        for step in sc["steps"]:
            if obs.get("hung"):
                break
            op = step["op"]
            try:
                if op == "user":
                    u = User(step.get("raises"))
                    zc.async_add_listener(u, None)
                elif op == "unuser":
                    if st["users"]:
                        zc.async_remove_listener(st["users"][step["i"] % len(st["users"])])
                elif op == "register":
                    addrs = [socket.inet_pton(socket.AF_INET6, x) if ":" in x else socket.inet_aton(x) for x in step.get("addrs", [SELF_IP])]
                    info = ServiceInfo(step["type"], step["name"], step["port"], addresses=addrs, server=step.get("server"),
                                       properties=bytes.fromhex(step["text"]) if "text" in step else {"k": "v"})
                    st["strict"] = step.get("strict", True)
                    try:
                        t = await zc.async_register_service(info, cooperating_responders=step.get("coop", False), strict=step.get("strict", True))
                        infos.append(info)
                        tasks.append(t)
                    except Exception as e:
                        obs["api_raised"].append({"op": op, "exc": B.exc_name(e), "name": step["name"]})
                elif op == "unregister":
                    if infos:
                        info = infos.pop(step["i"] % len(infos))
                        tasks.append(await zc.async_unregister_service(info))
                elif op == "update":
                    if infos:
                        info = infos[step["i"] % len(infos)]
                        info.port = step["port"]
                        tasks.append(await zc.async_update_service(info))
                elif op == "browser":
                    l = L(step.get("bad"))
                    br = AsyncServiceBrowser(zc, list(step["types"]), listener=l)
                    l.browser = br
                    pending.append(br)
                elif op == "cancel":
                    live = [b for b in pending if b in st["browsers"]]
                    if live:
                        await live[step["i"] % len(live)].async_cancel()
                elif op == "lookup":
                    si = AsyncServiceInfo(step["type"], step["inst"] + "." + step["type"])
                    tasks.append(asyncio.ensure_future(si.async_request(zc, step["timeout"])))
                elif op == "deliver":
                    deliver(packet_of(step, None), tuple(step.get("src", (PEER, step.get("port", 5353)))))
                elif op == "browser_at_expiry":
                    import zeroconf._dns as dnsm
                    now_ms = float(sim.loop.ms)
                    def reannounceable(r):
                        # the canary re-announces the pointer with `announce_packet(<instance label>, <type>)`: only a pointer whose alias IS
                        # `<one non-empty label of at most 63 bytes>.<its owner name>` can be announced again that way.  Hostile datagrams
                        # cache others (e.g. `_b._tcp.local. PTR inst.hb.local.`, a compression pointer into another record: thorough run,
                        # seed 0 idx 1087 -- the canary then "re-announced" an instance with an EMPTY label, a different record, and alarmed)
                        if not r.alias.lower().endswith("." + r.name.lower()):
                            return False
                        inst = r.alias[:-len(r.name) - 1]
                        return bool(inst) and "." not in inst and len(inst.encode("utf-8", "replace")) <= 63
                    ptrs = [r for t_ in step["types"] for r in zc.cache.async_entries_with_name(t_)
                            if isinstance(r, dnsm.DNSPointer) and r.created + r.ttl * 1000 > now_ms + 1 and reannounceable(r)]
                    if ptrs:
                        r = min(ptrs, key=lambda x: x.created + x.ttl * 1000)
                        await sim.sleep_until(int(r.created + r.ttl * 1000) - vsim.T0 + step.get("off", 0))
                        st["reann"] = (r.alias[:-len(r.name) - 1], r.name)
                    l = L(None)
                    br = AsyncServiceBrowser(zc, list(step["types"]), listener=l)
                    l.browser = br
                    pending.append(br)
                    st["listeners"].append((l, br, list(step["types"])))
                elif op == "reannounce":
                    if st["reann"] is not None:
                        inst, t_ = st["reann"]
                        st["reann_at"] = len(st["events"])
                        deliver(B.announce_packet(inst, t_, "hx.local.", PEER, port=83, ttl=4500), (PEER, 5353))
                elif op == "sleep":
                    await sim.sleep_ms(step["ms"])
            except Exception as e:  # an API call of the scenario itself raised
                obs["api_raised"].append({"op": op, "exc": B.exc_name(e), "msg": str(e)[:80]})
        for t in tasks:
            try:
                await t
            except Exception as e:
                obs["api_raised"].append({"op": "task", "exc": B.exc_name(e)})
        if st["reann"] is not None and "reann_at" in st:
            inst, t_ = st["reann"]
            name = inst + "." + t_
            for (l, br, types) in st["listeners"]:
                if br in zc.record_manager.listeners and t_ in types:
                    evs = [ch for (lid, ch, tt, n) in st["events"] if lid == id(l) and n.lower() == name.lower() and ch in ("add", "rem")]
                    if not evs or evs[-1] != "add":
                        obs["canary_fail"].append({"name": name, "events": evs, "browser_types": types})
        close_prev()
        try:
            obs["inv"].append((len(obs["blocks"]), inv_line()))
        except Exception as e:
            obs["notes"].append("inv extraction failed: %s" % B.exc_name(e))
        st["on"] = False
        obs["end"] = sim.now()
        for b in pending:
            if b in zc.record_manager.listeners:
                await b.async_cancel()
        await zc._async_close()

    try:
        with B.Guard(B.CASE_S):
            sim.run(main)
    except B.HangDetected:
        obs["hung"] = True
        obs["escapes"].append({"exc": "HangDetected", "block": len(obs["blocks"]) - 1, "len": 0, "msg": "no return (outside datagram_received)"})
    finally:
        for cls, name, orig in saved:
            setattr(cls, name, orig)
    obs["errors"] = [{"exc": B.exc_name(e.get("exception")) if e.get("exception") is not None else "-",
                      "msg": str(e.get("exception") if e.get("exception") is not None else e.get("message"))[:120],
                      "where": str(e.get("handle") or e.get("future") or "")[:100]} for e in sim.errors]
    return obs


def op_line(b):
    o = b["op"]
    hs = C.hs
    if o == "r":
        return "r %d 0 %s %d %s" % (b["t"], hs(b["addr"]), b["port"], C.hx(bytes.fromhex(b["data"])))
    if o in ("g", "u", "x"):
        s = "%s %s %s %s %d %s" % (o, hs(b["name"]), hs(b["type"]), hs(b["server"]), b["port"], C.hx(bytes.fromhex(b["text"])))
        for k in ("v4", "v6"):
            s += " %d" % len(b[k]) + "".join(" " + C.hx(bytes.fromhex(a)) for a in b[k])
        return s + (" %d" % (1 if b["strict"] else 0) if o == "g" else "")
    if o == "b":
        return "b %d %d %s" % (b["t"], len(b["types"]), " ".join(hs(t) for t in b["types"]))
    if o == "c":
        return "c %d" % b["i"]
    if o == "l":
        return "l %s %d" % (hs(b["name"]), b["t"])
    if o == "f":
        return "f %d" % b["j"]
    if o == "p":
        return "p %d" % b["t"]
    if o == "a":
        return "a"
    if o == "d":
        return "d %d" % b["i"]
    if o == "t":
        return "t %s" % hs(b["addr"])
    raise ValueError(o)


def impl_summary(b):
    a = b["after"]
    j = lambda l: ",".join(l) if l else "-"
    return "ok/%s/%s/%d/%d/%d/%d/%s" % (j(b["cbs"]), j(sorted(C.hs(k) for k in a["keys"])), 1 if a["has"] else 0, a["cached"], a["browsers"], a["lookups"],
                                         j(a["users"]))


ENC_EXC = ("NamePartTooLongException", "struct.error")
D28_SIG = "C15:unencodable-registration-escapes"
D28_WHAT = ("a service whose records the encoder cannot write (server label > 63 bytes / port > 65535 / TXT > 65535 bytes) was accepted by "
            "async_register_service -- only the instance name is validated, the probe carries only the type, registry.async_add runs before the "
            "broadcast task fails -- and stays registered: a query for it then raises %s out of %s")


FR4_SIG = "C15:dry-run-shielded-by-oversize-record"
FR4_WHAT = ("F-R4: the D28 dry run is ONE packets() call on the announcement (PTR, SRV, TXT, addresses): the %s record of %s alone exceeds 8966 bytes "
            "(%d bytes), packets() stops there without raising, and the %s record behind it, which cannot be encoded (%s), is never looked at; the service "
            "is accepted and registered, and the query for that record raises %s out of %s")


def _alone_size(owner, rdata_names, rdata_fixed):
    """bytes of a datagram holding this one record: header, owner name, 10 fixed bytes, rdata; names are compressed against the
    suffixes already written in this datagram (as `write_name` does).  Computed from the arguments, without the library."""
    seen = set()
    total = 12

    def write(name):
        nonlocal total
        labels = [l.encode() for l in name.rstrip(".").split(".")]
        for i in range(len(labels)):
            suffix = tuple(labels[i:])
            if suffix in seen:
                total += 2
                return
            seen.add(suffix)
            total += 1 + len(labels[i])
        total += 1
    write(owner)
    total += 10 + rdata_fixed
    for n in rdata_names:
        write(n)
    return total


def _long_label(name):
    return any(len(l.encode()) > 63 for l in name.rstrip(".").split("."))


def announcement_records(step):
    """the announcement of a `register` step, in the order `_add_broadcast_answer` writes it: [(kind, owner, qtypes that ask for it, bytes alone,
    reason it cannot be encoded or None)] -- from the step's fields only"""
    name, type_, server, port = step["name"], step["type"], step.get("server") or step["name"], step["port"]
    text = bytes.fromhex(step["text"]) if "text" in step else b"\x03k=v"
    out = [("PTR", type_, (12, 255), _alone_size(type_, [name], 0), "a label over 63 bytes" if _long_label(type_) or _long_label(name) else None),
           ("SRV", name, (33, 255), _alone_size(name, [server], 6),
            "a label over 63 bytes" if _long_label(name) or _long_label(server) else ("port over 65535" if port > 65535 else None)),
           ("TXT", name, (16, 255), _alone_size(name, [], len(text)),
            "a label over 63 bytes" if _long_label(name) else ("rdata of %d bytes: the length field has 16 bits" % len(text) if len(text) > 65535 else None))]
    for a in step.get("addrs", [SELF_IP]):
        out.append(("AAAA" if ":" in a else "A", server, (28,) if ":" in a else (1,), _alone_size(server, [], 16 if ":" in a else 4),
                    "a label over 63 bytes" if _long_label(server) else None))
    return out


def shielded_class(sc, data):
    """F-R4's input class, from the INPUT alone: some registered service's announcement has a record that alone exceeds 8966 bytes and, behind
    it, a record that cannot be encoded, and the datagram `data` asks for that shielded record.  Returns the words for the report, or None."""
    pq = B.parse_plain_query(data)
    if pq is None:
        return None
    for st in sc["steps"]:
        if st.get("op") != "register":
            continue
        recs = announcement_records(st)
        for i, (kind, owner, qtypes, alone, bad) in enumerate(recs):
            if alone <= 8966:
                continue
            for (kind2, owner2, qtypes2, _alone2, bad2) in recs[i + 1:]:
                if bad2 is not None and any(qn.lower() == owner2.lower() and qt in qtypes2 for (qn, qt, _qc) in pq[1]):
                    return (kind, st["name"], alone, kind2, bad2)
    return None


def unsafe_scenario(sc):
    return any(st.get("unsafe") for st in sc["steps"])


def judge(obs, sc=None):
    """stage O for a scenario whose user code behaves (no raising listener / handler).  With an *unsafe* registration in the scenario
    (arguments the encoder cannot write): the API call may raise the encoder's exception to its caller -- that is the repaired
    behaviour (D28) -- but nothing may escape into the loop afterwards."""
    bad = []
    unsafe = sc is not None and unsafe_scenario(sc)
    for e in obs["escapes"]:
        if e["exc"] == "HangDetected":
            bad.append(("C15:hang", "a call into the library did not return within the CPU-time budget (api stream, block %d, %d bytes): an unbounded loop" % (e["block"], e["len"])))
            continue
        blk = obs["blocks"][e["block"]] if 0 <= e.get("block", -1) < len(obs["blocks"]) else {}
        fr4 = shielded_class(sc, bytes.fromhex(blk["data"])) if sc is not None and e["exc"] in ENC_EXC and blk.get("op") == "r" else None
        if fr4 is not None:
            bad.append((FR4_SIG, FR4_WHAT % (fr4 + (e["exc"], "datagram_received (block %d)" % e["block"]))))
        elif unsafe and e["exc"] in ENC_EXC:
            bad.append((D28_SIG, D28_WHAT % (e["exc"], "datagram_received (block %d)" % e["block"])))
        else:
            bad.append(("C15:escape:%s" % e["exc"], "%s escaped datagram_received (api stream, block %d, %d bytes)" % (e["exc"], e["block"], e["len"])))
    for e in obs["errors"]:
        if e["exc"] == "HangDetected":
            bad.append(("C15:hang", "a timer callback or task step did not return within the CPU-time budget (api stream): %s" % e["where"][:60]))
            continue
        if unsafe and e["exc"] in ENC_EXC:
            bad.append((D28_SIG, D28_WHAT % (e["exc"], "a timer callback (%s)" % e["where"][:60])))
        else:
            bad.append(("C15:loop-exception:%s" % e["exc"], "the loop exception handler was called (api stream): %s %s" % (e["msg"], e["where"])))
    for c in obs.get("canary_fail", []):
        bad.append(("C15:canary-reannouncement-unseen", "a browser started in the millisecond a cached pointer of its type ran out was never told Added for %s although the "
                    "service announced itself again afterwards (its Added/Removed callbacks for it: %s)" % (c["name"], c["events"])))
    for e in obs["api_raised"]:
        if e["exc"] in ("ServiceNameAlreadyRegistered", "NonUniqueNameException", "BadTypeInNameException"):
            continue
        if unsafe and e["exc"] in ENC_EXC:
            continue     # to the caller (register / update) or inside the broadcast task: not the event loop
        bad.append(("C15:api-raised:%s" % e["exc"], "an API call of a well-formed scenario raised %s (%s)" % (e["exc"], e["op"])))
    return bad


def compare(res, sc, obs, ml, stream="c15api"):
    mt = ml.split(" ") if ml else []
    blocks = obs["blocks"]
    for k, b in enumerate(blocks):
        want = impl_summary(b) if "raised" not in b else "error:" + b["raised"]
        got = mt[k] if k < len(mt) else None
        if got is None or (want != got and not (want.startswith("error:") and got.startswith(want))):
            res.disagree(stream, {"scenario": sc, "block": k, "op": {x: b[x] for x in b if x not in ("after",)}}, want, (got or ml[:120]))
            return False
        if "raised" in b:
            return True   # the model does not describe the half-updated state after a raise
    return True


INV_NAMES = ["index", "regsafe", "cacheshape", "svcshape", "names", "fields", "hd", "pending", "typessafe", "heapnames", "lookok"]
INV_OK = " ".join("1" for _ in INV_NAMES)


def corpus_scenarios():
    out = []
    for name, body in C.load_corpus("C15"):
        c = body.get("case", body)
        if "steps" in c and "role" in body:
            out.append((name, body))
    return out


def check_corpus(res, name, body, seen):
    """scenario replays of the corpus, by role:
    * `defect`     -- a defect's input (D28): judged like any scenario; on a repaired tree it simply no longer violates;
    * `repaired`   -- user code that raises, on a path the library repaired (D24b): the repaired behaviour is demanded, the old one is a violation;
    * `hypothesis` -- behaviour outside the property's quantifier (the application's callbacks raise / its arguments are unencodable):
                      run to keep the note honest, reported as a note, never a violation."""
    sc = body["case"]
    obs = simulate(sc)
    res.evaluations += len(obs["blocks"])
    role = body["role"]
    res.count("corpus-scenario:" + role)
    # corpus scenarios are stage O only: their block logs are not handed to the driver (several are outside the hypotheses of the closed
    # theorems on purpose -- `model_on: false` in the file says so explicitly, e.g. F-R4's input is outside `ArgsInRange.fits`)
    res.count("corpus-scenario-not-replayed-through-the-model" + ("" if body.get("model_on", True) else ":outside-hypotheses"))
    if role == "defect":
        for sig, what in judge(obs, sc):
            B.violate_limited(res, seen, sig, what, {"file": name, "scenario": sc})
        return obs
    if role == "repaired":
        exp = body["expect"]
        esc = [e for e in obs["escapes"]]
        got = [c for b in obs["blocks"] for c in b.get("cbs", [])]
        want = ["%d:add:%s:%s" % (exp["browser"], C.hs(exp["type"]), C.hs(n + "." + exp["type"])) for n in exp["delivered"]]
        wedged = len(esc) > exp["escapes"] or any(w not in got for w in want)
        if wedged:
            B.violate_limited(res, seen, body["sig"], body["what"] + " (escapes: %d, expected %d; missing callbacks: %s)"
                              % (len(esc), exp["escapes"], [w for w in want if w not in got]), {"file": name, "scenario": sc})
        for e in obs["errors"]:
            B.violate_limited(res, seen, "C15:loop-exception:%s" % e["exc"], "the loop exception handler was called (api stream): %s" % e["msg"],
                              {"file": name, "scenario": sc})
        return obs
    # hypothesis
    seen_ = sorted({"escape:" + e["exc"] for e in obs["escapes"]} | {"loop:" + e["exc"] for e in obs["errors"]})
    res.notes.append("outside the quantifier (hypothesis %s): %s -- observed %s" % (body["hypothesis"], body["what"], seen_))
    return obs


def run_stream(res, ctx, n):
    acc = []
    seen = {}
    hung = 0
    for name, body in corpus_scenarios():
        check_corpus(res, name, body, seen)
    for idx in range(n):
        sc = gen_scenario(ctx["seed"], idx)
        obs = simulate(sc)
        res.evaluations += len(obs["blocks"])
        for b in obs["blocks"]:
            res.count("api-block:" + b["op"])
            res.nontriv(("api", b["op"], bool(b.get("cbs")), b["after"]["browsers"] > 0, b["after"]["lookups"] > 0, b["after"]["cached"] > 0) if "after" in b else ("api", b["op"], "raised"))
        for sig, what in judge(obs, sc):
            hd = [e for e in obs["escapes"] if e["exc"] == "HangDetected" and "data" in e]
            if sig == "C15:hang" and hd:
                B.violate_limited(res, seen, sig, what, {"scenario": {"seed": sc["seed"], "idx": sc["idx"], "steps": [
                    {"op": "register", "name": "s1." + TA, "type": TA, "server": "ha.local.", "port": 80, "coop": True},
                    {"op": "lookup", "inst": "i1", "type": TB, "timeout": 3000},
                    {"op": "deliver", "kind": "raw", "data": hd[0]["data"], "src": hd[0]["src"]}]}})
            else:
                B.violate_limited(res, seen, sig, what, {"scenario": sc})
        if idx % 40 == 39:
            import gc
            gc.collect()
        if obs.get("hung"):
            hung += 1
            if hung >= 2:
                res.notes.append("api stream stopped after %d scenarios: %d of them contained a call into the library that did not return" % (idx + 1, hung))
                break
            continue          # the block log of a hung scenario is not replayed
        acc.append((sc, obs))
    if not ctx["driver_ok"] or not acc:
        return
    # the block log through the closed composite over BOTH downstreams: `down` (scripted routing; `C15_history_closed_partial`) and
    # `downQ` (per-question routing, known answers, the four answer sets; `C15_history_closedQ_partial` and the third-clause theorems)
    body = ["%d %s" % (len(o["blocks"]), " ".join(op_line(b) for b in o["blocks"])) for _sc, o in acc]
    try:
        out = C.run_driver(["c15api " + x for x in body] + ["c15apiq " + x for x in body])
    except C.DriverUnavailable as ex:
        res.notes.append("driver unavailable: %s" % ex)
        return
    nbad = 0
    for stream, part in (("c15api", out[:len(acc)]), ("c15apiq", out[len(acc):])):
        for (sc, obs), ml in zip(acc, part):
            res.count("replayed-over:" + ("down" if stream == "c15api" else "downQ"))
            if not compare(res, sc, obs, ml, stream):
                nbad += 1
                if nbad >= 5:
                    break
    # the clauses of the composite invariant, evaluated on the states extracted from the real instance
    inv = [(sc, k, line) for sc, o in acc for k, line in o["inv"]]
    try:
        iout = C.run_driver([line for _sc, _k, line in inv])
    except C.DriverUnavailable as ex:
        res.notes.append("driver unavailable: %s" % ex)
        return
    nbad = 0
    for (sc, k, line), ml in zip(inv, iout):
        res.evaluations += 1
        res.count("inv-states")
        if ml != INV_OK and unsafe_scenario(sc) and ml.split(" ") == ["1", "0"] + ["1"] * (len(INV_NAMES) - 2):
            # the registered-but-unencodable service of defect D28 is exactly a violation of `RegSafe`: reported by stage O, not again here
            res.count("inv-regsafe-broken-by-unsafe-registration")
            continue
        if ml != INV_OK:
            bits = dict(zip(INV_NAMES, ml.split(" "))) if ml and ml[0] in "01" else ml[:80]
            res.disagree("c15inv", {"scenario": sc, "before_block": k, "line": line[:4000]}, INV_OK, bits)
            nbad += 1
            if nbad >= 5:
                break


def replay(body):
    case = body.get("case", body)
    sc = case.get("scenario", case)
    obs = simulate(sc)
    out = {"violations": ["%s: %s" % b for b in judge(obs, sc)], "escapes": obs["escapes"], "loop_errors": obs["errors"], "api_raised": obs["api_raised"],
           "blocks": len(obs["blocks"])}
    out["violates"] = bool(out["violations"])
    try:
        ml = C.run_driver(["c15api %d %s" % (len(obs["blocks"]), " ".join(op_line(b) for b in obs["blocks"]))])[0]
        mt = ml.split(" ")
        out["model_disagrees"] = [k for k, b in enumerate(obs["blocks"]) if "raised" not in b and (k >= len(mt) or mt[k] != impl_summary(b))][:5]
    except C.DriverUnavailable:
        pass
    return out
