"""Shared machinery of the C05 / C06 / C04 harnesses (cache, record manager, browser callbacks).

Three independent parties look at one history of operations:

* the implementation: a real `DNSCache` + real `RecordManager` (+ real `_ServiceBrowserBase` instances) hanging off a
  stub `zc`; every datagram goes records -> real `DNSOutgoing` -> bytes -> real `DNSIncoming(now=...)` ->
  `RecordManager.async_updates_from_response`; the purge is the real `AsyncEngine._async_cache_cleanup` body run
  against the stub.  `World.apply(op)` returns the observation of one op (strings only);
* the Lean model: `build_line(probes, ops)` is one `crun` line for `zcdriver`, `render(obs)` is the string the
  driver must print for that op (stage C);
* `Ref`: a flat dictionary reading of RFC 6762 section 10 / the C06 ingest rules, written without looking at how
  the cache is organised (stage O).

History ops (JSON-able):
    ["D", now, [rec...], [[code, lid, kind, target, ...]...]]   response datagram (+ scripted listener reactions; kind 1 = add, 0 = remove,
                                                             2 = add WITH a question: [code, lid, 2, target, dt, qname, qtype, qclass] -- the clock
                                                             reads now+dt inside that async_add_listener call; code = 10*depth + phase: phase 1 =
                                                             async_update_records, 2 = ..._complete; depth 0 = the datagram's own rounds, depth d+1 =
                                                             the callbacks run by an `add with a question` of a depth-d callback: its purge's two
                                                             rounds and the replay to the new listener),
                                                             decoded by the harness and handed to RecordManager.async_updates_from_response
    ["W", now, [rec...], [[code, lid, kind, target, ...]...]]   the same datagram as bytes through the real AsyncListener.datagram_received
                                                             (duplicate-packet guard, decode, routing to the record manager)
    ["X", now]                                               periodic purge
    ["LA", id] / ["LR", id]                                  add / remove a recording listener
    ["BA", id, now, [type...]] / ["BR", id]                  create / cancel a browser
    ["BP", id, change, name, new_id, [type...]]              plan: when browser id's service listener is told change ("A"/"R"/"U") for the
                                                             instance `name` (case-insensitively) it creates browser new_id on the types,
                                                             once, from INSIDE the handler (the "browse the types, then browse each type" pattern)
record spec:  [kind, name, type, class15, flush, ttl, *rdata]
    p: alias | s: priority, weight, port, server | t: hex text | a: hex address | h: cpu, os | n: next_name, [rdtypes]
All times are integer milliseconds (carried as integer-valued floats into the library), never 0.
"""
from __future__ import annotations

import re

from . import common as C

import zeroconf._cache as _zc_cache  # noqa: E402
import zeroconf._core as _zc_core  # noqa: E402
import zeroconf._dns as _zc_dns  # noqa: E402
import zeroconf._engine as _zc_engine  # noqa: E402
import zeroconf._handlers.record_manager as _zc_rm  # noqa: E402
import zeroconf._listener as _zc_listener  # noqa: E402
import zeroconf._protocol.incoming as _zc_incoming  # noqa: E402
import zeroconf._services.browser as _zc_browser  # noqa: E402
from zeroconf import const as K  # noqa: E402
from zeroconf._cache import DNSCache  # noqa: E402
from zeroconf._dns import DNSAddress, DNSHinfo, DNSNsec, DNSPointer, DNSQuestion, DNSService, DNSText  # noqa: E402
from zeroconf._history import QuestionHistory  # noqa: E402
from zeroconf._protocol.incoming import DNSIncoming  # noqa: E402
from zeroconf._protocol.outgoing import DNSOutgoing  # noqa: E402
from zeroconf._services import ServiceListener  # noqa: E402
from zeroconf._updates import RecordUpdateListener  # noqa: E402

T0 = 1_000_000  # first instant of every history (0 is falsy inside the library)

TRUSTED_COMMON = [
    "instant 0 is falsy in DNSRecord.__init__ / DNSIncoming (`created or current_time_millis()`): the harness starts at 1 000 000 ms; the theorems quantify over all instants",
    "harness/cachecommon.py: in the op-sequence streams a stub `zc` (cache, record_manager, question_history, async_notify_all, dummy loop) "
    "stands in for Zeroconf; DNSCache, RecordManager, _ServiceBrowserBase (callback side), Zeroconf.async_add_listener / "
    "async_remove_listener (run unbound on the stub), AsyncListener (W ops), AsyncEngine._async_cache_cleanup, DNSOutgoing and "
    "DNSIncoming are real code; the `live` stream of C04 runs a whole real Zeroconf under the virtual-time simulator",
    "the injected clock: `current_time_millis` is replaced in zeroconf._cache/_dns/_engine/_listener/_core/_protocol.incoming/"
    "_handlers.record_manager/_services.browser by a function returning the op's integer `now`; after the instant a datagram's arrival "
    "time has been read (and during purges / flagged browser creations) it advances 1 ms per reading; sub-millisecond float behaviour "
    "is not exercised (a non-integral lifetime in the cache is rendered exactly and so differs from the model and the reference)",
    "harness/cachecommon.py `Ref`: my flat reading of RFC 6762 section 10 and of the C06 sentence (the oracle of stage O)",
    "str.lower() is ASCII + Latin-1 lowering in the driver (Driver/C05.lean lowerD); the vocabularies are ASCII plus ß (unchanged by "
    "str.lower) and É/é (folded by it)",
]

# ------------------------------------------------------------------------------------------
# injected clock

_CLOCK = [None]
_REAL_NOW = _zc_cache.current_time_millis
_CLOCK_MODULES = (_zc_cache, _zc_dns, _zc_engine, _zc_rm, _zc_browser, _zc_listener, _zc_incoming, _zc_core)


_TICKING = [None]   # during a purge op: number of clock readings so far


def _now():
    """the injected clock.  During a purge op it advances by 1 ms per reading (now, now+1, now+2, ...): code that reads the clock once per
    event cannot tell, code that mixes two readings of one event (seeded defect C04-w3-seed3) is handed two different instants"""
    v = _CLOCK[0]
    if v is None:
        return _REAL_NOW()
    if _TICKING[0] is not None:
        v = v + _TICKING[0]
        _TICKING[0] += 1
    return v


def install_clock():
    for m in _CLOCK_MODULES:
        if getattr(m, "current_time_millis", None) is not _now:
            if not hasattr(m, "current_time_millis"):
                raise RuntimeError("%s no longer reads current_time_millis: clock injection needs a new hook" % m.__name__)
            m.current_time_millis = _now


# ------------------------------------------------------------------------------------------
# record specs <-> real records <-> lines


def sep(s, l):
    return s.join(l) if l else "~"


def mk_record(spec, created=1.0):
    kind, name, type_, cls, flush, ttl = spec[:6]
    rd = spec[6:]
    c = cls | (K._CLASS_UNIQUE if flush else 0)
    created = float(created)
    if kind == "p":
        return DNSPointer(name, type_, c, ttl, rd[0], created)
    if kind == "s":
        return DNSService(name, type_, c, ttl, rd[0], rd[1], rd[2], rd[3], created)
    if kind == "t":
        return DNSText(name, type_, c, ttl, bytes.fromhex(rd[0]), created)
    if kind == "a":
        return DNSAddress(name, type_, c, ttl, bytes.fromhex(rd[0]), created=created)
    if kind == "h":
        return DNSHinfo(name, type_, c, ttl, rd[0], rd[1], created)
    if kind == "n":
        return DNSNsec(name, type_, c, ttl, rd[0], list(rd[1]), created)
    raise ValueError(kind)


def spec_line(spec, created, ttl=None):
    """the `rec_line` of the record a spec denotes, computed without zeroconf objects"""
    kind, name, type_, cls, flush, t = spec[:6]
    rd = spec[6:]
    head = "%s %s %d %d %s %d %d" % (kind, C.hs(name), type_, cls, "1" if flush else "0", t if ttl is None else ttl, created)
    if kind == "p":
        return "%s %s" % (head, C.hs(rd[0]))
    if kind == "s":
        return "%s %d %d %d %s" % (head, rd[0], rd[1], rd[2], C.hs(rd[3]))
    if kind == "t":
        return "%s %s" % (head, rd[0] if rd[0] else "-")
    if kind == "a":
        return "%s %s -" % (head, rd[0])
    if kind == "h":
        return "%s %s %s" % (head, C.hs(rd[0]), C.hs(rd[1]))
    if kind == "n":
        return "%s %s %s" % (head, C.hs(rd[0]), C.natlist(rd[1]))
    raise ValueError(kind)


def _unhs(h):
    return "" if h == "-" else bytes.fromhex(h).decode("utf-8", "surrogatepass")


def RL(r):
    """`common.rec_line`, except that a lifetime that is not a whole number (of seconds / milliseconds) is rendered exactly instead
    of being truncated by `int()`: every instant and TTL the harness feeds is integral, so a fractional `created` / `ttl` in the
    cache is the code's own arithmetic and must not be hidden"""
    s = C.rec_line(r)
    if r.created != int(r.created) or r.ttl != int(r.ttl):
        f = s.split(" ")
        f[5], f[6] = repr(float(r.ttl)), repr(float(r.created))
        s = " ".join(f)
    return s


def _num(x):
    try:
        return int(x)
    except ValueError:
        return float(x)


_PARSE_CACHE = {}


def parse_line(line):
    """observed record line -> (ident, spec, created, ttl); memoised"""
    v = _PARSE_CACHE.get(line)
    if v is not None:
        return v
    f = line.split(" ")
    kind, name, type_, cls, flush, ttl, created = f[0], _unhs(f[1]), int(f[2]), int(f[3]), int(f[4]), _num(f[5]), _num(f[6])
    rest = f[7:]
    if kind == "p":
        rd = [_unhs(rest[0])]
    elif kind == "s":
        rd = [int(rest[0]), int(rest[1]), int(rest[2]), _unhs(rest[3])]
    elif kind == "t":
        rd = ["" if rest[0] == "-" else rest[0]]
    elif kind == "a":
        rd = [rest[0]]
        if rest[1] != "-":
            rd.append(int(rest[1]))
    elif kind == "h":
        rd = [_unhs(rest[0]), _unhs(rest[1])]
    elif kind == "n":
        rd = [_unhs(rest[0]), [] if rest[1] == "-" else [int(x) for x in rest[1].split(",")]]
    else:
        raise ValueError(line)
    spec = [kind, name, type_, cls, flush, ttl] + rd
    v = (ident_of(spec), spec, created, ttl)
    if len(_PARSE_CACHE) < 200000:
        _PARSE_CACHE[line] = v
    return v


def ident_of(spec):
    """identity of a record for the reference model: (class, lower name, type, class_, rdata with alias/server lowered)"""
    kind, name, type_, cls = spec[0], spec[1], spec[2], spec[3]
    rd = spec[6:]
    if kind == "p":
        r = (rd[0].lower(),)
    elif kind == "s":
        r = (rd[0], rd[1], rd[2], rd[3].lower())
    elif kind == "n":
        r = (rd[0], tuple(sorted(rd[1])))
    else:
        r = tuple(rd)
    return (kind, name.lower(), type_, cls, r)


def ident_str(i):
    return "%s/%s/%d/%d/%s" % (i[0], i[1], i[2], i[3], "/".join(str(x) for x in i[4]))


def op_opts(op):
    """optional 5th element of a D / W op: {"sec": [0|1|2 per record: answer / authority / additional section; non-decreasing, so that the
    record list is in wire order], "src6": 1 (W: the datagram comes from an IPv6 source, i.e. a 4-tuple address)}"""
    return op[4] if len(op) > 4 and isinstance(op[4], dict) else {}


def packet_of(objs, sec=None):
    out = DNSOutgoing(K._FLAGS_QR_RESPONSE | K._FLAGS_AA)
    for k, r in enumerate(objs):
        s = sec[k] if sec else 0
        if s == 0:
            out.add_answer_at_time(r, 0)
        elif s == 1:
            out.add_authorative_answer(r)
        else:
            out.add_additional_answer(r)
    pk = out.packets()
    if len(pk) != 1:
        raise HarnessError("datagram of %d records does not fit one packet" % len(objs))
    return pk[0]


class HarnessError(Exception):
    """my machinery is broken (never a verdict about the implementation)"""


# ------------------------------------------------------------------------------------------
# the implementation side


class _Loop:
    """placeholder for zc.loop (only asserted to be non-None by _ServiceBrowserBase)"""


class _NoQueries:
    """`zc.registry` / `zc.query_handler` of the stub: the histories contain responses only; a listener that routed one of them to the
    query side would raise here (an observation, hence a verdict)"""

    has_entries = False

    def __getattr__(self, name):
        raise AssertionError("the query side (%s) was reached by a response datagram" % name)


class _Zc:
    def __init__(self):
        self.cache = DNSCache()
        self.question_history = QuestionHistory()
        self.loop = _Loop()
        self.done = False
        self.started = True
        self.notified = 0
        self.record_manager = _zc_rm.RecordManager(self)
        self.registry = _NoQueries()
        self.query_handler = _NoQueries()

    def async_notify_all(self):
        self.notified += 1

    # the real `Zeroconf.async_add_listener` / `async_remove_listener` bodies (the path every browser and lookup takes), run unbound
    # on the stub -- as `_async_cache_cleanup` is
    def async_add_listener(self, listener, question):
        _zc_core.Zeroconf.async_add_listener(self, listener, question)

    def async_remove_listener(self, listener):
        _zc_core.Zeroconf.async_remove_listener(self, listener)


class _RmProxy:
    """sits between the real AsyncListener and the real RecordManager: notes that (and with which message) the listener handed a
    datagram on, and lets the clock start ticking only then"""

    def __init__(self, world):
        self.w = world

    def async_updates_from_response(self, msg):
        w = self.w
        w.handed.append((int(msg.now) if msg.now == int(msg.now) else msg.now, [RL(r) for r in msg.answers()]))
        return w.rm.async_updates_from_response(msg)

    def __getattr__(self, name):
        return getattr(self.w.rm, name)


class _EngineStub:
    def __init__(self, zc):
        self.zc = zc

    def _async_schedule_next_cache_cleanup(self):
        pass


class _Recording(RecordUpdateListener):
    """records, inside both callbacks, the pairs rendered live and the cache as names()+entries_with_name show it;
    then runs the scripted reactions of the current datagram"""

    def __init__(self, world, lid):
        self.w = world
        self.lid = lid

    def __hash__(self):
        # small distinct hashes: a set of these iterates in ascending id order (spy first), independent of addresses,
        # so "who was called before a callback raised" is reproducible
        return 0 if self.lid is None else int(self.lid)

    def async_update_records(self, zc, now, records):
        w = self.w
        pairs = [(RL(u.new), None if u.old is None else RL(u.old)) for u in records]
        for u in records:
            n, o = u[0], u[1]        # the legacy `new, old = update` protocol (RecordUpdate.__getitem__)
            if n is not u.new or o is not u.old:
                raise RuntimeError("RecordUpdate.__getitem__ disagrees with .new/.old")
        if w.depth == 0:
            w.outer = 1
        w.log.append(("u", self.lid, int(now), pairs, w.snapshot(), w.depth))
        self._react(1)

    def async_update_records_complete(self):
        w = self.w
        if w.depth == 0:
            w.outer = 2
        w.log.append(("c", self.lid, None, None, w.snapshot(), w.depth))
        self._react(2)

    def _react(self, phase):
        if self.lid is None:
            return
        w = self.w
        code = 10 * w.depth + phase
        keep = w.zc.notified  # async_remove_listener notifies too; `n` reports async_updates_complete(new) only
        for r in list(w.reacts):
            ph, lid, kind, target = r[0], r[1], r[2], r[3]
            if ph == code and lid == self.lid:
                t = w.listener(target)
                if kind == 2:
                    # async_add_listener WITH a question, the clock reading now0 + dt: purge (with its own two listener rounds), add, replay
                    reading = w.now0 + r[4]
                    entry = [ph, lid, 2, target, w.outer, reading]
                    w.executed.append(entry)
                    w.log.append(("a", self.lid, reading, entry, None, w.depth))
                    saved, ticking = _CLOCK[0], _TICKING[0]
                    _CLOCK[0] = float(reading)
                    _TICKING[0] = None      # the scripted reading is the one reading of that call
                    w.depth += 1
                    try:
                        w.rm.async_add_listener(t, DNSQuestion(r[5], r[6], r[7]))
                    except BaseException:
                        w.failed.append(entry)
                        w.zc.notified = keep
                        raise
                    finally:
                        w.depth -= 1
                        _CLOCK[0], _TICKING[0] = saved, ticking
                elif kind:
                    w.rm.async_add_listener(t, None)
                    entry = [ph, lid, 1, target, w.outer, None]
                    w.executed.append(entry)
                    w.log.append(("a", self.lid, None, entry, None, w.depth))
                else:
                    # no guard: removing a listener that is not registered is what a browser's `_async_cancel` or a lookup's
                    # `finally` does when somebody else removed it first
                    entry = [ph, lid, 0, target, w.outer, None]
                    try:
                        w.rm.async_remove_listener(t)
                    except BaseException:
                        w.failed.append(entry)
                        w.zc.notified = keep
                        raise
                    w.executed.append(entry)
                    w.log.append(("a", self.lid, None, entry, None, w.depth))
        w.zc.notified = keep


class _Legacy(RecordUpdateListener):
    """a listener of the old style: only `update_record` (reached through the base class's async_update_records shim)"""

    def __init__(self, world):
        self.w = world

    def __hash__(self):
        return 6

    def update_record(self, zc, now, record):
        if self.w.depth == 0:       # nested purge rounds (an `add with a question` from a callback) reach the shim too: not compared
            self.w.legacy.append(RL(record))


class _SvcListener(ServiceListener):
    def __init__(self, world, bid):
        self.w = world
        self.bid = bid

    def _seen(self, zc, type_, name):
        # the lookup a consumer would do from inside the callback
        ent = [r for r in zc.cache.entries_with_name(type_) if isinstance(r, DNSPointer) and r.type == K._TYPE_PTR and r.alias == name]
        return bool(ent) and zc.cache.get_by_details(type_, K._TYPE_PTR, K._CLASS_IN) is not None

    def add_service(self, zc, type_, name):
        self.w.cbs.append((self.bid, "A", type_, name, self._seen(zc, type_, name), self.w.snapshot()))
        self.w.on_service_event(self.bid, "A", name)

    def remove_service(self, zc, type_, name):
        self.w.cbs.append((self.bid, "R", type_, name, None, self.w.snapshot()))
        self.w.on_service_event(self.bid, "R", name)

    def update_service(self, zc, type_, name):
        self.w.cbs.append((self.bid, "U", type_, name, None, self.w.snapshot()))
        self.w.on_service_event(self.bid, "U", name)


class _DummyTask:
    """stands for the query-sender task `_async_start` creates (the scheduler is C10's subject)"""

    def cancel(self):
        pass


def _fake_ensure_future(coro):
    coro.close()
    return _DummyTask()


class _InlineQueue:
    """`ServiceBrowser.queue` without the delivery thread: `run()` does `_fire_service_state_changed_event(event)` for every
    event it gets from the queue; here `put` does it at once"""

    def __init__(self, browser):
        self.b = browser

    def put(self, event):
        if event is not None:
            self.b._fire_service_state_changed_event(event)


class _ThreadedLike(_zc_browser._ServiceBrowserBase):
    """a browser that runs the *real* `ServiceBrowser.async_update_records_complete` override (the threaded API's own
    queue-and-clear loop) with an inline queue instead of the delivery thread"""

    async_update_records_complete = _zc_browser.ServiceBrowser.async_update_records_complete

    def __init__(self, *a, **kw):
        super().__init__(*a, **kw)
        self.queue = _InlineQueue(self)


class _AsyncLike(_zc_browser._ServiceBrowserBase):
    """the asyncio flavour (inline delivery from the completion loop)"""


def _browser_hash(self):
    # small distinct hashes (7 + id, ids 0..6): with the fillers below the listener set and its copies always have tables of >= 16
    # slots, so a set of these iterates in ascending hash order: recording listeners (their ids), then browsers by id
    return 7 + int(getattr(self, "_vbid", 0))


_AsyncLike.__hash__ = _browser_hash
_ThreadedLike.__hash__ = _browser_hash


class _Filler(RecordUpdateListener):
    """an inert listener; three of them keep the set's hash table large enough for the small hashes above to be slot numbers"""

    def __init__(self, h):
        self.h = h

    def __hash__(self):
        return self.h

    def async_update_records(self, zc, now, records):
        pass

    def async_update_records_complete(self):
        pass


def start_browser(b):
    """the real `_async_start` (listener registration with the PTR questions = initial replay); only
    `asyncio.ensure_future` is replaced, so that no event loop is needed"""
    orig = _zc_browser.asyncio.ensure_future
    _zc_browser.asyncio.ensure_future = _fake_ensure_future
    try:
        b._async_start()
    finally:
        _zc_browser.asyncio.ensure_future = orig


class Probes:
    def __init__(self, names, recs, triples):
        self.names = list(names)
        self.recs = [list(r) for r in recs]
        self.triples = [list(t) for t in triples]
        self.objs = [mk_record(r) for r in self.recs]

    def to_json(self):
        return {"names": self.names, "recs": self.recs, "triples": self.triples}

    @staticmethod
    def from_json(j):
        return Probes(j["names"], j["recs"], j["triples"])


def probes_for(specs, extra_names=()):
    """probe vocabulary derived from record specs: every spelled owner / SRV host name, one probe record per distinct
    spelled record, every (owner, type, class) triple, plus absent ones"""
    names, recs, triples = [], [], []
    seen_r = set()
    for s in specs:
        for n in [s[1]] + ([s[9]] if s[0] == "s" else []):
            if n not in names:
                names.append(n)
        p = list(s)
        p[4], p[5] = 0, 0
        k = repr(p)
        if k not in seen_r:
            seen_r.add(k)
            recs.append(p)
        t = [s[1], s[2], s[3]]
        if t not in triples:
            triples.append(t)
    for n in extra_names:
        if n not in names:
            names.append(n)
    names.append("absent.local.")
    recs.append(["a", "absent.local.", 1, 1, 0, 0, "0a000063"])
    triples.append(["absent.local.", 1, 1])
    if triples:
        triples.append([triples[0][0], triples[0][1], 255])
    return Probes(names, recs, triples)


class World:
    def __init__(self, probes):
        install_clock()
        self.p = probes
        self.zc = _Zc()
        self.rm = self.zc.record_manager
        self.cache = self.zc.cache
        self.engine = _EngineStub(self.zc)
        # the real listener object of one socket, in front of the real record manager (W ops)
        self.alistener = _zc_listener.AsyncListener(self.zc)
        self.alistener._record_manager = _RmProxy(self)
        self.handed = []
        self.spy = _Recording(self, None)
        self.rm.async_add_listener(self.spy, None)
        self.legacy = []
        self.legacy_listener = _Legacy(self)
        self.rm.async_add_listener(self.legacy_listener, None)
        for h in (5, 14, 15):
            self.rm.async_add_listener(_Filler(h), None)
        self.plans = []
        self._listeners = {}
        self.browsers = {}
        self.log = []
        self.cbs = []
        self.reacts = []
        self.executed = []
        self.failed = []
        self.cbs2 = []
        self.depth = 0      # nesting depth of the callback being run (0 = the op's own rounds)
        self.outer = 0      # phase (1 update / 2 complete) of the depth-0 callback being run
        self.now0 = None    # arrival time of the datagram being ingested

    def listener(self, lid):
        l = self._listeners.get(lid)
        if l is None:
            l = self._listeners[lid] = _Recording(self, lid)
        return l

    def create_browser(self, bid, types, ticking=False):
        """what a consumer does to start a browser: construct it and run the real `_async_start` (listener registration with the PTR
        questions = purge + initial replay).  Even ids: the asyncio flavour's callback path; odd ids: the threaded flavour's override.
        A second, plain handler is registered next to the listener (Signal.fire with several handlers)"""
        cls = _AsyncLike if bid % 2 == 0 else _ThreadedLike

        def second(zeroconf, service_type, name, state_change, _bid=bid):
            self.cbs2.append((_bid, {"Added": "A", "Removed": "R", "Updated": "U"}[state_change.name], service_type, name))

        b = cls(self.zc, list(types), handlers=[second], listener=_SvcListener(self, bid))
        b._vbid = bid
        old = self.browsers.pop(bid, None)
        if old is not None:
            old._async_cancel()
        self.browsers[bid] = b
        if ticking:
            _TICKING[0] = 0       # the clock ticks per reading during the creation (it is read once since the D23b repair)
        try:
            start_browser(b)      # the real _async_start
        finally:
            if ticking:
                _TICKING[0] = None

    def on_service_event(self, bid, change, name):
        """run the plan of browser `bid`'s service listener for this event, if it has one: create a browser from inside the handler"""
        for k, pl in enumerate(self.plans):
            if pl[0] == bid and pl[1] == change and pl[2].lower() == name.lower():
                del self.plans[k]
                if pl[3] == -1:
                    # the handler cancels its own browser (the real _async_cancel), in the middle of the batch being fired
                    self.log.append(("k", bid, None, [bid], None, self.depth))
                    b = self.browsers.pop(bid, None)
                    if b is not None:
                        b._async_cancel()
                    return
                # the one clock reading the creation's async_add_listener is about to make (the clock ticks per reading during D, W and
                # X ops once the op's first instant has been read)
                reading = None if _CLOCK[0] is None else int(_CLOCK[0] + (_TICKING[0] or 0))
                self.log.append(("b", bid, reading, [bid, pl[3]], None, self.depth))
                keep = self.zc.notified   # the replay to the new browser notifies too; `n` reports async_updates_complete(new) only
                self.depth += 1
                try:
                    self.create_browser(pl[3], pl[4])
                finally:
                    self.depth -= 1
                    self.zc.notified = keep
                return

    def registered_ids(self):
        return sorted(l.lid for l in self.rm.listeners if isinstance(l, _Recording) and l.lid is not None)

    # --- observations -------------------------------------------------------------------

    def snapshot(self):
        c = self.cache
        return sep(";", ["%s:%s" % (C.hs(k), sep(",", [RL(r) for r in c.entries_with_name(k)])) for k in c.names()])

    def readers(self):
        c, p = self.cache, self.p
        rl = RL
        return {
            "N": [C.hs(n) for n in c.names()],
            "E": [[rl(r) for r in c.entries_with_name(n)] for n in p.names],
            "S": [[rl(r) for r in c.entries_with_server(n)] for n in p.names],
            "G": [_opt(c.get(r)) for r in p.objs],
            "U": [_opt(c.async_get_unique(r)) for r in p.objs],
            "D": [_opt(c.get_by_details(t[0], t[1], t[2])) for t in p.triples],
            "A": [[rl(r) for r in c.get_all_by_details(t[0], t[1], t[2])] for t in p.triples],
            # the event-loop-only twins (separate bodies in _cache.py)
            "AE": [[rl(r) for r in c.async_entries_with_name(n)] for n in p.names],
            "AS": [[rl(r) for r in c.async_entries_with_server(n)] for n in p.names],
            "AA": [[rl(r) for r in c.async_all_by_details(t[0], t[1], t[2])] for t in p.triples],
            # the by-name-and-alias lookup (filters expired records with the wall clock = the instant of the last op)
            "CE": [_opt(c.current_entry_with_name_and_alias(r[1], r[6])) for r in p.recs if r[0] == "p"],
        }

    def ptr_view(self):
        """per cached name: lower-cased aliases of the type-PTR DNSPointer records entries_with_name returns"""
        c = self.cache
        out = {}
        for k in c.names():
            al = sorted(r.alias.lower() for r in c.entries_with_name(k) if isinstance(r, DNSPointer) and r.type == K._TYPE_PTR)
            if al:
                out[k] = al
        return out

    # --- ops ------------------------------------------------------------------------------

    def apply(self, op, observe=True):
        """run one op on the real code; returns its observation (dict of strings / lists of strings);
        with observe=False the readers are not evaluated (`R` is None)"""
        self.log, self.cbs, self.executed, self.failed = [], [], [], []
        self.cbs2 = []
        self.legacy = []
        self.handed = []
        self.zc.notified = 0
        self.depth, self.outer = 0, 0
        k = op[0]
        obs = {"k": k, "err": None, "handed": None}
        try:
            if k in ("D", "W"):
                now = op[1]
                _CLOCK[0] = float(now)
                objs = [mk_record(s, now) for s in op[2]]
                opts = op_opts(op)
                pkt = packet_of(objs, opts.get("sec"))
                # decoded while the wall clock shows another instant than the arrival time handed to the decoder: a decoder that stamps
                # records from the clock instead of from `now` is seen (as a lifetime that differs from the arrival time)
                _TICKING[0] = 7
                try:
                    msg = DNSIncoming(pkt, now=float(now))
                    got = [RL(r) for r in msg.answers()]
                finally:
                    _TICKING[0] = None
                want = [spec_line(s, now) for s in op[2]]
                if [_strip_life(x) for x in got] != [_strip_life(x) for x in want]:
                    raise HarnessError("wire path changed the datagram: %r -> %r" % (want, got))
                self.reacts = [tuple(r) for r in op[3]]
                self.now0 = now
                try:
                    if k == "D":
                        # the arrival time has been read (by the listener, before decoding); the wall clock moves on while the
                        # datagram is ingested: everything downstream has to work with the message's `now`
                        _TICKING[0] = 1
                        self.rm.async_updates_from_response(msg)
                    else:
                        # the bytes through the real listener: its first reading of the clock is the arrival time, every later
                        # reading during the same event is later
                        _TICKING[0] = 0
                        # (an IPv6 socket hands a 4-tuple: address, port, flow, scope)
                        self.alistener.datagram_received(pkt, ("fe80::9", 5353, 0, 0) if opts.get("src6") else ("10.0.0.9", 5353))
                finally:
                    self.reacts = []
                    obs["ticks"] = _TICKING[0]      # the last clock reading of the op was now + ticks - 1 (as for X ops)
                    _TICKING[0] = None
                    obs["handed"] = [h[0] for h in self.handed] if k == "W" else None
            elif k == "X":
                _CLOCK[0] = float(op[1])
                _TICKING[0] = 0
                try:
                    _zc_engine.AsyncEngine._async_cache_cleanup(self.engine)
                finally:
                    obs["ticks"] = _TICKING[0]      # clock readings during the op (each 1 ms later than the one before)
                    _TICKING[0] = None
            elif k == "LA":
                self.rm.async_add_listener(self.listener(op[1]), None)
            elif k == "LR":
                self.rm.async_remove_listener(self.listener(op[1]))   # unguarded: absent -> whatever the code does
            elif k == "BA":
                _CLOCK[0] = float(op[2])
                self.create_browser(op[1], op[3], ticking=bool(len(op) > 4 and op[4]))
            elif k == "BR":
                b = self.browsers.pop(op[1], None)
                if b is not None:
                    b._async_cancel()     # the real cancel (scheduler.stop, async_remove_listener, task.cancel)
            elif k == "BP":
                self.plans.append((op[1], op[2], op[3], op[4], list(op[5])))
            else:
                raise HarnessError("unknown op %r" % (op,))
        except HarnessError:
            raise
        except Exception as ex:  # noqa: BLE001 -- an exception out of the library is an observation
            obs["err"] = type(ex).__name__
            obs["errmsg"] = repr(ex)[:200]
        # what the hidden spy listener saw = what any listener is told (depth 0: the op's own rounds)
        spy_u = [e for e in self.log if e[0] == "u" and e[1] is None and e[5] == 0]
        spy_c = [e for e in self.log if e[0] == "c" and e[1] is None and e[5] == 0]
        obs["spy_u"] = len(spy_u)
        obs["spy_c"] = len(spy_c)
        obs["u"] = spy_u[0][3] if spy_u else None
        obs["unow"] = spy_u[0][2] if spy_u else None
        obs["s1"] = spy_u[0][4] if spy_u else None
        obs["s2"] = spy_c[0][4] if spy_c else None
        obs["c1"] = sorted(e[1] for e in self.log if e[0] == "u" and e[1] is not None and e[5] == 0)
        obs["c2"] = sorted(e[1] for e in self.log if e[0] == "c" and e[1] is not None and e[5] == 0)
        obs["calls"] = [[e[0], e[1], e[3], e[4], e[2]] for e in self.log if e[1] is not None and e[0] in "uc" and e[5] == 0]
        obs["order"] = [[e[0], e[1]] for e in self.log if e[0] in "uc" and e[5] == 0]
        # everything in execution order, nested callbacks included: [kind u/c/a, lid, now-or-reading, pairs-or-act, snapshot, depth]
        obs["events"] = [[e[0], e[1], e[2], e[3], e[4], e[5]] for e in self.log]
        obs["executed"] = [list(x) for x in self.executed]
        obs["failed"] = [list(x) for x in self.failed]
        obs["legacy"] = list(self.legacy)
        obs["n"] = self.zc.notified
        obs["cb"] = [list(x) for x in self.cbs]
        obs["cb2"] = [list(x) for x in self.cbs2]
        obs["ids"] = self.registered_ids()
        obs["S"] = self.snapshot()
        obs["R"] = self.readers() if (observe or obs["err"]) else None   # an op that raised ends the history: observe it
        obs["P"] = self.ptr_view() if (observe or obs["err"]) else None
        return obs


def _opt(r):
    return None if r is None else RL(r)


def run_impl(probes, ops, last_only=False):
    """observations of a whole history; stops after an op that raised.  With last_only the readers are evaluated
    after the last op only (bounded enumeration: every prefix is a history of its own)"""
    w = World(probes)
    out = []
    n = len(ops)
    for k, op in enumerate(ops):
        o = w.apply(op, observe=(not last_only) or k == n - 1)
        out.append(o)
        if o["err"]:
            break
    return out


# ------------------------------------------------------------------------------------------
# rendering: exactly what lean/Driver/C05.lean prints


def _recs(l):
    return sep(",", l)


def render_readers(R):
    o = lambda x: "~" if x is None else x  # noqa: E731
    return "N=%s E=%s S=%s G=%s U=%s D=%s A=%s AE=%s AS=%s AA=%s CE=%s" % (
        sep(",", R["N"]), sep(";", [_recs(x) for x in R["E"]]), sep(";", [_recs(x) for x in R["S"]]),
        sep(";", [o(x) for x in R["G"]]), sep(";", [o(x) for x in R["U"]]), sep(";", [o(x) for x in R["D"]]),
        sep(";", [_recs(x) for x in R["A"]]), sep(";", [_recs(x) for x in R["AE"]]), sep(";", [_recs(x) for x in R["AS"]]),
        sep(";", [_recs(x) for x in R["AA"]]), sep(";", [o(x) for x in R["CE"]]))


def render_cb(cbs):
    # (browser, lower-cased instance, type): total up to what one browser fires for one (type, instance), so the rendering does not
    # depend on the iteration order of the `types` set even when one instance name is listed under two browsed types
    keyed = sorted(cbs, key=lambda c: (c[0], C.hs(c[3].lower()), C.hs(c[2])))
    return sep(",", ["%d:%s:%s:%s" % (c[0], c[1], C.hs(c[2]), C.hs(c[3])) for c in keyed])


def _ids(l):
    return sep(",", [str(x) for x in sorted(l)])


def render_nest(obs):
    """what happened below depth 0 (callbacks run by an `add with a question` from inside a callback), in execution order:
    Q<d>:<lid>><target>@<reading> the act itself | P<d>[records] a non-empty purge (= the nested update call of the listener registered
    throughout) | u<d>:<lid> / c<d>:<lid> nested round calls | R<d>:<lid>[records] the replay's update call"""
    out = []
    for kind, lid, t, x, _, depth in obs.get("events") or []:
        if kind == "a":
            if x[2] == 2:
                out.append("Q%d:%d>%d@%d" % (depth, lid, x[3], t))
        elif kind == "b":
            out.append("B%d:%d>%d" % (depth, x[0], x[1]))
        elif kind == "k":
            out.append("K%d:%d" % (depth, x[0]))
        elif depth >= 1:
            if kind == "u":
                if lid is None:
                    out.append("P%d[%s]" % (depth, sep(",", [n for n, _ in x])))
                elif x and all(o is None for _, o in x):
                    out.append("R%d:%d[%s]" % (depth, lid, sep(",", [n for n, _ in x])))
                else:
                    out.append("u%d:%d" % (depth, lid))
            elif lid is not None:
                out.append("c%d:%d" % (depth, lid))
    return sep(";", out)


def render(obs):
    k = obs["k"]
    if obs["err"] and k in ("D", "W") and obs["u"] is not None:
        pairs = sep(",", ["%s>%s" % (n, "~" if o is None else o) for n, o in obs["u"]])
        return "%s err=%s u=%s c1=%s s1=%s c2=%s s2=%s nest=%s ls=%s %s" % (
            k, obs["err"], pairs, _ids(obs["c1"]), obs["s1"] if obs["s1"] is not None else "!",
            _ids(obs["c2"]), obs["s2"] if obs["s2"] is not None else "!", render_nest(obs), _ids(obs["ids"]), render_readers(obs["R"]))
    if obs["err"]:
        return "%s err=%s" % (k, obs["err"])
    if k == "W" and not obs["handed"]:
        # the listener did not hand the datagram on (duplicate guard): nothing may have happened
        quiet = obs["u"] is None and obs["s2"] is None and not obs["cb"] and not obs["n"]
        return "W dup %s" % (render_readers(obs["R"]) if quiet else "!callbacks-without-ingestion")
    if k in ("D", "W"):
        if obs["u"] is None and obs["s2"] is None:
            head = "%s u=~ c1=~ s1=~ c2=~ s2=~" % k
        else:
            pairs = "!" if obs["u"] is None else sep(",", ["%s>%s" % (n, "~" if o is None else o) for n, o in obs["u"]])
            head = "%s u=%s c1=%s s1=%s c2=%s s2=%s" % (k, pairs, _ids(obs["c1"]), obs["s1"] if obs["s1"] is not None else "!",
                                                     _ids(obs["c2"]), obs["s2"] if obs["s2"] is not None else "!")
        return "%s nest=%s ls=%s n=%d cb=%s %s" % (head, render_nest(obs), _ids(obs["ids"]), 1 if obs["n"] else 0, render_cb(obs["cb"]),
                                                  render_readers(obs["R"]))
    if k == "X":
        u = "!" if obs["u"] is None else sep(",", ["%s>%s" % (n, "~" if o is None else o) for n, o in obs["u"]])
        return "X u=%s c1=%s c2=%s n=%d cb=%s %s" % (u, _ids(obs["c1"]), _ids(obs["c2"]), 1 if obs["n"] else 0, render_cb(obs["cb"]),
                                                     render_readers(obs["R"]))
    if k in ("LA", "LR"):
        return "%s %s" % (k, _ids(obs["ids"]))
    if k == "BA":
        if obs["u"] is None:
            return "BA u=~ c1=~ c2=~ cb=%s" % render_cb(obs["cb"])
        u = sep(",", ["%s>%s" % (n, "~" if o is None else o) for n, o in obs["u"]])
        return "BA u=%s c1=%s c2=%s cb=%s" % (u, _ids(obs["c1"]), _ids(obs["c2"]), render_cb(obs["cb"]))
    if k == "BR":
        return "BR"
    if k == "BP":
        return "BP"
    raise HarnessError(k)


_FIELD = re.compile(r" (?=[A-Za-z0-9]+=)")


def first_diff(impl, model):
    """(field name, impl value, model value) of the first differing field of two observation strings"""
    a, b = _FIELD.split(impl), _FIELD.split(model)
    for x, y in zip(a, b):
        if x != y:
            return (x.split("=")[0], x[:600], y[:600])
    if len(a) != len(b):
        return ("<length>", impl[:300], model[:300])
    return None


_PAYLOAD = {}


def payload_of(recs, sec=None):
    """the bytes of the datagram a record list (+ section assignment) denotes (what the duplicate guard compares); memoised"""
    key = repr((recs, sec or None))
    v = _PAYLOAD.get(key)
    if v is None:
        v = packet_of([mk_record(s, T0) for s in recs], sec)
        if len(_PAYLOAD) < 50000:
            _PAYLOAD[key] = v
    return v


class WireRef:
    """the property-side reading of the listener's duplicate guard (C16's subject, `_DUPLICATE_PACKET_SUPPRESSION_INTERVAL`): a response
    datagram is *processed* unless it is byte-identical to the last processed datagram of the socket and arrives less than 1000 ms after
    it.  In particular identical payloads 1 s or more apart are processed (periodic re-announcements), and a suppressed copy does not
    restart the interval."""

    def __init__(self):
        self.data = None
        self.t = None

    def expects(self, now, recs, sec=None):
        return not (self.data is not None and self.data == payload_of(recs, sec) and now - self.t < 1000)

    def processed(self, now, recs, sec=None):
        self.data, self.t = payload_of(recs, sec), now


def build_line(probes, ops):
    pids = {}
    t = ["crun", "P", str(len(probes.names))] + [C.hs(n) for n in probes.names]
    t.append(str(len(probes.recs)))
    t += [spec_line(r, 1) for r in probes.recs]
    t.append(str(len(probes.triples)))
    for n, ty, c in probes.triples:
        t += [C.hs(n), str(ty), str(c)]
    t += ["OPS", str(len(ops))]
    for op in ops:
        k = op[0]
        if k in ("D", "W"):
            t += [k, str(op[1])]
            if k == "W":
                # equal numbers <=> equal bytes
                t.append(str(pids.setdefault(payload_of(op[2], op_opts(op).get("sec")), len(pids))))
            t += [str(len(op[2]))] + [spec_line(r, op[1]) for r in op[2]]
            t.append(str(len(op[3])))
            for r in op[3]:
                t += [str(r[0]), str(r[1]), str(int(r[2])), str(r[3])]
                if r[2] == 2:
                    t += [str(op[1] + r[4]), C.hs(r[5]), str(r[6]), str(r[7])]
        elif k == "X":
            t += ["X", str(op[1])]
        elif k in ("LA", "LR", "BR"):
            t += [k, str(op[1])]
        elif k == "BA":
            t += ["BA", str(op[1]), str(op[2]), str(len(op[3]))] + [C.hs(x) for x in op[3]]
        elif k == "BP":
            t += ["BP", str(op[1]), op[2], C.hs(op[3]), str(op[4]), str(len(op[5]))] + [C.hs(x) for x in op[5]]
        else:
            raise HarnessError(k)
    return " ".join(t)


def split_model(line):
    return line.split(" | ")


def compare_history(res, stream, probes, ops, obs, model_line, case_extra=None):
    """stage C for one history: op-by-op diff; returns the index of the first differing op or None"""
    outs = split_model(model_line)
    for i, o in enumerate(obs):
        if o["R"] is None and not o["err"]:
            continue
        mine = render(o)
        theirs = outs[i] if i < len(outs) else "<missing>"
        if mine != theirs:
            return i, first_diff(mine, theirs) or ("?", mine[:300], theirs[:300])
    if len(outs) != len(ops) and not (obs and obs[-1]["err"]):
        return len(obs), ("<length>", str(len(obs)), str(len(outs)))
    return None


# ------------------------------------------------------------------------------------------
# the flat reference model (stage O)


class Ref:
    """identity -> [created, ttl, spec of the cached object, epoch]

    RFC 6762 section 10 / the C06 sentence, per datagram arriving at `now`:
      * a PTR record with 0 < ttl < 1125 counts as ttl 1125;
      * an identity cached before the datagram that has a non-zero copy is refreshed to (now, ttl of the last such copy);
        the cached object (its spelling, its flush bit) stays;
      * an identity not cached before that has a non-zero copy becomes cached as (now, ttl) with the spelling of the last
        non-zero copy;
      * flush: for each record of the datagram carrying the cache-flush bit, every cached record of the same
        (lower name, type, class) whose identity does not occur in the datagram and with now - created > 1000
        (created after the refreshes above) becomes (now, 1);
      * an identity cached before the datagram that has a zero-TTL copy is removed (whatever else the datagram says);
        a zero-TTL copy of an identity not cached before is ignored.
    purge at `now` removes exactly the identities with created + 1000*ttl <= now.
    `epoch` numbers the datagram that inserted the identity (order inside one datagram is left undefined)."""

    PTR_FLOOR = 1125

    def __init__(self):
        self.d = {}
        self.epoch = 0
        self.guard = {}  # ident -> (t, T): last non-zero arrival, not withdrawn / flushed / purged since

    @staticmethod
    def eff_ttl(spec):
        ttl = spec[5]
        if ttl and spec[2] == 12 and ttl < Ref.PTR_FLOOR:
            return Ref.PTR_FLOOR
        return ttl

    def lines(self, d=None):
        d = self.d if d is None else d
        return {i: spec_line(e[2], e[0], e[1]) for i, e in d.items()}

    def datagram(self, now, recs):
        self.epoch += 1
        d = self.d
        before = set(d)
        ids = [ident_of(r) for r in recs]
        in_dgram = set(ids)
        last_nz = {}
        for i, r in zip(ids, recs):
            if r[5]:
                last_nz[i] = r
        refreshed = set()
        for i, r in last_nz.items():
            if i in before:
                d[i][0], d[i][1] = now, self.eff_ttl(r)
                refreshed.add(i)
        fkeys = {(i[1], i[2], i[3]) for i, r in zip(ids, recs) if r[4]}
        flushed = set()
        for i, e in d.items():
            if (i[1], i[2], i[3]) in fkeys and now - e[0] > 1000 and i not in in_dgram:
                e[0], e[1] = now, 1
                flushed.add(i)
        phase1 = {i: list(e) for i, e in d.items()}
        # what listeners are told: every copy except zero-TTL copies of identities not cached before
        pairs = []
        for i, r in zip(ids, recs):
            if r[5] or i in before:
                new = spec_line(r, now, self.eff_ttl(r))
                old = spec_line(phase1[i][2], phase1[i][0], phase1[i][1]) if i in before else None
                pairs.append((new, old))
        added = []
        news = [(i, r) for i, r in zip(ids, recs) if r[5] and i not in before]
        for i, r in news:
            d.pop(i, None)
            st = list(r)
            st[5] = self.eff_ttl(r)
            d[i] = [now, st[5], st, self.epoch]
            if i not in added:
                added.append(i)
        removed = []
        for i, r in zip(ids, recs):
            if not r[5] and i in before and i in d:
                del d[i]
                removed.append(i)
        for i, r in last_nz.items():
            self.guard[i] = (now, r[5])
        for i in list(removed) + list(flushed):
            self.guard.pop(i, None)
        return {"before": before, "phase1": phase1, "pairs": pairs, "added": added, "removed": removed,
                "refreshed": refreshed, "flushed": flushed, "ids": ids}

    def expired(self, now):
        return [i for i, e in self.d.items() if e[0] + 1000 * e[1] <= now]

    def purge(self, now):
        ex = self.expired(now)
        lines = {i: spec_line(self.d[i][2], self.d[i][0], self.d[i][1]) for i in ex}
        for i in ex:
            del self.d[i]
        return ex, lines


# ------------------------------------------------------------------------------------------
# stage O helpers shared by the three properties


def check_readers(ref, probes, R, now=None):
    """every reader of the cache against the flat reference; returns [(sig, what)].  `now`: the instant of the last op (what the wall
    clock shows when `current_entry_with_name_and_alias` filters expired records)"""
    bad = []
    d = ref.d
    want = ref.lines()
    if now is not None and R.get("CE") is not None:
        for r, got in zip([x for x in probes.recs if x[0] == "p"], R["CE"]):
            cands = [i for i, e in d.items() if i[0] == "p" and i[1] == r[1].lower() and i[2] == 12 and e[2][6] == r[6]
                     and e[0] + 1000 * e[1] > now]
            if got is None:
                if cands:
                    bad.append(("C05:current_entry_with_name_and_alias-records", "current_entry_with_name_and_alias(%s, %s) returns None at %d, reference "
                                "holds the unexpired %r" % (r[1], r[6], now, [want[i] for i in cands])))
            else:
                gi = parse_line(got)[0]
                if gi not in cands:
                    bad.append(("C05:current_entry_with_name_and_alias-records", "current_entry_with_name_and_alias(%s, %s) returns %s at %d; the reference "
                                "has no unexpired pointer record of that name and alias%s" % (r[1], r[6], got, now, " (it is expired)" if gi in d else "")))
                elif got != want[gi]:
                    bad.append(("C05:current_entry_with_name_and_alias-lifetime", "current_entry_with_name_and_alias(%s, %s) returns %s, reference has %s"
                                % (r[1], r[6], got, want[gi])))

    def ctx(kind, key):
        return "%s(%s)" % (kind, key)

    # names(): as a set
    wn = {i[1] for i in d}
    gn = [C_unhex(n) for n in R["N"]]
    if set(gn) != wn or len(gn) != len(set(gn)):
        bad.append(("C05:names", "names() = %r, reference has %r" % (sorted(gn), sorted(wn))))

    def cmp_list(kind, key, got, idents):
        exp = sorted(want[i] for i in idents)
        if sorted(got) != exp:
            sig = "C05:%s-lifetime" % kind if sorted(_strip_life(x) for x in got) == sorted(_strip_life(x) for x in exp) else "C05:%s-records" % kind
            bad.append((sig, "%s returns %r, reference has %r" % (ctx(kind, key), got, exp)))
        # (the order inside a list is not in the property's sentence -- "the same records with the same creation time and TTL" --:
        # it is compared with the Lean model only, stage C)

    for n, got in zip(probes.names, R["E"]):
        cmp_list("entries_with_name", n, got, [i for i in d if i[1] == n.lower()])
    for n, got in zip(probes.names, R["S"]):
        cmp_list("entries_with_server", n, got, [i for i in d if i[0] == "s" and i[4][3] == n.lower()])
    for t, got in zip(probes.triples, R["A"]):
        cmp_list("get_all_by_details", tuple(t), got, [i for i in d if (i[1], i[2], i[3]) == (t[0].lower(), t[1], t[2])])
    for n, got in zip(probes.names, R.get("AE", [])):
        cmp_list("async_entries_with_name", n, got, [i for i in d if i[1] == n.lower()])
    for n, got in zip(probes.names, R.get("AS", [])):
        cmp_list("async_entries_with_server", n, got, [i for i in d if i[0] == "s" and i[4][3] == n.lower()])
    for t, got in zip(probes.triples, R.get("AA", [])):
        cmp_list("async_all_by_details", tuple(t), got, [i for i in d if (i[1], i[2], i[3]) == (t[0].lower(), t[1], t[2])])
    for t, got in zip(probes.triples, R["D"]):
        cands = [i for i in d if (i[1], i[2], i[3]) == (t[0].lower(), t[1], t[2])]
        if got is None:
            if cands:
                bad.append(("C05:get_by_details-records", "get_by_details%r returns None, reference has %r" % (tuple(t), [want[i] for i in cands])))
        else:
            gi = parse_line(got)[0]
            if gi not in cands:
                bad.append(("C05:get_by_details-records", "get_by_details%r returns %s, not in the reference" % (tuple(t), got)))
            elif got != want[gi]:
                bad.append(("C05:get_by_details-lifetime", "get_by_details%r returns %s, reference has %s" % (tuple(t), got, want[gi])))
            # (which of several matches it returns -- the most recently inserted one -- is compared with the model only)
    for which, label in (("G", "get"), ("U", "async_get_unique")):
        for r, got in zip(probes.recs, R[which]):
            i = ident_of(r)
            exp = want.get(i)
            if got != exp:
                if got is not None and exp is not None and _strip_life(got) == _strip_life(exp):
                    sig = "C05:%s-lifetime" % label
                else:
                    sig = "C05:%s-records" % label
                bad.append((sig, "%s(%s) returns %s, reference has %s" % (label, ident_str(i), got, exp)))
    return bad


def check_cross_paths(probes, R):
    """the D4 signature, independent of any reference: get(r) against the same record inside entries_with_name(r.name)"""
    bad = []
    by_name = {}
    for n, got in zip(probes.names, R["E"]):
        by_name[n] = {parse_line(x)[0]: x for x in got}
    for r, got in zip(probes.recs, R["G"]):
        i = ident_of(r)
        other = by_name.get(r[1], {}).get(i)
        if (got is None) != (other is None):
            bad.append(("C05:get-vs-entries-membership", "get(%s) = %s but entries_with_name lists %s" % (ident_str(i), got, other)))
        elif got is not None and got != other:
            a, b = parse_line(got), parse_line(other)
            if (a[2], a[3]) != (b[2], b[3]):
                bad.append(("C05:get-vs-entries-lifetime", "get(%s) has (created, ttl) = (%d, %d) but the same record in entries_with_name has (%d, %d)"
                            % (ident_str(i), a[2], a[3], b[2], b[3])))
            else:
                bad.append(("C05:get-vs-entries-spelling", "get(%s) = %s but entries_with_name lists %s" % (ident_str(i), got, other)))
    return bad


def _strip_life(line):
    f = line.split(" ")
    return " ".join(f[:5] + f[7:])


def C_unhex(h):
    return _unhs(h)


_REC_SPLIT = re.compile(r",(?=[a-z] )")


def parse_snapshot(s):
    """snapshot string -> {ident: line} (raises on a duplicate identity)"""
    out = {}
    if s == "~" or s is None:
        return out
    for b in s.split(";"):
        _, recs = b.split(":", 1)
        if recs == "~":
            continue
        for line in _REC_SPLIT.split(recs):  # an NSEC line contains commas (its rdtypes)
            i = parse_line(line)[0]
            if i in out:
                raise ValueError("identity twice in one snapshot: %s" % line)
            out[i] = line
    return out


# ------------------------------------------------------------------------------------------
# shrinking


def _drop_sec(op, j):
    o = op_opts(op)
    if not o:
        return []
    o = dict(o)
    if o.get("sec"):
        o["sec"] = o["sec"][:j] + o["sec"][j + 1:]
    return [o]


def shrink(ops, still_fails, max_evals=250):
    """greedy delta-debugging over the op list, then over records / reactions inside datagrams"""
    evals = [0]

    def ok(cand):
        if evals[0] >= max_evals:
            return False
        evals[0] += 1
        try:
            return bool(still_fails(cand))
        except HarnessError:
            return False

    cur = [list(o) for o in ops]
    # drop a suffix first (cheap and usually big)
    changed = True
    while changed:
        changed = False
        i = len(cur) - 1
        while i >= 0:
            cand = cur[:i] + cur[i + 1:]
            if cand and ok(cand):
                cur = cand
                changed = True
            i -= 1
    for i in range(len(cur)):
        if cur[i][0] not in ("D", "W"):
            continue
        j = len(cur[i][2]) - 1
        while j >= 0:
            if len(cur[i][2]) > 1:
                cand = [list(o) for o in cur]
                cand[i] = [cur[i][0], cur[i][1], cur[i][2][:j] + cur[i][2][j + 1:], cur[i][3]] + _drop_sec(cur[i], j)
                if ok(cand):
                    cur = cand
            j -= 1
        if cur[i][3]:
            cand = [list(o) for o in cur]
            cand[i] = [cur[i][0], cur[i][1], cur[i][2], []] + list(cur[i][4:])
            if ok(cand):
                cur = cand
        j = len(cur[i][3]) - 1
        while j >= 0 and len(cur[i][3]) > 1:
            cand = [list(o) for o in cur]
            cand[i] = ["D", cur[i][1], cur[i][2], cur[i][3][:j] + cur[i][3][j + 1:]]
            if ok(cand):
                cur = cand
            j -= 1
    return cur


# ------------------------------------------------------------------------------------------
# vocabulary and generators

TX = "_x._tcp.local."
TY = "_y._udp.local."
TZ = "_Zed._tcp.local."   # a service type spelled with an upper-case letter
IN = 1
FE80_1 = "fe80" + "00" * 13 + "01"

# templates: [kind, name, type, class, *rdata]  (flush / ttl are chosen per use)
VOCAB = [
    ["p", TX, 12, IN, "a._x._tcp.local."],
    ["p", TX, 12, IN, "A._X._tcp.local."],            # same identity, alias re-cased
    ["p", "_X._TCP.local.", 12, IN, "a._x._tcp.local."],  # same identity, owner re-cased
    ["p", TX, 12, IN, "b._x._tcp.local."],
    ["s", "a._x._tcp.local.", 33, IN, 0, 0, 80, "h.local."],
    ["s", "A._x._tcp.local.", 33, IN, 0, 0, 80, "H.LOCAL."],  # same identity
    ["s", "a._x._tcp.local.", 33, IN, 0, 0, 80, "g.local."],  # same owner, other host
    ["s", "b._x._tcp.local.", 33, IN, 0, 0, 81, "H.local."],  # other owner sharing the host (re-cased)
    ["t", "a._x._tcp.local.", 16, IN, "03613d31"],
    ["t", "A._x._TCP.local.", 16, IN, "03613d32"],
    ["a", "h.local.", 1, IN, "0a000001"],
    ["a", "H.local.", 1, IN, "0a000001"],              # same identity
    ["a", "h.local.", 1, IN, "0a000002"],
    ["a", "h.local.", 28, IN, FE80_1],
    ["n", "h.local.", 47, IN, "h.local.", [1, 28]],
    ["h", "h.local.", 13, IN, "cpu", "os"],
    # identities whose only spelling has upper-case letters (owner name, PTR target, SRV host): every lookup that
    # forgets to lower-case a name misses them although they are spelled identically in every datagram
    ["p", TZ, 12, IN, "D._Zed._tcp.local."],
    ["s", "D._Zed._tcp.local.", 33, IN, 0, 0, 83, "Host.LOCAL."],
    ["a", "Host.LOCAL.", 1, IN, "0a000004"],
    # a name with a non-ASCII letter that str.lower() leaves alone but str.casefold() rewrites ("ß" -> "ss"): a lookup path that folds
    # names differently from DNSEntry.key misses it (seeded defect C05-w4-seed3).  ASCII lowering leaves "ß" alone too, so the driver's
    # `lower` agrees with str.lower on it
    ["a", "Fußboden.local.", 1, IN, "0a000005"],
    ["a", "FUßBODEN.LOCAL.", 1, IN, "0a000005"],     # same identity
    ["a", "fußboden.local.", 1, IN, "0a000006"],     # its sibling (cache-flush victim / flusher)
    # the same owner name and type in ANOTHER class: "same name, type and class ... and only those" -- a flush of the class-IN rrset
    # must leave them alone, lookups by name/type/class must tell them apart
    ["a", "h.local.", 1, 3, "0a000001"],
    ["a", "H.local.", 1, 3, "0a000002"],
    ["t", "a._x._tcp.local.", 16, 3, "03613d31"],
    # a cased non-ASCII letter: str.lower() folds it (É -> é), ASCII-only folding does not; the driver's `lower` folds Latin-1 too
    ["a", "Émile.local.", 1, IN, "0a000007"],
    ["a", "émile.LOCAL.", 1, IN, "0a000007"],        # same identity
    ["a", "ÉMILE.local.", 1, IN, "0a000008"],        # its sibling
]
RARE = {14, 15}
TTLS = [0, 1, 2, 120, 1124, 1125, 4500]
# the TTL field is an UNSIGNED 32-bit number (RFC 1035 erratum 2130): values with the top bit set must not read as negative (a record
# with such a TTL would count as expired on arrival, i.e. as a goodbye -- seeded defect C06-w5-seed2).  Mixed in with p = 0.06
BIG_TTLS = [0x7FFFFFFF, 0x80000000, 0x80000001, 0xFFFFFFFF]
STEPS = [0, 1, 999, 1000, 1001, 9999, 10000, 10001, 3_600_000, 7_200_000]


WIRE_GAPS = [0, 1, 500, 900, 999, 1000, 1001, 1800, 2000, 60000]


def wire_window_histories(listeners=(1,)):
    """systematic histories through the real listener: one payload sent three or four times with gaps around the 1 s duplicate guard
    (a copy is dropped only when it comes less than 1 s after the last *processed* copy), TTLs so short that the first copy's deadline
    falls between the copies, purges at the deadline of the first copy and just before / at the deadline of the last processed one; and
    the same with another payload in between (which ends the guard's memory)"""
    txt, ptr, srv, adr = VOCAB[8], VOCAB[0], VOCAB[4], VOCAB[10]
    payloads = [lambda ttl: [inst(txt, ttl, 0)], lambda ttl: [inst(adr, ttl, 1), inst(srv, ttl, 0)], lambda ttl: [inst(ptr, ttl, 0), inst(txt, ttl, 0)]]
    other = [inst(VOCAB[12], 120, 0)]
    gapsets = [(g1, g2) for g1 in (500, 900, 999, 1000, 1001) for g2 in (500, 900, 999, 1000, 1001)] + [(900, 900, 900), (400, 400, 400), (60000, 60000)]
    for mk in payloads:
        for ttl in (1, 2, 120):
            for gaps in gapsets:
                for between in (False, True):
                    if between and gaps[0] not in (500, 999):
                        continue
                    recs = mk(ttl)
                    t = T0
                    ev = [(t, ["W", t, recs, []])]
                    wire = WireRef()
                    wire.processed(t, recs)
                    lastp = t
                    for g in gaps:
                        if between:
                            ev.append((t + g // 2, ["W", t + g // 2, other, []]))
                            wire.processed(t + g // 2, other)
                        t += g
                        ev.append((t, ["W", t, recs, []]))
                        if wire.expects(t, recs):
                            wire.processed(t, recs)
                            lastp = t
                    eff = max(ttl, 1125) if any(r[2] == 12 for r in recs) and ttl < 1125 else ttl
                    # (a purge whose instant lies before the last copy goes between the copies)
                    for tx in sorted({T0 + 1000 * ttl, lastp + 1000 * ttl - 1, lastp + 1000 * ttl, lastp + 1000 * eff - 1, lastp + 1000 * eff}):
                        ev.append((tx, ["X", tx]))
                    ev.sort(key=lambda e: e[0])
                    yield [["LA", l] for l in listeners] + [e[1] for e in ev]


def inst(tpl, ttl, flush):
    return [tpl[0], tpl[1], tpl[2], tpl[3], 1 if flush else 0, ttl] + list(tpl[4:])


def vocab_probes(vocab=VOCAB, extra_names=()):
    return probes_for([inst(t, 0, 0) for t in vocab], extra_names)


def pick_step(rng, ref, now):
    """clock step: the fixed boundary set, or aimed at a cached record's flush window / expiry instant"""
    x = rng.random()
    if ref.d and x < 0.45:
        e = rng.choice(list(ref.d.values()))
        base = e[0] + 1000 * e[1] if rng.random() < 0.7 else e[0] + 1000
        t = base + rng.choice([-1, 0, 1])
        if now <= t <= now + 4 * 3_600_000:       # (a record with a TTL of decades is not waited for)
            return t - now
    if x < 0.55:
        nxt = (now // 10000 + 1) * 10000
        return nxt - now + rng.choice([0, 0, 1, -1])
    return rng.choice(STEPS)


def gen_wire_opts(rng, recs, allow6=False):
    """how the records travel: which section each one is in (real announcements carry SRV/TXT/A as *additionals* of the PTR answer;
    `msg.answers()` is answers + authorities + additionals, in that order -- the assignment is non-decreasing so that the record list stays
    in wire order) and, for W ops, whether the datagram arrives on an IPv6 socket (4-tuple source address; not with AAAA records, whose
    scope id the decoder takes from the source).  Returns the op's 5th element as a list ([] or [dict]).  A datagram that does not fit
    one packet is cut down."""
    while len(recs) > 5:
        try:
            payload_of(recs)
            break
        except HarnessError:
            del recs[len(recs) // 2:]
    o = {}
    x = rng.random()
    if x < 0.25:
        o["sec"] = [0] + [2] * (len(recs) - 1)              # one answer, the rest additionals (an announcement)
    elif x < 0.55:
        o["sec"] = sorted(rng.choice([0, 0, 1, 2, 2]) for _ in recs)
    if o.get("sec") and not any(o["sec"]):
        del o["sec"]
    if allow6 and rng.random() < 0.3 and not any(r[2] == 28 for r in recs):
        o["src6"] = 1
    return [o] if o else []


def gen_datagram(rng, vocab, ref, opts):
    n = rng.choice([1, 1, 2, 2, 3, 4, 5])
    if rng.random() < 0.06:
        n = rng.choice([12, 25, 40])
    recs = []
    cached_tpls = None
    for _ in range(n):
        y = rng.random()
        if recs and y < opts.get("p_repeat", 0.3):
            # the same record again, equal or different TTL, maybe re-spelled (same identity)
            base = rng.choice(recs)
            i0 = ident_of(base)
            alts = [t for t in vocab if ident_of(inst(t, 0, 0)) == i0]
            tpl = rng.choice(alts)
            ttl = base[5] if rng.random() < 0.4 else rng.choice(TTLS)
            recs.append(inst(tpl, ttl, base[4] if rng.random() < 0.7 else 1 - base[4]))
            continue
        if ref.d and y < 0.6:
            # aim at something cached: refresh / goodbye / flush sibling
            if cached_tpls is None:
                cached = set(ref.d)
                cached_tpls = [t for t in vocab if ident_of(inst(t, 0, 0)) in cached]
            if cached_tpls:
                tpl = rng.choice(cached_tpls)
            else:
                tpl = vocab[rng.randrange(len(vocab))]
        else:
            k = rng.randrange(len(vocab))
            if k in RARE and rng.random() < 0.6:
                k = rng.randrange(len(vocab))
            tpl = vocab[k]
        ttl = rng.choice(TTLS)
        if rng.random() < 0.06:
            ttl = rng.choice(BIG_TTLS)
        pf = opts.get("p_flush_ptr", 0.15) if tpl[0] == "p" else opts.get("p_flush", 0.4)
        recs.append(inst(tpl, ttl, rng.random() < pf))
    return recs


QUESTIONS = [(TX, 12, 1), (TX, 255, 1), ("_X._TCP.local.", 12, 1), ("a._x._tcp.local.", 255, 1), ("a._x._tcp.local.", 33, 1),
             ("h.local.", 1, 1), ("h.local.", 255, 1), (TZ, 12, 1), ("absent.local.", 12, 1), (TY, 12, 1)]
QUESTION_DT = [0, 0, 0, 1, 999, 1000, 1001, 2000, 10000]


def gen_question_react(rng, registered, pool, nested=False):
    """one `add a listener WITH a question` reaction (+ sometimes reactions inside the callbacks it triggers)"""
    live = sorted(registered) or list(pool)
    lid = rng.choice(live)
    ph = rng.choice([1, 1, 1, 2])
    q = rng.choice(QUESTIONS)
    out = [[ph, lid, 2, rng.choice(pool), rng.choice(QUESTION_DT), q[0], q[1], q[2]]]
    if nested:
        # something happens inside the purge's own rounds / the replay (depth 1): plain add / remove, or a second `add with a question`
        for _ in range(rng.choice([1, 1, 2])):
            l2 = rng.choice(pool)
            code = 10 + rng.choice([1, 2])
            k = rng.choice([0, 1, 2])
            if k == 2:
                q2 = rng.choice(QUESTIONS)
                out.append([code, l2, 2, rng.choice(pool), rng.choice(QUESTION_DT), q2[0], q2[1], q2[2]])
            else:
                out.append([code, l2, k, rng.choice(pool)])
    return out


def gen_reacts(rng, registered, pool, p_absent=0.0, p_question=0.0):
    """scripted reactions.  Mostly pairwise distinct targets; sometimes the patterns in which a listener is removed although it
    is not (any more) registered: A removes B and B removes itself, the same listener removed twice, a never-added one removed;
    with p_question: a listener registered WITH a question from inside a callback (purge + nested rounds + replay)"""
    x = rng.random()
    if p_question and rng.random() < p_question:
        out = gen_question_react(rng, registered, pool, nested=rng.random() < 0.3)
        if rng.random() < 0.4:
            out += gen_reacts(rng, registered, pool, p_absent, 0.0)
        if rng.random() < 0.2:
            out += gen_question_react(rng, registered, pool)
        return out
    if x < p_absent and len(pool) >= 2:
        ph = rng.choice([1, 2])
        live = sorted(registered) or list(pool)
        a = rng.choice(live)
        others = [l for l in pool if l != a]
        b = rng.choice([l for l in live if l != a] or others)
        kind = rng.choice(["a-removes-b-b-removes-itself", "twice", "never-added", "two-phases"])
        if kind == "a-removes-b-b-removes-itself":
            return [[ph, a, 0, b], [ph, b, 0, b]]
        if kind == "twice":
            return [[ph, a, 0, b], [ph, a, 0, b]]
        if kind == "two-phases":
            return [[1, a, 0, b], [2, a, 0, b]]
        absent = [l for l in pool if l not in registered]
        return [[ph, a, 0, rng.choice(absent or others)]]
    out = []
    targets = list(pool)
    rng.shuffle(targets)
    for _ in range(rng.choice([0, 0, 1, 1, 2, 3])):
        if not targets:
            break
        tg = targets.pop()
        lid = rng.choice(pool)
        out.append([rng.choice([1, 2]), lid, rng.choice([0, 1]), tg])
    return out


def gen_history(rng, depth, opts):
    """one random history; `opts`: vocab, listeners (ids pool), reacts, p_purge, ..."""
    vocab = opts.get("vocab", VOCAB)
    pool = opts.get("listeners", [])
    ref = Ref()
    now = T0
    ops = []
    registered = set()
    wire = WireRef() if opts.get("wire") else None
    last_recs, last_extra = None, []
    for lid in pool[: opts.get("initial_listeners", 0)]:
        ops.append(["LA", lid])
        registered.add(lid)
    while len(ops) < depth:
        if wire is not None and last_recs is not None and rng.random() < opts.get("p_same_payload", 0.45):
            # the same bytes again (a re-announcement / a link-layer duplicate), at a gap around the listener's 1 s guard
            now += rng.choice(WIRE_GAPS)
            reacts = gen_reacts(rng, registered, pool, 0.0) if pool and opts.get("reacts") else []
            ops.append(["W", now, [list(r) for r in last_recs], reacts] + [dict(x) for x in last_extra])
            lsec = (last_extra[0].get("sec") if last_extra else None)
            if wire.expects(now, last_recs, lsec):
                wire.processed(now, last_recs, lsec)
                ref.datagram(now, last_recs)
            continue
        now += pick_step(rng, ref, now)
        x = rng.random()
        if x < opts.get("p_purge", 0.18):
            t = now
            if rng.random() < 0.3:
                t = (now // 10000 + 1) * 10000
                now = t
            ops.append(["X", t])
            ref.purge(t)
        elif pool and x < opts.get("p_purge", 0.18) + opts.get("p_listener", 0.0):
            lid = rng.choice(pool)
            if rng.random() < opts.get("p_remove_absent", 0.0):
                ops.append(["LR", lid])          # possibly not registered
                registered.discard(lid)
            elif lid in registered and rng.random() < 0.6:
                ops.append(["LR", lid])
                registered.discard(lid)
            else:
                ops.append(["LA", lid])
                registered.add(lid)
        else:
            recs = gen_datagram(rng, vocab, ref, opts)
            reacts = gen_reacts(rng, registered, pool, opts.get("p_remove_absent", 0.0), opts.get("p_question", 0.0)) if pool and opts.get("reacts") else []
            if wire is not None:
                extra = gen_wire_opts(rng, recs, allow6=True)
                ops.append(["W", now, recs, reacts] + extra)
                last_recs, last_extra = recs, extra
                sec = extra[0].get("sec") if extra else None
                if wire.expects(now, recs, sec):
                    wire.processed(now, recs, sec)
                    ref.datagram(now, recs)
                continue
            ops.append(["D", now, recs, reacts] + gen_wire_opts(rng, recs))
            ref.datagram(now, recs)
            # the steering copy of the listener set is approximate (reactions are not tracked); that is fine
    return ops


# ------------------------------------------------------------------------------------------
# the common pipeline: implementation -> oracle (stage O) -> batched driver comparison (stage C)


def gap_class(g):
    if g == 0:
        return "0"
    if g < 1000:
        return "<1s"
    if g == 1000:
        return "1s"
    if g == 1001:
        return "1s+1"
    if g < 10000:
        return "<10s"
    if g <= 10001:
        return "10s"
    if g < 3_600_000:
        return "<1h"
    return ">=1h"


def ttl_class(t):
    if t == 0:
        return "0"
    if t < 1125:
        return "<floor"
    if t == 1125:
        return "floor"
    return ">floor"


def op_time(op):
    return op[1] if op[0] in ("D", "W", "X") else (op[2] if op[0] == "BA" else None)


class Runner:
    """feeds histories to the real code, the oracle and (in batches) the Lean driver; shrinks and reports"""

    def __init__(self, res, prop, ctx, oracle, chunk=120, max_per_sig=3, valid=None):
        self.res, self.prop, self.ctx, self.oracle = res, prop, ctx, oracle
        self.valid = valid or (lambda ops: True)  # shrinking must stay inside the property's quantifier
        self.model = bool(ctx.get("driver_ok"))
        self.chunk = chunk
        self.pending = []
        self.sig_seen = {}
        self.max_per_sig = max_per_sig
        self.shrunk_disagreement = False
        self.histories = 0

    def case(self, probes, ops, extra=None):
        c = {"probes": probes.to_json(), "ops": ops, "repo": str(C.REPO)}
        if extra:
            c.update(extra)
        return c

    def add(self, stream, probes, ops, last_only=False, oracle_on=True, model_on=True):
        """oracle_on=False: the history lies outside the property's quantifier; only the model correspondence is checked.
        model_on=False: the model does not cover this kind of history (stage O only)"""
        res = self.res
        obs = run_impl(probes, ops, last_only)
        self.histories += 1
        res.count("histories:" + stream)
        res.evaluations += sum(1 for o in obs if o["R"] is not None or o["err"])
        found = self.oracle(probes, ops, obs, res) if oracle_on else []
        if found:
            self._violation(stream, probes, ops, found)
        if self.model and model_on:
            self.pending.append((stream, probes, ops, obs))
            if len(self.pending) >= self.chunk:
                self.flush()
        return obs, found

    def _violation(self, stream, probes, ops, found):
        res = self.res
        done = set()
        for idx, sig, what in found:
            if sig in done:
                continue
            done.add(sig)
            res.count("violation:" + sig)
            n = self.sig_seen.get(sig, 0)
            self.sig_seen[sig] = n + 1
            if n >= self.max_per_sig:
                continue
            case_ops, at, msg = ops, idx, what
            if n == 0:
                def still(cand, sig=sig):
                    if not self.valid(cand):
                        return False
                    o = run_impl(probes, cand)
                    return any(f[1] == sig for f in self.oracle(probes, cand, o, None))
                small = shrink(ops, still)
                if small != ops:
                    o = run_impl(probes, small)
                    f2 = [f for f in self.oracle(probes, small, o, None) if f[1] == sig]
                    if f2:
                        case_ops, at, msg = small, f2[0][0], f2[0][2]
            res.violate(sig, msg, self.case(probes, case_ops, {"op_index": at, "stream": stream}))

    def flush(self):
        if not self.pending:
            return
        pend, self.pending = self.pending, []
        lines = [build_line(p, ops) for _, p, ops, _ in pend]
        try:
            out = C.run_driver(lines)
        except C.DriverUnavailable as ex:
            self.res.notes.append("driver unavailable: %s" % ex)
            self.model = False
            return
        for (stream, probes, ops, obs), m in zip(pend, out):
            d = compare_history(self.res, stream, probes, ops, obs, m)
            if d is None:
                continue
            i, fd = d
            case_ops = ops
            if not self.shrunk_disagreement:
                self.shrunk_disagreement = True

                def still(cand):
                    if not self.valid(cand):
                        return False
                    o = run_impl(probes, cand)
                    mm = C.run_driver([build_line(probes, cand)])[0]
                    return compare_history(None, stream, probes, cand, o, mm) is not None
                small = shrink(ops, still, max_evals=150)
                o = run_impl(probes, small)
                mm = C.run_driver([build_line(probes, small)])[0]
                d2 = compare_history(None, stream, probes, small, o, mm)
                if d2 is not None:
                    case_ops, (i, fd) = small, d2
            self.res.disagree("%s:%s" % (stream, fd[0]), self.case(probes, case_ops, {"op_index": i, "field": fd[0]}), fd[1], fd[2])

    def finish(self):
        self.flush()


def case_probes(case):
    if case.get("probes"):
        return Probes.from_json(case["probes"])
    return probes_for([r for op in case["ops"] if op[0] in ("D", "W") for r in op[2]],
                      [t for op in case["ops"] if op[0] == "BA" for t in op[3]] + [t for op in case["ops"] if op[0] == "BP" for t in op[5]])


def replay_case(case, oracle):
    """re-run a stored case on the current VERIF_REPO: oracle verdict + model comparison"""
    probes = case_probes(case)
    ops = case["ops"]
    obs = run_impl(probes, ops)
    found = oracle(probes, ops, obs, None)
    out = {"repo": str(C.REPO), "violates": found[0][1] if found else False,
           "found": [{"op_index": f[0], "sig": f[1], "what": f[2]} for f in found[:8]],
           "impl": [render(o)[:400] for o in obs]}
    try:
        m = C.run_driver([build_line(probes, ops)])[0]
        d = compare_history(None, "replay", probes, ops, obs, m)
        out["model"] = [x[:400] for x in split_model(m)]
        out["model_agrees"] = d is None
        if d is not None:
            out["first_difference"] = {"op_index": d[0], "field": d[1][0], "impl": d[1][1], "model": d[1][2]}
    except C.DriverUnavailable as ex:
        out["model"] = "unavailable: %s" % ex
    return out


def corpus_histories(prop):
    out = []
    for name, body in C.load_corpus(prop):
        case = body.get("case", body)
        if "ops" not in case:
            continue
        out.append((name, case_probes(case), case["ops"], bool(body.get("oracle", True))))
    return out
