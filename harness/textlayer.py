"""The text layer of DNS names against its model (Zc.NameText; work package TEXTGLUE).

Two correspondence streams, both result-exact:

* `write_stream` (C01): sequences of `DNSOutgoing.write_name(str)` calls on one fresh packet -- the bytes each call
  appends, the exception it raises, and the library's `str`-keyed names table afterwards (keys and offsets) -- against
  `NameText.writeNameText` (driver `ntwrite`), which keeps a text-keyed table and computes the suffix offsets from text
  lengths exactly as the library does.  Names: the vocabulary of the wire generator plus the corner cases (`''`, `'.'`,
  `'..'`, `'a..b'`, no trailing dot, two trailing dots, U+FFFD, dots inside instance labels, labels of 63/64 bytes).
* `reencode_stream` (C02): wire names (label lists: ASCII, UTF-8, invalid UTF-8, labels with a literal `2e`, the root) put
  into a question, decoded by `DNSIncoming`, and the name it returns written back with `write_name` -- text, `len(name)`
  and the labels written -- against `NameText.textOfLabels` / `labelsOfText` (driver `nttext`, `ntlabels`).
"""
from __future__ import annotations

from . import common as C


def tok(s: str) -> str:
    return "=" + C.hx(s.encode("utf-8"))


def untok(t: str) -> str:
    assert t.startswith("=")
    return (b"" if t[1:] == "-" else bytes.fromhex(t[1:])).decode("utf-8")


EXC = {"NamePartTooLongException": "NamePartTooLongException", "IndexError": "IndexError"}


def impl_write(names, start=12):
    """the chunks a fresh DNSOutgoing appends for each write_name, the exception that stopped it, its names table"""
    from zeroconf import DNSOutgoing

    o = DNSOutgoing(0)
    # a packet body of `start - 12` bytes written before the first name (offsets beyond the header)
    if start > 12:
        o.write_string(b"\x00" * (start - 12))
    chunks, err = [], None
    table = dict(o.names)
    for n in names:
        before = len(o.data)
        try:
            o.write_name(n)
        except Exception as ex:  # noqa: BLE001
            err = EXC.get(type(ex).__name__, type(ex).__name__)
            # the keys a raising call registered before it raised are not part of the model's result (an exception out of
            # write_name aborts packets()): report the table as it was before that call
            break
        chunks.append(b"".join(o.data[before:]))
        table = dict(o.names)
    return chunks, err, table


def parse_write(line):
    t = line.split()
    st = t[0]
    n = int(t[1])
    chunks = [b"" if x == "-" else bytes.fromhex(x) for x in t[2:2 + n]]
    m = int(t[2 + n])
    rest = t[3 + n:]
    tbl = {untok(rest[2 * i]): int(rest[2 * i + 1]) for i in range(m)}
    assert len(rest) == 2 * m
    return st, chunks, tbl


CORNER_SEQS = [
    [""], ["."], [".."], ["a..b"], ["a.b"], ["a.b."], ["a.b.."], [".a"], ["a.b", "a.b."], ["", "."], [".", ""], ["a.", "a"],
    ["x.a.b.", "b", "a.b", "y.a.b"], ["é.b.", "b"], ["�.l."], ["a.b.l.", "b.l", "l.", "c.b.l"],
    ["My.Service._http._tcp.local.", "Service._http._tcp.local.", "_http._tcp.local.", "local."],
    ["a" * 63 + ".local."], ["a" * 64 + ".local."], ["é" * 31 + "z.local.", "é" * 32 + ".local."], ["ok.local.", "b" * 64 + ".local.", "later.local."],
    ["A.local.", "a.local.", "a.LOCAL."], ["..", ".", ""], ["a..b", ".b", "b"], ["é..", "."], ["a.b..", "b.", ""],
    ["日本.local.", "本.local.", "local"], ["x.y", "y."], ["\U0001f600.l.", "l"],
]


def write_stream(res, rng, tier, driver_ok, vocab):
    seqs = [list(s) for s in CORNER_SEQS]
    n = 600 if tier == "quick" else 12000
    odd = ["", ".", "..", "a..b", ".a", "a.b..", "a.b", "local", "é..", "x." * 5, "�.local.", "a" * 64 + ".local.", "q" * 63]
    for _ in range(n):
        k = rng.randint(1, 8)
        seq = []
        for _ in range(k):
            x = rng.random()
            if x < 0.12:
                nm = rng.choice(odd)
            else:
                nm = vocab()
                if x < 0.25 and nm.endswith("."):
                    nm = nm[:-1]
                elif x < 0.3:
                    nm = nm + "."
                elif x < 0.4:
                    # a suffix of an earlier name: compression against a text key
                    parts = nm.split(".")
                    nm = ".".join(parts[rng.randrange(len(parts)):])
            seq.append(nm)
        seqs.append(seq)
    starts = [12 if i < len(CORNER_SEQS) or rng.random() < 0.7 else rng.choice([13, 100, 0x3FF0, 0x3FFF, 0x4000, 8000]) for i in range(len(seqs))]
    impl = [impl_write(s, st) for s, st in zip(seqs, starts)]
    res.count("stream:text-write", len(seqs))
    if not driver_ok:
        return
    out = C.run_driver(["ntwrite %d %s" % (st, " ".join(tok(x) for x in s)) for s, st in zip(seqs, starts)])
    for s, st, (chunks, err, tbl), line in zip(seqs, starts, impl, out):
        res.evaluations += 1
        res.nontriv(("text-write", len(s), err, min(len(tbl), 6), any("�" in x for x in s), any(not x.endswith(".") for x in s),
                     any(".." in x or x.startswith(".") or x in ("", ".") for x in s), sum(1 for c in chunks if len(c) == 2 and c[0] >= 0xC0) > 0))
        case = {"names": s, "start": st}
        try:
            mst, mchunks, mtbl = parse_write(line)
        except Exception:  # noqa: BLE001
            res.disagree("text-write", case, "ok" if err is None else err, line[:200])
            continue
        ist = "ok" if err is None else "err:" + err
        if (ist, chunks, tbl) != (mst, mchunks, mtbl):
            res.disagree("text-write", case, "%s %s %r" % (ist, [c.hex() for c in chunks], sorted(tbl.items())),
                         "%s %s %r" % (mst, [c.hex() for c in mchunks], sorted(mtbl.items())))


WIRE_CORNERS = [
    [], [b"a.b", b"l"], [b"."], [b".", b"l"], [b"a."], [b".a"], [b"\xff", b"a"], [b"\xffa"], [b"\xff" * 21], [b"\xc3"], [b"a\xe6\x97"],
    [b"\xed\xa0\x80"], [b"\xf4\x90\x80\x80z"], [b"My.Service", b"_http", b"_tcp", b"local"], [b"\xef\xbf\xbd"], ["é".encode(), b"local"],
    [b"a" * 63, b"l"], [("é" * 31).encode() + b"z", b"l"], [b"x"] * 126, [b"x"] * 127, [b"a", b"b"],
]


def question_packet(labels):
    body = b"".join(bytes([len(l)]) + l for l in labels) + b"\x00"
    return bytes([0, 0, 0, 0, 0, 1, 0, 0, 0, 0, 0, 0]) + body + bytes([0, 12, 0, 1])


def impl_reencode(labels):
    """-> None when the decoder rejects the name, else (text, len(text), chunk written back | exception name)"""
    from zeroconf import DNSIncoming

    inc = DNSIncoming(question_packet(labels))
    if not inc.valid or len(inc.questions) != 1:
        return None
    name = inc.questions[0].name
    chunks, err, _ = impl_write([name])
    return name, len(name), (chunks[0] if err is None else err)


def wire_of_chunk(chunk):
    """labels of an uncompressed name as written (a premature 00 ends it: what a decoder would see is not the point here)"""
    out, i = [], 0
    while i < len(chunk):
        n = chunk[i]
        out.append(chunk[i + 1:i + 1 + n])
        i += 1 + n
    return out[:-1] if out and out[-1] == b"" else out  # the terminating root byte


def reencode_stream(res, rng, tier, driver_ok, rlabel):
    names = [list(x) for x in WIRE_CORNERS]
    n = 500 if tier == "quick" else 10000
    for _ in range(n):
        k = rng.choice([1, 1, 2, 3, 4, 6])
        ls = []
        for _ in range(k):
            l = rlabel(rng)
            if rng.random() < 0.15:
                j = rng.randrange(len(l) + 1)
                l = l[:j] + b"." + l[j:]
            ls.append(l[:63])
        names.append(ls)
    impl = [impl_reencode(ls) for ls in names]
    res.count("stream:text-reencode", len(names))
    if not driver_ok:
        return
    ntok = [("." if not ls else ".".join(C.hx(l) for l in ls)) for ls in names]
    out = C.run_driver(["nttext " + t for t in ntok])
    texts = []
    for ls, line in zip(names, out):
        t, ln = line.split()
        texts.append((untok(t), int(ln)))
    out2 = C.run_driver(["ntlabels " + tok(t) for t, _ in texts])
    for ls, im, (mt, mlen), lab_line in zip(names, impl, texts, out2):
        res.evaluations += 1
        case = {"labels": [l.hex() for l in ls]}
        mlabels = [b"" if x == "-" else bytes.fromhex(x) for x in lab_line.split(".")]
        res.nontriv(("text-reencode", len(ls), im is None, mlabels == ls, "�" in mt, any(b"." in l for l in ls)))
        if im is None:
            continue  # rejected by the decoder (253 characters, D8 test): C02's main streams compare that
        name, ln, back = im
        if (name, ln) != (mt, mlen):
            res.disagree("text-of-labels", case, "%r %d" % (name, ln), "%r %d" % (mt, mlen))
            continue
        if isinstance(back, bytes):
            if wire_of_chunk(back) != mlabels:
                res.disagree("labels-of-text", case, [x.hex() for x in wire_of_chunk(back)], [x.hex() for x in mlabels])
        elif not any(len(x) > 63 for x in mlabels):
            res.disagree("labels-of-text", case, back, [x.hex() for x in mlabels])
