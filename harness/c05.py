"""C05 -- record cache: every lookup path agrees with a flat RFC 6762 section 10 reference; purge exact and once;
a refreshed record is never purged early.  Correspondence (stage C) against `crun` of the Lean driver and the
property predicate (stage O) against `cachecommon.Ref`, on corpus + bounded-exhaustive + seeded random histories."""
from __future__ import annotations

import itertools
import time

from . import cachecommon as CC
from . import common as C

TRUSTED = CC.TRUSTED_COMMON + [
    "C05 stage O compares list-returning readers as multisets and accepts any match from get_by_details (the sentence says 'the same records "
    "with the same creation time and TTL'); the order of records in a list, and which match get_by_details picks (the latest inserted), are "
    "compared against the Lean model only (stage C)",
]
ASSUMPTIONS = [
    "D ops reach RecordManager.async_updates_from_response directly; W ops go as bytes through the real AsyncListener. Reading of 'sequence of "
    "response datagrams' where the listener's duplicate guard (C16's subject) is in front: the datagrams that count are those not byte-identical "
    "to the last *processed* datagram of the socket or arriving 1000 ms or more after it -- an identical re-announcement 1 s or more after the "
    "last processed copy must refresh the cache (cachecommon.WireRef)",
    "times are integer milliseconds, TTLs integers; the clock never goes backwards",
    "CPython dict behaves as an insertion-ordered map for keys with congruent __eq__/__hash__ (C20)",
]


# ------------------------------------------------------------------------------------------
# stage O


def oracle(probes, ops, obs, res):
    """the C05 sentence evaluated on the implementation's observations; returns [(op index, sig, what)]"""
    ref = CC.Ref()
    wire = CC.WireRef()
    found = []
    prev_ids = []
    prev_t = None
    clock = None
    for idx, (op, o) in enumerate(zip(ops, obs)):
        k = op[0]
        if o["err"]:
            if k == "LR" and o["err"] == "KeyError":
                break  # removing a listener that is not registered raises (C06's subject, D18); no cache operation involved
            found.append((idx, "C05:exception:%s" % o["err"], "op %r raised %s" % (op[:2], o.get("errmsg"))))
            break
        t = CC.op_time(op)
        if t is not None:
            clock = t
        if k == "W" and not wire_step(found, idx, "C05", wire, op, o, res):
            pass       # suppressed by the duplicate guard, as the property's reading of the guard expects: nothing happens
        elif k in ("D", "W"):
            info = ref.datagram(op[1], op[2])
            if res is not None:
                _stats_d(res, op, info, prev_t)
        elif k == "X":
            now = op[1]
            exp_ids, exp_lines = ref.purge(now)
            if res is not None:
                res.count("purge:expired=%s" % min(len(exp_ids), 3))
                res.nontriv("X/%s/%s" % (min(len(exp_ids), 3), CC.gap_class(now - prev_t) if prev_t else "-"))
            if o["u"] is None or o["spy_u"] != 1 or o["spy_c"] != 1:
                found.append((idx, "C05:purge-not-reported-once", "the purge called a listener %d times (update) / %d times (complete)" % (o["spy_u"], o["spy_c"])))
            else:
                got = [n for n, _ in o["u"]]
                gid = [CC.parse_line(x)[0] for x in got]
                if len(set(gid)) != len(gid):
                    found.append((idx, "C05:purge-reported-twice", "purge at %d reports %r" % (now, got)))
                for i, line in zip(gid, got):
                    if i not in exp_lines:
                        g = ref.guard.get(i)
                        if g is not None and now < g[0] + 1000 * g[1]:
                            found.append((idx, "C05:purged-before-refreshed-ttl",
                                          "purge at %d removed %s although it was last refreshed at %d with TTL %d s (lives until %d) and neither withdrawn nor flushed since"
                                          % (now, CC.ident_str(i), g[0], g[1], g[0] + 1000 * g[1])))
                        else:
                            found.append((idx, "C05:purged-unexpired", "purge at %d removed %s; the reference has it alive (or absent)" % (now, line)))
                        # follow the implementation so that one early purge is reported once
                        ref.d.pop(i, None)
                    elif line != exp_lines[i]:
                        found.append((idx, "C05:purge-lifetime", "purge at %d reports %s, reference expired %s" % (now, line, exp_lines[i])))
                    ref.guard.pop(i, None)
                for i in exp_ids:
                    if i not in gid:
                        found.append((idx, "C05:purge-missed-expired", "purge at %d left %s, expired in the reference" % (now, exp_lines[i])))
                if any(n != old for n, old in o["u"]):
                    found.append((idx, "C05:purge-pair", "the purge reports pairs that are not (record, record): %r" % (o["u"],)))
            # "reports each to listeners exactly once" is about every listener, not only the first of the set: async_updates hands ONE
            # `records` object to all of them (a generator there is exhausted by the first -- seeded defect C05-w5-seed1)
            if o["u"] is not None:
                spy = sorted(n for n, _ in o["u"])
                for c in o["calls"]:
                    if c[0] == "u" and sorted(n for n, _ in c[2]) != spy:
                        found.append((idx, "C05:purge-listener-pairs", "the purge at %d reported %d record(s) to the first listener of the set but "
                                      "listener %d was handed %r" % (now, len(spy), c[1], [n for n, _ in c[2]][:4])))
                        break
                if o.get("legacy") is not None and sorted(o["legacy"]) != spy:
                    found.append((idx, "C05:purge-listener-pairs", "the purge at %d reported %d record(s) to the first listener of the set but a listener that "
                                  "only implements update_record was handed %r" % (now, len(spy), o["legacy"][:4])))
            if o["c1"] != prev_ids or o["c2"] != prev_ids:
                found.append((idx, "C05:purge-listener-calls", "listeners %r registered; update called on %r, complete on %r" % (prev_ids, o["c1"], o["c2"])))
        if o["R"] is not None:
            for sig, what in CC.check_cross_paths(probes, o["R"]):
                found.append((idx, sig, what))
            for sig, what in CC.check_readers(ref, probes, o["R"], clock):
                found.append((idx, sig, what))
        prev_ids = o["ids"]
        if t is not None:
            prev_t = t
        if len(found) > 12:
            break
    return found


def wire_step(found, idx, prop, wire, op, o, res):
    """a datagram through the real listener (W op): is it processed?  The property's side: yes unless it is byte-identical to the last
    processed datagram and arrives less than 1000 ms after it (`CC.WireRef`).  A datagram the listener drops although it should be
    processed is a violation (a refresh that never reaches the cache); one it processes although the guard could have dropped it is
    C16's business, not this property's -- the reference follows the implementation there.  Returns: treat as processed?"""
    now, recs = op[1], op[2]
    sec = CC.op_opts(op).get("sec")
    expected = wire.expects(now, recs, sec)
    handed = o.get("handed") or []
    if res is not None:
        gap = "-" if wire.t is None else CC.gap_class(now - wire.t)
        same = wire.data is not None and wire.data == CC.payload_of(recs, sec)
        res.count("wire:source:%s" % ("ipv6-4tuple" if CC.op_opts(op).get("src6") else "ipv4-2tuple"))
        res.count("wire:%s" % ("processed" if expected else "suppressed"))
        res.nontriv("W/%s/%s/%s" % ("same" if same else "other", gap, "p" if expected else "s"))
    if len(handed) > 1:
        found.append((idx, "%s:listener:datagram-ingested-twice" % prop, "one datagram_received call handed %d messages to the record manager" % len(handed)))
    if expected and not handed:
        found.append((idx, "%s:listener:dropped-datagram" % prop,
                      "the datagram at %d was not handed to the record manager although %s: its records are not refreshed" % (
                          now, "no datagram was processed before" if wire.t is None else
                          ("the last processed datagram (at %d, %d ms earlier) %s" % (wire.t, now - wire.t, "has the same bytes but lies 1 s or more back"
                                                                                       if wire.data == CC.payload_of(recs, sec) else "has other bytes")))))
    if handed and handed[0] != now:
        found.append((idx, "%s:listener:arrival-time" % prop, "the datagram arrived at %d but the message handed to the record manager says now=%r" % (now, handed[0])))
    if expected or handed:
        wire.processed(now, recs, sec)
        return True
    return False


def _stats_d(res, op, info, prev_t):
    now, recs = op[1], op[2]
    gap = CC.gap_class(now - prev_t) if prev_t is not None else "-"
    seen = set()
    sigs = []
    for i, r in zip(info["ids"], recs):
        dup = i in seen
        seen.add(i)
        cached = i in info["before"]
        res.count("rec:%s" % r[0])
        res.count("ttl:%d" % r[5])
        if r[4]:
            res.count("flush-bit")
        if dup:
            res.count("repeated-in-datagram")
        sigs.append("%s%s%s%s%s" % (r[0], "c" if cached else "n", CC.ttl_class(r[5])[0], "F" if r[4] else "", "d" if dup else ""))
    res.count("gap:%s" % gap)
    res.count("flushed-records", len(info["flushed"]))
    res.count("removed-records", len(info["removed"]))
    res.nontriv("D/%s/%s/%s" % (",".join(sorted(sigs)), gap, min(len(info["flushed"]), 2)))


# ------------------------------------------------------------------------------------------
# bounded exhaustive enumeration (reduced vocabulary)

_T1 = ["t", "a._x._tcp.local.", 16, 1, "03613d31"]
_T2 = ["t", "A._x._tcp.local.", 16, 1, "03613d32"]
_P = ["p", CC.TX, 12, 1, "a._x._tcp.local."]
_PC = ["p", CC.TX, 12, 1, "A._X._tcp.local."]
_S = ["s", "a._x._tcp.local.", 33, 1, 0, 0, 80, "h.local."]
_SC = ["s", "A._x._tcp.local.", 33, 1, 0, 0, 80, "H.local."]


def _d(*rs):
    return ("D", [CC.inst(t, ttl, fl) for t, ttl, fl in rs])


# TTL 1 makes the expiry instant (created + 1000 <= now) and the flush window (now - created > 1000) meet the same gaps
EXH_SMALL = [_d((_T1, 1, 0)), _d((_T1, 1, 0), (_T1, 1, 0)), _d((_T1, 0, 0)), _d((_T2, 1, 1)), _d((_T1, 2, 1)),
             _d((_T1, 0, 0), (_T1, 2, 0)), ("X", None)]
EXH_SMALL_GAPS = [0, 999, 1000, 1001]
EXH_WIDE = EXH_SMALL + [_d((_P, 1, 0)), _d((_P, 1124, 0), (_PC, 4500, 0)), _d((_P, 0, 0)), _d((_S, 1, 0), (_SC, 2, 0)), _d((_S, 0, 1)),
                        _d((_T2, 2, 0), (_T1, 1, 1))]
EXH_WIDE_GAPS = [0, 999, 1000, 1001, 2000, 1125000]
EXH_VOCAB = [_T1, _T2, _P, _PC, _S, _SC]


def exh_histories(actions, gaps, depth):
    """all op sequences of length 1..depth over actions x gaps (the first op has no gap)"""
    for n in range(1, depth + 1):
        for acts in itertools.product(range(len(actions)), repeat=n):
            for gs in itertools.product(gaps, repeat=n - 1):
                now = CC.T0
                ops = []
                for j, a in enumerate(acts):
                    if j:
                        now += gs[j - 1]
                    kind, recs = actions[a]
                    ops.append(["X", now] if kind == "X" else ["D", now, [list(r) for r in recs], []])
                yield ops


# ------------------------------------------------------------------------------------------


def run(ctx):
    res = C.Result("C05")
    t0 = time.time()
    tier, seed = ctx["tier"], ctx["seed"]
    wide = 4 if ctx.get("widened") else 1
    n_random = C.Budget(tier, 700, 5200).n * wide
    deadline = t0 + (420 if tier == "thorough" else 70) * (1.5 if wide > 1 else 1)
    run_ = CC.Runner(res, "C05", ctx, oracle)

    # 1. corpus
    for name, probes, ops, _ in CC.corpus_histories("C05"):
        run_.add("corpus", probes, ops)
        res.count("corpus-files")

    # 2. bounded exhaustive: every history up to depth 3 (quick) over the small alphabet; thorough adds depth 2 over the
    #    wide alphabet and depth 4 over the small one.  Only the last op of each history is observed (prefixes are
    #    histories of the same enumeration).
    probes_e = CC.vocab_probes(EXH_VOCAB)
    plans = [(EXH_WIDE, EXH_WIDE_GAPS, 2), (EXH_SMALL, EXH_SMALL_GAPS, 3)]
    if tier == "thorough":
        plans = [(EXH_WIDE, EXH_WIDE_GAPS, 2), (EXH_SMALL, [0, 1000, 1001], 4), (EXH_SMALL, EXH_SMALL_GAPS, 3)]
    complete = True
    n_exh = 0
    for actions, gaps, depth in plans:
        for ops in exh_histories(actions, gaps, depth):
            run_.add("exhaustive", probes_e, ops, last_only=True)
            n_exh += 1
            if n_exh % 500 == 0 and time.time() > deadline - (150 if tier == "thorough" else 12):
                complete = False
                break
        if not complete:
            res.notes.append("bounded enumeration cut short by the time budget after %d histories" % n_exh)
            break
    res.exhaustive = complete

    # 3. datagrams as bytes through the real AsyncListener (duplicate guard, decode, hand-over) in front of the record manager
    probes_r = CC.vocab_probes()
    n_wire = 0
    for ops in CC.wire_window_histories():
        run_.add("listener-window", probes_r, ops)
        n_wire += 1
    rng = C.rng_for(seed, "c05", "listener")
    for h in range(max(20, n_random // 6)):
        opts = {"wire": True, "listeners": [1, 2], "initial_listeners": rng.choice([0, 1]), "p_repeat": rng.choice([0.0, 0.3]),
                "p_purge": rng.choice([0.1, 0.25]), "p_same_payload": rng.choice([0.3, 0.6])}
        run_.add("listener-random", probes_r, CC.gen_history(rng, rng.choice([6, 12, 25]), opts))
        n_wire += 1

    # 4. seeded random histories to depth 60 over the full vocabulary
    rng = C.rng_for(seed, "c05", "random")
    done = 0
    for h in range(n_random):
        depth = rng.choice([6, 12, 25, 40, 60])
        opts = {"listeners": [1, 2], "initial_listeners": rng.choice([0, 1, 2]), "p_listener": 0.03,
                "p_repeat": rng.choice([0.0, 0.3, 0.5]), "p_purge": rng.choice([0.1, 0.2, 0.35])}
        ops = CC.gen_history(rng, depth, opts)
        run_.add("random", probes_r, ops)
        done += 1
        if h % 20 == 0 and time.time() > deadline:
            res.notes.append("random stream cut short by the time budget after %d of %d histories" % (done, n_random))
            break
    run_.finish()
    res.rule = ("one evaluation = one op of a history (datagram via DNSOutgoing->DNSIncoming->RecordManager with the wall clock moving on after "
                "the decode, or as bytes through the real AsyncListener.datagram_received; purge via "
                "AsyncEngine._async_cache_cleanup, listener add/remove) after which all eleven readers over the probe vocabulary, the purge "
                "report and the listener calls are compared with the Lean model (stage C) and with the flat reference (stage O). "
                "Streams: corpus; every history of length <= %s over the reduced alphabets (%d histories, %s); @NWIRE@ histories through the listener (one payload 3-4 times at gaps around the 1 s duplicate guard with TTLs of 1-2 s, and random); %d seeded random "
                "histories of depth 6-60 over %d record templates (case variants, PTR/SRV/TXT/A/AAAA/NSEC/HINFO, TTL in %r, flush bit, "
                "in-datagram repeats, clock steps aimed at the 1 s window, expiry instants and the 10 s period). "
                "non-trivial = distinct (records: kind, cached-before, TTL class, flush, repeat; gap class; flush hits) per datagram and "
                "(expired count, gap class) per purge"
                % ("/".join(str(p[2]) for p in plans), n_exh, "complete" if complete else "cut short", done, len(CC.VOCAB), CC.TTLS))
    res.rule = res.rule.replace("@NWIRE@", str(n_wire))
    res.sample({"history": run_.histories, "example_ops": [["D", CC.T0, [CC.inst(_T1, 1, 0), CC.inst(_T1, 1, 0)], []], ["D", CC.T0 + 999, [CC.inst(_T1, 1, 0)], []], ["X", CC.T0 + 1000]]})
    if any("cut short" in n or "stopped after" in n for n in res.notes):
        # a stream was cut by the wall-clock budget (a loaded machine): the run is not the complete plan; the note says which stream
        res.exhaustive = False
    res.count("wall_s", int(time.time() - t0))
    return res


def replay(body):
    case = body.get("case", body)
    if "ops" not in case:
        return {"violates": None, "note": "no replayable history in this file"}
    return CC.replay_case(case, oracle)
