"""C04 -- browser callbacks alternate Added/Removed and, at every quiescent point, mirror the pointer records in the cache.

Real `_ServiceBrowserBase` instances (callback side; the query scheduler is never started) registered with the real
`RecordManager` exactly as `_async_start` does.  Stage C: the shared `crun` correspondence (callbacks per op).
Stage O: alternation per (browser, type, lower-cased instance), live set == pointer records of `entries_with_name(type)`
after every op, and the lookups / cache snapshot taken from inside the service callbacks."""
from __future__ import annotations

import itertools
import time

from . import c04_live
from . import cachecommon as CC
from . import common as C

TRUSTED = CC.TRUSTED_COMMON + [
    "C04 live stream: a real Zeroconf instance with real AsyncServiceBrowser / thread-based ServiceBrowser objects under harness/vsim.py (virtual "
    "clock, fake sockets; datagrams handed to the real AsyncListener.datagram_received; the instance's own 10 s cleanup timer); the loop "
    "thread waits in real time for the delivery threads, 'quiescent' = loop idle and every queued event delivered",
    "C04: browsers are _ServiceBrowserBase objects (even ids) or a subclass running the real ServiceBrowser.async_update_records_complete "
    "override with an inline queue instead of the delivery thread (odd ids), created by the real _async_start (asyncio.ensure_future replaced: "
    "no event loop, no QueryScheduler.start) and cancelled by the real _async_cancel, each with a listener and a second plain handler; "
    "reschedule_ptr_first_refresh / cancel_ptr_refresh run but their effect (C10) is not observed here",
    "C04: 'quiescent' = between two ops of the history (asyncio runs each datagram / purge / API call to completion)",
]
ASSUMPTIONS = [
    "'the callbacks a service browser delivers' is read per registered handler: every handler of a browser (the listener and a second plain "
    "handler) is handed the same events in the same order (C04:second-handler)",
    "WFHist (the quantifier's restriction), enforced by the generator: pointer records have an owner name spelled exactly as a browsed type "
    "and class IN; the browsed types (_x._tcp.local., _y._udp.local., _Zed._tcp.local. -- with an upper-case letter --, and the six-label subtype "
    "_printer._sub._http._tcp.local., whose base type nobody browses) are not nested; one datagram never carries two spellings of one "
    "instance name; browsers are created at any time (since the D23 repair the creation purges expired records first), with a frozen clock "
    "or a clock ticking per reading during the creation (D23b regression family)",
    "SRV/TXT/address owner names have one spelling; callbacks of one op are compared sorted by (browser, lower-cased instance, type), so the "
    "iteration order of a browser's `types` set cannot matter (one instance name may be listed under several browsed types)",
]

TX, TY, TZ = CC.TX, CC.TY, CC.TZ
TS = "_printer._sub._http._tcp.local."
IN = 1
VOCAB = [
    ["p", TX, 12, IN, "a._x._tcp.local."],
    ["p", TX, 12, IN, "A._X._tcp.local."],   # same instance re-cased (never together with the other spelling in one datagram)
    ["p", TX, 12, IN, "b._x._tcp.local."],
    ["p", TY, 12, IN, "c._y._udp.local."],
    ["p", TY, 12, IN, "C._Y._UDP.local."],
    ["s", "a._x._tcp.local.", 33, IN, 0, 0, 80, "h.local."],
    ["s", "b._x._tcp.local.", 33, IN, 0, 0, 81, "H.local."],
    ["s", "c._y._udp.local.", 33, IN, 0, 0, 82, "g.local."],
    ["t", "a._x._tcp.local.", 16, IN, "03613d31"],
    ["t", "c._y._udp.local.", 16, IN, "03613d32"],
    ["a", "h.local.", 1, IN, "0a000001"],
    ["a", "h.local.", 1, IN, "0a000002"],
    ["a", "g.local.", 1, IN, "0a000003"],
    ["a", "h.local.", 28, IN, CC.FE80_1],
    # a browsed type and instance names spelled with upper-case letters (owner name exactly the browsed type, every
    # owner name in one spelling, the instance re-cased only across datagrams): still inside WFHist
    ["p", TZ, 12, IN, "D._Zed._tcp.local."],
    ["p", TZ, 12, IN, "d._zed._TCP.local."],
    ["p", TZ, 12, IN, "E._Zed._tcp.local."],
    ["s", "D._Zed._tcp.local.", 33, IN, 0, 0, 83, "Host.LOCAL."],
    ["t", "D._Zed._tcp.local.", 16, IN, "03613d33"],
    ["a", "Host.LOCAL.", 1, IN, "0a000004"],
    # a browsed *sub*type (six labels; `possible_types` has to walk three levels to reach it; `_http._tcp.local.` itself is browsed by
    # nobody, so no browsed type is a sub/super-type of another): owner name exactly the browsed type
    ["p", TS, 12, IN, "lj._http._tcp.local."],
    ["p", TS, 12, IN, "LJ._HTTP._tcp.local."],
    ["s", "lj._http._tcp.local.", 33, IN, 0, 0, 631, "h.local."],
    # one instance name listed under two browsed types (the pending-callback key is (name, type), not the name alone)
    ["p", TY, 12, IN, "a._x._tcp.local."],
    ["p", TZ, 12, IN, "a._x._tcp.local."],
]
BROWSER_TYPES = [[TX], [TY], [TX, TY], [TY, TX], [TZ], [TZ, TX], [TY, TZ], [TS], [TS, TX], [TY, TS], [TX, TY, TZ]]


# ------------------------------------------------------------------------------------------
# stage O


D25_SIG = "C04:browser-created-in-handler:completion-reentered"


def _expired_only(snap, final, now):
    """is `snap` (the cache seen inside a callback) the final cache plus records whose TTL had fully elapsed at `now`?  (a browser created
    from inside a later handler of the same op purges them: D23)"""
    try:
        a, b = CC.parse_snapshot(snap), CC.parse_snapshot(final)
    except ValueError:
        return False
    for i, line in b.items():
        if a.get(i) != line:
            return False
    for i, line in a.items():
        if i not in b:
            _, _, created, ttl = CC.parse_line(line)
            if created + 1000 * ttl > now:
                return False
    return True


_DETAIL = {}    # (op index, signature, text) -> (browser, type, lower-cased instance) of the last `oracle` run, for the three signatures S1/S6 refine


def oracle(probes, ops, obs, res):
    _DETAIL.clear()
    found = []
    live = {}      # (bid, type, lower name) -> bool
    active = {}    # bid -> types
    plans = {}     # (bid, new bid) -> types
    prev_t = None
    for idx, (op, o) in enumerate(zip(ops, obs)):
        k = op[0]
        made = [e[3] for e in (o.get("events") or []) if e[0] == "b"]
        if o["err"]:
            if made and o["err"] == "RuntimeError":
                # D24b: a handler created a browser; the purge of async_add_listener ran nested rounds that re-entered the completion loop
                twice = sorted({(c[0], c[3]) for c in o["cb"] if c[1] == "A" and sum(1 for d in o["cb"] if d[:4] == c[:4]) > 1})
                found.append((idx, D25_SIG,
                              "browser %d's service handler created browser %d while an expired record was cached: async_add_listener purged it and ran "
                              "async_updates + async_updates_complete(False) over every listener, re-entering browser %d's async_update_records_complete "
                              "while it iterated _pending_handlers: Added delivered twice for %r and %s out of the op"
                              % (made[0][0], made[0][1], made[0][0], twice, o.get("errmsg"))))
                break
            found.append((idx, "C04:exception:%s" % o["err"], "op %r raised %s" % (op[:2], o.get("errmsg"))))
            break
        if k == "BP":
            plans[(op[1], op[4])] = list(op[5])
        for bid, nb in made:
            # a browser created by a handler plan (cancelling a browser with that id first, as BA does)
            for key in [x for x in live if x[0] == nb]:
                del live[key]
            active[nb] = plans.get((bid, nb), [])
        if k == "BA":
            for key in [x for x in live if x[0] == op[1]]:
                del live[key]
            active[op[1]] = list(op[3])
        elif k == "BR":
            active.pop(op[1], None)
            for key in [x for x in live if x[0] == op[1]]:
                del live[key]
        if o.get("cb2") is not None and [list(x[:4]) for x in o["cb"]] != [list(x) for x in o["cb2"]]:
            found.append((idx, "C04:second-handler", "the second handler of the browsers was called with %r, the listener with %r"
                          % (o["cb2"][:4], [x[:4] for x in o["cb"]][:4])))
        counts = {"A": 0, "R": 0, "U": 0}
        for bid, ch, type_, name, seen, snap in o["cb"]:
            counts[ch] += 1
            key = (bid, type_, name.lower())
            if bid not in active:
                # (a browser cancelled in an EARLIER op, or by a BR op.  A browser that its own handler cancels in the middle of a batch
                # stays `active` until the end of this op: the property says nothing about the rest of a batch that was already being
                # fired -- the asyncio flavour delivers it, the threaded flavour's run() drops it; both are accepted)
                found.append((idx, "C04:callback-from-cancelled-browser", "browser %d is cancelled but delivered %s(%s)" % (bid, ch, name)))
            elif type_ not in active[bid]:
                found.append((idx, "C04:callback-for-foreign-type", "browser %d does not browse %s but delivered %s(%s)" % (bid, type_, ch, name)))
            if ch == "A":
                if live.get(key):
                    found.append((idx, "C04:double-added", "browser %d delivered Added(%s, %s) although it is already added and not removed since" % (bid, type_, name)))
                live[key] = True
                if not seen:
                    found.append((idx, "C04:added-before-cached", "inside add_service(%s, %s) the cache lookup does not find the pointer record" % (type_, name)))
                    _DETAIL[(idx, "C04:added-before-cached", found[-1][2])] = key
            elif ch == "R":
                if not live.get(key):
                    found.append((idx, "C04:removed-without-added", "browser %d delivered Removed(%s, %s) for an instance that is not currently added" % (bid, type_, name)))
                    _DETAIL[(idx, "C04:removed-without-added", found[-1][2])] = key
                live[key] = False
            # "callbacks are delivered only after the records of the triggering datagram are in the cache": demanded of Added callbacks
            # (the sentence's own example is the lookup from inside add_service); what Removed / Updated callbacks see is compared with
            # the model only.  (A browser created from inside a handler purges at a later clock reading: records that expired by then
            # may be gone from the final cache -- tolerated.)
            if ch == "A" and snap is not None and snap != o["S"] and not (
                    made and _expired_only(snap, o["S"], (CC.op_time(op) or 0) + (o.get("ticks") or 0))):
                found.append((idx, "C04:callback-before-cache-update", "the cache seen inside the %s callback for %s differs from the cache after the op" % (ch, name)))
                _DETAIL[(idx, "C04:callback-before-cache-update", found[-1][2])] = key
        for e in (o.get("events") or []):
            if e[0] == "k":
                # cancelled by its own handler during this op: from now on it owes (and may deliver) nothing
                active.pop(e[3][0], None)
                for key in [x for x in live if x[0] == e[3][0]]:
                    del live[key]
        if o["P"] is not None:
            for bid, types in active.items():
                for t in types:
                    have = {x[2] for x, v in live.items() if v and x[0] == bid and x[1] == t}
                    cached = set(o["P"].get(t.lower(), []))
                    if have != cached:
                        if cached - have:
                            found.append((idx, "C04:cached-not-added", "browser %d (%s): pointer records %r are cached but were never reported Added (or were Removed)"
                                          % (bid, t, sorted(cached - have))))
                        if have - cached:
                            found.append((idx, "C04:added-not-cached", "browser %d (%s): %r reported Added and not Removed, but no pointer record is cached"
                                          % (bid, t, sorted(have - cached))))
        if res is not None:
            t = CC.op_time(op)
            gap = CC.gap_class(t - prev_t) if (t is not None and prev_t is not None) else "-"
            for c, n in counts.items():
                if n:
                    res.count("callback:" + c, n)
            if k == "D":
                ps = sorted("%s%s%s" % (r[0], CC.ttl_class(r[5])[0], "F" if r[4] else "") for r in op[2])
                res.nontriv("D/%s/%s/%d%d%d/%d" % (",".join(ps), gap, min(counts["A"], 2), min(counts["R"], 2), min(counts["U"], 2), len(active)))
                for r in op[2]:
                    res.count("rec:%s" % r[0])
                    res.count("ttl:%d" % r[5])
            elif k in ("X", "BA"):
                res.nontriv("%s/%s/%d%d/%d" % (k, gap, min(counts["A"], 3), min(counts["R"], 3), len(active)))
            res.count("op:" + k)
            res.count("gap:" + gap)
        t = CC.op_time(op)
        if t is not None:
            prev_t = t
        if len(found) > 12:
            break
    return found


# ------------------------------------------------------------------------------------------
# generators


def one_spelling(recs):
    """WFHist: inside one datagram every instance name has one spelling (the first one used)"""
    first = {}
    out = []
    for r in recs:
        r = list(r)
        if r[0] == "p":
            r[6] = first.setdefault(r[6].lower(), r[6])
        out.append(r)
    return out


def expired_ptr_cached(ref, types, now):
    tl = {t.lower() for t in types}
    return any(i[0] == "p" and i[2] == 12 and i[1] in tl and e[0] + 1000 * e[1] <= now for i, e in ref.d.items())


def well_formed(ops):
    """WFHist on a history (used while shrinking).  Since the D23/D23b repairs (the creation purges expired records first and replays
    with the same clock reading) browsers may be created at any time, also while the clock ticks"""
    ref = CC.Ref()
    for op in ops:
        if op[0] == "D":
            if one_spelling(op[2]) != [list(r) for r in op[2]]:
                return False
            ref.datagram(op[1], op[2])
        elif op[0] == "X":
            ref.purge(op[1])
        elif op[0] == "BA":
            ref.purge(op[2])
    return True


# outside WFHist (stage C only): a second class, a re-cased owner name, two spellings in one datagram, no purge before creation
VOCAB_WILD = VOCAB + [
    ["p", TX, 12, 2, "a._x._tcp.local."],
    ["p", TX, 12, 2, "A._X._tcp.local."],
    ["p", "_X._TCP.local.", 12, IN, "b._x._tcp.local."],
    ["p", "sub._x._tcp.local.", 12, IN, "a._x._tcp.local."],
]


def gen_history(rng, depth, wf=True):
    ref = CC.Ref()
    now = CC.T0
    ops = []
    active = {}
    vocab = VOCAB if wf else VOCAB_WILD
    opts = {"vocab": vocab, "p_repeat": rng.choice([0.0, 0.25, 0.5]), "p_flush_ptr": rng.choice([0.0, 0.1, 0.3]), "p_flush": 0.3}
    p_purge = rng.choice([0.1, 0.2, 0.35])

    def add_browser():
        bid = rng.choice([1, 2, 3])
        if bid in active:
            return
        types = rng.choice(BROWSER_TYPES)
        if wf and expired_ptr_cached(ref, types, now) and rng.random() < 0.4:
            ops.append(["X", now])          # (before the D23 repair this purge was required to stay inside the quantifier)
        ref.purge(now)                      # the creation itself purges
        ops.append(["BA", bid, now, list(types)])
        active[bid] = types

    if rng.random() < 0.7:
        add_browser()
    while len(ops) < depth:
        now += CC.pick_step(rng, ref, now)
        x = rng.random()
        if x < p_purge:
            t = now
            if rng.random() < 0.4:
                t = (now // 10000 + 1) * 10000
                now = t
            ops.append(["X", t])
            ref.purge(t)
        elif x < p_purge + 0.08:
            if active and rng.random() < 0.4:
                bid = rng.choice(sorted(active))
                ops.append(["BR", bid])
                del active[bid]
            else:
                add_browser()
        else:
            recs = CC.gen_datagram(rng, vocab, ref, opts)
            if wf:
                recs = one_spelling(recs)
            ops.append(["D", now, recs, []] + CC.gen_wire_opts(rng, recs, allow6=True))
            ref.datagram(now, recs)
    return ops


_P, _PC, _PB = VOCAB[0], VOCAB[1], VOCAB[2]
_S, _A = VOCAB[5], VOCAB[10]


def _d(*rs):
    return ("D", [CC.inst(t, ttl, fl) for t, ttl, fl in rs])


EXH_ACTIONS = [_d((_P, 120, 0)), _d((_P, 0, 0)), _d((_P, 4500, 0), (_P, 0, 0)), _d((_P, 0, 0), (_P, 120, 0)), _d((_PC, 1, 0), (_PC, 1, 0)),
               _d((_PB, 120, 1)), _d((_S, 120, 0), (_A, 120, 0)), ("X", None), ("BA2", None), ("BR1", None)]
EXH_GAPS = [0, 1001, 1125000]
# the same kind of plan behind a browser on the upper-case type
_PZ, _PZC, _SZ, _AZ = VOCAB[14], VOCAB[15], VOCAB[17], VOCAB[19]
EXH_ACTIONS_Z = [_d((_PZ, 120, 0)), _d((_PZ, 0, 0)), _d((_PZ, 4500, 0), (_PZ, 4500, 0)), _d((_PZC, 1, 0)), _d((_PZC, 0, 0)),
                 _d((_SZ, 120, 0), (_AZ, 120, 0)), ("X", None), ("BA2", None)]
EXH_GAPS_Z = [0, 1001, 1125000]


def exh_histories(actions, gaps, depth, t1=None, t2=None):
    """browser 1 on `t1` (default [_x._tcp.local.]) from the start; all op sequences of length <= depth"""
    t1 = t1 or [TX]
    t2 = t2 or [TX, TY]
    for n in range(1, depth + 1):
        for acts in itertools.product(range(len(actions)), repeat=n):
            for gs in itertools.product(gaps, repeat=n - 1):
                now = CC.T0
                ops = [["BA", 1, now, list(t1)]]
                for j, a in enumerate(acts):
                    if j:
                        now += gs[j - 1]
                    kind, recs = actions[a]
                    if kind == "X":
                        ops.append(["X", now])
                    elif kind == "BA2":
                        ops.append(["X", now])       # WFHist: no expired-unpurged pointer at creation
                        ops.append(["BA", 2, now, list(t2)])
                    elif kind == "BR1":
                        ops.append(["BR", 1])
                    else:
                        ops.append(["D", now, [list(r) for r in recs], []])
                yield ops


# ------------------------------------------------------------------------------------------
# D23 (repaired in /repo 1a6b142: the creation purges expired records first; the family stays as a regression input.  Before the repair
# these histories were outside C04's quantifier: "browsers created while no expired-but-unpurged pointer record of their types is cached")

D23_SIG = "C04:created-over-expired-unpurged:never-added-after-refresh"


def d23_histories():
    """a pointer record expires; a browser is created before the 10 s purge removes it; the instance announces itself again"""
    for tpl, types in ((VOCAB[0], [TX]), (VOCAB[14], [TZ]), (VOCAB[3], [TY, TX])):
        for ttl in (120, 4500):
            eff = max(ttl, 1125)
            t0 = CC.T0 + 800
            exp = t0 + 1000 * eff
            for off in (0, 1, 4200, 9999):
                for ttl2 in (120, 4500):
                    create = exp + off
                    ops = [["D", t0, [CC.inst(tpl, ttl, 0)], []],
                           ["BA", 1, create, list(types)],
                           ["D", create + 100, [CC.inst(tpl, ttl2, 0)], []],
                           ["X", (create // 10000 + 1) * 10000],
                           ["D", (create // 10000 + 1) * 10000 + 500, [CC.inst(tpl, ttl2, 0)], []]]
                    yield ops


def oracle_d23(probes, ops, obs, res):
    """the C04 predicates on a history that creates a browser over an expired-but-unpurged pointer record: reported under the D23
    signature only where the record has been announced again since (it is alive in the reference) and the browser still has not Added it"""
    found = oracle(probes, ops, obs, res)
    ref = CC.Ref()
    alive_after = {}
    seen_ba = False
    for idx, op in enumerate(ops):
        if op[0] == "D":
            ref.datagram(op[1], op[2])
            alive_after[idx] = seen_ba and any(i[0] == "p" and e[0] + 1000 * e[1] > op[1] for i, e in ref.d.items())
        elif op[0] == "X":
            ref.purge(op[1])
            alive_after[idx] = seen_ba and any(i[0] == "p" and e[0] + 1000 * e[1] > op[1] for i, e in ref.d.items())
        elif op[0] == "BA":
            seen_ba = True
    out = []
    for idx, sig, what in found:
        if sig == "C04:cached-not-added" and alive_after.get(idx):
            out.append((idx, D23_SIG, "a browser created while an expired-but-unpurged pointer record was cached: the instance announced itself "
                        "again (the cached entry was refreshed in place and handed to the browser as (new, old=the stale entry)), yet " + what))
    return out


def d23_valid(ops):
    return any(o[0] == "BA" for o in ops)


# D23b (repaired in /repo c7503f0: one clock reading for purge and replay; the family stays as a regression input, run with a clock that
# ticks per reading).  Before: the creation read the clock twice (purge in async_add_listener, replay in _async_update_matching_records); a
# pointer record that ran out between the two readings was neither purged nor replayed, and was never Added afterwards.
D23B_SIG = "C04:created-between-two-clock-readings:never-added-after-refresh"


def d23b_histories():
    for tpl, types in ((VOCAB[0], [TX]), (VOCAB[14], [TZ])):
        for ttl in (120, 4500):
            eff = max(ttl, 1125)
            t0 = CC.T0 + 800
            exp = t0 + 1000 * eff
            yield [["D", t0, [CC.inst(tpl, ttl, 0)], []],
                   ["BA", 1, exp - 1, list(types), 1],          # purge reads exp-1, replay reads exp
                   ["D", exp + 100, [CC.inst(tpl, 4500, 0)], []],
                   ["X", (exp // 10000 + 1) * 10000]]


def oracle_d23b(probes, ops, obs, res):
    return [(idx, D23B_SIG, "the clock ticked between the purge and the replay of a browser's creation while a pointer record ran out: " + what)
            for idx, sig, what in oracle_d23(probes, ops, obs, res) if sig == D23_SIG]


# D24b (notes/fixes/D24b.diff): a browser created from INSIDE a service handler ("browse, then browse each type found") while an expired
# record is still cached: async_add_listener purges it and runs nested listener rounds that re-enter the creating browser's completion loop.


def d25_histories():
    """browsers on _x._tcp (ids 0 / 2 / 4: before, at and after the creator in iteration order; all the asyncio flavour); browser 2's
    listener creates browser 6 from inside add_service / remove_service for a given instance; some record of the first datagram has
    run out (or not yet: +-1 ms) and is unpurged when the triggering datagram arrives"""
    P, PB, PY = VOCAB[0], VOCAB[2], VOCAB[3]
    A, T = VOCAB[10], VOCAB[8]
    for victim, vttl in ((A, 120), (T, 120), (P, 1125), (PY, 1125), (None, 0)):
        for off in (-1, 0, 1, 5000):
            for others in ([], [0], [4], [0, 4]):
                for new_types in ([TY], [TX], [TX, TY]):
                    for trigger in ("A", "R"):
                        t0 = CC.T0
                        ops = [["BA", 2, t0, [TX]]] + [["BA", b, t0, [TX]] for b in others]
                        first = [CC.inst(PY, 4500, 0)]
                        if victim is not None:
                            first.append(CC.inst(victim, vttl if victim[0] != "p" else 120, 0))
                        if trigger == "R":
                            first.append(CC.inst(PB, 4500, 0))
                        ops.append(["BP", 2, trigger, "B._x._tcp.local.", 6, list(new_types)])
                        ops.append(["D", t0, first, []])
                        t1 = t0 + 1000 * max(vttl, 1) + off
                        if trigger == "A":
                            recs = [CC.inst(PB, 4500, 0), CC.inst(VOCAB[6], 120, 0)]
                            if victim is not P:
                                recs.append(CC.inst(P, 4500, 0))
                        else:
                            recs = [CC.inst(PB, 0, 0), CC.inst(VOCAB[11], 120, 0)]
                        ops.append(["D", t1, recs, []])
                        ops.append(["D", t1 + 1000, [CC.inst(PY, 4500, 0), CC.inst(P, 4500, 0)], []])
                        ops.append(["X", (t1 // 10000 + 2) * 10000])
                        yield ops


def d25_valid(ops):
    return any(o[0] == "BP" for o in ops)


def add_plans(rng, ops):
    """sprinkle handler plans over a random history: after the creation of an even-id browser (the asyncio flavour delivers inline), a plan
    that creates a browser with a fresh id (4, 5, 6) from inside one of its handlers"""
    out = []
    fresh = [4, 5, 6]
    names = ["a._x._tcp.local.", "B._x._tcp.local.", "c._y._udp.local.", "D._Zed._tcp.local."]
    for op in ops:
        out.append(op)
        if op[0] == "BA" and op[1] % 2 == 0 and fresh and rng.random() < 0.7:
            for _ in range(rng.choice([1, 1, 2])):
                if fresh:
                    nb = fresh.pop(0)
                    out.append(["BP", op[1], rng.choice(["A", "A", "R", "U"]), rng.choice(names), nb, list(rng.choice(BROWSER_TYPES))])
    return out


# S1 / S6 (findings; notes/agents/C06.md "Residual findings"): a hand-written RecordUpdateListener that registers a listener WITH a question
# from inside its UPDATE callback (async_add_listener purges and runs nested rounds in the middle of the datagram's first round).  Browsers
# iterated after it are told Removed twice for a withdrawn record that had run out unpurged (S1); browsers iterated before it have their
# pending Added fired by the nested completion before the datagram's records are cached (S6).  Stage O only (the driver's composite does
# not interleave browsers with recording listeners); Lean counterpart: Props/C04Reentrant.lean (`updateRoundReentrant`, `S1_alternates_statement`
# / `S6_added_after_cache_statement` with `_refuted` at these witnesses, input classes `S1Class` / `S6Class` = `update_round_classes` below).
S1_SIG = "C04:update-round-reentrant-listener:removed-twice"
S6_SIG = "C04:update-round-reentrant-listener:added-before-cached"


def cancel_in_handler_histories():
    """a browser's own service handler cancels the browser in the middle of a batch (plan with new id -1): both flavours (2 = asyncio,
    3 = threaded-like), the cancelling event first / last of a batch of Added resp. Removed, another browser next to it, and a
    datagram afterwards (a cancelled browser must stay silent in later ops)"""
    P, PB = VOCAB[0], VOCAB[2]
    for bid in (2, 3):
        for trig_name in ("a._x._tcp.local.", "b._x._tcp.local."):
            for trigger in ("A", "R"):
                for other in ([], [0]):
                    t0 = CC.T0
                    ops = [["BA", bid, t0, [TX]]] + [["BA", b, t0, [TX]] for b in other]
                    ops.append(["BP", bid, trigger, trig_name, -1, []])
                    ops.append(["D", t0, [CC.inst(P, 4500, 0), CC.inst(PB, 4500, 0)], []])
                    ops.append(["D", t0 + 5000, [CC.inst(P, 0, 0), CC.inst(PB, 0, 0)], []])
                    ops.append(["D", t0 + 9000, [CC.inst(P, 4500, 0), CC.inst(VOCAB[3], 4500, 0)], []])
                    ops.append(["X", t0 + 20000])
                    yield ops


def update_round_histories():
    P, PB, A = VOCAB[0], VOCAB[2], VOCAB[10]
    q = ["_other._tcp.local.", 12, 1]
    for others in ([0], [0, 4]):
        t0 = CC.T0
        # S1: listener 1 is iterated before the browsers
        ops = [["BA", b, t0, [TX]] for b in others] + [["LA", 1], ["D", t0, [CC.inst(P, 120, 0)], []],
               ["D", t0 + 1125000 + 500, [CC.inst(P, 0, 0)], [[1, 1, 2, 3, 0] + q]], ["X", t0 + 1130000]]
        yield ops
        # S6: listener 12 is iterated after the browsers (hash 12 > 7 + id)
        ops = [["BA", b, t0, [TX]] for b in others] + [["LA", 12], ["D", t0, [CC.inst(A, 120, 0)], []],
               ["D", t0 + 121000, [CC.inst(PB, 4500, 0)], [[1, 12, 2, 3, 0] + q]], ["X", t0 + 130000]]
        yield ops


def update_round_classes(ops):
    """the input classes of S1 / S6 (Lean: `S1Class`, `S6Class` in Props/C04Reentrant.lean), computed from the history alone.
    Returns {op index: (s1 keys, s6 keys)}, keys = (browser, type, lower-cased instance).  In a datagram op a registered recording listener
    L has a scripted phase-1 (update round, depth 0) `add with a question` reaction with clock reading t = now + dt, and
      S1: the datagram withdraws (zero-TTL copy) a cached pointer record of a type browser B browses whose TTL had fully elapsed at t
          (run out, unpurged), and L is iterated BEFORE B (set order: recording listeners hash to their id, browsers to 7 + id);
      S6: the datagram announces (non-zero TTL) a pointer record of a type B browses that is not cached, some cached record had run out at
          t (so the nested purge has rounds to run), and L is iterated AFTER B."""
    ref = CC.Ref()
    registered = set()
    browsers = {}
    out = {}
    for idx, op in enumerate(ops):
        k = op[0]
        if k == "LA":
            registered.add(op[1])
        elif k == "LR":
            registered.discard(op[1])
        elif k == "BA":
            ref.purge(op[2])
            browsers[op[1]] = list(op[3])
        elif k == "BR":
            browsers.pop(op[1], None)
        elif k == "X":
            ref.purge(op[1])
        elif k in ("D", "W"):
            now = op[1]
            s1, s6 = set(), set()
            for r in op[3]:
                if not (r[0] == 1 and r[2] == 2 and r[1] in registered):
                    continue
                lid, t = r[1], now + r[4]
                run_out = {i for i, e in ref.d.items() if e[0] + 1000 * e[1] <= t}
                for bid, types in browsers.items():
                    first = lid < 7 + bid
                    for rec in op[2]:
                        if rec[0] != "p" or rec[2] != 12 or rec[1] not in types:
                            continue
                        i = CC.ident_of(rec)
                        key = (bid, rec[1], rec[6].lower())
                        if first and rec[5] == 0 and i in run_out:
                            s1.add(key)
                        if not first and rec[5] != 0 and i not in ref.d and run_out:
                            s6.add(key)
            if s1 or s6:
                out[idx] = (s1, s6)
            ref.datagram(now, op[2])
    return out


def oracle_update_round(probes, ops, obs, res):
    """the plain C04 predicates; a violation is reported under a finding's signature only if it is the violation that finding predicts
    for this input: same op, same browser, same (type, instance), and the history is in the finding's input class.  Anything else keeps
    its plain signature (e.g. an Added for a *purged* record fired by a nested round, mutant mY)"""
    out = []
    classes = update_round_classes(ops)
    for idx, sig, what in oracle(probes, ops, obs, res):
        key = _DETAIL.get((idx, sig, what))
        s1, s6 = classes.get(idx, (set(), set()))
        if sig == "C04:removed-without-added" and key in s1:
            out.append((idx, S1_SIG, "a listener registered another listener with a question from inside its update callback while the record the datagram "
                        "withdraws had run out unpurged: the nested purge round and the datagram's own completion round both report it; " + what))
        elif sig in ("C04:added-before-cached", "C04:callback-before-cache-update") and key in s6:
            out.append((idx, S6_SIG, "a listener registered another listener with a question from inside its update callback: the nested completion round "
                        "fired a browser's pending callback before the datagram's records were cached; " + what))
        else:
            out.append((idx, sig, what))
    return out


def update_round_valid(ops):
    return any(o[0] == "D" and any(r[2] == 2 for r in o[3]) for o in ops)


def d23b_valid(ops):
    return any(o[0] == "BA" and len(o) > 4 and o[4] for o in ops)


PTYPES_NAMES = [
    "", ".", "local.", "_tcp.local.", "_x._tcp.local.", "_x._tcp.local", "a._x._tcp.local.", "a.b._x._tcp.local.", "_a._b", "_a._b.", "a._b._c",
    "_printer._sub._http._tcp.local.", "lj._printer._sub._http._tcp.local.", "x.lj._printer._sub._http._tcp.local.", "_sub._http._tcp.local.",
    "_a._b._c._d._e._f._g.local.", "_services._dns-sd._udp.local.", "a._services._dns-sd._udp.local.", "_x._tcp.", "_x..local.", "._x._tcp.local.",
    "_X._TCP.local.", "A._Zed._tcp.local.", "h.local.", "Host.LOCAL.", "_._tcp.local.", "__._tcp.local.", "a_._x._tcp.local.",
]


def possible_types_differential(res, ctx):
    """`possible_types` (`_utils/name.py`, which decides for every record whose browsed type it concerns) against the model's
    `possibleTypes` (driver command `ptypes`), as sets, over the vocabulary's names and a list of shapes (0-9 labels, sub-types, nested
    underscore labels, missing final dot, empty labels)"""
    from zeroconf._utils.name import possible_types

    names = list(PTYPES_NAMES)
    for t in VOCAB_WILD:
        for n in [t[1]] + ([t[4]] if t[0] == "p" else []):
            if n not in names:
                names.append(n)
    impl = []
    for n in names:
        try:
            impl.append(CC.sep(",", sorted({C.hs(x) for x in possible_types(n)})))
        except Exception as ex:  # noqa: BLE001
            impl.append("err=%s" % type(ex).__name__)
        res.evaluations += 1
        res.count("possible_types-names")
    if not ctx.get("driver_ok"):
        return
    try:
        out = C.run_driver(["ptypes %s" % C.hs(n) for n in names])
    except C.DriverUnavailable as ex:
        res.notes.append("driver unavailable: %s" % ex)
        return
    for n, a, b in zip(names, impl, out):
        model = CC.sep(",", sorted(set(b.split(",")))) if b != "~" else "~"   # the model returns a list (a 2-label name yields one type twice)
        if a != model:
            res.disagree("possible_types", {"name": n}, a, model)


def live_stream(res, ctx, probes, n, seed, deadline):
    """histories on a whole real instance (stage O only; see c04_live)"""
    rng = C.rng_for(seed, "c04", "live")
    seen = {}
    done = 0
    for h in range(n):
        ops = gen_history(rng, rng.choice([6, 12, 25]))
        ops2, obs = c04_live.run_live(h, ops)
        done += 1
        res.count("histories:live")
        res.evaluations += len(obs)
        found = oracle(probes, ops2, obs, res)
        sigs = set()
        for idx, sig, what in found:
            if sig in sigs:
                continue
            sigs.add(sig)
            res.count("violation:" + sig)
            k = seen.get(sig, 0)
            seen[sig] = k + 1
            if k >= 3:
                continue
            case_ops, at, msg = ops2, idx, what
            if k == 0 and "DeliveryThreadStalled" not in sig:
                def still(cand, sig=sig):
                    if not well_formed(cand):
                        return False
                    o2, ob2 = c04_live.run_live(h, cand)
                    return any(f[1] == sig for f in oracle(probes, o2, ob2, None))
                small = CC.shrink(ops, still, max_evals=120)
                if small != ops:
                    o2, ob2 = c04_live.run_live(h, small)
                    f2 = [f for f in oracle(probes, o2, ob2, None) if f[1] == sig]
                    if f2:
                        case_ops, at, msg = o2, f2[0][0], f2[0][2]
            res.violate(sig, "[real Zeroconf instance, browser %s] %s" % ("ids even = AsyncServiceBrowser, odd = threaded ServiceBrowser", msg),
                        {"probes": probes.to_json(), "ops": case_ops, "live": True, "live_seed": h, "op_index": at, "stream": "live", "repo": str(C.REPO)})
        if c04_live.STALLS[0] >= 3:
            res.notes.append("live stream stopped after %d histories: the delivery thread stalled %d times" % (done, c04_live.STALLS[0]))
            break
        if time.time() > deadline:
            res.notes.append("live stream cut short by the time budget after %d of %d histories" % (done, n))
            break
    return done


def run(ctx):
    res = C.Result("C04")
    t0 = time.time()
    tier, seed = ctx["tier"], ctx["seed"]
    wide = 4 if ctx.get("widened") else 1
    n_random = C.Budget(tier, 700, 6000).n * wide
    deadline = t0 + (420 if tier == "thorough" else 75) * (1.4 if wide > 1 else 1)
    run_ = CC.Runner(res, "C04", ctx, oracle, valid=well_formed)
    probes = CC.vocab_probes(VOCAB, [TX, TY, TZ, TS])

    possible_types_differential(res, ctx)

    for name, pr, ops, oracle_on in CC.corpus_histories("C04"):
        run_.add("corpus", pr, ops, oracle_on=oracle_on)
        res.count("corpus-files")

    # a whole real instance: real Zeroconf.async_add_listener, AsyncServiceBrowser.__init__, ServiceBrowser thread delivery, the real listener
    n_live = live_stream(res, ctx, probes, (60 if tier == "quick" else 600) * wide, seed, t0 + (8 if tier == "quick" else 90))

    plans = [(EXH_ACTIONS_Z, EXH_GAPS_Z, 3, [TZ], [TZ, TY]), (EXH_ACTIONS, EXH_GAPS, 3, [TX], [TX, TY])]
    if tier == "thorough":
        plans = [(EXH_ACTIONS_Z, EXH_GAPS_Z + [999, 1000], 3, [TZ], [TZ, TY]), (EXH_ACTIONS, EXH_GAPS + [999, 1000], 3, [TX], [TX, TY]),
                 (EXH_ACTIONS[:8], [0, 1125000], 4, [TX], [TX, TY])]
    complete = True
    n_exh = 0
    for actions, gaps, depth, t1, t2 in plans:
        for ops in exh_histories(actions, gaps, depth, t1, t2):
            run_.add("exhaustive", probes, ops, last_only=False)
            n_exh += 1
            if n_exh % 500 == 0 and time.time() > deadline - (150 if tier == "thorough" else 12):
                complete = False
                break
        if not complete:
            res.notes.append("bounded enumeration cut short by the time budget after %d histories" % n_exh)
            break
    res.exhaustive = complete

    # D23 (repaired): browser creation between a pointer's expiry and the purge, then a fresh announcement -- regression inputs
    run_d23 = CC.Runner(res, "C04", ctx, oracle_d23, valid=d23_valid)
    for ops in d23_histories():
        run_d23.add("d23-created-over-expired-unpurged", probes, ops)
        run_.add("d23-regression", probes, ops)          # and the plain C04 predicates: inside the quantifier now
    run_d23.finish()
    # D23b: the two clock readings of a creation (known finding)
    run_d23b = CC.Runner(res, "C04", ctx, oracle_d23b, valid=d23b_valid)
    for ops in d23b_histories():
        run_d23b.add("d23b-clock-ticks-during-creation", probes, ops)
        run_.add("d23b-regression", probes, ops)         # and the plain C04 predicates
    run_d23b.finish()

    # D24b: browsers created from inside service handlers (re-entrant async_add_listener)
    n_d25 = 0
    for ops in d25_histories():
        run_.add("d25-browser-created-in-handler", probes, ops)
        n_d25 += 1
    res.count("d25-histories", n_d25)

    # S1 / S6: known findings (a custom listener re-entering from the update round), stage O only
    run_ur = CC.Runner(res, "C04", ctx, oracle_update_round, valid=update_round_valid)
    for ops in update_round_histories():
        run_ur.add("update-round-reentrant-listener", probes, ops, model_on=False)
    # a handler that cancels its own browser mid-batch (stage O only: no cancel in the composite model)
    for ops in cancel_in_handler_histories():
        run_.add("cancel-in-handler", probes, ops, model_on=False)
    run_ur.finish()

    # outside the quantifier: model correspondence only (exercises the Added > Removed > Updated precedence, which WFHist makes unreachable)
    probes_w = CC.vocab_probes(VOCAB_WILD, [TX, TY, TZ, TS])
    rng = C.rng_for(seed, "c04", "wild")
    for h in range(max(1, n_random // 4)):
        run_.add("outside-wfhist", probes_w, gen_history(rng, rng.choice([6, 12, 25, 40]), wf=False), oracle_on=False)

    rng = C.rng_for(seed, "c04", "random")
    done = 0
    for h in range(n_random):
        ops = gen_history(rng, rng.choice([6, 12, 25, 40, 60]))
        if h % 3 == 0:
            ops = add_plans(rng, ops)          # some browsers' handlers create browsers
        run_.add("random", probes, ops)
        done += 1
        if h % 20 == 0 and time.time() > deadline:
            res.notes.append("random stream cut short by the time budget after %d of %d histories" % (done, n_random))
            break
    run_.finish()
    res.rule = ("one evaluation = one op of a history (datagram, purge, browser creation with initial replay, cancel) applied to real "
                "_ServiceBrowserBase objects behind the real RecordManager; after it: Added/Removed alternate per (browser, type, lower instance), "
                "{Added, not Removed} == pointer records of entries_with_name(type), lookups and a cache snapshot from inside the callbacks; callbacks "
                "and readers also diffed against the Lean model. Streams: corpus; possible_types vs the model on %d name shapes; @NLIVE@ random histories on a whole real "
                "Zeroconf instance under the virtual-time simulator (real AsyncServiceBrowser / threaded ServiceBrowser, datagrams through the real listener, the "
                "instance's own cleanup timer; stage O only); every history of the bounded plans %s behind a browser on "
                "_Zed._tcp.local. (a type with an upper-case letter) resp. _x._tcp.local. (%d histories, %s); %d seeded random histories of depth 6-60 over %d templates with up to 3 browsers over 1-2 types. "
                "plus %d histories outside WFHist (second class, re-cased owner, two spellings per datagram, no purge before creation) compared with the model only. "
                "non-trivial = distinct (records, gap class, callbacks fired, browsers active) per datagram / purge / creation"
                % (res.dist.get("possible_types-names", 0), [(len(p[0]), len(p[1]), p[2]) for p in plans], n_exh, "complete" if complete else "cut short", done, len(VOCAB), max(1, n_random // 4)))
    res.rule = res.rule.replace("@NLIVE@", str(n_live))
    res.sample({"browser_types": BROWSER_TYPES, "example": [["BA", 1, CC.T0, [TX]], ["D", CC.T0, [CC.inst(_P, 120, 0)], []], ["X", CC.T0 + 1125000]]})
    if any("cut short" in n or "stopped after" in n for n in res.notes):
        # a stream was cut by the wall-clock budget (a loaded machine): the run is not the complete plan; the note says which stream
        res.exhaustive = False
    res.count("wall_s", int(time.time() - t0))
    return res


def replay(body):
    case = body.get("case", body)
    if "ops" not in case:
        return {"violates": None, "note": "no replayable history in this file"}
    if case.get("live"):
        ops = case["ops"][:-1] if case["ops"] and case["ops"][-1][0] == "X" else case["ops"]
        ops2, obs = c04_live.run_live(case.get("live_seed", 0), ops)
        found = oracle(CC.case_probes(case), ops2, obs, None)
        return {"repo": str(C.REPO), "violates": found[0][1] if found else False,
                "found": [{"op_index": f[0], "sig": f[1], "what": f[2]} for f in found[:8]],
                "callbacks": [[list(c[:4]) for c in o["cb"]] for o in obs]}
    return CC.replay_case(case, oracle)
