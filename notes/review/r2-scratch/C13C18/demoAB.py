import sys
sys.dont_write_bytecode=True
sys.path.insert(0,'/verif')
import harness.common as C
from harness import vsim
import harness.c13 as H
from zeroconf import DNSOutgoing, DNSQuestion, ServiceInfo, const
import zeroconf._services.browser as B
T, T2 = H.T, H.T2
def scenario(kind):
    sim=vsim.Sim(3,maxdelay=0); out={}
    async def main(sim):
        host=sim.make_host("B","10.0.0.2"); zc=host.zc
        await zc.async_wait_for_start()
        zc.registry.async_add(ServiceInfo(T,"Mine."+T,port=80,addresses=[b"\x0a\x00\x00\x02"],server="mine.local."))
        await sim.sleep_ms(5000)
        q=DNSOutgoing(const._FLAGS_QR_QUERY)
        if kind=="two-questions":
            q.add_question(DNSQuestion(T2,const._TYPE_PTR,const._CLASS_IN))   # nobody here answers this one
            q.add_question(DNSQuestion(T,const._TYPE_PTR,const._CLASS_IN))    # we are authoritative for this one
        else:  # a probe: question + proposed record in the authority section, no known answers
            q.add_question(DNSQuestion(T,const._TYPE_PTR,const._CLASS_IN))
            q.add_authorative_answer(H.ptr(T,"New."+T,4500,0))
        host.inject(q.packets()[0],"10.0.0.9",5353)
        out["hist"]=H.hist_str(zc.question_history)
        await sim.sleep_ms(500)
        outs=B.generate_service_query(zc,float(sim.loop.ms),{T},True,None)
        out["asked_500ms_later"]=[qq.name for o in outs for qq in o.questions]
        await vsim.close_host(host)
    sim.run(main)
    return out
for k in ("two-questions","probe"):
    print(C.REPO, k, scenario(k))
