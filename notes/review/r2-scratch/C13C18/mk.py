import sys, shutil, pathlib
name, rel, old, new = sys.argv[1:5]
d = pathlib.Path('/tmp/review2/scratch-C13C18') / name
if not d.exists():
    shutil.copytree('/repo/src', d / 'src', ignore=shutil.ignore_patterns('__pycache__', '*.so', '*.pyc'))
p = d / 'src' / 'zeroconf' / rel
s = p.read_text()
assert s.count(old) == 1, (s.count(old), old)
p.write_text(s.replace(old, new))
print("mutated", p)
