import os, sys, json, pathlib, importlib, time
sys.dont_write_bytecode = True
sys.path.insert(0, '/verif'); sys.path.insert(0, '/verif/tools')
prop = sys.argv[1]; seed = int(sys.argv[2]) if len(sys.argv) > 2 else 0
import harness.common as C
C.DRIVER = pathlib.Path('/tmp/review2/scratch-C13C18/zcdriver')
import fingerprint
drift = fingerprint.drift(os.environ.get("VERIF_REPO", "/repo")) or []
mod = importlib.import_module('harness.' + prop.lower())
ctx = {"tier": "quick", "seed": seed, "widened": bool(drift), "driver_ok": os.environ.get("NODRIVER") is None, "stages": {}, "drift": drift}
t = time.time()
res = mod.run(ctx)
known = {"C13:lookup-third-query-early"}
sigs = {}
for v in res.violations:
    sigs[v["sig"]] = sigs.get(v["sig"], 0) + 1
print("repo", C.REPO, "drift", drift[:5], "widened", ctx["widened"])
print("evaluations", res.evaluations, "disagreements", len(res.disagreements), "time %.1f" % (time.time() - t))
print("violation sigs", sigs, "fresh", sorted(set(sigs) - known))
print("notes", len(res.notes), res.notes[:3])
for d in res.disagreements[:2]:
    print("DISAGREE", json.dumps(d, default=str)[:700])
for v in res.violations[:3]:
    if v["sig"] not in known: print("VIOL", v["sig"], v["what"][:300])
