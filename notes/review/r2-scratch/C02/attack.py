import sys, os, struct, time
sys.dont_write_bytecode=True
sys.path.insert(0, os.environ["VERIF_REPO"]+"/src")
from zeroconf._protocol.incoming import DNSIncoming
rd=b"\x00"+b"".join(bytes([w,255])+b"\xff"*255 for w in range(34))
pkt=struct.pack(">HHHHHH",0,0x8400,0,1,0,0)+b"\x01a\x00"+struct.pack(">HHIH",47,1,120,len(rd))+rd
print("datagram",len(pkt),"bytes")
t=time.time(); m=DNSIncoming(pkt); a=m.answers(); print("valid",m.valid,"records",len(a),"rdtypes",len(a[0].rdtypes) if a else None,"%.2fs"%(time.time()-t))
