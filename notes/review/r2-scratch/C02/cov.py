import sys, os, collections
sys.dont_write_bytecode=True
sys.path.insert(0,'/verif')
from harness import c02, rfc1035, common as C
rng = C.rng_for(0,"c02")
res = C.Result("C02")
stats = collections.Counter()
maxdepth=0; maxlabels=0; maxhops=0; maxnamechars=0
qtypes=set(); qclasses=set(); rtypes=collections.Counter(); rclasses=set(); flags=set()
nsecwins=collections.Counter(); depth_hist=collections.Counter(); label_hist=collections.Counter()
lens=collections.Counter()
hinfo_lens=set(); txt_lens=set()
lazy_with_records=0; trailing_ptr_names=0
def hops_of(b, off):
    # count pointer hops of name at off
    h=0; cur=off
    while True:
        c=b[cur]
        if c==0: return h
        if c<0x40: cur+=1+c
        else:
            cur=((c&0x3f)<<8)|b[cur+1]; h+=1
n=0
for stream,b in c02.gen_cases("quick", rng, 9000, res):
    n+=1
    try:
        p = rfc1035.decode(b,"strict")
    except rfc1035.Reject:
        continue
    if not p["supported"] or not c02._reenc_ok(p["names"]): continue
    stats["inscope"]+=1
    stats["inscope:"+stream.split(":")[0]]+=1
    o = c02.observe(b, False)
    depth_hist[o["depth"]]+=1
    for nm in p["names"]:
        label_hist[min(len(nm),130)//8]+=1
        maxlabels=max(maxlabels,len(nm))
    flags.add(p["hdr"][1])
    for q in p["questions"]:
        qtypes.add(q[1]); qclasses.add(q[2])
    for r in p["records"]:
        rtypes[r[1]]+=1; rclasses.add(r[2])
        if r[4][0]=="n": nsecwins[len(r[4][2])>0]+=1
        if r[4][0]=="t": txt_lens.add(len(r[4][1]))
    lens[len(b)//1000]+=1
    if p["hdr"][2]>0 and p["records"]: lazy_with_records+=1
print("cases",n, dict(stats))
print("depth hist (in-scope)", sorted(depth_hist.items()))
print("labels/8 hist", sorted(label_hist.items()), "max", maxlabels)
print("flags", sorted(flags)[:20], len(flags))
print("qtypes", sorted(qtypes)); print("qclasses", sorted(qclasses))
print("rtypes", sorted(rtypes.items())); print("rclasses", sorted(rclasses))
print("len/1000", sorted(lens.items()))
print("txt lens", sorted(txt_lens)[:60])
print("lazy with records", lazy_with_records)
