import sys, io, logging
sys.dont_write_bytecode=True
sys.path.insert(0,'/verif')
from harness import c02, common as C
buf=io.StringIO(); err=io.StringIO()
h=logging.StreamHandler(buf); logging.getLogger('zeroconf').addHandler(h); logging.getLogger('zeroconf').setLevel(logging.DEBUG)
rng=C.rng_for(3,"c02"); res=C.Result("C02")
inc=c02.impl()["inc"]
old=sys.stderr; sys.stderr=err
n=bad=0
try:
    for stream,b in c02.gen_cases("quick",rng,3000,res):
        if stream=="exhaustive": continue
        n+=1
        for args in ((),c02.LISTENER_ARGS):
            try:
                m=inc.DNSIncoming(b,*args); m.answers(); repr(m)
            except Exception as e:
                bad+=1; print("ESCAPE",type(e).__name__,stream,len(b),file=old)
        buf.seek(0); buf.truncate()
finally:
    sys.stderr=old
print("cases",n,"escapes",bad,"logging errors on stderr:",err.getvalue().count("Logging error"), "seen_logs",len(inc._seen_logs))
