import sys, struct, tracemalloc, gc
sys.dont_write_bytecode=True
sys.path.insert(0,'/repo/src')
from zeroconf._protocol import incoming as inc
tracemalloc.start()
base=tracemalloc.get_traced_memory()[0]
for i in range(2000):
    body=b"\x01a"*i+b"\x80"          # reserved label type at offset 12+2i => distinct message text
    pkt=(struct.pack(">HHHHHH",i,0,1,0,0,0)+body+b"\x00"*9000)[:8966]
    m=inc.DNSIncoming(pkt,("192.0.2.7",5353)); m.answers()
del m,pkt,body
gc.collect()
print("entries",len(inc._seen_logs),"retained MB %.1f"%((tracemalloc.get_traced_memory()[0]-base)/1e6))
