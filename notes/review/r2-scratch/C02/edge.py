import sys, struct, pathlib
sys.dont_write_bytecode=True
sys.path.insert(0,'/verif')
from harness import c02, rfc1035, common as C
C.DRIVER = pathlib.Path('/tmp/review2/scratch-C02/zcdriver')
def hdr(nq,nan,nau=0,nad=0,flags=0x8400): return struct.pack(">HHHHHH",0,flags,nq,nan,nau,nad)
def backchain(hops, label=b"a", tail=b"\x01z\x00", kind=12):
    # TXT record as container: node0 = tail; node i = label + ptr to node i-1 ; then PTR record with rdata ptr to last node
    pre = b"\x01o\x00" + struct.pack(">HHIH",16,1,120,0)
    at = 12+len(pre)
    region = bytearray(); offs=[]
    offs.append(at+len(region)); region += tail
    for i in range(hops-1):
        offs.append(at+len(region))
        if label: region += bytes([len(label)])+label
        region += struct.pack(">H",0xC000|offs[-2])
    pre = pre[:-2]+struct.pack(">H",len(region))
    rd = struct.pack(">H",0xC000|offs[-1])
    rec = b"\xc0\x0c"+struct.pack(">HHIH",kind,1,120,len(rd))+rd
    return hdr(0,2)+pre+bytes(region)+rec
cases = {}
for h in (22,64,100,127,128,129):
    cases["back-%d-a"%h]=backchain(h)
    cases["back-%d-nolabel"%h]=backchain(h,label=b"")
    cases["back-%d-root"%h]=backchain(h,label=b"",tail=b"\x00")
cases["back-120-root-twice"]=backchain(120,label=b"",tail=b"\x00")+b"" 
# same chain referenced by two records (cache path)
p=backchain(100); 
p2=bytearray(p); 
# add a third record identical to second
rec=p[-14:]; p2 += rec; struct.pack_into(">H",p2,6,3); cases["back-100-two-refs"]=bytes(p2)
p=backchain(100,label=b"",tail=b"\x00"); p2=bytearray(p); p2+=p[-14:]; struct.pack_into(">H",p2,6,3); cases["back-100-root-two-refs"]=bytes(p2)
# NSEC with zero windows
cases["nsec-empty"]=hdr(0,1)+b"\x01a\x00"+struct.pack(">HHIH",47,1,120,3)+b"\x01b\x00"
# NSEC dup window
cases["nsec-dupwin"]=hdr(0,1)+b"\x01a\x00"+struct.pack(">HHIH",47,1,120,3+6)+b"\x01b\x00"+b"\x00\x01\x40\x00\x01\x40"
# multi-byte 255-octet name: wire 255 = sum(len+1)+1 ; labels: 63,63,63,61 with one 'é' (2 bytes) in it
l=[b"a"*63,b"a"*63,b"a"*63,"é".encode()+b"a"*59]
cases["mb-255-octets"]=c02.name_limit_packet(l)
l=[b"a"*63,b"a"*63,b"a"*63,"é".encode()+b"a"*58]
cases["mb-254-octets"]=c02.name_limit_packet(l)
# pointer to root
cases["ptr-root"]=hdr(1,1)+b"\x00"+struct.pack(">HH",12,1)+b"\xc0\x0c"+struct.pack(">HHIH",12,1,120,2)+b"\xc0\x0c"
# question then records many hops through question names
lines=[]
for k,b in cases.items():
    lines += ["c02 "+C.hx(b),"c02s "+C.hx(b)]
out=C.run_driver(lines)
for i,(k,b) in enumerate(cases.items()):
    o=c02.observe(b,True)
    res=C.Result("C02")
    bl=C.run_driver(["c02b %d %d %d %d %d"%(len(b),o["names"],o["acts"],o["reads"],o["depth"])])[0]
    c02.check_case(res,b,"edge",o,out[2*i],out[2*i+1],bl)
    s=c02.parse_strict(out[2*i+1])
    print(k,len(b),"depth",o["depth"],"valid",o["obj"]["valid"] if o["obj"] else None,"nrec",len(o["obj"]["records"]) if o["obj"] else None,
          "strict",None if s is None else (s["supported"],s["reencodable"]),"viol",[v["sig"] for v in res.violations],"disagree",len(res.disagreements), dict((k2,v) for k2,v in res.dist.items() if k2.startswith("rfc")))
