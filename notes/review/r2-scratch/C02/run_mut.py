"""usage: VERIF_REPO=<copy> python run_mut.py [nodriver]  -- runs harness.c02.run (C+O) and the translator into scratch"""
import sys, os, pathlib, re, time, json
sys.dont_write_bytecode=True
sys.path.insert(0,'/verif'); sys.path.insert(0,'/verif/tools')
repo=os.environ["VERIF_REPO"]
import gen_lean
out=pathlib.Path(repo)/"gen_out"
failed={}
try:
    changed,env,st=gen_lean.gen(repo,out,str(pathlib.Path(repo)/"selftest.json"),failed)
    strip=lambda s: re.sub(r"\.py:\d+\)", ".py)", s)
    diffs=[]
    for f in sorted(out.glob("*.lean")):
        ref=pathlib.Path("/verif/lean/Zc/Gen")/f.name
        if not ref.exists() or strip(ref.read_text())!=strip(f.read_text()): diffs.append(f.name)
    print("[T] ok; failed_mods=%s; Gen files differing from committed (modulo line numbers): %s"%(failed,diffs))
except gen_lean.Fail as f:
    print("[T] BROKEN:", f.file, getattr(f.node,"lineno","?"), f.msg)
from harness import common as C, c02
C.DRIVER=pathlib.Path('/tmp/review2/scratch-C02/zcdriver')
import zeroconf; print("impl from", zeroconf.__file__)
t=time.time()
res=c02.run({"tier":"quick","seed":int(os.environ.get("SEED","0")),"widened":bool(os.environ.get("WIDE")),"driver_ok":len(sys.argv)<2,"stages":{},"drift":[]})
print("evaluations",res.evaluations,"disagreements",res.dist.get("disagreements",0),"violations",res.dist.get("violations",0),"wall %.0fs"%(time.time()-t))
import collections
print("violation sigs",collections.Counter(v["sig"] for v in res.violations).most_common(8))
print("disagreement streams",collections.Counter(d["stream"] for d in res.disagreements).most_common(8))
for d in res.disagreements[:2]: print("  e.g.",d["stream"],str(d["impl"])[:150],"| model",str(d["model"])[:150], "len",d["case"].get("len"))
for v in res.violations[:2]: print("  viol",v["sig"],v["what"][:120],"len",v["case"].get("len"))
