import sys, os, struct, socket, asyncio, traceback
sys.path.insert(0, '/repo/src'); sys.path.insert(0, '/verif')
from harness import vsim, c15 as H
from zeroconf import ServiceInfo, DNSIncoming
from zeroconf.asyncio import AsyncServiceBrowser, AsyncServiceInfo
TA, TB = H.TA, H.TB

def run(scn, **kw):
    sim = vsim.Sim(seed=1, maxdelay=0, loopback=True)
    res = {}
    async def main(sim):
        a = sim.make_host("A", "10.0.0.1")
        zc = a.zc
        await zc.async_wait_for_start()
        lst = zc.engine.protocols[0]
        info = ServiceInfo(TA, "s1."+TA, 80, addresses=[socket.inet_aton("10.0.0.1")], server=kw.get("server","ha.local."), properties=kw.get("props",{"k":"v"}))
        t = await zc.async_register_service(info); await t
        def deliver(data, src):
            try:
                lst.datagram_received(data, src); return None
            except BaseException as e:
                return type(e).__name__ + ": " + str(e)[:100]
        res['out'] = await scn(sim, zc, lst, deliver, a)
        await zc._async_close()
    sim.run(main)
    res['loop_errors'] = [ (type(e.get('exception')).__name__, str(e.get('exception'))[:120], e.get('message')) for e in sim.errors]
    return res

# E1: legacy query with very many questions (echo) 
async def e1(sim, zc, lst, deliver, a):
    out = {}
    for nq in (100, 400, 640):
        body = b"".join(H.q(H.labels_of(TA), 12) if i==0 else H.q([b"\xc0"], 12)[0:0] + b"\xc0\x0c" + struct.pack(">HH", 12, 1) for i in range(nq))
        d = H.hdr(9, 0, nq) + body
        n0 = len(sim.net.log)
        out[nq] = (len(d), deliver(d, ("10.9.9.9", 40000)), [len(x[4]) for x in sim.net.log[n0:]])
        await sim.sleep_ms(1500)
    return out
print("E1", run(e1))

# E1b: legacy query with many distinct long question names
async def e1b(sim, zc, lst, deliver, a):
    out = {}
    qs = [H.q(H.labels_of(TA), 12)]
    i = 0
    while sum(map(len, qs)) < 8800:
        lab = (b"%05d" % i) + b"a"*58
        qs.append(H.q([lab, lab, lab, b"z"*55], 12)); i += 1
    d = H.hdr(9, 0, len(qs)) + b"".join(qs)
    n0 = len(sim.net.log)
    out['r'] = (len(d), len(qs), deliver(d, ("10.9.9.9", 40000)), [len(x[4]) for x in sim.net.log[n0:]])
    return out
print("E1b", run(e1b))
