import sys, socket
sys.path.insert(0,'/verif'); sys.path.insert(0,'/repo/src')
from harness import vsim
from zeroconf import DNSOutgoing, DNSQuestion, DNSIncoming, ServiceInfo, const as k, DNSPointer

def q(questions, qu=False, tc=False, known=()):
    out = DNSOutgoing(k._FLAGS_QR_QUERY | (k._FLAGS_TC if tc else 0))
    for n,t in questions:
        qq = DNSQuestion(n,t,k._CLASS_IN); qq.unicast = qu
        out.add_question(qq)
    for r in known: out.add_answer_at_time(r, 0)
    return out.packets()[0]

def show(sim, since=0):
    for (t,src,ip,port,data) in sim.net.log:
        if t < since: continue
        m = DNSIncoming(data)
        if m.is_response():
            n = m.num_answers
            recs = m.answers()
            print("  t=%d to %s: answers=%s additionals=%s" % (t, ip, [(r.name, r.type) for r in recs[:n]], [(r.name,r.type) for r in recs[n:]]))

def scenario(name, body, seed=1):
    print("==", name)
    sim = vsim.Sim(seed=seed, maxdelay=0)
    async def main(sim):
        host = sim.make_host("A","10.0.0.1")
        zc = host.zc
        await zc.async_wait_for_start()
        info = ServiceInfo("_a._tcp.local.", "s0._a._tcp.local.", 80, addresses=[socket.inet_aton("10.0.0.1")], server="h0.local.")
        t = await zc.async_register_service(info); await t
        await sim.sleep_ms(5000)
        t0 = sim.now()
        print(" base t0 =", t0)
        await body(sim, host, zc, info, t0)
        await sim.sleep_ms(4000)
        show(sim, t0)
        await vsim.close_host(host)
    sim.run(main)

# (a) additional re-multicast within 1 s: SRV single question answered at once at t0, PTR question at t0+300
async def a(sim, host, zc, info, t0):
    host.deliver(q([(info.name, k._TYPE_SRV)]), ("10.0.0.9",5353))
    await sim.sleep_ms(300)
    host.deliver(q([(info.type, k._TYPE_PTR)]), ("10.0.0.9",5353))
scenario("a: additional of aggregated PTR repeats SRV/TXT/A seen <1s ago", a)

# (b) earlier query's pending batch carries a record a later query classified as protected
async def b(sim, host, zc, info, t0):
    host.deliver(q([(info.type, k._TYPE_PTR)]), ("10.0.0.9",5353))   # aggregated, pending 20..120(..500)
    await sim.sleep_ms(5)
    # sighting of PTR at t0+5 (another host multicast a copy / spoof) -> cache
    e = DNSPointer(info.type, k._TYPE_PTR, k._CLASS_IN, 4500, info.name); e.created = float(sim.loop.ms)
    zc.cache.async_add_records([e])
    await sim.sleep_ms(5)
    host.deliver(q([(info.type, k._TYPE_PTR), (info.name, k._TYPE_TXT)]), ("10.0.0.8",5353))
scenario("b: PTR seen at t0+5, query B at t0+10 -> multicast <1 s after sighting by A's batch", b)
