import sys, asyncio, time, types
sys.path.insert(0,'/repo/src')
import zeroconf._services.browser as B
from zeroconf import DNSCache, DNSPointer, const
from zeroconf._history import QuestionHistory
from zeroconf._utils.time import current_time_millis
sent=[]
zc = types.SimpleNamespace(done=False, cache=DNSCache(), question_history=QuestionHistory(), async_send=lambda out,*a,**k: sent.append((current_time_millis(), [q.name for q in out.questions])))
async def main():
    loop = asyncio.get_running_loop()
    qs = B.QueryScheduler(zc, {"_x._tcp.local."}, None, 5353, True, 100, (20,120), None)
    qs.start(loop)
    await asyncio.sleep(14.4)
    recs=[]
    for i,ttl in enumerate((4,4,6)):
        await asyncio.sleep(0.0337)
        p = DNSPointer("_x._tcp.local.", const._TYPE_PTR, const._CLASS_IN, ttl, "i%d._x._tcp.local."%i)
        recs.append((p.created, ttl))
        qs.reschedule_ptr_first_refresh(p)
    await asyncio.sleep(6.5)
    qs.stop()
    t0 = sent[0][0]
    print("startup offsets", [round(s[0]-t0,1) for s in sent[:4]])
    for (c,ttl) in recs:
        print("rec ttl",ttl,"75/85/95 at", [round(c+ttl*p*10 - t0,1) for p in (75,85,95)])
    print("post sends", [round(s[0]-t0,1) for s in sent[4:]])
asyncio.run(main())
