import sys
sys.path.insert(0,'/verif'); sys.path.insert(0,'/repo/src')
from harness import c10
T="_x._tcp.local."
# A: ttl 4500 at 0 -> when 3375000. refreshed with ttl 1125 at 2522250 -> new 75% = 3366000 (9 s earlier, inside keep window, delay 10 s)
# B: ttl 4500 at  -1? need a pass just before 3375000: B learned at 3374999-3375000 = -1 -> use ttl 1125 at 2531249 -> 75% = 3374999
case={"kind":"browser","delay":10000,"qtype":None,"types":[T,"_y._tcp.local."],"simseed":0,"horizon":3700000,
 "script":[[0,"rec","a."+T,T,4500],[2522250,"rec","a."+T,T,1125],[2531249,"rec","b._y._tcp.local.","_y._tcp.local.",1125]]}
obs=c10.run_case(case)
print([(q[0]-c10.T0, q[1]) for q in obs["queries"][4:]])
print("oracle:", c10.oracle(case, obs))
print("a's current record: created 2522250, 75% at", 2522250+843750, "; delay 10000")
