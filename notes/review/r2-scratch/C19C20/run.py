import sys, os, json, time, importlib
sys.dont_write_bytecode = True
sys.path.insert(0, '/verif')
prop = sys.argv[1]; driver = sys.argv[2] == '1'; seed = int(sys.argv[3]) if len(sys.argv) > 3 else 0
widened = (sys.argv[4] == 'w') if len(sys.argv) > 4 else False
import harness.common as C
mod = importlib.import_module('harness.' + prop.lower())
import zeroconf; print('zeroconf from', zeroconf.__file__)
ctx = {"tier": "quick", "seed": seed, "widened": widened, "driver_ok": driver, "stages": {}, "drift": None}
t = time.time()
res = mod.run(ctx)
print('time %.1f' % (time.time() - t), 'evaluations', res.evaluations)
print('violations', len(res.violations), 'disagreements', len(getattr(res, 'disagreements', [])))
known = {k['sig'] for k in json.load(open('/verif/known_findings.json'))['entries'] if k.get('property') == prop and k.get('kind') == 'finding'}
seen = {}
for v in res.violations:
    seen.setdefault(v['sig'], v)
for s, v in seen.items():
    print(('KNOWN ' if s in known else 'FRESH '), s, '|', v['what'][:160], '|', json.dumps(v['case'])[:300])
for d in getattr(res, 'disagreements', [])[:5]:
    print('DISAGREE', json.dumps(d, default=str)[:400])
print('notes', res.notes[:3])
