import sys
sys.path.insert(0,'/tmp/review2/scratch')
exec(open('/tmp/review2/scratch/c12_try.py').read().split("# (a)")[0])
from zeroconf import DNSService
# D12b: TC query first packet at t0, sighting at t0+200 (host answers another querier's SRV at once), last TC packet at t0+300
async def d12b(sim, host, zc, info, t0):
    host.deliver(q([(info.type, k._TYPE_PTR), (info.name, k._TYPE_SRV)], tc=True), ("10.0.0.9",5353))
    await sim.sleep_ms(200)
    host.deliver(q([(info.name, k._TYPE_SRV)]), ("10.0.0.8",5353))   # answered at once -> SRV sighting at t0+200
    await sim.sleep_ms(100)
    host.deliver(q([(info.name, k._TYPE_TXT)], tc=True), ("10.0.0.9",5353))
scenario("D12b", d12b)
