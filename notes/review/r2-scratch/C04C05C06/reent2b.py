import sys; sys.path.insert(0,'/repo/src'); sys.path.insert(0,'/verif')
from harness import cachecommon as cc
from zeroconf import const as K
import zeroconf._services.browser as B
X='_x._tcp.local.'; Y='_y._tcp.local.'
w=cc.World(cc.probes_for([]))
# browser 0 on X whose add_service creates browser 2 on Y
class L(cc._SvcListener):
    def add_service(self, zc, t, n):
        super().add_service(zc,t,n)
        if n.startswith('b.') and 2 not in self.w.browsers:
            b=B._ServiceBrowserBase(zc,[Y],listener=cc._SvcListener(self.w,2)); self.w.browsers[2]=b
            cc.start_browser(b)
cc._CLOCK[0]=1000000.0
b0=B._ServiceBrowserBase(w.zc,[X],listener=L(w,0)); w.browsers[0]=b0; cc.start_browser(b0)
def D(now,recs):
    o=w.apply(["D",now,recs,[]]); print(now,'err=',o['err'],o.get('errmsg'),[(c[0],c[1],c[3]) for c in o['cb']]); return o
D(1000000,[["a","h.local.",1,1,0,120,"0a000001"]])
# a. expires at 1000000+1125000=2125000 ; at 2126000 expired-unpurged; now datagram adds b. and c.
D(1121000,[["p",X,12,1,0,4500,"b."+X],["p",X,12,1,0,4500,"c."+X]])
print('ptr view',w.ptr_view()); print('pending',b0._pending_handlers)
D(1122000,[["p",X,12,1,0,4500,"d."+X]])
