import sys,os; sys.path.insert(0,os.environ['SRC']); sys.path.insert(0,'/verif')
os.environ['VERIF_REPO']=os.environ['SRC'][:-4]
from harness import cachecommon as cc
T='_printer._sub._http._tcp.local.'
w=cc.World(cc.probes_for([]))
o=w.apply(["BA",0,1000000,[T]])
o=w.apply(["D",1000000,[["p",T,12,1,0,4500,"lj._http._tcp.local."]],[]])
print('cb',[(c[1],c[3]) for c in o['cb']],'cached',w.ptr_view())
