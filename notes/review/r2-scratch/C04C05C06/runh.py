import sys, os, json, importlib, time
sys.path.insert(0,'/verif')
props = sys.argv[1].split(',')
drv = len(sys.argv)>2 and sys.argv[2]=='drv'
for p in props:
    m = importlib.import_module('harness.%s'%p.lower())
    t=time.time()
    res = m.run({"tier":"quick","seed":int(os.environ.get('VERIF_SEED','0')),"widened":False,"driver_ok":drv,"stages":{},"drift":[]})
    sigs={}
    for v in res.violations: sigs[v['sig']]=sigs.get(v['sig'],0)+1
    ds={}
    for d in res.disagreements: ds[d['stream']]=ds.get(d['stream'],0)+1
    print(p,'evals',res.evaluations,'viol',sigs,'disagree',res.dist.get('disagreements',0),ds,'notes',res.notes[:3],'%.0fs'%(time.time()-t))
    if res.violations:
        v=res.violations[0]; print('  first:',v['sig'],v['what'][:300]); print('  ops:',json.dumps(v['case'].get('ops'))[:600])
    if res.disagreements:
        d=res.disagreements[0]; print('  first disagreement:',d['stream'],str(d['impl'])[:200],'|',str(d['model'])[:200])
