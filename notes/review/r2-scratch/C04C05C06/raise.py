import sys; sys.path.insert(0,'/repo/src'); sys.path.insert(0,'/verif')
from harness import cachecommon as cc
import zeroconf._services.browser as B
X='_x._tcp.local.'
w=cc.World(cc.probes_for([]))
class L(cc._SvcListener):
    def add_service(self, zc, t, n):
        super().add_service(zc,t,n)
        if n.startswith('a.'): raise ValueError('user bug')
cc._CLOCK[0]=1000000.0
b0=B._ServiceBrowserBase(w.zc,[X],listener=L(w,0)); w.browsers[0]=b0; cc.start_browser(b0)
for now,recs in [(1000000,[["p",X,12,1,0,4500,"a."+X],["p",X,12,1,0,4500,"b."+X]]),(1001000,[["t","zz.local.",16,1,0,120,"00"]]),(1002000,[["p",X,12,1,0,4500,"c."+X]])]:
    o=w.apply(["D",now,recs,[]]); print(now,'err=',o['err'],[(c[1],c[3]) for c in o['cb']],'spy_c',o['spy_c'],'pending',dict(b0._pending_handlers))
