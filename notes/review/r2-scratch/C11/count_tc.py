import sys, pathlib
sys.dont_write_bytecode = True
sys.path.insert(0, '/verif')
from harness import common as C, c11, reply_common as R
n_tc = n_wrong = n_split = 0; maxlen = 0
for sc in range(600):
    box = c11.run_scenario(0, sc)
    tr = box["tr"]
    for b in tr.blocks:
        for o in b["outs"]:
            maxlen = max(maxlen, len(o["data"]))
        if b["kind"] == "tc" and b.get("lis") is box["lis"]:
            for o in b["outs"]:
                if o["to"][0] not in (R.MDNS, "ff02::fb"):
                    n_tc += 1
                    if o["sock"] is not box["lis"].transport.transport.sock:
                        n_wrong += 1
print("timer-fired unicast replies:", n_tc, "of them NOT on the receiving socket:", n_wrong, "largest datagram emitted:", maxlen)
