import sys
sys.dont_write_bytecode = True
sys.path.insert(0, '/tmp/review2/scratch-C11'); sys.path.insert(0, '/verif')
import dup, judge
from zeroconf import DNSOutgoing, DNSQuestion, const as k
o = DNSOutgoing(k._FLAGS_QR_QUERY); o.add_question(DNSQuestion("_a._tcp.local.", k._TYPE_PTR, k._CLASS_IN))
d = bytearray(o.packets()[0]); d[0] = d[1] = 0; d = bytes(d)
print("--- identical legacy PTR query (id 0) from two different resolvers 10 ms apart")
box = dup.scenario([(0, d, ("10.0.0.9", 40000)), (10, d, ("10.0.0.8", 40001))])
judge.judge(box)
