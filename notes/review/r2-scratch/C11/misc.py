import sys, socket
sys.dont_write_bytecode = True
sys.path.insert(0, '/tmp/review2/scratch-C11'); sys.path.insert(0, '/verif')
from harness import common as C, c11, vsim, reply_common as R
import dup, judge
from zeroconf import DNSOutgoing, DNSQuestion, const as k
def q(name, typ, qid, tc=False, qu=False):
    o = DNSOutgoing(k._FLAGS_QR_QUERY | (k._FLAGS_TC if tc else 0)); x = DNSQuestion(name, typ, k._CLASS_IN); x.unicast = qu; o.add_question(x)
    d = bytearray(o.packets()[0]); d[0], d[1] = qid >> 8, qid & 255
    return bytes(d)
print("--- legacy query from source port 0")
box = dup.scenario([(0, q("s0._a._tcp.local.", k._TYPE_SRV, 5), ("10.0.0.9", 0))])
judge.judge(box)
print("--- single truncated QU datagram from 5353 on socket 1 of layout 44, continuation never arrives (timer-fired, 1 packet)")
box = dup.scenario([(0, q("s0._a._tcp.local.", k._TYPE_SRV, 5, tc=True, qu=True), ("10.0.0.9", 5353))], layout="44", rx_i=1, wait=40000)
box["rx_i"] = 1
judge.judge(box)
