import sys, os, pathlib, json, collections
sys.dont_write_bytecode = True
sys.path.insert(0, '/verif')
from harness import common as C
C.DRIVER = pathlib.Path('/tmp/review2/scratch-C11/zcdriver')
from harness import c11
seed = int(sys.argv[1]) if len(sys.argv) > 1 else 0
tier = sys.argv[2] if len(sys.argv) > 2 else 'quick'
drv = (sys.argv[3] != 'nodriver') if len(sys.argv) > 3 else True
ctx = {"tier": tier, "seed": seed, "widened": False, "driver_ok": drv, "stages": {}, "drift": []}
import zeroconf; print("zeroconf from", zeroconf.__file__)
res = c11.run(ctx)
print("evaluations", res.evaluations, "violations", len(res.violations), "disagreements", len(res.disagreements))
sigs = {k: v for k, v in res.dist.items() if k.startswith("sig:")}
print("sig counts", sigs)
for v in res.violations[:6]:
    print("V", v["sig"], "|", v["what"][:300])
dd = collections.Counter(d.get("stream", d.get("op", "?")) if isinstance(d, dict) else "?" for d in res.disagreements)
print("disagree kinds", dd)
for d in res.disagreements[:3]:
    print("D", json.dumps(d, default=str)[:700])
print("notes", res.notes[:3])
