import sys
sys.dont_write_bytecode = True
sys.path.insert(0, '/tmp/review2/scratch-C11'); sys.path.insert(0, '/verif')
import dup
from harness import vsim
from zeroconf import DNSOutgoing, DNSQuestion, const as k
from zeroconf._protocol.incoming import DNSIncoming
def q(name, typ, qid, tc=False):
    o = DNSOutgoing(k._FLAGS_QR_QUERY | (k._FLAGS_TC if tc else 0)); o.add_question(DNSQuestion(name, typ, k._CLASS_IN))
    d = bytearray(o.packets()[0]); d[0], d[1] = qid >> 8, qid & 255
    return bytes(d)
print("--- A:40000 sends a TC query (id 7, PTR); 100 ms later another resolver A:40001 sends a plain query (id 9, SRV)")
box = dup.scenario([(0, q("_a._tcp.local.", k._TYPE_PTR, 7, tc=True), ("10.0.0.9", 40000)), (100, q("s0._a._tcp.local.", k._TYPE_SRV, 9), ("10.0.0.9", 40001))])
for b in box["tr"].blocks:
    for o in b["outs"]:
        m = DNSIncoming(o["data"])
        print("  out to", o["to_full"], "id", m.id, "questions", [(x.name, x.type) for x in m._questions], "answers", [(r.name, r.type) for r in m.answers()][:6])
import judge
judge.judge(box)
