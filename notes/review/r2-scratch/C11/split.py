import sys, socket
sys.dont_write_bytecode = True
sys.path.insert(0, '/verif')
from harness import common as C, c11, vsim, reply_common as R
def run(nsvc=40):
    sim = vsim.Sim(seed="x", maxdelay=0)
    box = {}
    async def main(sim):
        from zeroconf import ServiceInfo, DNSOutgoing, DNSQuestion, const as k
        host = c11.make_host(sim, "4"); zc = host.zc
        await zc.async_wait_for_start()
        uni = R.Universe()
        for i in range(nsvc):
            inf = ServiceInfo("_a._tcp.local.", "service-number-%02d._a._tcp.local." % i, 8000 + i, addresses=[socket.inet_aton("10.0.0.1")], server="h0.local.", properties={"k": "v" * 20})
            zc.registry.async_add(inf)
        await sim.sleep_ms(2000)
        tr = R.Trace(sim, host, uni); tr.install(); box.update(tr=tr)
        o = DNSOutgoing(k._FLAGS_QR_QUERY); o.add_question(DNSQuestion("_a._tcp.local.", k._TYPE_PTR, k._CLASS_IN))
        d = bytearray(o.packets()[0]); d[0], d[1] = 0x12, 0x34
        host.transports[0].protocol.datagram_received(bytes(d), ("10.0.0.9", 40000))
        await sim.sleep_ms(2000)
        tr.uninstall(); await vsim.close_host(host)
    sim.run(main)
    for b in box["tr"].blocks:
        for o in b["outs"]:
            d = o["data"]
            print(b["kind"], "to", o["to"], "len", len(d), "id %#06x flags %#06x qd %d an %d" % ((d[0] << 8) | d[1], (d[2] << 8) | d[3], (d[4] << 8) | d[5], (d[6] << 8) | d[7]))
run()
