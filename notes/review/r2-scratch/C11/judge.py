import sys, pathlib
sys.dont_write_bytecode = True
sys.path.insert(0, '/tmp/review2/scratch-C11'); sys.path.insert(0, '/verif')
from harness import common as C, c11, vsim, reply_common as R
C.DRIVER = pathlib.Path('/tmp/review2/scratch-C11/zcdriver')
def judge(box, zc=None):
    tr = box["tr"]; host = box["host"]
    lis = host.transports[box.get("rx_i", 0)].protocol
    box.update(lis=lis, nsocks=len(host.socks), end_t=tr.blocks[-1]["t"] + 3000)
    evs, kept = [], []
    for b in tr.blocks:
        b["draws_tc"] = any(lo == 400 for (lo, hi, v) in b["draws"])
        if b["kind"] in ("rx", "tc") and b["lis"] is not lis:
            continue
        evs.append(R.block_line(tr, host.zc, b)); b["obs"] = R.block_obs(tr, b, dedupe_mcast=True); kept.append(b)
    for b in tr.blocks:
        if "obs" not in b:
            R.block_line(tr, host.zc, b); b["obs"] = R.block_obs(tr, b)
    model = C.run_driver(["c12run %d %s" % (len(evs), " ".join(evs))])[0]
    parts = model.split(" | "); head, mobs = parts[0], parts[1:]
    iobs = [b["obs"] for b in kept]
    print("  stage C:", "agree" if head.startswith("ok") and mobs == iobs else "DISAGREE %s\n   model %s\n   impl  %s" % (head, mobs, iobs))
    res = c11._Result("C11")
    c11.check_trace_O(res, box, {})
    print("  stage O: %d violations %s" % (len(res.violations), [(v["sig"], v["what"][:160]) for v in res.violations]))
