import sys, pathlib
sys.dont_write_bytecode = True
sys.path.insert(0, '/verif')
from harness import common as C, c11, vsim, reply_common as R
import random
def scenario(queries, layout="4", rx_i=0, wait=2000):
    sim = vsim.Sim(seed="x", maxdelay=0)
    sim.randint = lambda lo, hi: (sim.draws.append((None, lo, hi, lo)) or lo)
    box = {}
    async def main(sim):
        from zeroconf import ServiceInfo
        import socket
        host = c11.make_host(sim, layout)
        zc = host.zc
        await zc.async_wait_for_start()
        inf = ServiceInfo("_a._tcp.local.", "s0._a._tcp.local.", 8000, addresses=[socket.inet_aton("10.0.0.1")], server="h0.local.", properties={"k": "v"})
        uni = R.Universe(); R.seed_universe(uni, [inf])
        t = await zc.async_register_service(inf); await t
        await sim.sleep_ms(wait)
        tr = R.Trace(sim, host, uni); tr.install()
        box.update(tr=tr, host=host)
        rx = host.transports[rx_i]
        for (delay, data, src) in queries:
            await sim.sleep_ms(delay)
            rx.protocol.datagram_received(data, src)
        await sim.sleep_ms(3000)
        tr.uninstall()
        await vsim.close_host(host)
    sim.run(main)
    tr = box["tr"]
    for b in tr.blocks:
        print(b["kind"], b["t"] - vsim.T0, "src", b.get("src_full"), "asm" , bool(b["asm"]), "outs", [(o["to_full"], getattr(o["sock"], "fileno", lambda: None)() if hasattr(o["sock"], "fileno") else None, len(o["data"]), o["data"][:2].hex()) for o in b["outs"]])
    return box
if __name__ == "__main__":
    from zeroconf import DNSOutgoing, DNSQuestion, const as k
    o = DNSOutgoing(k._FLAGS_QR_QUERY); o.add_question(DNSQuestion("s0._a._tcp.local.", k._TYPE_SRV, k._CLASS_IN))
    d = bytearray(o.packets()[0]); d[0] = d[1] = 0
    d = bytes(d)
    print("--- identical legacy query (id 0, QM) from two different resolvers 300 ms apart")
    scenario([(0, d, ("10.0.0.9", 40000)), (300, d, ("10.0.0.8", 40001))])
    print("--- same, 1001 ms apart")
    scenario([(0, d, ("10.0.0.9", 40000)), (1001, d, ("10.0.0.8", 40001))])
    o = DNSOutgoing(k._FLAGS_QR_QUERY); o.add_question(DNSQuestion("_a._tcp.local.", k._TYPE_PTR, k._CLASS_IN))
    d = bytearray(o.packets()[0]); d[0] = d[1] = 0
    d = bytes(d)
    print("--- identical legacy PTR query (id 0, QM) from two different resolvers 10 ms apart")
    scenario([(0, d, ("10.0.0.9", 40000)), (10, d, ("10.0.0.8", 40001))])
    print("--- identical legacy PTR query twice from the same resolver 10 ms apart (retransmission)")
    scenario([(0, d, ("10.0.0.9", 40000)), (10, d, ("10.0.0.9", 40000))])
