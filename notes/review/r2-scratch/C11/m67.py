import sys
sys.dont_write_bytecode = True
sys.path.insert(0, '/tmp/review2/scratch-C11'); sys.path.insert(0, '/verif')
import dup
from zeroconf import DNSOutgoing, DNSQuestion, const as k
o = DNSOutgoing(k._FLAGS_QR_QUERY); x = DNSQuestion("s0._a._tcp.local.", k._TYPE_SRV, k._CLASS_IN); x.unicast = True; o.add_question(x)
d = bytearray(o.packets()[0]); d[1] = 9
box = dup.scenario([(0, bytes(d), ("fe80::9", 40000, 0, 4))], layout="46", rx_i=1)
for b in box["tr"].blocks:
    for o in b["outs"]:
        if o["to"][1] == 40000:
            i = o["data"].index(b"\x05local\x00") + 7
            print("echoed question type/class bytes:", o["data"][i:i+4].hex())
