import sys, os
sys.dont_write_bytecode = True
sys.path.insert(0, '/verif')
import harness.common as C
import harness.c03 as H
svc = {"type": "_a._tcp.local.", "name": "x._a._tcp.local.", "server": "h1.local.", "port": 80, "weight": 0, "priority": 0, "text": "03613d31", "httl": 120, "ottl": 4500, "addrs": ["0a000001"], "ifindex": None}
q = lambda qs: {"op": "Q", "ucast": False, "msgs": [{"probe": False, "qs": qs, "answers": []}]}
ops = [{"op": "R", "svc": svc, "obj": 0},
       {"op": "QC", "pre": q([["x._a._tcp.local.", 33, 1], ["nosuch.local.", 1, 1]]), "pre_gap": 300, "query": q([["x._a._tcp.local.", 33, 1]]), "delay": 0, "change": []}]
steps, errors = H.exec_wire(ops, 1)
for s in steps:
    if s["q"] and s["q"]["pkts"]:
        for p in s["q"]["pkts"]:
            print(p["t"], [H.rline(a).split()[0:3:2] for a in p["answers"]])
print("errors", errors)
