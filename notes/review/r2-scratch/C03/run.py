import os, sys, json, time, pathlib
sys.dont_write_bytecode = True
sys.path.insert(0, '/verif'); sys.path.insert(0, '/verif/tools')
import harness.common as C
C.DRIVER = pathlib.Path('/tmp/review2/scratch-C03/zcdriver')
import harness.c03 as H
import fingerprint
repo = os.environ.get('VERIF_REPO', '/repo')
drift = fingerprint.drift(repo) or []
use_driver = os.environ.get('NODRIVER') != '1'
seed = int(os.environ.get('VERIF_SEED', '0'))
ctx = {"tier": os.environ.get('TIER', 'quick'), "seed": seed, "widened": bool(drift), "driver_ok": use_driver, "stages": {}, "drift": drift}
t0 = time.time()
res = H.run(ctx)
if res.disagreements and not ctx["widened"] and not res.violations:
    res2 = H.run(dict(ctx, widened=True, seed=seed + 1000003))
    res.violations.extend(res2.violations)
known = {k["sig"] for k in json.load(open('/verif/known_findings.json'))["entries"] if k["property"] == "C03" and k["kind"] == "finding"}
fresh = [v for v in res.violations if v["sig"] not in known]
print("repo", repo, "drift", drift[:5], "widened", ctx["widened"])
print("evaluations", res.evaluations, "disagreements", len(res.disagreements), "violations", len(res.violations), "fresh", len(fresh), "time %.0fs" % (time.time() - t0))
from collections import Counter
print("sigs", Counter(v["sig"] for v in res.violations))
for d in res.disagreements[:3]:
    print("DISAGREE", json.dumps(d, default=str)[:700])
for v in fresh[:2]:
    print("FRESH", v["sig"], v["what"][:150]); print(json.dumps(v["case"], default=str)[:1200])
verdict = 1 if fresh else (1 if res.disagreements else 0)
print("EXIT-EQUIV", verdict, "(failing input)" if fresh else ("(no-failing-input-found, stage C)" if res.disagreements else "(clean)"))
print({k: v for k, v in res.dist.items() if k.startswith(('wire', 'finding', 'histories', 'queries'))})
