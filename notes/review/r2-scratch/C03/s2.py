import sys
sys.dont_write_bytecode = True
sys.path.insert(0, '/verif')
import harness.common as C
import harness.c03 as H
n = nM = 0; sigs = {}
for w in range(0, 100, 2):
    wr = C.rng_for(0, "c03-wire", w)
    ops = H.gen_wire_history(wr)
    nM += sum(1 for o in ops if o["op"] == "M")
    steps, errors = H.exec_wire(ops, w)
    for s in steps:
        q = s["q"]
        if q and not q.get("split") and q["in_scope"]:
            n += 1
            for sig, what, d in H.wire_oracle(q):
                sigs[sig] = sigs.get(sig, 0) + 1
print("histories 50, M ops", nM, "queries judged", n, "violations", sigs)
