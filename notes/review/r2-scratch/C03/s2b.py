import sys
sys.dont_write_bytecode = True
sys.path.insert(0, '/verif')
import harness.common as C
import harness.c03 as H
shown = 0
for w in range(0, 100, 2):
    wr = C.rng_for(0, "c03-wire", w)
    ops = H.gen_wire_history(wr)
    for i, o in enumerate(ops):
        if o["op"] == "M" and shown < 8:
            nxt = ops[i + 2] if i + 2 < len(ops) else None
            tgt = [x for x in ops if x["op"] == "R" and x["obj"] == o["obj"]][0]["svc"]
            print(w, o["mut"][0], tgt["name"], tgt["server"], "->", [(q[0], q[1]) for m in (nxt or {}).get("msgs", []) for q in m["qs"]])
            shown += 1
