import sys, os, types
sys.dont_write_bytecode = True
sys.path.insert(0, os.environ['R'] + '/src')
from zeroconf import ServiceInfo, DNSOutgoing, DNSIncoming, DNSQuestion, DNSCache, const
from zeroconf._dns import DNSService, DNSText
from zeroconf._handlers.query_handler import QueryHandler
from zeroconf._history import QuestionHistory
from zeroconf._services.registry import ServiceRegistry
reg = ServiceRegistry()
zc = types.SimpleNamespace(registry=reg, cache=DNSCache(), question_history=QuestionHistory(), out_queue=None, out_delay_queue=None)
qh = QueryHandler(zc)
info = ServiceInfo("_a._tcp.local.", "Straße._a._tcp.local.", 80, 0, 0, b"", server="h1.local.", addresses=[bytes([10, 0, 0, 1])])
reg.async_add(info)
def ask(packets):
    r = qh.async_response([DNSIncoming(p) for p in packets], False)
    return None if r is None else sorted(str(x) for b in ("ucast", "mcast_now", "mcast_aggregate", "mcast_aggregate_last_second") for x in getattr(r, b))
o = DNSOutgoing(const._FLAGS_QR_QUERY); o.add_question(DNSQuestion("Straße._a._tcp.local.", 33, 1))
print("C: SRV question with the registered spelling ->", ask(o.packets()))
# J: packet 1 = probe (authority), packet 2 = ordinary query listing the TXT record at full TTL
p1 = DNSOutgoing(const._FLAGS_QR_QUERY); p1.add_question(DNSQuestion("other._a._tcp.local.", 255, 1)); p1.add_authorative_answer(DNSText("other._a._tcp.local.", 16, 1 | 0x8000, 4500, b""))
p2 = DNSOutgoing(const._FLAGS_QR_QUERY); p2.add_question(DNSQuestion("Straße._a._tcp.local.", 16, 1)); p2.add_answer_at_time(DNSText("Straße._a._tcp.local.", 16, 1 | 0x8000, 4500, b""), 0)
print("J: [probe, query+known TXT@4500] ->", ask(p1.packets() + p2.packets()))
