import sys
sys.dont_write_bytecode = True
sys.path.insert(0, '/verif')
import harness.common as C
import harness.c03 as H
import zeroconf; print(zeroconf.__file__)
w = int(sys.argv[1])
ops = H.gen_wire_history(C.rng_for(0, "c03-wire", w))
for o in ops: print({k: (v if k != "msgs" else [(m["qs"], len(m["answers"])) for m in v]) for k, v in o.items()})
steps, errors = H.exec_wire(ops, w)
for s in steps:
    q = s["q"]
    print(s["line"][:40] if s["line"] else None, s["impl"])
    if q:
        for p in q["pkts"]:
            print("   ", p["dst"], [H.rline(a) for a in p["answers"]], [H.rline(a) for a in p["adds"]])
        print("   oracle:", [x[0] for x in H.wire_oracle(q)])
