import sys
sys.dont_write_bytecode = True
sys.path.insert(0, '/verif')
import harness.c03 as H
svc = {"type": "_a._tcp.local.", "name": "x._a._tcp.local.", "server": "h1.local.", "port": 80, "weight": 0, "priority": 0, "text": "03613d31", "httl": 120, "ottl": 4500, "addrs": ["0a000001"], "ifindex": None}
q = {"op": "Q", "ucast": False, "port": 5353, "msgs": [{"probe": False, "qs": [["x._a._tcp.local.", 33, 1]], "answers": []}]}
ops = [{"op": "R", "svc": svc, "obj": 0}, dict(q), {"op": "M", "obj": 0, "mut": ["port", 81]}, {"op": "U", "obj": 0}, dict(q)]
steps, errors = H.exec_wire(ops, 1)
for s in steps:
    if s["q"]:
        print([H.rline(a).split()[9] for p in s["q"]["pkts"] for a in p["answers"]], [x[0] for x in H.wire_oracle(s["q"])])
