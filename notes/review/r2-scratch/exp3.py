import sys
sys.path.insert(0,'/repo/src')
from zeroconf._utils.name import service_type_name, possible_types
for t in ["_"+"a"*70+"._tcp.local.", "_é"+"é"*40+"._tcp.local.", "x._sub._"+"a"*70+"._tcp.local."]:
    try:
        print(repr(service_type_name(t, strict=False))[:60], len(t.split('.')[0].encode()))
    except Exception as e:
        print("rejected", type(e).__name__, str(e)[:80])
print(possible_types(""), possible_types("."), possible_types("_a._tcp.local."), possible_types("_x._sub._a._tcp.local."))
