import sys, json
sys.path.insert(0, '/verif')
from harness import c07, common as C
which = sys.argv[1]
if which == "case":
    c07.TYPES[:] = ["_A._tcp.local.", "_B._tcp.local.", "_C._udp.local."]
    c07.TYPE_IDX.clear(); c07.TYPE_IDX.update({t.lower(): i for i, t in enumerate(c07.TYPES)})
    case = {"simseed": 1, "hosts": [{"up": 0}, {"up": 3000}], "types": 1, "svcs": [{"owner": 0, "ty": 0}],
            "ops": [[0, "register", 0], [3500, "browse", 1, 0]],
            "net": {"seed": 1, "mode": "uniform", "drop": None, "dups": "none"}}
else:
    n = int(sys.argv[2]) if len(sys.argv) > 2 else 25
    case = {"simseed": 1, "hosts": [{"up": 0}, {"up": 6000}], "types": 1, "svcs": [{"owner": 0, "ty": 0} for _ in range(n)],
            "ops": [[10 * i, "register", i] for i in range(n)] + [[6500, "browse", 1, 0]],
            "net": {"seed": 1, "mode": "uniform", "drop": None, "dups": "none"}}
obs = c07.run_case(case)
vio = c07.oracle(case, obs)
print(C.REPO, which, "registered", len(obs["registered"]), "final live", [len(f["live"]) for f in obs["final"]],
      "max datagram bytes", max(len(d[4]) // 2 for d in obs["datagrams"]))
print("oracle violations:", [v[0] for v in vio][:5], len(vio))
for v in vio[:2]:
    print(v[1][:900])
tr = obs["trace"]
late = [e for e in tr if e[1] == "send" and e[0] > 6400 and any(it[0] == "p" for it in e[5])]
print("ptr-carrying sends after 6400:", [(e[0], e[2], e[4], len([1 for it in e[5] if it[0]=='p'])) for e in late][:20])
