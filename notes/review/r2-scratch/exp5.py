import sys
exec(open('/tmp/review2/scratch/exp1.py').read().split("# E1:")[0])
import zeroconf._protocol.outgoing as og
multi = []
_op = og.DNSOutgoing.packets
def packets(self):
    fresh = self.state != og.STATE_FINISHED
    r = _op(self)
    if fresh and len(r) > 1: multi.append((self.is_query(), len(self.questions), len(self.answers), [len(x) for x in r]))
    return r
og.DNSOutgoing.packets = packets

async def e7(sim, zc, lst, deliver, a):
    out = {}
    b = AsyncServiceBrowser(zc, [TB], handlers=[lambda **k: None])
    await sim.sleep_ms(10)
    t = H.wname(H.labels_of(TB))
    k = 0
    for d in range(12):
        recs = []
        for j in range(40):
            lab = (b"%04d" % k) + b"\xc3\xa9" * 29 + b"z"; k += 1     # 63 bytes
            recs.append(H.rr(t if j == 0 else b"\xc0\x0c", 12, 1, [4500, 120, 4294967295][k % 3], H.wname([lab], b"\xc0\x0c")))
        pkt = H.hdr(0, 0x8400, 0, len(recs)) + b"".join(recs)
        out.setdefault("deliv", []).append((len(pkt), deliver(pkt, ("10.0.0.2", 5353))))
        await sim.sleep_ms(30)
    out["cache_ptrs"] = len(zc.cache.get_all_by_details(TB, 12, 1))
    # lookup with giant TXT + address reorder
    si = AsyncServiceInfo(TB, "x." + TB)
    task = asyncio.ensure_future(si.async_request(zc, 3000))
    await sim.sleep_ms(5)
    inst = H.wname([b"x"] + H.labels_of(TB)); host = H.wname([b"hx", b"local"])
    big = b"".join(bytes([255]) + b"k" * 255 for _ in range(33))
    out["big"] = deliver(H.hdr(0,0x8400,0,1) + H.rr(inst, 16, 0x8001, 4500, big), ("10.0.0.2",5353))
    for ip in ("10.0.0.7", "10.0.0.8", "10.0.0.7", "10.0.0.8"):
        await sim.sleep_ms(3)
        out.setdefault("addr", []).append(deliver(H.hdr(0,0x8400,0,2) + H.rr(inst, 33, 0x8001, 120, struct.pack(">HHH",0,0,80)+host) + H.rr(host, 1, 1, 120, socket.inet_aton(ip)), ("10.0.0.2",5353)))
    out["lookup"] = await task
    # second lookup: its query now carries the giant TXT as known answer
    si2 = AsyncServiceInfo(TB, "x." + TB)
    out["lookup2"] = await si2.async_request(zc, 1500)
    await sim.sleep_ms(4_000_000)     # let refresh / rescue / expiry timers run
    out["cache_ptrs_end"] = len(zc.cache.get_all_by_details(TB, 12, 1))
    await b.async_cancel()
    return out
r = run(e7)
print("E7", r)
print("multi-packet sends:", multi[:8], len(multi))
