import sys
exec(open('/tmp/review2/scratch/exp1.py').read().split("# E1:")[0])
from zeroconf import ServiceStateChange, RecordUpdateListener
# (a) handler that raises on a hostile-looking name; second browser (listener) must still get its callback?
async def e4(sim, zc, lst, deliver, a):
    got = []
    def bad_handler(zeroconf, service_type, name, state_change):
        got.append(("h1", name)); raise ValueError("user handler choked on " + name)
    def good_handler(zeroconf, service_type, name, state_change):
        got.append(("h2", name))
    b1 = AsyncServiceBrowser(zc, [TB], handlers=[bad_handler])
    b2 = AsyncServiceBrowser(zc, [TB], handlers=[good_handler])
    await sim.sleep_ms(50)
    r1 = deliver(H.announce_packet("i1", TB, "h1.local.", "10.0.0.2"), ("10.0.0.2", 5353))
    await sim.sleep_ms(1500)
    r2 = deliver(H.announce_packet("i2", TB, "h2.local.", "10.0.0.2"), ("10.0.0.2", 5353))
    await sim.sleep_ms(100)
    out = {"r1": r1, "r2": r2, "got": got, "pending_b1": dict(b1._pending_handlers), "pending_b2": dict(b2._pending_handlers)}
    await b1.async_cancel(); await b2.async_cancel()
    return out
print("E4 raising handler:", run(e4))

# (b) plain RecordUpdateListener subclass that implements nothing
async def e5(sim, zc, lst, deliver, a):
    class U(RecordUpdateListener): pass
    zc.async_add_listener(U(), None)
    return deliver(H.announce_packet("i1", TB, "h1.local.", "10.0.0.2"), ("10.0.0.2", 5353))
print("E5 default RecordUpdateListener:", run(e5))

# (c) TypesSafe violated: non-strict browsed type with a 71-byte label
async def e6(sim, zc, lst, deliver, a):
    b = AsyncServiceBrowser(zc, ["_"+"a"*70+"._tcp.local."], handlers=[lambda **k: None])
    await sim.sleep_ms(5000)
    await b.async_cancel()
print("E6 long browsed type:", run(e6))
