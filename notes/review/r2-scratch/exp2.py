import sys, os, struct, socket, asyncio, traceback
sys.path.insert(0, '/tmp/review2/scratch')
exec(open('/tmp/review2/scratch/exp1.py').read().split("# E1:")[0])

# E2: RegSafe violated: server name with a 64-byte label; then any A query / PTR query from the net
async def e2(sim, zc, lst, deliver, a):
    out = {}
    out['ptrq'] = deliver(H.hdr(1,0,1)+H.q(H.labels_of(TA),12), ("10.0.0.2",5353))
    await sim.sleep_ms(2000)
    out['ptrq_legacy'] = deliver(H.hdr(2,0,1)+H.q(H.labels_of(TA),12), ("10.0.0.2",40000))
    await sim.sleep_ms(2000)
    return out
try:
    print("E2 server label 64:", run(e2, server="a"*64+".local."))
except Exception as e:
    print("E2 registration itself raised:", type(e).__name__, e)
# TXT > 255? properties with value of 300 bytes
try:
    print("E2b TXT 300:", run(e2, props={"k":"v"*300}))
except Exception as e:
    print("E2b registration itself raised:", type(e).__name__, str(e)[:100])
# instance name with 64-byte label non-strict? 
