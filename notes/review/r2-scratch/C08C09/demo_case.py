import sys
sys.path.insert(0,'/verif')
import harness.common as C
from harness import vsim, c09
from zeroconf import ServiceInfo
import socket
async def main(sim):
    a = sim.make_host('A','10.0.0.1'); za=a.zc
    await za.async_wait_for_start()
    typ='_HTTP._tcp.local.'
    a.inject(c09.resp_ptr(typ,'svc._HTTP._tcp.local.',4500,1),'10.0.0.9')
    await sim.sleep_ms(50)
    info=ServiceInfo(typ,'svc._HTTP._tcp.local.',80,addresses=[socket.inet_aton('10.0.0.1')],server='hosta.local.')
    try:
        t=await za.async_register_service(info, allow_name_change=False); await t
        print(C.REPO, 'registered as', info.name, '(a peer already advertises exactly this name)')
    except Exception as e:
        print(C.REPO, 'raised', type(e).__name__)
    await vsim.close_host(a)
vsim.Sim(1).run(main)
