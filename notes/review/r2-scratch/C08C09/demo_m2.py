import sys, os
sys.path.insert(0,'/verif')
import harness.common as C
from harness import vsim, c09
from zeroconf import DNSOutgoing, DNSQuestion, const, DNSIncoming
print('REPO', C.REPO)
def main_factory():
    out = {}
    async def main(sim):
        a = sim.make_host('A','10.0.0.1'); za=a.zc
        await za.async_wait_for_start()
        sends=[]
        sim.net.on_send=lambda t,src,data,addr: sends.append((t,data,addr))
        typ='_http._tcp.local.'
        a.inject(c09.resp_ptr(typ,'svc.'+typ,4500,1),'10.0.0.9')
        await sim.sleep_ms(50)
        info=c09.make_info({'type':typ,'inst':'svc','port':80,'text':'','server':'hosta.local.','host_ttl':120,'other_ttl':4500,'v4':['0a000001'],'v6':[]})
        t=await za.async_register_service(info, allow_name_change=True); await t
        print('registered as', info.name, 'registry keys', list(za.registry._services))
        await sim.sleep_ms(2000)
        n0=len(sends)
        for qn in ('svc.'+typ, 'svc-2.'+typ):
            q=DNSOutgoing(const._FLAGS_QR_QUERY); q.add_question(DNSQuestion(qn,const._TYPE_SRV,const._CLASS_IN|const._CLASS_UNIQUE))
            a.inject(q.packets()[0],'10.0.0.9',5353)
            await sim.sleep_ms(1500)
            for (t_,d,addr) in sends[n0:]:
                m=DNSIncoming(d)
                if not m.is_query(): print('  question for',qn,'-> reply to',addr,[str(r) for r in m.answers()][:3])
            if len(sends)==n0: print('  question for',qn,'-> NO reply')
            n0=len(sends)
        await vsim.close_host(a)
    return main
vsim.Sim(1).run(main_factory())
