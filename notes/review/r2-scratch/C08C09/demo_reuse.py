import sys, os, asyncio
sys.path.insert(0,'/verif')
import harness.common as C
from harness import vsim, c09
from zeroconf import DNSIncoming
async def main(sim):
    a = sim.make_host('A','10.0.0.1'); za=a.zc
    await za.async_wait_for_start()
    sends=[]
    sim.net.on_send=lambda t,src,data,addr: sends.append((t,data,addr))
    typ='_http._tcp.local.'
    info=c09.make_info({'type':typ,'inst':'svc','port':80,'text':'','server':'hosta.local.','host_ttl':120,'other_ttl':4500,'v4':['0a000001'],'v6':[]})
    t=await za.async_register_service(info, allow_name_change=True); await t
    await sim.sleep_ms(3000)
    t0=sim.now()
    gt=await za.async_unregister_service(info)
    # application re-registers the same object at once (e.g. to "refresh" it), renaming allowed
    t2=await za.async_register_service(info, allow_name_change=True)
    await gt; await t2
    await sim.sleep_ms(2000)
    for (t_,d,addr) in sends:
        if t_>=t0:
            m=DNSIncoming(d)
            print(t_-t0, 'Q' if m.is_query() else 'R', sorted({(type(r).__name__[3:], getattr(r,'alias',r.name), r.ttl) for r in m.answers()})[:4])
    await vsim.close_host(a)
vsim.Sim(1).run(main)
