import sys, os, json, pathlib, collections
sys.path.insert(0, '/verif')
os.environ.setdefault('PYTHONDONTWRITEBYTECODE', '1')
import harness.common as C
C.DRIVER = pathlib.Path('/tmp/review2/scratch-C08C09/zcdriver')
import importlib
mod = importlib.import_module('harness.' + sys.argv[1])
seed = int(sys.argv[2]) if len(sys.argv) > 2 else 0
res = mod.run({'tier': 'quick', 'seed': seed, 'widened': False, 'driver_ok': True, 'stages': {}, 'drift': []})
sigs = collections.Counter(v['sig'] for v in res.violations)
print('REPO', C.REPO, 'evals', res.evaluations, 'disagreements', len(res.disagreements), 'viol sigs', dict(sigs), 'notes', res.notes[:3])
for d in res.disagreements[:2]:
    print('DIS', json.dumps(d, default=str)[:1200])
seen=set()
for v in res.violations:
    if v['sig'] not in seen:
        seen.add(v['sig']); print('VIOL', v['sig'], v['what'][:300])
