import sys, asyncio, time, threading
sys.dont_write_bytecode = True
sys.path.insert(0, "/verif")
from harness import common as C
from harness.c17_threads import Rig
from zeroconf import Zeroconf, DNSOutgoing, const, ServiceListener
from zeroconf._dns import DNSPointer
res = []
class L(ServiceListener):
    def add_service(self, zc, t, n):
        try:
            zc.close(); res.append("close() from the browser's callback thread returned")
        except BaseException as ex:
            res.append("close() from the browser's callback thread RAISED %s: %s" % (type(ex).__name__, ex))
    def remove_service(self, zc, t, n): pass
    def update_service(self, zc, t, n): pass
with Rig() as rig:
    zc = Zeroconf(interfaces=["10.0.0.1"])
    zc.add_service_listener("_b._tcp.local.", L())
    out = DNSOutgoing(const._FLAGS_QR_RESPONSE | const._FLAGS_AA)
    out.add_answer_at_time(DNSPointer("_b._tcp.local.", 12, 1, 4500, "x._b._tcp.local."), 0)
    zc.loop.call_soon_threadsafe(zc.engine.protocols[0].datagram_received, out.packets()[0], ("10.0.0.9", 5353))
    time.sleep(1.0)
    print(res, "done=%s" % zc.done, "transport-closed logged:", any(e[1] == "transport-closed" for e in rig.log))
    if not zc.done or True:
        try: zc.close()
        except BaseException as ex: print("later close:", type(ex).__name__)
