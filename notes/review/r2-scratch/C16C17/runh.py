"""run one harness module's run(ctx) without Lean stages; usage: VERIF_REPO=... python runh.py c17 [seed] [scale]"""
import sys, os, json, time, collections
sys.dont_write_bytecode = True
sys.path.insert(0, "/verif")
mod = sys.argv[1]
seed = int(sys.argv[2]) if len(sys.argv) > 2 else 0
import importlib
from harness import common as C
print("REPO", C.REPO)
h = importlib.import_module("harness." + mod)
import zeroconf
print("zeroconf from", zeroconf.__file__)
t0 = time.time()
ctx = {"tier": "quick", "seed": seed, "widened": False, "driver_ok": False, "stages": {}, "drift": []}
res = h.run(ctx)
print("evaluations", res.evaluations, "wall %.1f" % (time.time() - t0))
sigs = collections.Counter(v["sig"] for v in res.violations)
print("violations by sig:", dict(sigs))
print("disagreements", len(res.disagreements))
for v in res.violations[:0]:
    print(v["sig"], v["what"][:200])
seen = set()
for v in res.violations:
    if v["sig"] not in seen:
        seen.add(v["sig"])
        print(" *", v["sig"], "::", v["what"][:220])
