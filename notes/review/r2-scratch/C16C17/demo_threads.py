"""demonstrate that mutants mA / mB violate C17 (run with VERIF_REPO=<mutant>)"""
import sys, asyncio, time, threading
sys.dont_write_bytecode = True
sys.path.insert(0, "/verif")
from harness import common as C  # sets sys.path to VERIF_REPO
from harness.c17_threads import Rig
import zeroconf
print("zeroconf from", zeroconf.__file__)
which = sys.argv[1]

if which == "double-close":
    from zeroconf import Zeroconf
    with Rig():
        zc = Zeroconf(interfaces=["10.0.0.1"])
        zc.close()
        t = time.time()
        try:
            zc.close()
            print("second close(): returned normally after %.2f s" % (time.time() - t))
        except BaseException as ex:
            print("second close(): RAISED %s after %.2f s" % (type(ex).__name__, time.time() - t))

if which == "cleanup-after-sync-close":
    import zeroconf._engine as eng
    from zeroconf import Zeroconf, DNSOutgoing, const, ServiceListener
    from zeroconf._dns import DNSPointer
    from zeroconf.asyncio import AsyncServiceBrowser
    eng._CACHE_CLEANUP_INTERVAL = 0.3   # only to shorten the demo (10 s in the library)
    import zeroconf._handlers.record_manager as rmm
    rmm._DNS_PTR_MIN_TTL = 1            # only to shorten the demo (1125 s in the library): the PTR expires 1 s after arrival
    events = []

    class L(ServiceListener):
        def add_service(self, zc, t, n): events.append((time.monotonic(), "add", n))
        def remove_service(self, zc, t, n): events.append((time.monotonic(), "rem", n))
        def update_service(self, zc, t, n): events.append((time.monotonic(), "upd", n))

    async def main():
        loop = asyncio.get_running_loop()
        errs = []
        loop.set_exception_handler(lambda l, c: errs.append(str(c.get("exception") or c.get("message"))))
        zc = Zeroconf(interfaces=["10.0.0.1"])
        await zc.async_wait_for_start()
        AsyncServiceBrowser(zc, ["_b._tcp.local."], listener=L())   # untracked browser
        out = DNSOutgoing(const._FLAGS_QR_RESPONSE | const._FLAGS_AA)
        out.add_answer_at_time(DNSPointer("_b._tcp.local.", const._TYPE_PTR, const._CLASS_IN, 1, "x._b._tcp.local."), 0)
        zc.engine.protocols[0].datagram_received(out.packets()[0], ("10.0.0.9", 5353))
        await asyncio.sleep(0.05)
        await loop.run_in_executor(None, zc.close)       # close() from a non-loop thread
        t_ret = time.monotonic()
        t = zc.engine._cleanup_timer
        print("close() returned; done=%s cleanup timer cancelled=%s" % (zc.done, t.cancelled()))
        await asyncio.sleep(1.6)
        late = [(round((e[0] - t_ret) * 1000), e[1], e[2]) for e in events if e[0] > t_ret]
        print("callbacks after close returned:", late, "loop errors:", errs)

    with Rig():
        asyncio.run(main())
