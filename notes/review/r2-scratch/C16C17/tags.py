import sys, json
sys.dont_write_bytecode = True
sys.path.insert(0, "/verif")
from harness import common as C
from harness import c16
out = {}
for idx in range(700):
    case = c16.gen_case(0, idx, qu_ok=(idx % 2 == 1))
    for which, mask in (("ref", None), ("dup", "all")):
        obs = c16.simulate(case, mask, skip_d11=(mask is not None))
        out["%d/%s" % (idx, which)] = [b["tag"].split(":")[0] + "|" + str(len(b["timers"])) + "|" + str(sum(n for _, n in b["deferred"])) for b in obs["lblocks"]]
json.dump(out, open(sys.argv[1], "w"))
