import sys, asyncio, socket
sys.dont_write_bytecode = True
sys.path.insert(0, "/verif")
from harness import common as C
from harness.c17_threads import Rig
from zeroconf import Zeroconf, DNSOutgoing, DNSQuestion, ServiceInfo, const
from zeroconf._dns import DNSPointer
from zeroconf.asyncio import AsyncZeroconf
async def main():
    zc = Zeroconf(interfaces=["10.0.0.1"]); await zc.async_wait_for_start()
    calls = []
    class RUL:
        def async_update_records(self, z, now, recs): calls.append(len(recs))
        def async_update_records_complete(self): pass
    zc.async_add_listener(RUL(), None)
    out = DNSOutgoing(const._FLAGS_QR_RESPONSE | const._FLAGS_AA)
    out.add_answer_at_time(DNSPointer("_b._tcp.local.", 12, 1, 4500, "x._b._tcp.local."), 0)
    d = out.packets()[0]
    lst = zc.engine.protocols[0]
    lst.datagram_received(bytes(bytearray(d)), ("10.0.0.9", 5353)); lst.datagram_received(bytes(bytearray(d)), ("10.0.0.9", 5353))
    print("response delivered twice as two equal bytes objects (what a socket does): record-manager rounds =", len(calls))
    zc.registry.async_add(ServiceInfo("_a._tcp.local.", "s._a._tcp.local.", 80, addresses=[socket.inet_aton("10.0.0.1")], server="h.local."))
    q = DNSOutgoing(const._FLAGS_QR_QUERY | const._FLAGS_TC); qq = DNSQuestion("_a._tcp.local.", 12, 1); qq.unicast = True; q.add_question(qq)
    d = q.packets()[0]
    lst.datagram_received(bytes(bytearray(d)), ("10.0.0.9", 5353)); lst.datagram_received(bytes(bytearray(d)), ("10.0.0.9", 5353))
    print("TC+QU query delivered twice: deferred packets for the address =", len(lst._deferred.get("10.0.0.9", [])))
    await AsyncZeroconf(zc=zc).async_close()
with Rig():
    asyncio.run(main())
