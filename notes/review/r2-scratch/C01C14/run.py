import sys, os, collections, json
sys.dont_write_bytecode=True
sys.path.insert(0,'/verif')
prop=sys.argv[1]; drv = sys.argv[2]=='1'; seed=int(sys.argv[3]) if len(sys.argv)>3 else 0
import harness.c01 as c01, harness.c14 as c14, harness.common as C
import zeroconf; print('zeroconf from', zeroconf.__file__)
known={k['sig'] for k in json.load(open('/verif/known_findings.json'))['entries'] if k.get('kind')=='finding'}
ctx={"tier":"quick","seed":seed,"widened":False,"driver_ok":drv,"stages":{},"drift":[]}
res=(c01 if prop=='C01' else c14).run(ctx)
print('evals',res.evaluations,'disagreements',res.dist.get('disagreements',0),'violations',res.dist.get('violations',0), 'notes', res.notes)
cnt=collections.Counter(v['sig'] for v in res.violations)
for s,n in cnt.most_common(): print('  ',n,s,'(KNOWN)' if s in known else '(FRESH)')
for d in res.disagreements[:2]: print('  DIS', d['impl'][:100], '|', d['model'][:100], '|', d['case']['msg'][:150])
fresh=[v for v in res.violations if v['sig'] not in known]
if fresh: print('  first fresh:', fresh[0]['what'][:200], '| msg:', fresh[0]['case']['msg'][:200])
