import sys, random
sys.dont_write_bytecode=True
sys.path.insert(0,'/verif')
import harness.c01 as c01, harness.common as C, harness.wiregen as W
rng=random.Random(7)
g=W.Gen(rng)
g.labels += ["😀", "a😀b", "𝔘"*15, "x"*30, "ß"*20+"k"*11, "Ünï", "tab\there", "nul\x00x", "sp ace", "a\\b", "UPPER", "İ"]
g.types += ["_a._b._c._d._e._f._g._h._tcp.local.", "q."*40+"local."]
def q(): 
    e=g.question(); e.type=rng.choice([0,255,256,257,32768,65535,rng.randrange(65536)]); e.class_=rng.randrange(32768); return e
cases=[]
for i in range(600):
    m=g.message(size_class=rng.choice(["tiny","small","medium","large"]))
    m.flags=rng.choice([rng.randrange(65536), 0x0100, 0x8180, 0x7800, 0x0001])
    m.id=rng.randrange(65536)
    m.qs=[q() for _ in m.qs]
    for e in m.an+m.au+m.ad:
        e.class_=rng.randrange(32768)
        if e.kind=='s': e.rd=(rng.randrange(65536),rng.randrange(65536),rng.randrange(65536),e.rd[3])
        if e.kind=='n': e.rd=(e.rd[0], sorted(set(rng.sample(range(0,256), rng.randint(1,40)))) if rng.random()<.8 else [0])
        if e.kind=='t' and rng.random()<.2: e.rd=(bytes(rng.randrange(256) for _ in range(rng.choice([1459,2000,4000,7000]))),)
        if e.kind=='a' and rng.random()<.1: e.rd=(bytes(rng.randrange(256) for _ in range(rng.choice([0,1,5,17]))),)
    cases.append(m)
impl=[c01.impl_packets(m) for m in cases]
lines=[]; idx=[]
for k,(m,(ik,iv)) in enumerate(zip(cases,impl)):
    lines.append("enc "+m.tok()); idx.append(('enc',k,None))
    if ik=='ok':
        for j,p in enumerate(iv):
            lines.append("strict "+p.hex()); idx.append(('strict',k,j))
out=C.run_driver(lines)
dis=0; viol={}
enc={}; st={}
for (w,k,j),o in zip(idx,out):
    if w=='enc': enc[k]=o
    else: st[(k,j)]=o
import collections
vc=collections.Counter(); oc=collections.Counter()
for k,(m,(ik,iv)) in enumerate(zip(cases,impl)):
    io=("ok "+" ".join(C.hx(p) for p in iv)) if ik=='ok' else "err "+str(iv)
    oc[ik if ik!='err' else iv]+=1
    if io.strip()!=enc[k].strip():
        dis+=1
        if dis<4: print('DIS',io[:150],'|',enc[k][:150],'|',m.tok()[:200])
    if ik=='ok':
        v=c01.predicates(None,m,iv,[st[(k,j)] for j in range(len(iv))],'C01')
        if v: vc[v[0]]+=1
        if v and 'over-255' not in v[0] and vc[v[0]]<3: print('VIOL',v, m.in_quantifier(), m.tok()[:300])
    elif m.in_quantifier(): vc['err:'+str(iv)]+=1
print('disagreements',dis, oc, vc)
