import sys, collections
sys.dont_write_bytecode=True
sys.path.insert(0,'/verif')
import harness.c01 as c01, harness.common as C, harness.wiregen as W
for prop,bias in (('C01',None),('C14',["small","medium","medium","large","oversize-entry","oversize-entry"])):
    rng=C.rng_for(0,'wire',prop)
    g=W.Gen(rng); gm_=W.Gen(rng,malformed=True)
    tot=collections.Counter(); 
    for i in range(2500):
        if i%10==9:
            m=gm_.message(size_class=rng.choice(["tiny","small"])); kind='mal'
        else:
            m=g.message(size_class=rng.choice(bias) if bias else None); kind='valid'
            if i%4==0: m=c01.boundary_seek(m,rng)
            if i%50==7:
                L=rng.choice([63,64,64,65]); m.qs.append(W.Ent("q","a"*L+"."+rng.choice(["_http._tcp.local.","local."]),12,1,False))
        ik,iv=c01.impl_packets(m)
        if ik!='ok': continue
        n=len(iv); cls='1' if n<=1 else '2-5' if n<=5 else '>5'
        inq=m.in_quantifier()
        long=m.max_wire_len()>255
        tot[(cls,'inq' if inq else 'outq','long' if long else 'short')]+=1
        # exact boundary hits
        for p in iv:
            if len(p) in (1459,1460,8965,8966): tot['len%d'%len(p)]+=1
    print(prop); 
    for k in sorted(tot,key=str): print('  ',k,tot[k])
