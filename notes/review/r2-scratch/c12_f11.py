import sys
exec(open('/tmp/review2/scratch/c12_try.py').read().split("# (a)")[0])
async def f11(sim, host, zc, info, t0):
    host.deliver(q([(info.name, k._TYPE_SRV)], tc=True), ("10.0.0.9",5353))
    await sim.sleep_ms(100)
    host.deliver(q([(info.type, k._TYPE_PTR)], tc=False), ("10.0.0.9",5353))   # completes the train: 2 questions in total
scenario("F11 two-question train, first packet has a single SRV question", f11)
