import sys, json, collections, time
sys.path.insert(0, '/verif')
from harness import c07, common as C
print("REPO", C.REPO)
t=time.time()
res = c07.run_inner({"tier": "quick", "seed": int(sys.argv[1]) if len(sys.argv)>1 else 0, "widened": False, "driver_ok": False})
known = {"C07:goodbyes-cut-by-close", "C07:not-removed:goodbyes-cut-by-close"}
sigs = collections.Counter(v["sig"] for v in res.violations)
fresh = [v for v in res.violations if v["sig"] not in known]
print("evaluations", res.evaluations, "wall", round(time.time()-t,1))
print("violations by sig", dict(sigs))
print("fresh (would cause exit 1):", len(fresh))
print("disagreements:", len(res.disagreements), collections.Counter(d.get("kind", d.get("what","?")) if isinstance(d,dict) else str(d)[:40] for d in res.disagreements))
print({k:v for k,v in res.dist.items() if k.startswith("contract") or k.startswith("goodbyes") or k.startswith("traces-sat")})
print("EXIT would be", 1 if fresh or res.disagreements else 0)
