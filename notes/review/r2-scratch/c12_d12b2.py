import sys
exec(open('/tmp/review2/scratch/c12_try.py').read().split("# (a)")[0])
async def d12b(sim, host, zc, info, t0):
    host.deliver(q([(info.name, k._TYPE_SRV)]), ("10.0.0.7",5353))          # SRV at once: sighting t0
    await sim.sleep_ms(100)
    host.deliver(q([(info.name, k._TYPE_SRV)]), ("10.0.0.8",5353))          # SRV protected, pending group ~ t0+1120..1220
    await sim.sleep_ms(50)
    host.deliver(q([(info.name, k._TYPE_TXT),(info.type, k._TYPE_PTR)], tc=True), ("10.0.0.9",5353))  # TC first packet t0+150
    await sim.sleep_ms(150)
    host.deliver(q([(info.name, k._TYPE_TXT)]), ("10.0.0.6",5353))          # single TXT? TXT is not immediate type -> aggregated ~t0+320..800
    await sim.sleep_ms(400)
    host.deliver(q([(info.name, k._TYPE_A)], tc=True), ("10.0.0.9",5353))   # last TC packet t0+700
for seed in (1,2,3):
    scenario("D12b seed %d"%seed, d12b, seed=seed)
