import sys, os, time, json
sys.path.insert(0, '/verif')
import coverage
cov = coverage.Coverage(data_file='/tmp/review2/scratch/.cov', include=['/repo/src/zeroconf/*'], branch=True)
cov.start()
from harness import c15 as H
N = int(sys.argv[1]); seed = int(sys.argv[2])
t0 = time.time(); bad = {}
stats = {"maxcache":0, "maxdefer":0, "multi_pkt_sends":0}
import zeroconf._protocol.outgoing as og
orig_packets = og.DNSOutgoing.packets
def packets(self):
    r = orig_packets(self)
    if len(r) > 1: stats["multi_pkt_sends"] += 1
    return r
og.DNSOutgoing.packets = packets
for name, case in H.corpus_cases():
    obs = H.simulate(case)
    for s,w in H.judge(obs): bad[s]=bad.get(s,0)+1
for idx in range(N):
    case = H.gen_case(seed, idx)
    obs = H.simulate(case)
    for s,w in H.judge(obs): bad[s]=bad.get(s,0)+1
    for b in obs["blocks"]:
        for a,n in b["deferred"]: stats["maxdefer"]=max(stats["maxdefer"],n)
cov.stop(); cov.save()
print("cases", N, "secs", round(time.time()-t0,1), "violations", bad, stats)
