import Zc.Props.C07
namespace Zc
open Zc.Link

/-- the projection of a host-machine packet never contains a question item -/
theorem itemsOf_no_query (lower : String → String) (N : Bridge.Naming) (p : Register.Pkt) (ty : Nat) (k : List Svc) (qu : Bool) :
    Item.query ty k qu ∉ Bridge.itemsOf lower N p := by
  intro h
  unfold Bridge.itemsOf at h
  rw [List.mem_filterMap] at h
  obtain ⟨r, _, hr⟩ := h
  unfold Bridge.ptrItem at hr
  split at hr
  · split at hr
    · cases hr
    · cases hr
  · cases hr

/-- the hypotheses of `C07_convergence_from_models_partial` are contradictory as soon as there is one browser on a
never-closed host (i.e. whenever its conclusion says anything) -/
theorem from_models_vacuous (lower : String → String) (tr : Trace) (endT : Int)
    (hc : C07_ContractsFromModels lower tr endT) (hs : lastChange tr + C07_settle ≤ endT)
    (tb : Int) (b : Br) (hb : (tb, b) ∈ browses tr) (hopen : neverClosed tr b.host = true) : False := by
  have hk3 := Bridge.K3_of_browsers tr endT hc.browsers
  have hle : tb ≤ lastChange tr := le_lastChange (e := ⟨tb, .browse b⟩) (mem_browses.mp hb) rfl
  unfold C07_settle at hs
  have := List.all_eq_true.mp hk3 (tb, b) hb
  simp only [hopen, K3opps] at this
  simp only [Bool.not_true, Bool.false_or, Bool.and_eq_true, Bool.or_eq_true, Bool.not_eq_true',
    dec_false, Bool.and_true] at this
  obtain ⟨h1, _⟩ := this
  rcases h1 with h1 | h1
  · omega
  · simp only [K3opp, if_true, List.any_eq_true, Bool.and_eq_true, beq_iff_eq] at h1
    obtain ⟨sd, hsd, ⟨⟨⟨⟨hh, _⟩, _⟩, _⟩, hask⟩⟩ := h1
    obtain ⟨N, steps, T0, hN, hr⟩ := hc.hosts b.host
    obtain ⟨sd', hsd', _, hit⟩ := hr.sendsIn sd hsd (by rw [hN]; exact hh)
    obtain ⟨st, _, p, _, rfl⟩ := Bridge.mem_sends_events lower N steps sd' hsd'
    simp only [asks, List.any_eq_true] at hask
    obtain ⟨it, hmem, hq⟩ := hask
    rw [← hit] at hmem
    cases it with
    | ptr _ _ _ => simp at hq
    | query ty' known qu' => exact itemsOf_no_query lower N p ty' known qu' hmem

#print axioms from_models_vacuous
end Zc
