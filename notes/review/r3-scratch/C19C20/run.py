import sys, os, json, time
os.environ.setdefault("PYTHONDONTWRITEBYTECODE","1")
sys.dont_write_bytecode=True
sys.path.insert(0,'/verif'); sys.path.insert(0,'/verif/tools')
prop=sys.argv[1]; seed=int(sys.argv[2]); driver=(sys.argv[3]=='1') if len(sys.argv)>3 else False
widened=(sys.argv[4]=='1') if len(sys.argv)>4 else False
import importlib
h=importlib.import_module('harness.'+prop.lower())
known=set()
for e in json.load(open('/verif/known_findings.json'))['entries']:
    if e.get('property')==prop and e.get('kind')=='finding': known.add(e['sig'])
t=time.time()
ctx={"tier":"quick","seed":seed,"widened":widened,"driver_ok":driver,"stages":{},"drift":[]}
res=h.run(ctx)
print(prop,'seed',seed,'repo',os.environ.get('VERIF_REPO','/repo'),'evals',res.evaluations,'disagreements',len(res.disagreements),'violations',len(res.violations),'%.0fs'%(time.time()-t))
sigs={}
for v in res.violations:
    sigs.setdefault(v['sig'],v)
for s,v in sigs.items():
    print(('KNOWN ' if s in known else 'FRESH '),s,'|',v['what'][:200],'|',json.dumps(v['case'],default=str)[:300])
for d in res.disagreements[:4]:
    print('DISAGREE',json.dumps(d,default=str)[:400])
for n in res.notes[:5]: print('note',n[:200])
