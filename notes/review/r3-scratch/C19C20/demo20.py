import sys,os
sys.dont_write_bytecode=True
sys.path.insert(0, os.environ.get('VERIF_REPO','/repo')+'/src')
from zeroconf import _dns as z, DNSCache
from zeroconf._handlers.answers import construct_outgoing_multicast_answers
from zeroconf._history import QuestionHistory
# A: two answers (SRV, TXT) each with "the same" A record as additional (different objects)
a1=z.DNSAddress('host.local.',1,1|0x8000,120,b'\x0a\0\0\1'); a2=z.DNSAddress('HOST.local.',1,1,4500,b'\x0a\0\0\1')
srv=z.DNSService('foo._x._tcp.local.',33,1,120,0,0,80,'host.local.'); txt=z.DNSText('foo._x._tcp.local.',16,1,120,b'\0')
out=construct_outgoing_multicast_answers({srv:{a1}, txt:{a2}})
print('A additionals sent:',len(out.additionals))
# B: cache removal by identity
c=DNSCache(); r=z.DNSAddress('Host.local.',1,1,120,b'\x0a\0\0\1'); c.async_add_records([r])
c.async_remove_records([z.DNSAddress('Host.local.',1,1,0,b'\x0a\0\0\1')])
print('B still cached after removal:', c.async_get_unique(r) is not None)
# C: question whose QU bit is set after construction
q=z.DNSQuestion('_x._tcp.local.',12,1); h0=hash(q); q.unicast=True
q2=z.DNSQuestion('_x._tcp.local.',12,1|0x8000)
print('C q==q2',q==q2,'hash same',hash(q)==hash(q2))
h=QuestionHistory(); h.add_question_at_time(q,1000.0,set()); print('C history suppresses same question:',h.suppresses(q2,1100.0,set()))
