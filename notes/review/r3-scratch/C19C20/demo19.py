import sys,os
sys.dont_write_bytecode=True
sys.path.insert(0, os.environ.get('VERIF_REPO','/repo')+'/src')
from zeroconf import ServiceInfo
from zeroconf._utils.name import service_type_name
def t(f):
    try: return f()
    except Exception as e: return type(e).__name__
print('A', t(lambda: service_type_name('a\x1bb._http._tcp.local.')))
print('B', t(lambda: (lambda i:(i.text,i.properties))(ServiceInfo('_x._tcp.local.','n._x._tcp.local.',properties={'a\ud800':'1','a':'2'}))))
print('C', t(lambda: (lambda i:(i.text,i.properties))(ServiceInfo('_x._tcp.local.','n._x._tcp.local.',properties={'a':'1','A':'2'}))))
