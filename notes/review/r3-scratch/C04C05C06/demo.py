import sys, os
sys.dont_write_bytecode=True
repo=sys.argv[1]
sys.path.insert(0, repo+'/src')
from zeroconf import const as K
from zeroconf._cache import DNSCache
from zeroconf._dns import *
from zeroconf._protocol.outgoing import DNSOutgoing
from zeroconf._protocol.incoming import DNSIncoming
from zeroconf._handlers.record_manager import RecordManager
class Z:
    def __init__(s):
        s.cache=DNSCache(); s.record_manager=RecordManager(s)
    def async_notify_all(s): pass
z=Z()
# A: PTR in the answer section, SRV+A in the additional section (what every announcement looks like when answering a PTR query)
out=DNSOutgoing(K._FLAGS_QR_RESPONSE|K._FLAGS_AA)
ptr=DNSPointer('_x._tcp.local.',12,1,4500,'a._x._tcp.local.',created=1000.0)
srv=DNSService('a._x._tcp.local.',33,1|K._CLASS_UNIQUE,120,0,0,80,'h.local.',created=1000.0)
a=DNSAddress('h.local.',1,1|K._CLASS_UNIQUE,120,b'\n\0\0\1',created=1000.0)
out.add_answer_at_time(ptr,0); out.add_additional_answer(srv); out.add_additional_answer(a)
msg=DNSIncoming(out.packets()[0],now=1000000.0)
z.record_manager.async_updates_from_response(msg)
print('A sections: cached names', sorted(z.cache.names()))
# K: cache-flush record of class IN flushes a sibling of another class?
z=Z()
a_in=DNSAddress('h.local.',1,1,120,b'\n\0\0\1',created=1.0); a_ch=DNSAddress('h.local.',1,3,120,b'\n\0\0\2',created=1.0)
o=DNSOutgoing(K._FLAGS_QR_RESPONSE|K._FLAGS_AA); o.add_answer_at_time(a_in,0); o.add_answer_at_time(a_ch,0)
z.record_manager.async_updates_from_response(DNSIncoming(o.packets()[0],now=1000000.0))
fl=DNSAddress('h.local.',1,1|K._CLASS_UNIQUE,120,b'\n\0\0\3',created=1.0)
o=DNSOutgoing(K._FLAGS_QR_RESPONSE|K._FLAGS_AA); o.add_answer_at_time(fl,0)
z.record_manager.async_updates_from_response(DNSIncoming(o.packets()[0],now=1002000.0))
print('K class: ', [(r.class_, r.ttl, r.created) for r in z.cache.entries_with_name('h.local.')])
# AB: non-ASCII upper-case owner name
z=Z()
t=DNSText('Émile.local.',16,1,120,b'\x03a=1',created=1.0)
o=DNSOutgoing(K._FLAGS_QR_RESPONSE|K._FLAGS_AA); o.add_answer_at_time(t,0)
z.record_manager.async_updates_from_response(DNSIncoming(o.packets()[0],now=1000000.0))
print('AB: get', z.cache.get(t) is not None, 'entries_with_name', len(z.cache.entries_with_name('Émile.local.')), 'async', len(z.cache.async_entries_with_name('Émile.local.')))
