import sys, os, json, time, importlib, pathlib
sys.dont_write_bytecode = True
sys.path.insert(0, '/verif')
prop, seed = sys.argv[1], int(sys.argv[2])
drv = (sys.argv[3] != '0') if len(sys.argv) > 3 else True
from harness import common as C
C.DRIVER = pathlib.Path('/tmp/review3/scratch-C04C05C06/zcdriver')
hmod = importlib.import_module('harness.%s' % prop.lower())
ctx = {"tier": "quick", "seed": seed, "widened": False, "driver_ok": drv, "stages": {}, "drift": []}
t0 = time.time()
res = hmod.run(ctx)
sigs = {}
for v in res.violations:
    sigs.setdefault(v["sig"], []).append(v)
print("REPO", C.REPO, "prop", prop, "seed", seed, "evals", res.evaluations, "disagreements", len(res.disagreements), "violations", len(res.violations), "wall", round(time.time()-t0,1))
for s, vs in sigs.items():
    print("  SIG", s, len(vs)); print("     ", vs[0]["what"][:400]); print("     case:", json.dumps(vs[0]["case"].get("ops"))[:1500] if isinstance(vs[0]["case"], dict) else str(vs[0]["case"])[:800])
ds = {}
for d in res.disagreements:
    k = d.get("stream") if isinstance(d, dict) else str(d)[:60]
    ds[k] = ds.get(k, 0) + 1
print("  DIS", ds)
if res.disagreements:
    print("  first dis:", json.dumps(res.disagreements[0], default=str)[:1500])
print("  notes", res.notes[:6])
