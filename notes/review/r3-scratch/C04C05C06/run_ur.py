import sys, pathlib, json
sys.dont_write_bytecode=True
sys.path.insert(0,'/verif')
from harness import common as C
C.DRIVER = pathlib.Path('/tmp/review3/scratch-C04C05C06/zcdriver')
from harness import c04, cachecommon as CC
res = C.Result("C04")
ctx = {"tier":"quick","seed":0,"widened":False,"driver_ok":False,"stages":{},"drift":[]}
probes = CC.vocab_probes(c04.VOCAB, [c04.TX, c04.TY, c04.TZ, c04.TS])
run_ur = CC.Runner(res, "C04", ctx, c04.oracle_update_round, valid=c04.update_round_valid)
for ops in c04.update_round_histories():
    run_ur.add("update-round-reentrant-listener", probes, ops, model_on=False)
run_ur.finish()
print(C.REPO, [(v["sig"]) for v in res.violations])
