from mut import mut
H='_history.py'; R='_services/registry.py'; C='_cache.py'; D='_dns.py'; Q='_handlers/multicast_outgoing_queue.py'
# a. second definition of the method later in the class (python uses the last)
mut('dupdef', [(H, "    def clear(self) -> None:", "    def suppresses(self, question, now, known_answers):  # type: ignore\n        return False\n\n    def clear(self) -> None:")])
# b. module-level monkey patch
mut('monkey', [(H, None, "\n\ndef _always(self, question, now, known_answers):  # type: ignore\n    return True\n\n\nQuestionHistory.suppresses = _always  # type: ignore\n")])
# c. module constant re-bound after the class
mut('constrebind', [(H, None, "\n_DUPLICATE_QUESTION_INTERVAL = 5000\n")])
# c2. import alias of a different constant
mut('constalias', [(H, "from .const import _DUPLICATE_QUESTION_INTERVAL", "from .const import _EXPIRE_REFRESH_TIME_PERCENT as _DUPLICATE_QUESTION_INTERVAL")])
# d. decorator
mut('decorator', [(H, "    def suppresses(self,", "    @functools.lru_cache(maxsize=None)\n    def suppresses(self,")])
# e. default param
mut('default', [(H, "def async_expire(self, now: _float) -> None:", "def async_expire(self, now: _float = 0.0) -> None:")])
# f. global
mut('global', [(H, '        """Clear the history."""\n', '        """Clear the history."""\n        global _DUPLICATE_QUESTION_INTERVAL\n        _DUPLICATE_QUESTION_INTERVAL = 0\n')])
# g. try/except
mut('try', [(H, "        for question in removes:\n            del self._history[question]", "        for question in removes:\n            try:\n                del self._history[question]\n            except KeyError:\n                pass")])
# h. class attribute / slots / base class / metaclass
mut('slots', [(R, '    __slots__ = ("_services", "types", "servers", "has_entries")', '    __slots__ = ("_services", "types", "servers")')])
mut('base', [(H, "class QuestionHistory:", "class _Base:\n    def __getattribute__(self, n):  # type: ignore\n        if n == '_history':\n            return {}\n        return object.__getattribute__(self, n)\n\n\nclass QuestionHistory(_Base):")])
# i. subclass override of a mapped method
mut('subclass_is_expired', [(D, "class DNSNsec(DNSRecord):", "class DNSNsec(DNSRecord):\n    def is_expired(self, now):  # type: ignore\n        return False\n")])
# j. ServiceInfo.key / async_clear_cache / server_key
mut('svc_key', [('_services/info.py', "        self._name = name\n        self.key = name.lower()\n        self._ipv4_addresses", "        self._name = name\n        self.key = name\n        self._ipv4_addresses")])
mut('svc_clear', [('_services/info.py', "        self._dns_address_cache = None\n        self._dns_pointer_cache = None\n        self._dns_service_cache = None\n        self._dns_text_cache = None\n        self._get_address_and_nsec_records_cache = None\n\n    async def async_wait", "        self.server = None\n\n    async def async_wait")])
# k. property replacing a field
mut('property', [(C, "    # Functions prefixed with async_ are NOT threadsafe and must\n", "    @property\n    def service_cache(self):  # type: ignore\n        return {}\n\n    @service_cache.setter\n    def service_cache(self, v):  # type: ignore\n        pass\n\n    # Functions prefixed with async_ are NOT threadsafe and must\n")])
# l. current_time_millis re-imported as something else
mut('clock', [(C, None, "\n\ndef current_time_millis():  # type: ignore\n    return 0.0\n")])
# m. construct_outgoing / async_send semantic change elsewhere; RAND_INT redefined
mut('randint', [(Q, "RAND_INT = random.randint", "RAND_INT = lambda a, b: 0")])
# n. DNSRecord.__init__ created
mut('created', [(D, "        self.created = created or current_time_millis()", "        self.created = (created or current_time_millis()) + 5000")])
# o. __ne__ defined
mut('ne', [(D, "class DNSRecord(DNSEntry):\n", "class DNSRecord(DNSEntry):\n    def __ne__(self, other):  # type: ignore\n        return False\n")])
# p. log line
mut('log', [(H, '        """Clear the history."""\n', '        """Clear the history."""\n        log.debug("clear")\n')])
