import sys, os, json
sys.dont_write_bytecode = True
sys.path.insert(0, "/verif")
import importlib
mod, seed, sig = sys.argv[1], int(sys.argv[2]), sys.argv[3]
h = importlib.import_module("harness." + mod)
ctx = {"tier": "quick", "seed": seed, "widened": False, "driver_ok": False, "stages": {}, "drift": []}
res = h.run(ctx)
for v in res.violations:
    if v["sig"] == sig:
        c = v["case"]
        d = {k: c[k] for k in c if k != "case"}
        print(json.dumps(d, default=str)[:3000])
        print("CASE idx", c.get("case", {}).get("idx"), "seed", c.get("case", {}).get("seed"))
        json.dump(c.get("case"), open("/tmp/review3/scratch-C16C17/case-%s.json" % sig.replace(":", "_"), "w"))
        break
