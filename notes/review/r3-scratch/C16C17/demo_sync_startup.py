"""unmodified /repo: Zeroconf.close() from a non-loop thread while a loop-backed instance is still starting"""
import sys, asyncio, time, threading
sys.dont_write_bytecode = True
sys.path.insert(0, "/repo/src")
import zeroconf, zeroconf._engine as eng
from zeroconf import Zeroconf
from zeroconf.asyncio import AsyncServiceBrowser
print(zeroconf.__file__)
DELAY = float(sys.argv[1]) if len(sys.argv) > 1 else 0.05
orig = eng.AsyncEngine._async_create_endpoints
async def slow(self):
    await asyncio.sleep(DELAY)      # sockets take a moment (many interfaces, a busy loop)
    return await orig(self)
eng.AsyncEngine._async_create_endpoints = slow

events = []
def handler(zeroconf, service_type, name, state_change):
    events.append((time.monotonic(), name, state_change.name))

async def main():
    loop = asyncio.get_running_loop()
    errs = []
    loop.set_exception_handler(lambda l, c: errs.append(str(c.get("exception") or c.get("message"))))
    zc = Zeroconf(interfaces=["127.0.0.1"])
    br = AsyncServiceBrowser(zc, ["_b._tcp.local."], handlers=[handler])   # never cancelled by close(): untracked
    err = []
    def do_close():
        try:
            zc.close()
        except BaseException as ex:
            err.append(repr(ex))
    await loop.run_in_executor(None, do_close)
    t_ret = time.monotonic()
    print("close() returned; raised:", err, "done:", zc.done, "running_event:", zc.engine.running_event.is_set(),
          "transports:", [t.transport.is_closing() for t in zc.engine.readers], "cleanup cancelled:", zc.engine._cleanup_timer.cancelled())
    await asyncio.sleep(DELAY + 0.2)
    print("later: running_event:", zc.engine.running_event.is_set(), "transports closing?:", [t.transport.is_closing() for t in zc.engine.readers],
          "protocols:", len(zc.engine.protocols))
    # traffic arriving on the socket that was opened after close() returned
    from zeroconf import DNSOutgoing, const
    from zeroconf._dns import DNSPointer
    out = DNSOutgoing(const._FLAGS_QR_RESPONSE | const._FLAGS_AA)
    out.add_answer_at_time(DNSPointer("_b._tcp.local.", const._TYPE_PTR, const._CLASS_IN, 4500, "x._b._tcp.local."), 0)
    if zc.engine.protocols:
        zc.engine.protocols[0].datagram_received(out.packets()[0], ("127.0.0.1", 5353))
    await asyncio.sleep(0.1)
    print("callbacks after close() returned:", [(round((e[0]-t_ret)*1000), e[1], e[2]) for e in events if e[0] > t_ret])
    print("loop errors:", errs)
    for t in zc.engine.readers:
        t.transport.close()
    br.query_scheduler.stop()
asyncio.run(main())
