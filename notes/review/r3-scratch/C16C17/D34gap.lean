import Zc.Props.C17
open Zc.Shutdown

-- close #0 is still in its goodbye phase (its coroutine waits on the loop) while close #1 runs to the end and stops the loop
def gapBlocks : List Block :=
  [.closeCall true, .closeCall true, .closeMarkDone 1 none, .closeShutdown 1, .closeFinish 1, .closeThreadsCheck 1, .closeThreadsStop 1,
   .closeGoodbye 0, .closeGoodbye 0, .closeMarkDone 0 none, .closeShutdown 0, .closeThreadsCheck 0]

def isR : Out → Bool | .raised _ => true | _ => false

#eval (run threadHost gapBlocks).map (fun r => (r.2.filter isR, r.1.closes.map (·.stage), r.1.loopRunning, r.1.loopThread, r.2.length))

-- every prefix state: is the next block in D30's / D34's class?
def classes : Host → List Block → List (Bool × Bool)
  | _, [] => []
  | h, b :: rest => (b.selfJoins h, b.overlapsStop h) :: (match step h b with | some (h', _) => classes h' rest | none => [])
#eval classes threadHost gapBlocks
