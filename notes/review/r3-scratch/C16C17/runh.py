"""usage: VERIF_REPO=... python runh.py c17 [seed] [driver 0/1]"""
import sys, os, json, time, collections
sys.dont_write_bytecode = True
sys.path.insert(0, "/verif")
mod = sys.argv[1]
seed = int(sys.argv[2]) if len(sys.argv) > 2 else 0
drv = (sys.argv[3] == "1") if len(sys.argv) > 3 else False
import importlib
from harness import common as C
print("REPO", C.REPO)
h = importlib.import_module("harness." + mod)
import zeroconf
print("zeroconf from", zeroconf.__file__)
t0 = time.time()
ctx = {"tier": "quick", "seed": seed, "widened": False, "driver_ok": drv, "stages": {}, "drift": []}
res = h.run(ctx)
print("evaluations", res.evaluations, "wall %.1f" % (time.time() - t0))
sigs = collections.Counter(v["sig"] for v in res.violations)
print("violations by sig:", dict(sigs))
print("disagreements", len(res.disagreements))
for d in res.disagreements[:5]:
    print("  D:", str(d)[:400])
seen = set()
for v in res.violations:
    if v["sig"] not in seen:
        seen.add(v["sig"])
        print(" *", v["sig"], "::", v["what"][:400])
print("notes", json.dumps(res.notes, default=str)[:3000] if hasattr(res, "notes") else None)
