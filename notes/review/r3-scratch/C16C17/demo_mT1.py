"""loop-backed instance closed with the blocking close() from a worker thread that runs an event loop of its own"""
import sys, asyncio, time, threading
sys.dont_write_bytecode = True
sys.path.insert(0, sys.argv[1] + "/src")
import zeroconf
from zeroconf import Zeroconf
print(zeroconf.__file__)
async def main():
    loop = asyncio.get_running_loop()
    zc = Zeroconf(interfaces=["127.0.0.1"])
    await zc.async_wait_for_start()
    err = []
    def worker():
        async def app():
            try:
                zc.close()
            except BaseException as ex:
                err.append(repr(ex))
        asyncio.run(app())
    await loop.run_in_executor(None, worker)
    t = zc.engine._cleanup_timer
    print("close() returned; raised:", err, "done:", zc.done, "transports closing:", [x.transport.is_closing() for x in zc.engine.readers],
          "cleanup timer cancelled:", t.cancelled(), "due in %.1f s" % (t.when() - loop.time()))
    t.cancel()
asyncio.run(main())
