"""show what the mutant does on a duplicated QU query: python demoN.py <mutant-dir> """
import sys, os
sys.dont_write_bytecode = True
os.environ["VERIF_REPO"] = sys.argv[1]
sys.path.insert(0, "/verif")
from harness import c16, common as C
import json
k = json.load(open("/verif/known_findings.json"))
es = k.get("entries", k)
which = sys.argv[2] if len(sys.argv) > 2 else "D11"
case = [e for e in es if e.get("id") == which][0]["replay"]
if len(sys.argv) > 3:
    case = json.loads(open(sys.argv[3]).read())
ref = c16.simulate(case, None)
full = c16.simulate(case, "all")
print("ref sends:"); [print("  ", s[:3], s[3][0], [x.split()[0:2]+x.split()[5:6] for x in s[3][2]] if len(s[3])>2 else s[3]) for s in ref["sends"][-6:]]
print("dup sends:"); [print("  ", s[:3], s[3][0], [x.split()[0:2]+x.split()[5:6] for x in s[3][2]] if len(s[3])>2 else s[3]) for s in full["sends"][-8:]]
print("callbacks ref/dup:", len(ref["callbacks"]), len(full["callbacks"]))
print("compare:", (c16.compare(ref, full) or {}).get("what"))
print("local oracle:", c16.second_copy_findings(full))
if c16.compare(ref, full) is not None:
    print("classified:", c16.classify_full_difference(case, ref, full)[0])
