import sys
sys.path.insert(0,'/tmp/review3/scratch'); import drv
from t_a_spec import FIELDS
ALL=[("t50",[("k","Str")],"Num"),("app",[("l","List[Num]"),("v","Num")],"None"),("t52",[("k","Str")],"Num")]
spec = dict(AREA="T", SOURCE="_t.py", IMPORTS=["Zc.Model.Basic"], FUNCTIONS=[], CLASSES=[{"py":"T","fields":FIELDS,"methods":[dict(name=n,params=p,ret=r) for n,p,r in ALL]}])
print(drv.gen_custom('/tmp/review3/scratch/t1', spec))
