import sys
TESTS_ALL = {
 "t1": ([], "None"), "t2": ([("k","Str")], "Num"), "t3": ([("l","List[Num]")],"Num"), "t4": ([("a","List[Num]")],"List[Num]"),
 "t5": ([("k","Str"),("l","List[Num]")],"None"), "t16": ([("k","Str")],"Num"), "t17": ([("k","Str")],"Num"), "t18": ([("k","Str")],"Num"),
 "t41": ([("now","Num")],"Bool"), "t42": ([],"Num"), "t43": ([],"Bool"),
}
sys.path.insert(0,'/tmp/review3/scratch'); import drv
for t,(p,r) in TESTS_ALL.items():
    ms = [dict(name=t, params=p, ret=r)]
    if t == "t17": ms = [dict(name="live", params=[("k","Str")], ret="Dict[Str, Num]")] + ms
    if t == "t43": ms = [dict(name="bump", params=[], ret="Num")] + ms
    spec = dict(AREA="T", SOURCE="_t.py", IMPORTS=["Zc.Model.Basic"], FUNCTIONS=[], CLASSES=[{
      "py":"T", "fields":[("d","Dict[Str, List[Num]]"),("e","Dict[Str, List[Num]]"),("dd","Dict[Str, Dict[Str, Num]]"),("x","List[Num]"),("y","List[Num]"),("n","Num")],
      "methods":ms}])
    out = drv.gen_custom('/tmp/review3/scratch/t1', spec)
    print("=====", t)
    if out.startswith("FAIL"): print(out)
    else:
        i = out.index("/-- `T.%s`" % (ms[0]["name"]))
        print(out[i:].replace("end Zc.GenFn.T","").strip())
