import sys, types, ast, pathlib, os
sys.dont_write_bytecode = True
sys.path.insert(0, '/verif/tools')
import gen_fn, gen_lean
def gen_custom(repo, specd):
    spec = types.SimpleNamespace(**specd)
    common, _ = gen_fn.load_specs()
    src = pathlib.Path(repo)/'src'/'zeroconf'
    cenv, _ = gen_lean.module_consts(ast.parse((src/'const.py').read_text()), {})
    try:
        text, meta = gen_fn.gen_area(repo, spec, common, cenv)
        return text
    except gen_fn.Fail as f:
        return "FAIL %s:%s: %s" % (f.file, getattr(f.node,'lineno','?') if f.node is not None else '?', f.msg)
def gen_all(repo, out):
    assert out.startswith('/tmp/review3/scratch')
    failed = {}
    ch, metas = gen_fn.gen(repo, out, failed)
    return ch, failed
