import sys, os, json, time, pathlib
sys.dont_write_bytecode = True
sys.path.insert(0, '/verif')
seed = int(sys.argv[1]); driver = sys.argv[2] == '1'
import harness.common as C
C.DRIVER = pathlib.Path('/tmp/review3/scratch-C15/zcdriver')
import harness.c15 as h
ctx = {"tier": "quick", "seed": seed, "widened": (len(sys.argv) > 4 and sys.argv[4] == "w"), "driver_ok": driver, "stages": {}, "drift": []}
t0 = time.time()
res = h.run(ctx)
print("REPO", C.REPO, "seed", seed, "wall", round(time.time()-t0,1))
print("evaluations", res.evaluations, "disagreements", len(res.disagreements), "violations", len(res.violations))
sigs = {}
for v in res.violations:
    sigs.setdefault(v["sig"], []).append(v)
for s, vs in sigs.items():
    print("SIG", s, len(vs), vs[0]["what"][:300])
    c = vs[0]["case"]
    print("   case keys", list(c.keys())[:12], "items", len(c.get("items", c.get("steps", []))))
for d in res.disagreements[:5]:
    print("DIS", d["stream"], json.dumps(d["impl"])[:200], "|", json.dumps(d["model"])[:200], json.dumps(d["case"])[:600])
print("notes", res.notes)
print("dist", json.dumps(res.dist, sort_keys=True))
out = sys.argv[3] if len(sys.argv) > 3 else None
if out:
    json.dump({"violations": res.violations[:20], "disagreements": res.disagreements[:10]}, open(out, "w"), default=str)
