"""direct triggers for the mutants: python trig.py <which>   (VERIF_REPO selects the tree)"""
import sys, os, socket, struct, asyncio, logging
sys.dont_write_bytecode = True
sys.path.insert(0, '/verif')
import harness.common as C
from harness import vsim
import harness.c15 as B
which = sys.argv[1]
TA = "_a._tcp.local."

def has_rec(d, rtype, owner):
    from zeroconf import DNSIncoming
    try:
        m = DNSIncoming(d)
        return m.valid and not m.is_query() and any(x.type == rtype and x.ttl > 0 and x.name.lower() == owner.lower() for x in m.answers())
    except Exception:
        return False

async def main(sim):
    from zeroconf import ServiceInfo
    a = sim.make_host("A", "10.0.0.1")
    zc = a.zc
    await zc.async_wait_for_start()
    lst = zc.engine.protocols[0]
    txt = {"k": "v"}
    if which == "B":
        txt = {"k%d" % i: "v" * 200 for i in range(45)}     # ~9.3 kB of TXT: legal (< 65535)
    addrs=[socket.inet_aton("10.0.0.1")]
    if which == "B2":
        addrs.append(socket.inet_pton(socket.AF_INET6, "fe80::1"))
    info = ServiceInfo(TA, "s1." + TA, 80, addresses=addrs, server="ha.local.", properties=txt)
    t = await zc.async_register_service(info); await t
    await sim.sleep_ms(5000)
    res = {}
    def deliver(data, src):
        try:
            lst.datagram_received(data, src); return None
        except Exception as e:
            return type(e).__name__ + ": " + str(e)[:80]
    if which == "A":
        d = B.hdr(5, 0, 1, 1) + B.q(B.labels_of("ha.local."), 255) + B.rr(B.wname(B.labels_of("ha.local.")), 28, 0x8001, 120, bytes([0xfe, 0x80] + [0]*13 + [9]))
        res["escape"] = deliver(d, ("fe80::2", 5353, 0, 3))
    elif which == "B":
        res["escape"] = deliver(B.hdr(5, 0, 1) + B.q(B.labels_of("s1." + TA), 16), ("10.0.0.2", 40000))
    elif which == "B2":
        res["escape"] = deliver(B.hdr(5, 0, 1) + B.q(B.labels_of("ha.local."), 1), ("10.0.0.2", 5353))
    elif which == "D":
        logging.getLogger("zeroconf").setLevel(logging.DEBUG)
        res["escape"] = deliver(B.hdr(5, 0, 1) + B.q(B.labels_of(TA), 12), ("fe80::2", 5353, 0, 3))
    elif which == "C":
        # someone replays the instance's own PTR (or it has just answered): "seen in the last second"; then a 2-question QM query
        ptr = B.hdr(0, 0x8400, 0, 1) + B.rr(B.wname(B.labels_of(TA)), 12, 1, 4500, B.wname(B.labels_of("s1." + TA)))
        res["e1"] = deliver(ptr, ("10.0.0.2", 5353))
        await sim.sleep_ms(200)
        n0 = len(sim.net.log)
        res["e2"] = deliver(B.hdr(9, 0, 2) + B.q(B.labels_of(TA), 12) + B.q(B.labels_of("nx.local."), 1), ("10.0.0.2", 5353))
        await sim.sleep_ms(3000)
        res["ptr_answered_within_3s"] = any(has_rec(d, 12, TA) for (_t, _s, _ip, _p, d) in sim.net.log[n0:])
    elif which == "E":
        # the instance's own SRV was multicast 5 s ago (announcement looped back): a QU SRV question from port 5353
        n0 = len(sim.net.log)
        res["e"] = deliver(B.hdr(9, 0, 1) + B.q(B.labels_of("s1." + TA), 33, 0x8001), ("10.0.0.2", 5353))
        await sim.sleep_ms(3000)
        res["srv_answered_within_3s"] = any(has_rec(d, 33, "s1." + TA) for (_t, _s, _ip, _p, d) in sim.net.log[n0:])
    print(which, C.REPO, res, "loop errors:", [str(e.get("exception") or e.get("message"))[:80] for e in sim.errors])
    await zc._async_close()

sim = vsim.Sim(seed=1, maxdelay=0, loopback=True)
sim.run(main)
