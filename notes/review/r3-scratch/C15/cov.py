import sys, os, pathlib, time, json
sys.dont_write_bytecode = True
sys.path.insert(0, '/verif')
import coverage
cov = coverage.Coverage(data_file='/tmp/review3/scratch-C15/.coverage', include=['/repo/src/zeroconf/*'], branch=True)
cov.start()
import harness.common as C
C.DRIVER = pathlib.Path('/tmp/review3/scratch-C15/zcdriver')
import harness.c15 as h
# more cases than a quick run manages under the 40 s guard: lift the cap by patching time budget through a bigger tier budget
ctx = {"tier": "quick", "seed": 0, "widened": False, "driver_ok": False, "stages": {}, "drift": []}
res = C.Result("C15")
acc, seen = [], {}
for name, case in h.corpus_cases():
    h.run_case(res, case, ctx, acc, seen, do_min=False)
t0 = time.time()
n = 0
for idx in range(1000):
    h.run_case(res, h.gen_case(0, idx), ctx, acc, seen, do_min=False)
    del acc[:]
    n += 1
from harness import c15api
c15api.run_stream(res, ctx, 150)
cov.stop(); cov.save()
print("cases", n, "wall", round(time.time() - t0), "violations", len(res.violations))
import io
for f in ['_listener.py', '_handlers/query_handler.py', '_handlers/record_manager.py', '_handlers/answers.py', '_handlers/multicast_outgoing_queue.py', '_core.py', '_services/browser.py', '_services/info.py', '_protocol/outgoing.py', '_protocol/incoming.py', '_utils/asyncio.py', '_services/registry.py', '_cache.py', '_dns.py']:
    p = '/repo/src/zeroconf/' + f
    an = cov.analysis2(p)
    print(f, "missing lines:", an[3][:120])
