import sys, json, pathlib, time
sys.dont_write_bytecode = True
sys.path.insert(0, '/verif')
import harness.common as C
C.DRIVER = pathlib.Path('/tmp/review3/scratch-C15/zcdriver')
import harness.c15api as A
res = C.Result("C15")
ctx = {"tier": "quick", "seed": int(sys.argv[1]), "widened": False, "driver_ok": False, "stages": {}, "drift": []}
A.run_stream(res, ctx, int(sys.argv[2]))
sig = {}
for v in res.violations:
    sig.setdefault(v["sig"], []).append(v)
for s, vs in sig.items():
    sc = vs[0]["case"].get("scenario", {})
    print("SIG", s, len(vs), "| unsafe scenario:", A.unsafe_scenario(sc) if "steps" in sc else None, "|", vs[0]["what"][:200])
