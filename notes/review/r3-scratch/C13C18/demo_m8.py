import sys, json
sys.dont_write_bytecode = True
sys.path.insert(0, "/verif")
import pathlib
import harness.common as C
C.DRIVER = pathlib.Path("/tmp/review3/scratch-C13C18/zcdriver")
import harness.c18 as h
N = h.NAME
sc = {"timeout": 1000, "forced": 0, "draws": [20]*12, "simseed": 1, "via": None, "maxdelay": 0, "warmup": 0, "pre": [], "prehist": [],
      "events": [{"at": 100, "kind": "resp", "recs": [
          {"k": "srv", "name": N, "ttl": 120, "server": N, "port": 80, "prio": 0, "weight": 0, "unique": True},
          {"k": "a", "name": N, "ttl": 120, "addr": "0a000001", "unique": True}]}]}
import zeroconf; print(zeroconf.__file__)
r = h.replay({"case": sc})
print(json.dumps({k: r[k] for k in ("violates", "violations", "result", "returned_after_ms", "model_agrees")})[:700])
