import os, sys
sys.dont_write_bytecode = True
sys.path.insert(0, "/verif")
import harness.common as C
from harness import vsim
from harness.c13 import ptr, T, hist_str
def run(gap):
    from zeroconf import DNSOutgoing, DNSQuestion, ServiceInfo, const
    import zeroconf._services.browser as B
    sim = vsim.Sim(1, maxdelay=0)
    out = {}
    async def main(sim):
        host = sim.make_host("B", "10.0.0.2")
        zc = host.zc
        await zc.async_wait_for_start()
        zc.registry.async_add(ServiceInfo(T, "Mine." + T, port=80, addresses=[b"\x0a\x00\x00\x02"], server="mine.local."))
        await sim.sleep_ms(5000)
        now0 = sim.loop.ms
        zc.cache.async_add_records([ptr(T, "Inst0." + T, 4500, now0 - 1000), ptr(T, "Mine." + T, 4500, now0 - 1000)])
        q = DNSOutgoing(const._FLAGS_QR_QUERY | const._FLAGS_TC)   # truncated query whose continuation never arrives
        q.add_question(DNSQuestion(T, const._TYPE_PTR, const._CLASS_IN))
        q.add_answer_at_time(ptr(T, "Inst0." + T, 4500, now0), 0)
        q.add_answer_at_time(ptr(T, "Mine." + T, 4500, now0), 0)
        host.inject(q.packets()[0], "10.0.0.9", 5353)
        await sim.sleep_ms(gap)
        outs = B.generate_service_query(zc, float(sim.loop.ms), {T}, True, None)
        out["asked"] = bool(outs)
        await vsim.close_host(host)
    sim.run(main)
    return out["asked"]
import zeroconf
print(zeroconf.__file__)
for gap in (100, 600, 999, 1000, 1200, 1400, 1600):
    print("own QM question %4d ms after a lone TC query (covered list) arrived: %s" % (gap, "SENT" if run(gap) else "suppressed"))
