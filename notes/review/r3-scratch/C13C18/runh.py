import os, sys, json, pathlib, time, collections
os.environ.setdefault("PYTHONDONTWRITEBYTECODE", "1")
sys.dont_write_bytecode = True
sys.path.insert(0, "/verif")
prop, seed = sys.argv[1], int(sys.argv[2])
drv = (sys.argv[3] == "1") if len(sys.argv) > 3 else True
widened = (sys.argv[4] == "1") if len(sys.argv) > 4 else False
import harness.common as C
C.DRIVER = pathlib.Path("/tmp/review3/scratch-C13C18/zcdriver")
import importlib
h = importlib.import_module("harness." + prop)
t0 = time.time()
res = h.run({"tier": "quick", "seed": seed, "widened": widened, "driver_ok": drv, "stages": {}, "drift": []})
import zeroconf
print("repo", zeroconf.__file__, "prop", prop, "seed", seed, "evals", res.evaluations, "disagreements", len(res.disagreements), "dist", res.dist, "wall %.1f" % (time.time() - t0))
sigs = collections.Counter(v["sig"] for v in res.violations)
print("violation sigs:", dict(sigs))
seen = set()
for v in res.violations:
    if v["sig"] in seen: continue
    seen.add(v["sig"])
    print("  ", v["sig"], "::", v["what"][:400])
    print("     case:", json.dumps(v["case"], default=str)[:600])
for d in res.disagreements[:3]:
    print("  DIS", d["stream"], json.dumps(d["case"], default=str)[:300], "\n     impl:", str(d["impl"])[:300], "\n     model:", str(d["model"])[:300])
print("notes", res.notes[:5])
