import sys, json, pathlib
sys.dont_write_bytecode = True
sys.path.insert(0, "/verif")
import harness.common as C
C.DRIVER = pathlib.Path("/tmp/review3/scratch-C13C18/zcdriver")
import harness.c13 as h
for gap in (1, 500, 998):
  for pk in ([{"qs": [["T", 12, False]], "ans": ["0", "mine"], "auth": [], "tc": True}],
           ):
    case = {"stream": "hearm", "simseed": 5, "form": "tc", "registered": [h.T], "packets": pk, "port": 5353, "pgap": 0,
            "gap": gap, "ours": 1, "oursy": False, "cover": True, "tick": None, "updated": False}
    r = h.replay({"case": case})
    print("lone TC packet, own ask %d ms later ->" % gap, json.dumps(r)[:420])
