import sys
sys.dont_write_bytecode = True
sys.path.insert(0, "/verif")
import harness.common as C
from harness import vsim
def run(timeout):
    from zeroconf.asyncio import AsyncZeroconf
    sim = vsim.Sim(1, maxdelay=0)
    out = {}
    async def main(sim):
        host = sim.make_host("B", "10.0.0.2")
        zc = host.zc
        await zc.async_wait_for_start()
        az = AsyncZeroconf(zc=zc)
        t0 = sim.loop.ms
        r = await az.async_get_service_info("_x._tcp.local.", "Inst._x._tcp.local.", timeout)
        out["dt"] = sim.loop.ms - t0
        out["r"] = r
        await vsim.close_host(host)
    sim.run(main)
    return out
import zeroconf
print(zeroconf.__file__)
for t in (200, 500, 1000):
    o = run(t)
    print("AsyncZeroconf.async_get_service_info(timeout=%d) on an empty link returned %r after %d ms" % (t, o["r"], o["dt"]))
