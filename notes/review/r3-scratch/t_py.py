import sys; sys.path.insert(0,'/tmp/review3/scratch/t1/src')
from collections import deque
from zeroconf._t import T
def mk():
    t=T(); t.d={"a":[1],"b":[2]}; t.dd={"a":{"a":5}}; t.x=deque([10,20,30]); return t
def run(f):
    try: return f()
    except Exception as e: return "%s: %s"%(type(e).__name__, e)
t=mk(); print("t1", run(lambda: t.t1()), t.d)
t=mk(); print("t2", run(lambda: t.t2("a")))
t=mk(); print("t3", run(lambda: t.t3([5,6])))
t=mk(); print("t4", run(lambda: t.t4([3,1,2,-5,100])))
t=mk(); print("t5", run(lambda: t.t5("zz", [])))
t=mk(); print("t16", run(lambda: t.t16("a")))
t=mk(); print("t17", run(lambda: t.t17("a")))
t=mk(); print("t18", run(lambda: t.t18("a")))
t=mk(); print("t41", run(lambda: t.t41(10)), list(t.x))
t=mk(); print("t42", run(lambda: t.t42()), list(t.x))
t=mk(); t.n=2; print("t43", run(lambda: t.t43()), t.n)
