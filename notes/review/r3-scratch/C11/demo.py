"""custom scenarios judged by C11's own oracle (check_trace_O) and, if asked, the model (c11net)"""
import os, sys, json, pathlib, socket
sys.dont_write_bytecode = True
sys.path.insert(0, "/verif")
from harness import common as C
C.DRIVER = pathlib.Path("/tmp/review3/scratch-C11/zcdriver")
from harness import c11 as H, reply_common as R, vsim
which = sys.argv[1]

def scenario(which):
    sim = vsim.Sim(seed="demo/%s" % which, maxdelay=0)
    sim.randint = lambda lo, hi: (sim.draws.append((sim.now() if sim.loop else None, lo, hi, lo)) or lo)
    box = {"mode": "demo"}
    async def main(sim):
        from zeroconf import ServiceInfo, DNSOutgoing, DNSQuestion, const as k
        layout = "4"
        host = H.make_host(sim, layout)
        box["v6loop"] = H.V6Loopback(sim, host)
        zc = host.zc
        await zc.async_wait_for_start()
        infos = [ServiceInfo("_a._tcp.local.", "s0._a._tcp.local.", 8000, addresses=[socket.inet_aton("10.0.0.1")], server="h0.local.", properties={"k": "v"})]
        uni = R.Universe()
        for inf in infos:
            t = await zc.async_register_service(inf); await t
        R.seed_universe(uni, infos)
        await sim.sleep_ms(30000)
        rx_tr = host.transports[0]
        tr = R.Trace(sim, host, uni); tr.install()
        box.update(tr=tr, uni=uni, infos=infos, zc=zc, layout=layout, rx_i=0, rx_v6=False, lis=rx_tr.protocol, nsocks=1, socks=list(host.socks), queries=[])
        def deliver(data, src):
            box["queries"].append(dict(t=sim.loop.ms, src=src, data=data)); rx_tr.protocol.datagram_received(data, src)
        if which == "probe-train":
            # a probe in two datagrams: the first (TC) carries the PTR question and the authority section, the continuation a known answer only
            o1 = DNSOutgoing(k._FLAGS_QR_QUERY | k._FLAGS_TC); o1.add_question(DNSQuestion("_a._tcp.local.", k._TYPE_PTR, k._CLASS_IN)); o1.add_authorative_answer(infos[0].dns_pointer())
            o2 = DNSOutgoing(k._FLAGS_QR_QUERY); o2.add_answer_at_time(R.with_ttl(infos[0].dns_text(), 4500), 0)
            deliver(o1.packets()[0], ("10.0.0.9", 5353)); await sim.sleep_ms(30); deliver(o2.packets()[0], ("10.0.0.9", 5353))
        if which == "self-addr":
            o1 = DNSOutgoing(k._FLAGS_QR_QUERY); o1.add_question(DNSQuestion("_a._tcp.local.", k._TYPE_PTR, k._CLASS_IN))
            d = bytearray(o1.packets()[0]); d[0], d[1] = 0x12, 0x34
            deliver(bytes(d), ("10.0.0.1", 40000))     # a one-shot resolver on the responder's own machine (source = the socket's own address)
        await sim.sleep_ms(3000)
        box["end_t"] = sim.loop.ms
        tr.uninstall(); await vsim.close_host(host)
    try:
        sim.run(main)
    finally:
        if "tr" in box: box["tr"].uninstall()
        if "v6loop" in box: box.pop("v6loop").remove()
    box["errors"] = [str(e.get("exception") or e.get("message")) for e in sim.errors]
    return box

box = scenario(which)
tr = box["tr"]
for b in tr.blocks:
    b["draws_tc"] = any(lo == 400 for (lo, hi, v) in b["draws"])
    R.block_line(tr, box["zc"], b); b["obs"] = H.block_obs11(tr, b)
res = H._Result("C11")
H.check_trace_O(res, box, {"stream": "demo", "which": which})
print("repo", C.REPO, which, "errors", box["errors"])
for b in tr.blocks:
    print("  block", b["kind"], b["t"] - vsim.T0, "asm" if b["asm"] else "-", b["obs"])
print("  oracle:", [(v["sig"], v["what"][:200]) for v in res.violations] or "no violation")
