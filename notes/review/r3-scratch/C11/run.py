import os, sys, json, time, pathlib
os.environ.setdefault("PYTHONDONTWRITEBYTECODE", "1")
sys.dont_write_bytecode = True
sys.path.insert(0, "/verif")
seed = int(sys.argv[1]) if len(sys.argv) > 1 else 0
n = int(sys.argv[2]) if len(sys.argv) > 2 else 1500
use_driver = (sys.argv[3] != "nodriver") if len(sys.argv) > 3 else True
from harness import common as C
C.DRIVER = pathlib.Path("/tmp/review3/scratch-C11/zcdriver")
from harness import c11
import harness.c11 as H
ctx = {"tier": "quick", "seed": seed, "widened": False, "driver_ok": use_driver, "stages": {}, "drift": []}
t0 = time.time()
if n != 1500:
    # reduced budget: patch Budget
    orig = C.Budget
    class B:
        def __init__(self, tier, q, t): self.n = n
    C.Budget = B
res = H.run(ctx)
known = {k["sig"] for k in json.load(open("/verif/known_findings.json"))["entries"] if k.get("property") == "C11" and k.get("kind") == "finding"}
print("repo", C.REPO, "seed", seed, "evals", res.evaluations, "disagreements", len(res.disagreements), "violations", len(res.violations), "wall %.0fs" % (time.time() - t0))
sigs = {}
for v in res.violations:
    sigs.setdefault(v["sig"], []).append(v)
for s, vs in sigs.items():
    print(" SIG", s, "(known)" if s in known else "(FRESH)", res.dist.get("sig:" + s), "|", vs[0]["what"][:300], "| case", {k: vs[0]["case"].get(k) for k in ("seed", "scenario", "mode", "at_ms", "stream")})
for d in res.disagreements[:6]:
    print(" DIS", json.dumps(d, default=str)[:600])
print("notes", res.notes[:3])
print({k: v for k, v in res.dist.items() if k.startswith("tr:mode") or k.startswith("sig:") or k in ("tr:scenarios", "tr:split-replies", "tr:datagrams-byte-exact", "tr:queries")})
