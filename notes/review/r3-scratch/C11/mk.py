import sys, shutil, pathlib
name = sys.argv[1]; edits = sys.argv[2:]
dst = pathlib.Path("/tmp/review3/scratch-C11")/name
if dst.exists(): shutil.rmtree(dst)
shutil.copytree("/repo/src", dst/"src")
# edits: triples file, old, new  (files relative to src/zeroconf)
for i in range(0, len(edits), 3):
    f = dst/"src"/"zeroconf"/edits[i]
    s = f.read_text()
    old, new = edits[i+1].encode().decode("unicode_escape"), edits[i+2].encode().decode("unicode_escape")
    assert s.count(old) == 1, (edits[i], s.count(old))
    f.write_text(s.replace(old, new))
print("made", dst)
