import sys, shutil, pathlib
name, rel, old, new = sys.argv[1], sys.argv[2], sys.argv[3], sys.argv[4]
root = pathlib.Path("/tmp/review3/scratch-C10C12") / name
if not root.exists():
    shutil.copytree("/repo/src", root / "src", ignore=shutil.ignore_patterns("__pycache__"))
p = root / "src" / "zeroconf" / rel
s = p.read_text()
assert s.count(old) == 1, (s.count(old), old)
p.write_text(s.replace(old, new))
print("patched", p)
