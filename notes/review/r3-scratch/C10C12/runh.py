import sys, os, json, time, pathlib
os.environ.setdefault("PYTHONDONTWRITEBYTECODE", "1")
sys.dont_write_bytecode = True
sys.path.insert(0, "/verif")
sys.path.insert(0, "/verif/tools")
prop, seed = sys.argv[1], int(sys.argv[2])
driver = (sys.argv[3] if len(sys.argv) > 3 else "1") == "1"
import importlib
import harness.common as C
C.DRIVER = pathlib.Path("/tmp/review3/scratch-C10C12/zcdriver")
h = importlib.import_module("harness.%s" % prop.lower())
known = {k["sig"] for k in json.load(open("/verif/known_findings.json"))["entries"] if k.get("property") == prop.upper() and k.get("kind") == "finding"}
t0 = time.time()
res = h.run({"tier": "quick", "seed": seed, "widened": False, "driver_ok": driver, "stages": {}, "drift": []})
print("prop", prop, "seed", seed, "repo", C.REPO, "evals", res.evaluations, "disagreements", len(res.disagreements), "violations", len(res.violations), "wall %.1f" % (time.time() - t0))
from collections import Counter
print("sigs", Counter(v["sig"] for v in res.violations))
for v in res.violations:
    tag = "KNOWN" if v["sig"] in known else "FRESH"
    print(tag, v["sig"], "::", v["what"][:400])
    if tag == "FRESH":
        print("   case:", json.dumps(v["case"], default=str)[:1500])
for d in res.disagreements[:4]:
    print("DISAGREE", json.dumps(d, default=str)[:1200])
print("notes", res.notes[:8])
print("dist", {k: v for k, v in res.dist.items() if not str(k).startswith("x")})
