import sys; sys.path.insert(0,'/tmp/review3/scratch'); import drv
M = lambda name, params, ret, **kw: dict(name=name, params=params, ret=ret, **kw)
spec = dict(AREA="T", SOURCE="_t.py", IMPORTS=["Zc.Model.Basic"], FUNCTIONS=[], CLASSES=[{
  "py":"T", "fields":[("d","Dict[Str, List[Num]]"),("e","Dict[Str, List[Num]]"),("dd","Dict[Str, Dict[Str, Num]]"),("x","List[Num]"),("y","List[Num]"),("n","Num")],
  "methods":[M(n,p,r) for n,p,r in TESTS]}])
