import sys, os, pathlib, struct
sys.dont_write_bytecode=True
sys.path.insert(0,'/repo/src'); sys.path.insert(0,'/verif'); sys.path.insert(0,'/verif/tools')
import harness.common as C
C.DRIVER = pathlib.Path("/tmp/review3/scratch-C02/zcdriver")
import harness.c02 as H
H8=lambda nq,na: struct.pack(">HHHHHH",0,0x8400 if nq==0 else 0,nq,na,0,0)
cases=[]
# pointer whose target is exactly data_len
p=H8(1,0)+b"\xc0\x00"+struct.pack(">HH",12,1); p=p[:12]+bytes([0xC0,len(p)])+p[14:]; cases.append(("link==len",p))
# label cut by the end of the packet
cases.append(("short label",H8(1,0)+b"\x05ab"))
# pointer into the middle of a label whose bytes look like a label
cases.append(("into label",H8(0,2)+b"\x03\x01a\x00\x00"+struct.pack(">HHIH",12,1,120,2)+b"\xc0\x0d"+b"\xc0\x0c"+struct.pack(">HHIH",12,1,120,2)+b"\xc0\x0d"))
# 129-label literal run through a pointer
run=b"\x01b"*129+b"\x00"; cases.append(("129 labels",H8(1,0)+b"\x01a\xc0\x14"+struct.pack(">HH",12,1)+run))
run=b"\x01b"*127+b"\x00"; cases.append(("128 labels",H8(1,0)+b"\x01a\xc0\x14"+struct.pack(">HH",12,1)+run))
# NSEC whose next-name ends beyond name_start+length
cases.append(("nsec short rdlen",H8(0,1)+b"\x01a\x00"+struct.pack(">HHIH",47,1,120,1)+b"\x01b\x00\x00\x01\x40"))
# header of 7 bytes then answers()
cases.append(("7 bytes",bytes([0,1,2,3,0,0,0])))
# worst-case chain datagram
exec(open('worst.py').read().split("print(len(pkt), n)")[0].split("from zeroconf._protocol.incoming import DNSIncoming")[1]); cases.append(("worst",pkt))
res=C.Result("C02")
for largs in (False,True):
  for name,b in cases:
    o=H.observe(b,True,largs,steps=True)
    ml,sl,bl,wl,wbl=C.run_driver(["c02 "+C.hx(b),"c02s "+C.hx(b),"c02b %d %d %d %d %d"%(len(b),o["names"],o["acts"],o["reads"],o["depth"]),"c02w "+C.hx(b),H.work_budget_line(b,o)])
    H.check_case(res,b,name,o,ml,sl,bl,wline=wl,wbline=wbl if " " in wbl else None)
print("disagreements",len(res.disagreements),"violations",len(res.violations),[v["sig"] for v in res.violations], res.disagreements[:1])
