import shutil, sys, pathlib, subprocess
MUTS = {
 # m1: exception class at the rare label-count raise site
 "m1": [("_protocol/incoming.py", "                raise IncomingDecodeError(\n                    f\"Maximum dns labels reached while processing pointer at {off} from {self.source}\"\n                )",
         "                raise ValueError(\n                    f\"Maximum dns labels reached while processing pointer at {off} from {self.source}\"\n                )")],
 # m2: message built with % at the same site: fine for source=None, TypeError for the listener's (addr, port)
 "m2": [("_protocol/incoming.py", "                    f\"Maximum dns labels reached while processing pointer at {off} from {self.source}\"\n",
         "                    \"Maximum dns labels reached while processing a pointer from %s\" % self.source\n")],
 # m4: NFC normalisation of every decoded label
 "m4": [("_protocol/incoming.py", "import struct\nimport sys\n", "import struct\nimport sys\nimport unicodedata\n"),
        ("_protocol/incoming.py", "                labels.append(label)\n", "                labels.append(label if label.isascii() else unicodedata.normalize('NFC', label))\n")],
}
name = sys.argv[1]
dst = pathlib.Path("/tmp/review3/scratch-C02/mut-" + name)
if dst.exists(): shutil.rmtree(dst)
dst.mkdir(parents=True)
shutil.copytree("/repo/src", dst / "src", ignore=shutil.ignore_patterns("__pycache__", "*.so", "*.c"))
if name in MUTS:
    for f, old, new in MUTS[name]:
        p = dst / "src" / "zeroconf" / f
        s = p.read_text()
        assert s.count(old) == 1, (name, f, s.count(old))
        p.write_text(s.replace(old, new))
print(dst)
