import sys, struct, time
sys.dont_write_bytecode=True
sys.path.insert(0,'/repo/src'); sys.path.insert(0,'/verif'); sys.path.insert(0,'/verif/tools')
import harness.c02 as H
from zeroconf._protocol.incoming import DNSIncoming
# TXT container with a backward chain of 127 nodes ending in a reserved label type (0x80): nothing is ever cached
pre = b"\x00" + struct.pack(">HHIH",16,1,120,0)
at = 12+len(pre)
region=bytearray(b"\x80\x00"); offs=[at]
for i in range(127):
    offs.append(at+len(region)); region += b"\x01a" + struct.pack(">H",0xC000|offs[-2])
pre = pre[:-2]+struct.pack(">H",len(region))
rec = b"\x00"+struct.pack(">HHIH",12,1,120,2)+struct.pack(">H",0xC000|offs[-1])
n=(8966-12-len(pre)-len(region))//len(rec)
pkt=struct.pack(">HHHHHH",0,0x8400,0,1+n,0,0)+pre+bytes(region)+rec*n
print(len(pkt), n)
t=time.process_time(); m=DNSIncoming(pkt); a=m.answers(); dt=time.process_time()-t
print("cpu s", round(dt,3), "valid", m.valid, "records", len(a))
o=H.observe(pkt, True, False, steps=True)
print({k:o[k] for k in ("status","names","acts","depth","reads","steps","work")})
