import sys, os, pathlib, struct
sys.dont_write_bytecode=True
repo=os.environ["VERIF_REPO"]
sys.path.insert(0, repo+"/src"); sys.path.insert(0,'/verif'); sys.path.insert(0,'/verif/tools')
import harness.common as C
C.DRIVER = pathlib.Path("/tmp/review3/scratch-C02/zcdriver")
import harness.c02 as H
run = b"\x01b"*129 + b"\x00"
pkt = struct.pack(">HHHHHH",0,0,1,0,0,0) + b"\x01a\xc0" + bytes([20]) + struct.pack(">HH",12,1) + run
o = H.observe(pkt, True, True, steps=True)
print("observe with listener args:", o["status"], o["exc"])
r = H.replay({"sig":"C02:escape:TypeError","case":{"hex":C.hx(pkt),"len":len(pkt),"stream":"graph"}})
print("replay():", {k:r[k] for k in ("status","exception","violates","violations")})
