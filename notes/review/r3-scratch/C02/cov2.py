import sys, os, collections
sys.dont_write_bytecode=True
sys.path.insert(0,'/repo/src'); sys.path.insert(0,'/verif'); sys.path.insert(0,'/verif/tools')
import harness.common as C, harness.c02 as H
from zeroconf._protocol import incoming as inc
fn = inc.__file__
RARE={449,372,320,321,322,257,284}
for seed in (0,1,2,11,12,13):
    rng=C.rng_for(seed,"c02"); res=C.Result("C02")
    hits=collections.defaultdict(list)
    cur=[None]
    def tr(frame,event,arg):
        if frame.f_code.co_filename!=fn: return None
        def loc(frame,event,arg):
            if event=="exception" and arg[2].tb_next is None and frame.f_lineno in RARE:
                hits[frame.f_lineno].append(cur[0])
            return loc
        return loc
    for i,(s,b) in enumerate(H.gen_cases("quick",rng,9000,res)):
        largs = i%5==1
        cur[0]=(s.split(":")[0],i,largs,len(b))
        sys.settrace(tr)
        try:
            m = inc.DNSIncoming(b,*H.LISTENER_ARGS) if largs else inc.DNSIncoming(b)
            m.answers()
        finally:
            sys.settrace(None)
    print("seed",seed,{k:(len(v), sum(1 for x in v if x[2]), sorted({x[0] for x in v})) for k,v in sorted(hits.items())})
