"""usage: VERIF_REPO=<tree> python runh.py <seed> [driver:0/1] [tier]
runs harness.c02.run(ctx) without the Lean stages, with a private copy of the driver; prints a summary"""
import json
import os
import pathlib
import sys
import time

os.environ.setdefault("PYTHONDONTWRITEBYTECODE", "1")
sys.dont_write_bytecode = True
repo = os.environ.get("VERIF_REPO", "/repo")
sys.path.insert(0, repo + "/src")
sys.path.insert(0, "/verif")
sys.path.insert(0, "/verif/tools")
import harness.common as C  # noqa: E402

C.DRIVER = pathlib.Path("/tmp/review3/scratch-C02/zcdriver")
import harness.c02 as H  # noqa: E402

seed = int(sys.argv[1])
drv = (sys.argv[2] if len(sys.argv) > 2 else "1") == "1"
tier = sys.argv[3] if len(sys.argv) > 3 else "quick"
import zeroconf  # noqa: E402

print("zeroconf from", zeroconf.__file__)
t = time.time()
res = H.run({"tier": tier, "seed": seed, "widened": os.environ.get("WIDE","0")=="1", "driver_ok": drv, "stages": {}, "drift": []})
print("seed", seed, "evaluations", res.evaluations, "disagreements", len(res.disagreements), "violations", len(res.violations), "%.0fs" % (time.time() - t))
sigs = {}
for v in res.violations:
    sigs.setdefault(v["sig"], []).append(v)
for s, vs in sigs.items():
    c = vs[0]["case"]
    print("  V", s, len(vs), "first:", vs[0]["what"][:200], "| len", c.get("len"), "stream", c.get("stream"), "hex", (c.get("hex") or "")[:120])
ds = {}
for d in res.disagreements:
    ds.setdefault(d.get("stream", d.get("what", "?")) if isinstance(d, dict) else "?", []).append(d)
for s, v in ds.items():
    print("  D", s, len(v), json.dumps(v[0], default=str)[:500])
for k in sorted(res.dist):
    if not k.startswith("stream:"):
        print("  dist", k, res.dist[k])
for n in res.notes:
    print("  note", n[:400])
