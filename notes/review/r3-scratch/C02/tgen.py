import sys, pathlib, filecmp
sys.dont_write_bytecode=True
sys.path.insert(0,'/verif/tools')
import gen_lean
name=sys.argv[1]
repo="/tmp/review3/scratch-C02/mut-"+name if name!="base" else "/repo"
out=pathlib.Path("/tmp/review3/scratch-C02/gen-"+name)
failed={}
try:
    changed, env, st = gen_lean.gen(repo, out, None, failed)
    print(name, "translated; failed modules:", failed)
    for f in sorted(out.glob("*.lean")):
        ref=pathlib.Path("/verif/lean/Zc/Gen")/f.name
        if not ref.exists() or ref.read_text()!=f.read_text():
            print("  differs from committed Gen:", f.name)
except gen_lean.Fail as f:
    print(name, "T BROKE:", f.file, getattr(f.node,"lineno","?"), f.msg)
