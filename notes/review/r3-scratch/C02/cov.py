import sys, os, collections
sys.dont_write_bytecode=True
sys.path.insert(0,'/repo/src'); sys.path.insert(0,'/verif'); sys.path.insert(0,'/verif/tools')
import harness.common as C, harness.c02 as H
from harness import rfc1035
from zeroconf._protocol import incoming as inc
fn = inc.__file__
seed=int(sys.argv[1]) if len(sys.argv)>1 else 0
rng=C.rng_for(seed,"c02"); res=C.Result("C02")
sites=collections.Counter(); sites_l=collections.Counter()
acc=collections.Counter(); tot=collections.Counter()
cur=[False]
def tr(frame,event,arg):
    if frame.f_code.co_filename!=fn: return None
    def loc(frame,event,arg):
        if event=="exception" and arg[2].tb_next is None:
            k=(frame.f_lineno,arg[0].__name__)
            sites[k]+=1
            if cur[0]: sites_l[k]+=1
        return loc
    return loc
maxlab=0
for i,(s,b) in enumerate(H.gen_cases("quick",rng,9000,res)):
    largs = i%5==1
    cur[0]=largs
    sys.settrace(tr)
    try:
        m = inc.DNSIncoming(b,*H.LISTENER_ARGS) if largs else inc.DNSIncoming(b)
        m.answers()
    finally:
        sys.settrace(None)
    st=s.split(":")[0]; tot[st]+=1
    try:
        p=rfc1035.decode(b,"strict")
        if p["supported"] and H._reenc_ok(p["names"]): acc[st]+=1
    except rfc1035.Reject: pass
print("raise sites (line, class): total / with listener args")
for k in sorted(sites): print(k, sites[k], sites_l[k])
print("in-scope accepted per stream:", {k:(acc[k],tot[k]) for k in tot})
