import sys, os, hashlib, collections
sys.dont_write_bytecode=True
sys.path.insert(0,'/repo/src'); sys.path.insert(0,'/verif'); sys.path.insert(0,'/verif/tools')
import harness.common as C, harness.c02 as H
for seed in (11,12):
    rng=C.rng_for(seed,"c02"); res=C.Result("C02")
    cnt=collections.Counter(); h=hashlib.sha1()
    for s,b in H.gen_cases("quick",rng,9000,res):
        cnt[s.split(":")[0]]+=1
        if s=="valid": h.update(b)
    print(seed, h.hexdigest()[:12], dict(cnt))
