import sys, struct
sys.dont_write_bytecode=True
sys.path.insert(0, sys.argv[1]+"/src")
from zeroconf._protocol.incoming import DNSIncoming
run = b"\x01b"*129 + b"\x00"
pkt = struct.pack(">HHHHHH",0,0,1,0,0,0) + b"\x01a\xc0" + bytes([20]) + struct.pack(">HH",12,1) + run
print(len(pkt))
for args in ((), (("192.0.2.7",5353),3,1e6)):
    try:
        m=DNSIncoming(pkt,*args); m.answers(); print(bool(args), "ok valid=",m.valid)
    except Exception as e: print(bool(args), "ESCAPES", type(e).__name__, str(e)[:80])
