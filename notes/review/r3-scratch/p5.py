from mut import mut
H='_history.py'; R='_services/registry.py'; C='_cache.py'; D='_dns.py'; Q='_handlers/multicast_outgoing_queue.py'
# R1 rename locals (two places)
mut('r1a', [(C, "        store = self.cache.setdefault(record.key, {})\n        new = record not in store and not isinstance(record, DNSNsec)", "        bucket = self.cache.setdefault(record.key, {})\n        new = record not in bucket and not isinstance(record, DNSNsec)"),
            (C, "        store.pop(record, None)\n        store[record] = record\n        if isinstance", "        bucket.pop(record, None)\n        bucket[record] = record\n        if isinstance")])
# R2 early return <-> nested if
mut('r2', [(R, "        if record_list is None:\n            return []\n        return [self._services[name] for name in record_list]", "        if record_list is not None:\n            return [self._services[name] for name in record_list]\n        return []")])
mut('r2b', [(H, "        if previous_known_answers - known_answers:\n            return False\n        return True", "        if previous_known_answers - known_answers:\n            return False\n        else:\n            return True")])
mut('r2c', [(H, "        if previous_known_answers - known_answers:\n            return False\n        return True", "        return not (previous_known_answers - known_answers)")])
# R3 comprehension -> loops (cache.async_expire)
mut('r3', [(C, "        expired = [record for records in self.cache.values() for record in records if record.is_expired(now)]", "        expired: List[DNSRecord] = []\n        for records in self.cache.values():\n            for record in records:\n                if record.is_expired(now):\n                    expired.append(record)")])
# R4 x in d <-> d.get(x) is (not) None
mut('r4', [(C, "new = record not in store and not isinstance(record, DNSNsec)", "new = store.get(record) is None and not isinstance(record, DNSNsec)")])
# R5 reorder two independent statements
mut('r5a', [(R, "        self.types.setdefault(info.type.lower(), []).append(info.key)\n        self.servers.setdefault(info.server_key, []).append(info.key)", "        self.servers.setdefault(info.server_key, []).append(info.key)\n        self.types.setdefault(info.type.lower(), []).append(info.key)")])
mut('r5b', [(Q, "        send_after = now + random_delay\n        send_before = now + self._aggregation_delay + self._additional_delay", "        send_before = now + self._aggregation_delay + self._additional_delay\n        send_after = now + random_delay")])
# R6 temporaries
mut('r6a', [(C, "        _remove_key(self.cache, record.key, record)", "        key = record.key\n        _remove_key(self.cache, key, record)")])
mut('r6b', [(R, "            del self._services[info.key]\n", "            name = info.key\n            del self._services[name]\n")])
mut('r6c', [(D, "        return self.created + (_EXPIRE_FULL_TIME_MS * self.ttl) <= now", "        expires_at = self.created + (_EXPIRE_FULL_TIME_MS * self.ttl)\n        return expires_at <= now")])
# R7.. misc
mut('r7_kw', [(R, "self._remove_from_index(self.types, old_service_info.type.lower(), info.key)", "self._remove_from_index(self.types, key=old_service_info.type.lower(), name=info.key)")])
mut('r8_pop', [(Q, "                pending.answers.pop(record, None)", "                if record in pending.answers:\n                    del pending.answers[record]")])
mut('r9_assertmsg', [(R, "            assert old_service_info.server_key is not None\n", "")])
mut('r10_flip', [(D, "other.ttl > (self.ttl / 2)", "(self.ttl / 2) < other.ttl")])
mut('r11_mul', [(D, "other.ttl > (self.ttl / 2)", "other.ttl * 2 > self.ttl")])
mut('r12_listcopy', [(R, "        return list(self._services.values())", "        return [*self._services.values()]")])
