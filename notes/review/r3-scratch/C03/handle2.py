import os, sys, json
sys.path.insert(0, '/verif')
import harness.common as C
import harness.c03 as H
svc = {"type": "_a._tcp.local.", "name": "x._a._tcp.local.", "server": "h1.local.", "port": 80, "weight": 0, "priority": 0, "text": "03613d31",
       "httl": 120, "ottl": 4500, "addrs": ["0a000001"], "ifindex": None}
q = H.plain_query([["h1.local.", 1, 1], ["nosuch.local.", 1, 1]])
# in-place `info.addresses = [10.0.0.2]` and then unregister (no update in between)
ops = [{"op": "R", "svc": svc, "obj": 0},
       {"op": "QC", "query": q, "delay": 5, "change": [{"op": "M", "obj": 0, "mut": ["addrs", ["0a000002"]]}, {"op": "X", "objs": [0]}]}]
steps, errors = H.exec_wire(ops, 1)
print("errors", errors)
for s in steps:
    qq = s["q"]
    if qq and qq.get("split"):
        for p in qq["pkts"]:
            print("   t=%s" % p["t"], [(a.name, a.type, a.ttl, getattr(a, 'address', b'').hex() if hasattr(a,'address') else '') for a in p["answers"]])
        print("  change_oracle:", [(b[0], b[2]) for b in H.change_oracle(qq)])
