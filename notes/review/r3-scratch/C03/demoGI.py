import os, sys, json
sys.path.insert(0, '/verif')
import harness.common as C
import harness.c03 as H
x = {"type": "_a._tcp.local.", "name": "x._a._tcp.local.", "server": "h1.local.", "port": 80, "weight": 0, "priority": 0, "text": "03613d31",
       "httl": 120, "ottl": 4500, "addrs": ["0a000001"], "ifindex": None}
y = dict(x, name="y._a._tcp.local.", server="h2.local.", addrs=["0a000002"])
which = sys.argv[1]
if which == "G":
    q = H.plain_query([["_a._tcp.local.", 12, 1], ["nosuch.local.", 1, 1]]); change = [{"op": "X", "objs": [0]}]
else:
    q = H.plain_query([["y._a._tcp.local.", 33, 1], ["y._a._tcp.local.", 16, 1]]); change = [{"op": "M", "obj": 0, "mut": ["port", 81]}, {"op": "U", "obj": 0}]
ops = [{"op": "R", "svc": x, "obj": 0}, {"op": "R", "svc": y, "obj": 1}, {"op": "QC", "query": q, "delay": 5, "change": change}]
steps, errors = H.exec_wire(ops, 1)
print(C.REPO, "errors", errors)
for s in steps:
    qq = s["q"]
    if qq and qq.get("split"):
        for p in qq["pkts"]:
            print("   t=%s" % p["t"], [(a.name, a.type, a.ttl) for a in p["answers"]])
        print("  change_oracle:", [b[0] for b in H.change_oracle(qq)])
