import os, sys, json
sys.path.insert(0, '/verif')
import harness.common as C
import harness.c03 as H
svc = {"type": "_a._tcp.local.", "name": "x._a._tcp.local.", "server": "h1.local.", "port": 80, "weight": 0, "priority": 0, "text": "03613d31",
       "httl": 120, "ottl": 4500, "addrs": ["0a000001"], "ifindex": None}
# a second ServiceInfo for the same name (what an application that did not keep the registered object builds to unregister):
other = dict(svc, port=81, text="03613d32")
q = H.plain_query([["x._a._tcp.local.", 16, 1], ["x._a._tcp.local.", 33, 1]])
ops = [{"op": "R", "svc": svc, "obj": 0},
       {"op": "R", "svc": other, "obj": 1},   # fails (name registered) but leaves objs[1]
       {"op": "QC", "query": q, "delay": 5, "change": [{"op": "X", "objs": [1]}]}]
steps, errors = H.exec_wire(ops, 1)
print("errors", errors)
for s in steps:
    print(s["op"].get("op"), s["impl"], (s["line"] or "")[:60])
    qq = s["q"]
    if qq and qq.get("split"):
        for p in qq["pkts"]:
            print("   t=%s after=%s" % (p["t"], p["after"]), [H.rline(a) for a in p["answers"]], "ADD", [H.rline(a) for a in p["adds"]])
        for b in H.change_oracle(qq):
            print("  ORACLE", b[0], b[2])
