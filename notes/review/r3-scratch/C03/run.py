import os, sys, json, time, pathlib, collections
sys.path.insert(0, '/verif')
os.environ.setdefault('PYTHONDONTWRITEBYTECODE', '1')
seed = int(sys.argv[1]); tier = sys.argv[2] if len(sys.argv) > 2 else 'quick'
widened = len(sys.argv) > 3 and sys.argv[3] == 'w'
import harness.common as C
C.DRIVER = pathlib.Path('/tmp/review3/scratch-C03/zcdriver')
import harness.c03 as H
t0 = time.time()
res = H.run({"tier": tier, "seed": seed, "widened": widened, "driver_ok": True, "stages": {}, "drift": []})
known = {"C03:queued-answer-superseded-by-update", "C03:queued-enumeration-pointer-after-unregister", "C03:queued-shared-host-record-after-unregister"}
print("repo", C.REPO, "seed", seed, "evals", res.evaluations, "disagreements", len(res.disagreements), "violations", len(res.violations), "%.0fs" % (time.time() - t0))
c = collections.Counter(v["sig"] for v in res.violations)
for s, n in c.items():
    print("  ", "KNOWN" if s in known else "FRESH", s, n)
for d in res.disagreements[:4]:
    print("  DIS", json.dumps(d, default=str)[:600])
for v in res.violations:
    if v["sig"] not in known:
        print("  V", v["sig"], json.dumps(v["case"], default=str)[:1500]); break
print("  dist", {k: v for k, v in res.dist.items() if k.startswith(("finding", "wire", "burst", "queries-after"))})
print("  notes", res.notes)
