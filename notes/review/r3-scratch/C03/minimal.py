import os, sys, asyncio
sys.path.insert(0, '/verif')
import harness.common as C
import harness.c03 as H
from harness import vsim
from zeroconf import ServiceInfo, DNSIncoming
svc = {"type": "_a._tcp.local.", "name": "x._a._tcp.local.", "server": "h1.local.", "port": 80, "weight": 0, "priority": 0, "text": "03613d31",
       "httl": 120, "ottl": 4500, "addrs": ["0a000001"], "ifindex": None}
sim = vsim.Sim(1)
async def main(sim):
    host = H.make_wire_host(sim, False); zc = host.zc
    await zc.async_wait_for_start()
    info = H.make_info(svc)
    await (await zc.async_register_service(info))
    await sim.sleep_ms(1500)
    start = len(sim.net.log)
    handle = ServiceInfo("_a._tcp.local.", "x._a._tcp.local.")   # what an application that only remembers the name can build
    try:
        fut = await zc.async_unregister_service(handle); await fut
        print("unregister ok")
    except Exception as ex:
        import traceback; print("unregister raised", type(ex).__name__, ex); print("".join(traceback.format_exc().splitlines(True)[-8:]))
    await sim.sleep_ms(1500)
    print("registered after:", list(zc.registry._services))
    for t, src, dst, port, data in sim.net.log[start:]:
        inc = DNSIncoming(data)
        print("  t=%s" % t, [(a.name, a.type, a.ttl) + ((a.port,) if hasattr(a, 'port') else ()) for a in inc.answers()])
    await vsim.close_host(host)
sim.run(main)
print("sim errors", [str(e.get("exception") or e.get("message"))[:200] for e in sim.errors])
