"""usage: VERIF_REPO=<repo> python runh.py PROP SEED [nodriver] -- calls harness run_prop without Lean stages"""
import sys, os, json, collections, time
sys.dont_write_bytecode = True
sys.path.insert(0, "/verif")
sys.path.insert(0, "/verif/tools")
prop, seed = sys.argv[1], int(sys.argv[2])
driver = not (len(sys.argv) > 3 and sys.argv[3] == "nodriver")
import importlib
h = importlib.import_module("harness.%s" % prop.lower())
import harness.common as C
print("REPO", C.REPO, "driver", driver)
t = time.time()
ctx = {"tier": "quick", "seed": seed, "widened": False, "driver_ok": driver, "stages": {}, "drift": []}
res = h.run(ctx)
kf = json.load(open("/verif/known_findings.json"))["entries"]
known = {k["sig"] for k in kf if k.get("property") == prop and k.get("kind") == "finding"}
c = collections.Counter(v["sig"] for v in res.violations)
print("evaluations", res.evaluations, "disagreements", res.dist.get("disagreements", 0), "violations", res.dist.get("violations", 0), "%.0fs" % (time.time() - t))
dstreams = collections.Counter(d["stream"] for d in res.disagreements)
print("disagreement streams", dict(dstreams))
for s, n in c.most_common():
    print(("KNOWN " if s in known else "FRESH ") + s, n)
for v in res.violations:
    if v["sig"] not in known:
        print("first fresh:", v["sig"], "|", v["what"][:300])
        print("   case:", json.dumps(v["case"])[:400])
        break
for d in res.disagreements[:2]:
    print("disagree:", d["stream"], str(d["impl"])[:200], "||", str(d["model"])[:200])
print("notes", res.notes[:3])
print({k: v for k, v in sorted(res.dist.items()) if k.startswith(("oracle", "size:exactly", "outcome", "text:", "correspondence"))})
