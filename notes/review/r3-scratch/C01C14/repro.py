import sys, os
sys.dont_write_bytecode = True
m = sys.argv[1]
sys.path.insert(0, "/tmp/review3/scratch-C01C14/%s/src" % m if m != "repo" else "/repo/src")
from zeroconf import DNSOutgoing, DNSIncoming, DNSAddress, DNSQuestion, DNSPointer, DNSText
from zeroconf import _dns as d
which = sys.argv[2]
if which == "A":
    rec = DNSAddress("h.local.", 1, 0x8001, 120, b"\x0a\0\0\1", created=1000.0)
    o1 = DNSOutgoing(0x8400, True); o1.add_answer_at_time(rec, 0); p1 = o1.packets()[0]
    o2 = DNSOutgoing(0x8400, False, 7); o2.add_answer_at_time(rec, 0); p2 = o2.packets()[0]
    print("multicast class word", p1[12+9+2:12+9+4].hex(), " then unicast class word", p2[12+9+2:12+9+4].hex(), "(must be 0001)")
if which == "T":
    n = "é.local."
    o = DNSOutgoing(0); o.add_question(DNSQuestion(n, 12, 1)); p = o.packets()[0]
    back = DNSIncoming(p).questions[0].name
    print("in", ascii(n), "out", ascii(back), "same" if back == n else "SPELLING CHANGED")
if which == "D":
    n = "a." * 120 + "local."
    print("chars", len(n), "labels", n.count("."))
    o = DNSOutgoing(0); o.add_question(DNSQuestion(n, 12, 1))
    try:
        p = o.packets(); print("ok", len(p[0]), DNSIncoming(p[0]).questions[0].name == n)
    except Exception as ex: print("raised", type(ex).__name__)
if which == "B":
    import logging
    from types import SimpleNamespace
    from zeroconf import Zeroconf
    from zeroconf._transport import _WrappedTransport
    class R:
        def __init__(s): s.sent=[]
        def sendto(s, data, addr=None): s.sent.append(len(data))
    rec = R(); zc = Zeroconf.__new__(Zeroconf); zc.done = False
    zc.engine = SimpleNamespace(senders=[_WrappedTransport(rec, False, None, 7, ("127.0.0.1", 5353))])
    o = DNSOutgoing(0x8400, False, 5); o.add_answer_at_time(DNSText("a.local.", 16, 1, 4500, b"x"*3000, created=1000.0), 0)
    o.add_answer_at_time(DNSAddress("a.local.", 1, 1, 120, b"\1\2\3\4", created=1000.0), 0)
    zc.async_send(o, "192.168.1.9", 5353)
    print("builder", [len(p) for p in o.packets()], "sent to unicast addr", rec.sent)
if which == "C":
    inc = DNSIncoming(DNSOutgoing(0).packets()[0])
    o = DNSOutgoing(0x8400); o.add_answer(inc, DNSAddress("a.local.", 1, 1, 120, b"\1\2\3\4", created=1000.0)); p = o.packets()[0]
    print("header counts q/an/au/ad", [int.from_bytes(p[i:i+2], "big") for i in (4, 6, 8, 10)])
