import subprocess, json, sys, os
def exp(repo):
    p = subprocess.run(['/venv/bin/python','/verif/tools/fn_selftest.py','--emit','--repo',repo], stdout=subprocess.PIPE, stderr=subprocess.PIPE, env=dict(os.environ, PYTHONDONTWRITEBYTECODE='1'), cwd='/tmp/review3/scratch')
    if p.returncode: return None, p.stderr.decode()[-300:]
    j = json.loads(p.stdout.decode()); return j, None
base,_ = exp('/repo')
for m in sys.argv[1:]:
    j, err = exp('/tmp/review3/scratch/m_%s' % m)
    if j is None: print(m, 'python side CRASHED:', err.replace('\n',' ')[-200:]); continue
    diff = [(o,i) for i,(a,b,o) in enumerate(zip(base['expected'], j['expected'], base['owner'])) if a!=b]
    print(m, 'self-test would see %d differing cases' % len(diff), sorted(set(o for o,_ in diff)))
