"""sync register_service(info, allow_name_change=True) against a cached conflicting pointer: how many probe queries, final name"""
import sys, os, socket, time
sys.dont_write_bytecode = True
sys.path.insert(0, "/verif")
from harness import common as C
from harness import c17_threads as T
from zeroconf import DNSIncoming, ServiceInfo, Zeroconf, DNSPointer, const, current_time_millis
import zeroconf
print("tree", zeroconf.__file__)
typ = "_sync._tcp.local."
with T.Rig(fast=40) as rig:
    zc = Zeroconf(interfaces=["10.0.0.1"])
    try:
        # a peer already advertises s0
        rec = DNSPointer(typ, const._TYPE_PTR, const._CLASS_IN, 4500, "s0." + typ)
        zc.loop.call_soon_threadsafe(zc.cache.async_add_records, [rec])
        time.sleep(0.05)
        info = ServiceInfo(typ, "s0." + typ, 80, addresses=[socket.inet_aton("10.0.0.1")], server="hs.local.")
        n0 = len(rig.log)
        try:
            zc.register_service(info, allow_name_change=True)
            res = "ok"
        except Exception as ex:
            res = type(ex).__name__
        probes = 0
        for (t, kind, data, addr) in rig.log[n0:]:
            if kind == "sent":
                m = DNSIncoming(data)
                if m.is_query():
                    probes += 1
        print("result", res, "name", info.name, "probe queries sent", probes, "registered", sorted(zc.registry._services))
    finally:
        zc.close()
