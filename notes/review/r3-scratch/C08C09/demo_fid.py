import sys, json, pathlib
sys.dont_write_bytecode = True
sys.path.insert(0, "/verif")
from harness import common as C, c08
C.DRIVER = pathlib.Path("/tmp/review3/scratch-C08C09/zcdriver")
base = {"inst": "svc0", "type": "_http._tcp.local.", "server": "hosta.local.", "v4": ["0a000001"], "v6": [], "port": 80, "text": "", "host_ttl": 120, "other_ttl": 4500}
scs = {
 "unregister-never-registered": [{"op": "unregister", "svc": 0, "at": 500, "via": "same"}],
 "double-unregister-100ms": [{"op": "register", "svc": 0, "at": 0}, {"op": "unregister", "svc": 0, "at": 1500, "via": "same"}, {"op": "unregister", "svc": 0, "at": 1600, "via": "same"}],
 "unregister-then-close-at-+300": [{"op": "register", "svc": 0, "at": 0}, {"op": "unregister", "svc": 0, "at": 1500, "via": "same"}, {"op": "close", "svc": 0, "at": 1800}],
}
for name, ops in scs.items():
    sc = {"idx": 0, "svcs": [dict(base)], "ops": ops, "seed": 1, "delays": [0]*60, "draws": [60]*6}
    res = C.Result("C08"); lines=[]; pending=[]
    obs = c08.evaluate(sc, res, lines, pending)
    c08.compare(res, pending, C.run_driver(lines))
    sends = [(e[1]-c08.T0, sorted({(type(r).__name__[3:], r.ttl) for r in c08.all_recs(e[3])})) for e in obs["ev"] if e[0]=="send" and e[2]==obs["zc"]]
    print(name, "| disagreements", len(res.disagreements), "| violations", [(v["sig"]) for v in res.violations], "| sends", [(t, [x for x in rs if x[0]=="Pointer"]) for t, rs in sends])
