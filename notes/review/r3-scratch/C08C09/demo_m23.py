import sys, json
sys.dont_write_bytecode = True
sys.path.insert(0, "/verif")
from harness import common as C, c08
import zeroconf; print("tree", zeroconf.__file__)
sc = {"idx": 0, "svcs": [{"inst": "svc0", "type": "_http._tcp.local.", "server": None, "v4": ["0a000001"], "v6": [], "port": 80, "text": "", "host_ttl": 120, "other_ttl": 4500}],
      "ops": [{"op": "register", "svc": 0, "at": 0}, {"op": "unregister", "svc": 0, "at": 1500, "via": "copy"}], "seed": 1, "delays": [0]*60, "draws": [60]*6}
res = C.Result("C08"); lines=[]; pending=[]
obs = c08.evaluate(sc, res, lines, pending)
print("api_errors", obs["api_errors"]); print("violations", [(v["sig"], v["what"][:120]) for v in res.violations])
