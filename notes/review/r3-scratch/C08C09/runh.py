"""usage: VERIF_REPO=<tree> python runh.py C08|C09 seed [scale] [nodriver]"""
import sys, os, json, pathlib, collections
sys.dont_write_bytecode = True
sys.path.insert(0, "/verif")
sys.path.insert(0, "/verif/tools")
prop, seed = sys.argv[1], int(sys.argv[2])
if len(sys.argv) > 3 and sys.argv[3] not in ("", "1"):
    os.environ["VERIF_SCALE"] = sys.argv[3]
drv = not (len(sys.argv) > 4 and sys.argv[4] == "nodriver")
import importlib
from harness import common as C
C.DRIVER = pathlib.Path("/tmp/review3/scratch-C08C09/zcdriver")
h = importlib.import_module("harness.%s" % prop.lower())
known = {k["sig"] for k in json.load(open("/verif/known_findings.json"))["entries"] if k.get("property") == prop and k.get("kind") == "finding"}
ctx = {"tier": "quick", "seed": seed, "widened": False, "driver_ok": drv, "stages": {}, "drift": []}
res = h.run(ctx)
import zeroconf
print("repo", zeroconf.__file__)
print(prop, "seed", seed, "evaluations", res.evaluations, "disagreements", len(res.disagreements), "violations", len(res.violations))
cnt = collections.Counter(v["sig"] for v in res.violations)
for s, n in cnt.most_common():
    print("  %-60s %5d %s" % (s, n, "KNOWN" if s in known else "FRESH"))
fresh = [v for v in res.violations if v["sig"] not in known]
for v in fresh[:4]:
    print("FRESH", v["sig"], v["what"][:300])
    print("   case", json.dumps(v["case"], default=str)[:700])
for d in res.disagreements[:3]:
    print("DISAGREE", json.dumps(d, default=str)[:900])
print("notes", res.notes[:3])
if os.environ.get("DUMP"):
    json.dump({"viol": [{"sig": v["sig"], "what": v["what"], "case": v["case"]} for v in res.violations[:400]], "dis": res.disagreements[:20]}, open(os.environ["DUMP"], "w"), default=str)
