import sys, os, json, time
sys.path.insert(0, '/verif'); os.chdir('/verif')
import harness.c07 as h
from collections import Counter
T = Counter(); runs = Counter()
orig = h.oracle
def oracle(case, obs):
    v = orig(case, obs)
    for s, _ in v: T[s] += 1
    for s in {s for s, _ in v}: runs[s] += 1
    return v
h.oracle = oracle
res = h.run_inner({"tier": "quick", "seed": int(sys.argv[1]), "widened": False, "driver_ok": False})
print("violations (all, uncapped) / runs:")
for s, n in T.most_common(): print("  %6d %5d %s" % (n, runs[s], s))
print("disagreements", len(res.disagreements), [d.get("kind") if isinstance(d, dict) else str(d)[:80] for d in res.disagreements[:5]])
