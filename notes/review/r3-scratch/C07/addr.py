import sys, os, asyncio, socket
sys.path.insert(0, '/verif'); os.chdir('/verif')
from harness import vsim
from zeroconf import ServiceInfo, ServiceListener, IPVersion
from zeroconf.asyncio import AsyncServiceBrowser, AsyncServiceInfo
out = []
async def main(sim):
    a = sim.make_host("A", "10.0.0.1"); b = sim.make_host("B", "10.0.0.2")
    await a.zc.async_wait_for_start(); await b.zc.async_wait_for_start()
    T, N = "_a._tcp.local.", "s0._a._tcp.local."
    i1 = ServiceInfo(T, N, 8000, addresses=[socket.inet_aton("10.0.0.1")], server="h0.local.", properties={"k": "v0"})
    await a.zc.async_register_service(i1)
    await sim.sleep_until(5000)
    i2 = ServiceInfo(T, N, 8001, addresses=[socket.inet_aton("10.0.0.9")], server="h0.local.", properties={"k": "v1"})
    await a.zc.async_update_service(i2)
    await sim.sleep_until(15000)
    class L(ServiceListener):
        def add_service(self, zc, t, n):
            async def look():
                info = AsyncServiceInfo(t, n); ok = await info.async_request(zc, 3000)
                out.append((sim.now(), ok, info.port, [socket.inet_ntoa(x) for x in info.addresses_by_version(IPVersion.V4Only)]))
            asyncio.ensure_future(look())
        def remove_service(self, *a): pass
        def update_service(self, *a): pass
    br = AsyncServiceBrowser(b.zc, [T], listener=L())
    await sim.sleep_until(20000)
    await br.async_cancel()
    for h in (a, b): await h.zc._async_close()
sim = vsim.Sim(3, maxdelay=100)
sim.run(main)
print(os.environ.get("VERIF_REPO", "/repo"), out)
