import sys, os, json, copy
sys.path.insert(0, '/verif'); os.chdir('/verif')
import harness.c07 as h
case = {"simseed": 5, "hosts": [{"up": 0}, {"up": 0}], "types": 1,
        "svcs": [{"owner": 0, "ty": 0, "case": 1}, {"owner": 0, "ty": 0, "case": 0}],
        "ops": [[0, "browse", 1, 0], [1000, "register", 0], [1200, "register", 1]],
        "net": {"seed": 6, "mode": "uniform", "drop": None, "dups": "none"}}
obs = h.run_case(case)
print("final", [(f["b"], f["live"]) for f in obs["final"]], "registered", obs["registered"])
print("oracle on the real run:", [v[0] for v in h.oracle(case, obs)])
# doctor: the browser ALSO never reports s1 (a fresh violation), everything else unchanged
o2 = copy.deepcopy({k: v for k, v in obs.items() if k != "_parsed"})
for ob in o2["observations"]:
    for f in ob["final"]:
        f["live"] = [x for x in f["live"] if x != 1]
o2["final"] = o2["observations"][-1]["final"]
o2["trace"] = [e for e in o2["trace"] if not (e[1] in ("add", "rem") and e[3] == 1)]
o2["lookups"] = [l for l in o2["lookups"] if l["s"] != 1]
print("oracle when s1 is missing too:", [v[0] for v in h.oracle(case, o2)])
