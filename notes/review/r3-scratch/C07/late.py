import sys, os, json
sys.path.insert(0, '/verif'); os.chdir('/verif')
import harness.c07 as h
from harness import vsim, common as C
from collections import Counter
orig = vsim.Sim
ML = int(sys.argv[1])
def Sim(seed=0, maxdelay=20, **kw):
    kw.setdefault("max_late", ML)
    return orig(seed, maxdelay, **kw)
vsim.Sim = Sim
rng = C.rng_for(5, "c07")
fails = Counter(); vio = Counter(); n = 0
for i in range(13, 60):
    case = h.gen_case(rng, i, 0.0)
    if case.get("stack", "4") != "4" or case.get("listen") or case.get("family"): continue
    obs = h.run_case(case); tr = h.norm_trace(case, obs)
    mon = h.monitors(tr, obs["endT"]); n += 1
    for k, w in mon.items():
        if w: fails[k] += 1
    for s, _ in h.oracle(case, obs): vio[s] += 1
print("max_late", ML, "runs", n, "monitor failures", dict(fails), "oracle", dict(vio))
