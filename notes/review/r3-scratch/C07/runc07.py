import sys, os, json, time
sys.path.insert(0, '/verif')
os.chdir('/verif')
import harness.c07 as h
seed = int(sys.argv[1]); tier = sys.argv[2] if len(sys.argv) > 2 else 'quick'
t0 = time.time()
res = h.run_inner({"tier": tier, "seed": seed, "widened": False, "driver_ok": False})
known = {k["sig"] for k in json.load(open('/verif/known_findings.json'))["entries"] if k.get("property") == "C07" and k.get("kind") == "finding"}
from collections import Counter
c = Counter(v["sig"] for v in res.violations)
print("REPO", os.environ.get("VERIF_REPO", "/repo"), "seed", seed, "evals", res.evaluations, "time %.0f" % (time.time() - t0))
print("violations by sig:")
for s, n in c.most_common():
    print("  %5d %s %s" % (n, "KNOWN" if s in known else "FRESH", s))
fresh = [v for v in res.violations if v["sig"] not in known]
print("fresh:", len(fresh), " disagreements:", len(res.disagreements))
for v in fresh[:6]:
    print(json.dumps(v, default=str)[:1200])
for d in res.disagreements[:6]:
    print("DIS", json.dumps(d, default=str)[:1200])
print({k: v for k, v in res.dist.items() if not k.startswith('proj')} if hasattr(res, 'dist') else '')
