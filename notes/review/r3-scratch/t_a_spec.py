FIELDS=[("d","Dict[Str, List[Num]]"),("e","Dict[Str, List[Num]]"),("dd","Dict[Str, Dict[Str, Num]]"),("x","List[Num]"),("y","List[Num]"),("n","Num")]
ALL=[("t1",[], "None"),("t2",[("k","Str")], "Num"),("t3",[("l","List[Num]")],"Num"),("t4",[("a","List[Num]")],"List[Num]"),
 ("t5",[("k","Str"),("l","List[Num]")],"None"),("t16",[("k","Str")],"Num"),("live",[("k","Str")],"Dict[Str, Num]"),("t17",[("k","Str")],"Num"),("t18",[("k","Str")],"Num"),
 ("t41",[("now","Num")],"Bool"),("t42",[],"Num"),("bump",[],"Num"),("t43",[],"Bool")]
