import sys, shutil, pathlib, subprocess, os
sys.path.insert(0,'/tmp/review3/scratch'); import drv
BASE='/tmp/review3/scratch/out_base'
def mut(name, edits, show=True):
    """edits: list of (relfile, old, new) ; old=None -> append new"""
    root = pathlib.Path('/tmp/review3/scratch/m_%s' % name)
    if root.exists(): shutil.rmtree(root)
    (root/'src').mkdir(parents=True)
    shutil.copytree('/repo/src/zeroconf', root/'src'/'zeroconf')
    for rel, old, new in edits:
        p = root/'src'/'zeroconf'/rel
        s = p.read_text()
        if old is None: s = s + new
        else:
            assert s.count(old) == 1, (name, rel, s.count(old))
            s = s.replace(old, new)
        p.write_text(s)
    out = '/tmp/review3/scratch/o_%s' % name
    if os.path.exists(out): shutil.rmtree(out)
    ch, failed = drv.gen_all(str(root), out)
    d = subprocess.run(['diff','-r',BASE,out],stdout=subprocess.PIPE).stdout.decode()
    # ignore pure line-number doc-comment changes
    real = [l for l in d.split('\n') if l[:1] in ('<','>') and not l[2:].startswith('/--') and not l[2:].startswith('/-!')]
    print("=== %s: failed=%s ; generated %s" % (name, failed or '{}', 'UNCHANGED' if not real else 'CHANGED'))
    if show and real: print('\n'.join(real[:30]))
    return failed, real
