import Spike.Basic
import Spike.Proofs
import Spike.Write
import Spike.Main
import Spike.Queue
import Spike.QueueProofs
