/-! Spike: MulticastOutgoingQueue as a timed state machine (design-phase feasibility study) -/

structure Group where
  sa : Int          -- send_after
  sb : Int          -- send_before
  recs : List Nat   -- record ids (additionals omitted)
  deriving Repr

structure Q where
  groups : List Group
  timer : Option Int      -- due time of the single armed call_at, if any
  deriving Repr

/-- parameters: `addl` = additional delay (0 / 1000), `agg` = aggregation delay (500 / 200) -/
structure P where
  addl : Int
  agg : Int
  lo : Int := 20
  hi : Int := 120

def union (a b : List Nat) : List Nat := a ++ b.filter (fun x => !a.contains x)

/-- `async_add(now, answers)` with the random draw made explicit -/
def Q.add (p : P) (q : Q) (now draw : Int) (recs : List Nat) : Q :=
  let sa := now + draw + p.addl
  let sb := now + p.agg + p.addl
  match q.groups.getLast? with
  | some last =>
    if sa ≤ last.sa then
      { q with groups := q.groups.dropLast ++ [{ last with recs := union last.recs recs }] }
    else
      { q with groups := q.groups ++ [{ sa := sa, sb := sb, recs := recs }] }
  | none =>
    { groups := [{ sa := sa, sb := sb, recs := recs }], timer := some sa }

def popReady (now : Int) : List Group → List Nat → List Group × List Nat
  | [], acc => ([], acc)
  | g :: gs, acc => if g.sa ≤ now then popReady now gs (union acc g.recs) else (g :: gs, acc)

/-- `async_ready()` at time `now`; returns the new state and the batch that is multicast -/
def Q.ready (q : Q) (now : Int) : Q × List Nat :=
  match q.groups with
  | g :: _ :: _ =>
    if g.sb > now then ({ q with timer := some g.sb }, [])
    else
      let (rest, batch) := popReady now q.groups []
      let rest' := rest.map (fun h => { h with recs := h.recs.filter (fun x => !batch.contains x) })
      ({ groups := rest', timer := rest'.head?.map (·.sa) }, batch)
  | _ =>
      let (rest, batch) := popReady now q.groups []
      let rest' := rest.map (fun h => { h with recs := h.recs.filter (fun x => !batch.contains x) })
      ({ groups := rest', timer := rest'.head?.map (·.sa) }, batch)

def Q.notOverdue (q : Q) (now : Int) : Bool :=
  match q.timer with
  | some d => decide (now ≤ d)
  | none => true

inductive Ev where
  | add (now draw : Int) (recs : List Nat)
  | fire (now : Int)

/-- run a trace, collecting (time, batch) outputs; `none` if the trace violates the loop axioms -/
def run (p : P) : Q → Int → List Ev → Option (Q × List (Int × List Nat))
  | q, _, [] => some (q, [])
  | q, clock, .add now draw recs :: evs =>
    -- clock monotone, never past a due timer, draw in range
    if clock ≤ now ∧ p.lo ≤ draw ∧ draw ≤ p.hi ∧ q.notOverdue now = true then
      run p (q.add p now draw recs) now evs
    else none
  | q, clock, .fire now :: evs =>
    if clock ≤ now ∧ q.timer = some now then
      let (q', batch) := q.ready now
      (run p q' now evs).map (fun r => (r.1, (now, batch) :: r.2))
    else none
