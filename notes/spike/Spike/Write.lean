import Spike.Proofs

theorem toUInt8_toNat_lt (n : Nat) (h : n < 256) : (n.toUInt8).toNat = n := by
  simp only [Nat.toUInt8_eq, UInt8.toNat_ofNat']; omega

/-- one label step of the decoder -/
theorem decFrom_label (buf : List Byte) (f S off : Nat) (l : Label) (tail : List Byte) (rest : Name) (e : Nat)
    (hl0 : 0 < l.length) (hl : l.length < 64)
    (hoff : off ≤ buf.length)
    (hb : buf.drop off = l.length.toUInt8 :: (l ++ tail))
    (hrec : decFrom buf f S (off + 1 + l.length) = some (rest, e)) :
    decFrom buf f S off = some (l :: rest, e) := by
  cases f with
  | zero => simp [decFrom] at hrec
  | succ f =>
    have hlen : (l.length.toUInt8).toNat = l.length := toUInt8_toNat_lt _ (by omega)
    have hdrop : buf.drop (off + 1 + l.length) = tail := by
      have : buf.drop (off + 1 + l.length) = (buf.drop off).drop (1 + l.length) := by
        rw [List.drop_drop]; congr 1; omega
      rw [this, hb]; simp [Nat.add_comm 1]
    have htl : tail.length < buf.length := by
      have := congrArg List.length hb
      simp at this; omega
    rw [decFrom] at hrec ⊢
    rw [hdrop] at hrec
    rw [hb]
    simp only [scan, hlen]
    have h0 : ¬ l.length = 0 := by omega
    have hnl : ¬ (l ++ tail).length < l.length := by simp
    simp only [h0, hl, hnl, if_true, if_false]
    have hd2 : (l ++ tail).drop l.length = tail := by simp
    have ht2 : (l ++ tail).take l.length = l := by simp
    rw [hd2, ht2]
    rw [scan_fuel tail (off + 1 + l.length) buf.length (buf.length + 1) htl (by omega)]
    cases hs : scan tail (off + 1 + l.length) (buf.length + 1) with
    | fin ls e' => simp [hs] at hrec ⊢; exact hrec
    | ptr ls k e' =>
      simp only [hs] at hrec ⊢
      split at hrec
      · rename_i hk
        simp only [hk, if_true]
        cases hd : decFrom buf f k k with
        | none => simp [hd] at hrec
        | some r2 => simp [hd] at hrec ⊢; exact hrec
      · simp at hrec
    | bad => simp [hs] at hrec

theorem decFrom_zero (buf : List Byte) (S off : Nat) (tail : List Byte)
    (hb : buf.drop off = 0 :: tail) : decFrom buf 1 S off = some ([], off + 1) := by
  rw [decFrom, hb]; simp [scan]

theorem decFrom_ptr (buf : List Byte) (f S off idx : Nat) (n : Name) (e0 : Nat) (tail : List Byte)
    (hidx : idx < 16384) (hS : idx < S)
    (hb : buf.drop off = ptrBytes idx ++ tail)
    (hrec : decFrom buf f idx idx = some (n, e0)) :
    decFrom buf (f + 1) S off = some (n, off + 2) := by
  rw [decFrom, hb]
  have h1 : ((idx / 256 + 192).toUInt8).toNat = idx / 256 + 192 := toUInt8_toNat_lt _ (by omega)
  have h2 : ((idx % 256).toUInt8).toNat = idx % 256 := toUInt8_toNat_lt _ (by omega)
  simp only [ptrBytes, List.cons_append, List.nil_append, scan, h1, h2]
  have a0 : ¬ idx / 256 + 192 = 0 := by omega
  have a1 : ¬ idx / 256 + 192 < 64 := by omega
  have a2 : ¬ idx / 256 + 192 < 192 := by omega
  have a3 : (idx / 256 + 192 - 192) * 256 + idx % 256 = idx := by omega
  simp only [a0, a1, a2, if_false, a3, hS, if_true, hrec, List.nil_append]
