import Spike.Basic

theorem scan_mono (l : List Byte) (off f : Nat) (r : Scan) (ext : List Byte) (k : Nat)
    (h : scan l off f = r) (hr : r ≠ .bad) : scan (l ++ ext) off (f + k) = r := by
  induction f generalizing l off r with
  | zero => simp [scan] at h; exact absurd h.symm hr
  | succ f ih =>
    cases l with
    | nil => simp [scan] at h; exact absurd h.symm hr
    | cons b rest =>
      rw [show f + 1 + k = (f + k) + 1 by omega]
      simp only [List.cons_append, scan] at h ⊢
      split at h
      · simp_all
      · split at h
        · split at h
          · exact absurd h.symm hr
          · rename_i hn hlt hlen
            have hlen' : ¬ (rest ++ ext).length < b.toNat := by simp; omega
            simp only [hn, hlt, hlen', if_false, if_true]
            have hd : (rest ++ ext).drop b.toNat = rest.drop b.toNat ++ ext := by
              rw [List.drop_append_of_le_length (by omega)]
            have ht : (rest ++ ext).take b.toNat = rest.take b.toNat := by
              rw [List.take_append_of_le_length (by omega)]
            rw [hd, ht]
            cases hs : scan (rest.drop b.toNat) (off + 1 + b.toNat) f with
            | fin ls e => rw [ih _ _ _ hs (by simp)]; simpa [hs] using h
            | ptr ls k' e => rw [ih _ _ _ hs (by simp)]; simpa [hs] using h
            | bad => simp [hs] at h; exact absurd h.symm hr
        · split at h
          · exact absurd h.symm hr
          · rename_i hn h64 h192
            simp only [hn, h64, h192, if_false]
            cases rest with
            | nil => simp at h; exact absurd h.symm hr
            | cons b2 r2 => simpa using h

/-- fuel is irrelevant once it exceeds the length of the list -/
theorem scan_fuel (l : List Byte) (off f1 f2 : Nat) (h1 : l.length < f1) (h2 : l.length < f2) :
    scan l off f1 = scan l off f2 := by
  induction f1 generalizing l off f2 with
  | zero => omega
  | succ f1 ih =>
    cases f2 with
    | zero => omega
    | succ f2 =>
      cases l with
      | nil => simp [scan]
      | cons b rest =>
        simp only [scan]
        have hl : rest.length = (b :: rest).length - 1 := by simp
        have := ih (rest.drop b.toNat) (off + 1 + b.toNat) f2
          (by simp at h1 ⊢; omega) (by simp at h2 ⊢; omega)
        rw [this]

theorem decFrom_append (buf ext : List Byte) (f S off : Nat) (r : Name × Nat)
    (h : decFrom buf f S off = some r) : decFrom (buf ++ ext) f S off = some r := by
  induction f generalizing S off r with
  | zero => simp [decFrom] at h
  | succ f ih =>
    simp only [decFrom] at h ⊢
    by_cases hoff : off ≤ buf.length
    · have hd : (buf ++ ext).drop off = buf.drop off ++ ext := by
        rw [List.drop_append_of_le_length hoff]
      rw [hd, show (buf ++ ext).length + 1 = (buf.length + 1) + ext.length by simp; omega]
      cases hs : scan (buf.drop off) off (buf.length + 1) with
      | fin ls e => rw [scan_mono _ _ _ _ ext ext.length hs (by simp)]; simpa [hs] using h
      | ptr ls k e =>
        rw [scan_mono _ _ _ _ ext ext.length hs (by simp)]
        simp only [hs] at h ⊢
        split at h
        · rename_i hk
          simp only [hk, if_true]
          cases hd2 : decFrom buf f k k with
          | none => simp [hd2] at h
          | some r2 => rw [ih _ _ _ hd2]; simpa [hd2] using h
        · simp at h
      | bad => simp [hs] at h
    · have : buf.drop off = [] := List.drop_eq_nil_of_le (by omega)
      simp [this, scan] at h

theorem decFrom_fuel_mono (buf : List Byte) (f S off : Nat) (r : Name × Nat)
    (h : decFrom buf f S off = some r) : decFrom buf (f + 1) S off = some r := by
  induction f generalizing S off r with
  | zero => simp [decFrom] at h
  | succ f ih =>
    rw [decFrom] at h ⊢
    cases hs : scan (buf.drop off) off (buf.length + 1) with
    | fin ls e => simpa [hs] using h
    | ptr ls k e =>
      simp only [hs] at h ⊢
      split at h
      · rename_i hk
        simp only [hk, if_true]
        cases hd2 : decFrom buf f k k with
        | none => simp [hd2] at h
        | some r2 => rw [ih _ _ _ hd2]; simpa [hd2] using h
      · simp at h
    | bad => simp [hs] at h

theorem decFrom_fuel_le (buf : List Byte) (f g S off : Nat) (r : Name × Nat) (hfg : f ≤ g)
    (h : decFrom buf f S off = some r) : decFrom buf g S off = some r := by
  induction hfg with
  | refl => exact h
  | step _ ih => exact decFrom_fuel_mono _ _ _ _ _ ih

theorem decFrom_start_mono (buf : List Byte) (f S S' off : Nat) (r : Name × Nat) (hS : S ≤ S')
    (h : decFrom buf f S off = some r) : decFrom buf f S' off = some r := by
  cases f with
  | zero => simp [decFrom] at h
  | succ f =>
    rw [decFrom] at h ⊢
    cases hs : scan (buf.drop off) off (buf.length + 1) with
    | fin ls e => simpa [hs] using h
    | ptr ls k e =>
      simp only [hs] at h ⊢
      split at h
      · rename_i hk
        have : k < S' := by omega
        simpa [this] using h
      · simp at h
    | bad => simp [hs] at h
