/-! Spike: DNS name compression round trip (design-phase feasibility study, not framework code) -/

abbrev Byte := UInt8
abbrev Label := List Byte
abbrev Name := List Label

inductive Scan where
  | fin (labels : Name) (e : Nat)
  | ptr (labels : Name) (link : Nat) (e : Nat)
  | bad
  deriving Repr, DecidableEq

/-- scan labels forward; `l` is `buf.drop off` -/
def scan : (l : List Byte) → (off : Nat) → (fuel : Nat) → Scan
  | _, _, 0 => .bad
  | [], _, _ => .bad
  | b :: rest, off, fuel+1 =>
    let n := b.toNat
    if n = 0 then .fin [] (off+1)
    else if n < 64 then
      if rest.length < n then .bad
      else match scan (rest.drop n) (off+1+n) fuel with
        | .fin ls e => .fin (rest.take n :: ls) e
        | .ptr ls k e => .ptr (rest.take n :: ls) k e
        | .bad => .bad
    else if n < 192 then .bad
    else match rest with
      | [] => .bad
      | b2 :: _ => .ptr [] ((n - 192) * 256 + b2.toNat) (off+2)

/-- strict decode from `off` inside a name that started at `S`; pointers must target `< S` -/
def decFrom (buf : List Byte) : (fuel : Nat) → (S : Nat) → (off : Nat) → Option (Name × Nat)
  | 0, _, _ => none
  | fuel+1, S, off =>
    match scan (buf.drop off) off (buf.length + 1) with
    | .fin ls e => some (ls, e)
    | .ptr ls k e =>
      if k < S then
        match decFrom buf fuel k k with
        | some (rest, _) => some (ls ++ rest, e)
        | none => none
      else none
    | .bad => none

def decName (buf : List Byte) (fuel off : Nat) := decFrom buf fuel off off

/-- Encoder state: bytes written so far (absolute, header included) and the names table -/
structure Enc where
  buf : List Byte
  names : List (Name × Nat)

def lookupName (names : List (Name × Nat)) (n : Name) : Option Nat :=
  (names.find? (fun p => p.1 = n)).map (·.2)

def ptrBytes (idx : Nat) : List Byte := [(idx / 256 + 192).toUInt8, (idx % 256).toUInt8]

def writeName : Enc → Name → Option Enc
  | st, [] => some { st with buf := st.buf ++ [0] }
  | st, l :: rest =>
    match lookupName st.names (l :: rest) with
    | some idx => some { st with buf := st.buf ++ ptrBytes idx }
    | none =>
      if l.length = 0 ∨ l.length > 63 then none
      else
        writeName { buf := st.buf ++ (l.length.toUInt8 :: l), names := (l :: rest, st.buf.length) :: st.names } rest
