import Spike.Queue

theorem mem_union {a b : List Nat} {x : Nat} : x ∈ union a b ↔ x ∈ a ∨ x ∈ b := by
  unfold union
  simp only [List.mem_append, List.mem_filter, Bool.not_eq_true', List.contains_eq_mem, decide_eq_false_iff_not]
  constructor
  · rintro (h | ⟨h, _⟩)
    · exact Or.inl h
    · exact Or.inr h
  · intro h
    by_cases ha : x ∈ a
    · exact Or.inl ha
    · rcases h with h | h
      · exact Or.inl h
      · exact Or.inr ⟨h, ha⟩

/-- every record of a group comes from an `add` whose window contains the group's window -/
def Origin (p : P) (hist : List Ev) (g : Group) (r : Nat) : Prop :=
  ∃ t d rs, Ev.add t d rs ∈ hist ∧ r ∈ rs ∧ t + p.lo + p.addl ≤ g.sa ∧ g.sb ≤ t + p.agg + p.addl

theorem Origin.mono {p hist hist' g r} (h : Origin p hist g r) (hs : ∀ e ∈ hist, e ∈ hist') : Origin p hist' g r := by
  obtain ⟨t, d, rs, h1, h2⟩ := h
  exact ⟨t, d, rs, hs _ h1, h2⟩

structure QInv (p : P) (hist : List Ev) (q : Q) : Prop where
  origin : ∀ g ∈ q.groups, ∀ r ∈ g.recs, Origin p hist g r
  sorted : q.groups.Pairwise (fun a b => a.sa < b.sa ∧ a.sb ≤ b.sb)
  window : ∀ g ∈ q.groups, g.sa ≤ g.sb
  timer  : match q.groups with
           | [] => q.timer = none
           | g :: _ => ∃ d, q.timer = some d ∧ g.sa ≤ d ∧ d ≤ g.sb

/-- what `popReady` returns -/
theorem popReady_spec (now : Int) : ∀ (gs : List Group) (acc : List Nat) (rest : List Group) (batch : List Nat),
    popReady now gs acc = (rest, batch) →
    (∃ popped, gs = popped ++ rest ∧ (∀ g ∈ popped, g.sa ≤ now) ∧
      (∀ r, r ∈ batch ↔ r ∈ acc ∨ ∃ g ∈ popped, r ∈ g.recs) ∧
      (match rest with | [] => True | h :: _ => now < h.sa)) := by
  intro gs
  induction gs with
  | nil =>
    intro acc rest batch h
    simp [popReady] at h
    obtain ⟨rfl, rfl⟩ := h
    exact ⟨[], by simp⟩
  | cons g gs ih =>
    intro acc rest batch h
    simp only [popReady] at h
    split at h
    · rename_i hg
      obtain ⟨popped, h1, h2, h3, h4⟩ := ih _ _ _ h
      refine ⟨g :: popped, by simp [h1], ?_, ?_, h4⟩
      · intro x hx
        simp at hx
        rcases hx with rfl | hx
        · exact hg
        · exact h2 _ hx
      · intro r
        rw [h3 r, mem_union]
        simp only [List.mem_cons, exists_eq_or_imp]
        constructor
        · rintro ((h | h) | h)
          · exact Or.inl h
          · exact Or.inr (Or.inl h)
          · exact Or.inr (Or.inr h)
        · rintro (h | h | h)
          · exact Or.inl (Or.inl h)
          · exact Or.inl (Or.inr h)
          · exact Or.inr h
    · rename_i hg
      simp at h
      obtain ⟨rfl, rfl⟩ := h
      refine ⟨[], by simp, by simp, by simp, ?_⟩
      simp; omega

/-- the batch sent by `ready` at the timer instant only contains records inside their window -/
theorem ready_batch_window (p : P) (hist : List Ev) (q : Q) (now : Int) (hI : QInv p hist q)
    (ht : q.timer = some now) :
    ∀ r ∈ (q.ready now).2, ∃ t d rs, Ev.add t d rs ∈ hist ∧ r ∈ rs ∧ t + p.lo + p.addl ≤ now ∧ now ≤ t + p.agg + p.addl := by
  -- common part: a batch produced by popReady over all groups
  have key : ∀ (rest : List Group) (batch : List Nat), popReady now q.groups [] = (rest, batch) →
      (∀ g ∈ q.groups, now ≤ g.sb) →
      ∀ r ∈ batch, ∃ t d rs, Ev.add t d rs ∈ hist ∧ r ∈ rs ∧ t + p.lo + p.addl ≤ now ∧ now ≤ t + p.agg + p.addl := by
    intro rest batch hp hsb r hr
    obtain ⟨popped, h1, h2, h3, _⟩ := popReady_spec now _ _ _ _ hp
    rw [h3] at hr
    rcases hr with hr | ⟨g, hg, hr⟩
    · simp at hr
    · have hgq : g ∈ q.groups := by rw [h1]; simp [hg]
      obtain ⟨t, d, rs, e1, e2, e3, e4⟩ := hI.origin g hgq r hr
      exact ⟨t, d, rs, e1, e2, by have := h2 g hg; omega, by have := hsb g hgq; omega⟩
  -- all groups have sb ≥ now because the head does and sb is sorted
  have hsb : ∀ g ∈ q.groups, now ≤ g.sb := by
    have htm := hI.timer
    cases hq : q.groups with
    | nil => simp
    | cons g0 gs =>
      rw [hq] at htm
      obtain ⟨d, hd, _, hd2⟩ := htm
      rw [ht] at hd
      have hd' : d = now := by simpa using hd.symm
      have hs := hI.sorted
      rw [hq] at hs
      intro g hg
      simp at hg
      rcases hg with rfl | hg
      · omega
      · have := (List.pairwise_cons.mp hs).1 g hg
        omega
  intro r hr
  unfold Q.ready at hr
  split at hr
  · split at hr
    · simp at hr
    · cases hp : popReady now q.groups [] with
      | mk rest batch =>
        rw [hp] at hr
        exact key rest batch hp hsb r hr
  · cases hp : popReady now q.groups [] with
    | mk rest batch =>
      rw [hp] at hr
      exact key rest batch hp hsb r hr
