import Spike.Write

def GoodBefore (S : Nat) (buf : List Byte) (p : Name × Nat) : Prop :=
  p.1 ≠ [] ∧ p.2 < S ∧ p.2 < 16384 ∧ ∃ f e, decFrom buf f p.2 p.2 = some (p.1, e)

theorem GoodBefore.append {S buf p} (ext : List Byte) (h : GoodBefore S buf p) : GoodBefore S (buf ++ ext) p := by
  obtain ⟨h1, h2, h3, f, e, h4⟩ := h
  exact ⟨h1, h2, h3, f, e, decFrom_append _ _ _ _ _ _ h4⟩

theorem lookupName_some {names : List (Name × Nat)} {n : Name} {idx : Nat}
    (h : lookupName names n = some idx) : (n, idx) ∈ names := by
  unfold lookupName at h
  cases hf : names.find? (fun p => p.1 = n) with
  | none => simp [hf] at h
  | some p =>
    simp [hf] at h
    have hm := List.mem_of_find?_eq_some hf
    have hp := List.find?_some hf
    simp at hp
    have : p = (n, idx) := by cases p; simp_all
    rw [← this]; exact hm

theorem ptrBytes_length (idx : Nat) : (ptrBytes idx).length = 2 := rfl

theorem writeName_gen : ∀ (rest : Name) (st st' : Enc) (S : Nat),
    S ≤ st.buf.length →
    (∀ p ∈ st.names, rest.length < p.1.length ∨ GoodBefore S st.buf p) →
    writeName st rest = some st' →
    st'.buf.length ≤ 16384 →
    ∃ ext, st'.buf = st.buf ++ ext ∧ 0 < ext.length ∧
      (∃ f, decFrom st'.buf f S st.buf.length = some (rest, st'.buf.length)) ∧
      (∀ p ∈ st'.names, p ∈ st.names ∨
        (p.1 ≠ [] ∧ st.buf.length ≤ p.2 ∧ p.2 < st'.buf.length ∧
          ∃ f, decFrom st'.buf f S p.2 = some (p.1, st'.buf.length))) := by
  intro rest
  induction rest with
  | nil =>
    intro st st' S hS hnames hw hfin
    simp only [writeName, Option.some.injEq] at hw
    subst hw
    refine ⟨[0], rfl, by simp, ⟨1, ?_⟩, ?_⟩
    · have := decFrom_zero (st.buf ++ [0]) S st.buf.length [] (by simp)
      simpa using this
    · intro p hp; exact Or.inl hp
  | cons l rest' ih =>
    intro st st' S hS hnames hw hfin
    rw [writeName] at hw
    cases hlk : lookupName st.names (l :: rest') with
    | some idx =>
      simp only [hlk, Option.some.injEq] at hw
      subst hw
      have hmem := lookupName_some hlk
      have hg : GoodBefore S st.buf (l :: rest', idx) := by
        rcases hnames _ hmem with h | h
        · simp at h
        · exact h
      obtain ⟨_, hidxS, hidx, f, e0, hdec⟩ := hg
      refine ⟨ptrBytes idx, rfl, by simp [ptrBytes_length], ⟨f + 1, ?_⟩, ?_⟩
      · have hd := decFrom_append st.buf (ptrBytes idx) f idx idx _ hdec
        have := decFrom_ptr (st.buf ++ ptrBytes idx) f S st.buf.length idx (l :: rest') e0 []
          hidx hidxS (by simp) hd
        simpa [ptrBytes_length] using this
      · intro p hp; exact Or.inl hp
    | none =>
      simp only [hlk] at hw
      split at hw
      · simp at hw
      · rename_i hlen
        have hl0 : 0 < l.length := by omega
        have hl : l.length < 64 := by omega
        let st1 : Enc := { buf := st.buf ++ (l.length.toUInt8 :: l), names := (l :: rest', st.buf.length) :: st.names }
        have hS1 : S ≤ st1.buf.length := by simp [st1]; omega
        have hn1 : ∀ p ∈ st1.names, rest'.length < p.1.length ∨ GoodBefore S st1.buf p := by
          intro p hp
          simp only [st1, List.mem_cons] at hp
          rcases hp with rfl | hp
          · left; simp
          · rcases hnames p hp with h | h
            · left; simp at h; omega
            · right; exact h.append _
        obtain ⟨ext1, hbuf, hpos, ⟨f, hdec⟩, hnew⟩ := ih st1 st' S hS1 hn1 hw hfin
        have hbuf' : st'.buf = st.buf ++ ((l.length.toUInt8 :: l) ++ ext1) := by
          rw [hbuf]; simp [st1]
        have hlen1 : st1.buf.length = st.buf.length + 1 + l.length := by simp [st1]; omega
        have hdec0 : decFrom st'.buf f S st.buf.length = some (l :: rest', st'.buf.length) := by
          apply decFrom_label st'.buf f S st.buf.length l ext1 rest' _ hl0 hl
          · rw [hbuf']; simp
          · rw [hbuf']; simp
          · rw [← hlen1]; exact hdec
        refine ⟨(l.length.toUInt8 :: l) ++ ext1, hbuf', by simp, ⟨f, hdec0⟩, ?_⟩
        intro p hp
        rcases hnew p hp with h | h
        · simp only [st1, List.mem_cons] at h
          rcases h with rfl | h
          · right
            refine ⟨by simp, Nat.le_refl _, ?_, f, hdec0⟩
            rw [hbuf']; simp
          · exact Or.inl h
        · right
          obtain ⟨a, b, c, d⟩ := h
          exact ⟨a, by omega, c, d⟩
