import asyncio, random, socket, sys, struct, traceback
from vsim2 import *
from zeroconf import ServiceInfo, const, ServiceListener, DNSOutgoing, DNSQuestion, DNSIncoming
from zeroconf.asyncio import AsyncServiceBrowser, AsyncServiceInfo
import t_c02
T='_a._tcp.local.'
DEBUG=False
class L(ServiceListener):
    def __init__(s): s.ev=[]
    def add_service(s, zc, t, n): s.ev.append(('add',n))
    def remove_service(s, zc, t, n): s.ev.append(('rem',n))
    def update_service(s, zc, t, n): pass
async def main(loop, rng):
    net = Net(loop, rng, maxdelay=20)
    a = Host(net,'A','10.0.0.1'); b = Host(net,'B','10.0.0.2')
    za = make_zc(a); zb = make_zc(b); await za.async_wait_for_start(); await zb.async_wait_for_start()
    info = ServiceInfo(T, f's.{T}', 80, addresses=[socket.inet_aton('10.0.0.1')], server='ha.local.')
    t = await za.async_register_service(info); await t
    lis=L(); br = AsyncServiceBrowser(za, [T, '_b._tcp.local.'], listener=lis)
    lk = asyncio.ensure_future(AsyncServiceInfo('_b._tcp.local.', 'nosuch._b._tcp.local.').async_request(za, 5000))
    exc=[]
    captured=[]
    orig_send = net.send
    def cap(src, data, addr):
        captured.append(data); orig_send(src, data, addr)
    net.send = cap
    for i in range(rng.randint(20,120)):
        await asyncio.sleep(rng.choice([0,0,0.001,0.05,0.3,1.2,11]))
        k=rng.random()
        if k<0.6 or not captured: d=t_c02.gen(rng)
        else:
            p=bytearray(rng.choice(captured))
            for _ in range(rng.randint(0,3)):
                if p: p[rng.randrange(len(p))]=rng.choice([0,0xc0,0x0c,0xff,0x80,63,64])
            d=bytes(p)
        if rng.random()<0.05: d = d + bytes(9000)
        src=(rng.choice(['10.0.0.7','10.0.0.2','10.0.0.1']), rng.choice([5353,5353,40000,53]))
        try: a.deliver(d, src)
        except BaseException as e:
            exc.append((type(e).__name__, d.hex()[:120], src)); 
    # canaries
    n0=len(net.log)
    out = DNSOutgoing(const._FLAGS_QR_QUERY); out.add_question(DNSQuestion(info.name, const._TYPE_SRV, const._CLASS_IN))
    a.deliver(out.packets()[0], ('10.0.0.2', 5353))
    await asyncio.sleep(2)
    answered = any(s=='A' and not DNSIncoming(d).is_query() and any(r.type==33 and r.ttl>0 and r.name==info.name for r in DNSIncoming(d).answers()) for (tm,s,ip,p,d) in net.log[n0:])
    infob = ServiceInfo(T, f'canary.{T}', 81, addresses=[socket.inet_aton('10.0.0.2')], server='hb.local.')
    t = await zb.async_register_service(infob); await t
    await asyncio.sleep(1)
    seen = ('add', infob.name) in lis.ev
    if DEBUG: print([(tm,s_,DNSIncoming(d).is_query(),[(r.name,r.type,r.ttl) for r in DNSIncoming(d).answers()][:3]) for (tm,s_,ip,p,d) in net.log[n0:]], lis.ev, za.done, a.transport.closed)
    bad = list(exc)
    if not answered: bad.append(('canary query unanswered',))
    if not seen: bad.append(('canary announcement unseen', lis.ev[-3:]))
    # scheduler alive?
    if br.query_scheduler._next_run is None or br.query_scheduler._next_run.cancelled(): bad.append(('scheduler dead',))
    lk.cancel()
    await br.async_cancel(); await za._async_close(); await zb._async_close()
    return bad
if len(sys.argv)>2: DEBUG=True
nb=0
for seed in range(int(sys.argv[1])):
    res, errs = run(main, seed)
    errs=[(e.get('message'), repr(e.get('exception'))) for e in errs if 'Cancelled' not in repr(e.get('exception'))]
    if res or errs:
        nb+=1
        if nb<=8: print(seed, str(res)[:400], errs[:2])
print('bad', nb)
