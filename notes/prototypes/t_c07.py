import asyncio, random, socket, sys
from vsim2 import *
from zeroconf import ServiceInfo, const, ServiceListener
from zeroconf.asyncio import AsyncServiceBrowser, AsyncServiceInfo

DEBUG=False
TYPES = ['_a._tcp.local.', '_b._tcp.local.']
class L(ServiceListener):
    def __init__(s, loop, zc): s.ev=[]; s.live=set(); s.loop=loop; s.bad=[]; s.zc=zc
    def add_service(s, zc, t, n):
        if n in s.live: s.bad.append(('double add', n))
        s.live.add(n); s.ev.append((s.loop.ms-1_000_000,'add',n))
    def remove_service(s, zc, t, n):
        if n not in s.live: s.bad.append(('rem w/o add', n))
        s.live.discard(n); s.ev.append((s.loop.ms-1_000_000,'rem',n))
    def update_service(s, zc, t, n): pass

async def main(loop, rng, drop):
    net = Net(loop, rng, maxdelay=100); net.drop_index = drop
    nh = rng.randint(2,4)
    hosts = [Host(net, f'H{i}', f'10.0.0.{i+1}') for i in range(nh)]
    for h in hosts:
        make_zc(h); await h.zc.async_wait_for_start()
    registered = {}   # name -> (host, info)
    browsers = []
    actions = []
    nsvc = rng.randint(1,5)
    tasks = []
    async def do_register(h, i):
        ty = rng.choice(TYPES)
        info = ServiceInfo(ty, f's{i}.{ty}', 80+i, addresses=[socket.inet_aton(h.ip)], server=f'{h.name.lower()}.local.', properties={'k': str(i)})
        await asyncio.sleep(rng.randint(0, 3000)/1000)
        if h.zc.done: return
        try:
            t = await h.zc.async_register_service(info)
        except Exception: return
        if h.zc.done: return
        registered[info.name] = (h, info); await t
        k = rng.random()
        if k < 0.35:
            await asyncio.sleep(rng.randint(0, 4000)/1000)
            if h.zc.done: return
            registered.pop(info.name, None)
            t = await h.zc.async_unregister_service(info); await t
        elif k < 0.55:
            await asyncio.sleep(rng.randint(0, 4000)/1000)
            if h.zc.done: return
            info.port = 9000+i
            t = await h.zc.async_update_service(info); await t
    async def do_browse(h):
        await asyncio.sleep(rng.randint(0, 5000)/1000)
        ty = rng.choice(TYPES); l = L(loop, h.zc)
        if h.zc.done: return
        br = AsyncServiceBrowser(h.zc, [ty], listener=l); browsers.append((h, ty, l, br))
    async def do_close(h):
        await asyncio.sleep(rng.randint(1000, 6000)/1000)
        from zeroconf.asyncio import AsyncZeroconf
        for n in [n for n,(hh,_) in registered.items() if hh is h]: del registered[n]
        await AsyncZeroconf(zc=h.zc).async_close()
    closing = rng.choice(hosts) if (len(hosts)>2 and rng.random()<0.3) else None
    for i in range(nsvc): tasks.append(asyncio.ensure_future(do_register(rng.choice(hosts), i)))
    if closing: tasks.append(asyncio.ensure_future(do_close(closing)))
    for _ in range(rng.randint(1,3)): tasks.append(asyncio.ensure_future(do_browse(rng.choice(hosts))))
    await asyncio.gather(*tasks)
    last = loop.ms
    await asyncio.sleep(30)
    bad = []
    for (h, ty, l, br) in browsers:
        if h.zc.done: continue
        want = {n for n,(hh,info) in registered.items() if info.type == ty}
        if l.live != want: bad.append((h.name, ty, 'live', sorted(l.live), 'want', sorted(want), l.ev[-3:]))
        bad += l.bad
    if DEBUG: print([(h.name,ty,l.ev) for (h,ty,l,br) in browsers], sorted(registered), len(net.log))
    for (h, ty, l, br) in browsers:
        if not h.zc.done: await br.async_cancel()
    for h in hosts:
        if not h.zc.done: await h.zc._async_close()
    return bad, net.n
tot=0; nb=0
for seed in range(int(sys.argv[1])):
    (res, errs) = run(lambda l,r: main(l,r,None), seed)
    bad, n = res
    drops = [None] + random.Random(seed).sample(range(n), min(6, n))
    for d in drops:
        (res, errs) = run(lambda l,r: main(l,r,d), seed)
        tot+=1
        if res[0] or errs:
            nb+=1
            if nb<=6: print(seed, d, res[0][:2], errs[:1])
print('runs', tot, 'bad', nb)
async def dbg(loop, rng):
    r = await main(loop, rng, None)
    return r
