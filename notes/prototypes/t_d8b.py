import asyncio, struct, socket
from vsim2 import *
from zeroconf import const, ServiceListener, DNSIncoming
from zeroconf.asyncio import AsyncServiceBrowser
T='_x._tcp.local.'
class L(ServiceListener):
    def __init__(s): s.ev=[]
    def add_service(s, zc, t, n): s.ev.append(('add',n))
    def remove_service(s, zc, t, n): s.ev.append(('rem',n))
    def update_service(s, zc, t, n): pass
async def main(loop, rng):
    net = Net(loop, rng); b = Host(net,'B','10.0.0.2'); zb = make_zc(b); await zb.async_wait_for_start()
    lis = L(); br = AsyncServiceBrowser(zb, [T], listener=lis)
    await asyncio.sleep(0.5)
    name = b'\x02_x\x04_tcp\x05local\x00'
    lab = b'\xff'*30
    rdata = bytes([len(lab)]) + lab + b'\xc0\x0c'
    pkt = struct.pack('>HHHHHH', 0, 0x8400, 0, 1, 0, 0) + name + struct.pack('>HHIH', 12, 1, 4500, len(rdata)) + rdata
    b.deliver(pkt, ('10.0.0.9', 5353))
    await asyncio.sleep(30)
    qs = [(t, DNSIncoming(d).is_query()) for (t,s,ip,p,d) in net.log]
    print('events', [(e, len(n)) for e,n in lis.ev], 'queries sent at', [t for t,q in qs if q])
    await br.async_cancel(); await zb._async_close()
r, errs = run(main); print([ (e.get('message'), repr(e.get('exception'))) for e in errs])
