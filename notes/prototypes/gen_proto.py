"""Prototype: Python ast -> Lean for constants and leaf expressions."""
import ast, sys, pathlib
SRC = pathlib.Path('/repo/src/zeroconf')

class Fail(Exception): pass

def load(rel): return ast.parse((SRC/rel).read_text())

def consts(tree, env):
    for node in tree.body:
        if isinstance(node, ast.Assign) and len(node.targets) == 1 and isinstance(node.targets[0], ast.Name):
            try:
                env[node.targets[0].id] = cev(node.value, env)
            except Fail: pass
    return env

def cev(e, env):
    if isinstance(e, ast.Constant) and isinstance(e.value, (int, float)) and not isinstance(e.value, bool): return e.value
    if isinstance(e, ast.Name) and e.id in env: return env[e.id]
    if isinstance(e, ast.Tuple): return tuple(cev(x, env) for x in e.elts)
    if isinstance(e, ast.BinOp):
        a, b = cev(e.left, env), cev(e.right, env)
        ops = {ast.Add: lambda:a+b, ast.Sub: lambda:a-b, ast.Mult: lambda:a*b, ast.BitOr: lambda:a|b, ast.BitAnd: lambda:a&b, ast.Div: lambda:a/b, ast.FloorDiv: lambda:a//b}
        for k,f in ops.items():
            if isinstance(e.op, k): return f()
    raise Fail(ast.dump(e))

def find_func(tree, cls, fn):
    for node in tree.body:
        if cls is None and isinstance(node, ast.FunctionDef) and node.name == fn: return node
        if isinstance(node, ast.ClassDef) and node.name == cls:
            for n in node.body:
                if isinstance(n, (ast.FunctionDef, ast.AsyncFunctionDef)) and n.name == fn: return n
    raise Fail(f'no {cls}.{fn}')

CMP = {ast.LtE:'≤', ast.Lt:'<', ast.GtE:'≥', ast.Gt:'>', ast.Eq:'==', ast.NotEq:'!='}
BIN = {ast.Add:'+', ast.Sub:'-', ast.Mult:'*', ast.FloorDiv:'/', ast.Mod:'%'}
def tr(e, env, params, selfmap):
    """translate expression to (lean_string, type) with type in {'int','bool'}"""
    if isinstance(e, ast.Constant):
        if isinstance(e.value, bool): return ('true' if e.value else 'false', 'bool')
        if isinstance(e.value, int): return (f'({e.value} : Int)', 'int')
    if isinstance(e, ast.Name):
        if e.id in params: return (params[e.id], 'int')
        if e.id in env and isinstance(env[e.id], int): return (f'({env[e.id]} : Int)', 'int')
        if e.id in env and isinstance(env[e.id], float) and env[e.id] == int(env[e.id]): return (f'({int(env[e.id])} : Int)', 'int')
    if isinstance(e, ast.Attribute) and isinstance(e.value, ast.Name):
        key = f'{e.value.id}.{e.attr}'
        if key in selfmap: return (selfmap[key], 'int')
    if isinstance(e, ast.BinOp) and type(e.op) in BIN:
        a, ta = tr(e.left, env, params, selfmap); b, tb = tr(e.right, env, params, selfmap)
        if ta == tb == 'int': return (f'({a} {BIN[type(e.op)]} {b})', 'int')
    if isinstance(e, ast.Compare) and len(e.ops) == 1 and type(e.ops[0]) in CMP:
        a, ta = tr(e.left, env, params, selfmap); b, tb = tr(e.comparators[0], env, params, selfmap)
        if ta == tb == 'int': return (f'(decide ({a} {CMP[type(e.ops[0])]} {b}))'.replace('==','=').replace('!=','≠'), 'bool')
    if isinstance(e, ast.BoolOp):
        parts = [tr(v, env, params, selfmap) for v in e.values]
        if all(t == 'bool' for _, t in parts):
            op = ' && ' if isinstance(e.op, ast.And) else ' || '
            return ('(' + op.join(p for p,_ in parts) + ')', 'bool')
    if isinstance(e, ast.UnaryOp) and isinstance(e.op, ast.Not):
        a, ta = tr(e.operand, env, params, selfmap)
        if ta == 'bool': return (f'(!{a})', 'bool')
    raise Fail(f'unsupported: {ast.unparse(e)}')

def single_return(fn):
    body = [s for s in fn.body if not (isinstance(s, ast.Expr) and isinstance(s.value, ast.Constant))]
    if len(body) == 1 and isinstance(body[0], ast.Return): return body[0].value
    raise Fail(f'{fn.name}: not a single return: {[type(s).__name__ for s in body]}')

env = {}
consts(load('const.py'), env); dns = load('_dns.py'); consts(dns, env)
out = ['namespace Zc.Gen', f'-- generated from {SRC}']
for k in ['_MAX_MSG_TYPICAL','_MAX_MSG_ABSOLUTE','_DNS_PTR_MIN_TTL','_DUPLICATE_QUESTION_INTERVAL','_CLASS_IN_UNIQUE','_EXPIRE_FULL_TIME_MS']:
    v = env[k]; assert v == int(v); out.append(f'def {k.strip("_").lower()} : Int := {int(v)}')
selfmap = {'self.created':'created', 'self.ttl':'ttl'}
for fnname in ['is_expired','is_stale','is_recent']:
    fn = find_func(dns, 'DNSRecord', fnname)
    s, t = tr(single_return(fn), env, {'now':'now'}, selfmap)
    out.append(f'def {fnname} (created ttl now : Int) : Bool := {s}')
fn = find_func(dns, 'DNSRecord', 'get_expiration_time')
s, t = tr(single_return(fn), env, {'percent':'percent'}, selfmap)
out.append(f'def get_expiration_time (created ttl percent : Int) : Int := {s}')
out.append('end Zc.Gen')
out.append('open Zc.Gen in\ntheorem isExpired_iff (c t n : Int) : is_expired c t n = true ↔ c + 1000 * t ≤ n := by simp [is_expired]')
out.append('open Zc.Gen in\ntheorem isStale_iff (c t n : Int) : is_stale c t n = true ↔ c + 500 * t ≤ n := by simp [is_stale]')
out.append('#eval Zc.Gen.is_recent 0 120 29999')
print('\n'.join(out))
