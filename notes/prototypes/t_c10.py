import asyncio, random, socket, sys
from vsim2 import *
from zeroconf import DNSIncoming, DNSOutgoing, DNSPointer, const, ServiceListener
from zeroconf.asyncio import AsyncServiceBrowser
TYPES=['_x._tcp.local.','_y._tcp.local.']
class L(ServiceListener):
    def __init__(s, loop): s.ev=[]; s.loop=loop
    def add_service(s, zc, t, n): s.ev.append((s.loop.ms,'add',n))
    def remove_service(s, zc, t, n): s.ev.append((s.loop.ms,'rem',n))
    def update_service(s, zc, t, n): pass
def resp(records):
    out = DNSOutgoing(const._FLAGS_QR_RESPONSE | const._FLAGS_AA)
    for r in records: out.add_answer_at_time(r, 0)
    return out.packets()[0]
async def main(loop, rng):
    net = Net(loop, rng); b = Host(net,'B','10.0.0.2'); zb = make_zc(b); await zb.async_wait_for_start()
    delay = rng.choice([1000, 10000, 60000])
    types = TYPES[:rng.randint(1,2)]
    lis=L(loop); t0=loop.ms
    br = AsyncServiceBrowser(zb, types, listener=lis, delay=delay)
    learned={}   # alias -> (type, created, ttl) latest
    # schedule learn events
    evs=[]
    for i in range(rng.randint(1,5)):
        at = rng.choice([0, 5, 20, 60, 300, 1000, 2000, rng.randint(0,3000)])
        ttl = rng.choice([1125, 1200, 2000, 4500, 9000, 60])
        ty = rng.choice(types)
        evs.append((at, ty, f'i{i}.{ty}', ttl))
    evs.sort()
    horizon = 12000
    for (at, ty, alias, ttl) in evs:
        await asyncio.sleep(max(0, (t0 + at*1000 - loop.ms)/1000))
        zb.record_manager.async_updates_from_response(DNSIncoming(resp([DNSPointer(ty, 12, 1, ttl, alias)]), now=float(loop.ms)))
        learned[alias]=(ty, loop.ms, max(ttl,1125))
    await asyncio.sleep(max(0,(t0 + horizon*1000 - loop.ms)/1000))
    queries=[(tm+1_000_000, {q.name for q in DNSIncoming(d).questions}) for (tm,s,ip,p,d) in net.log if DNSIncoming(d).is_query()]
    bad=[]
    qt=[t for t,_ in queries]
    # startup
    d=qt[0]-t0
    if not (20<=d<=120) or [x-qt[0] for x in qt[1:4]]!=[1000,5000,14000]: bad.append(('startup', d, [x-qt[0] for x in qt[1:4]]))
    # rate limit after startup
    for a_,b_ in zip(qt[3:], qt[4:]):
        if b_-a_ < delay: bad.append(('rate', b_-a_, delay))
    # refresh: for each learned record expect queries for its type within [c+pct*T*10, +delay] for pct in 75,85,95 (if before end)
    for alias,(ty,c,T) in learned.items():
        for pct in (75,85,95):
            due = c + pct*T*10
            if due + delay > t0 + horizon*1000: continue
            # the three refresh queries: 75% then +10% of ttl after the *actual* previous query time
            pass
        due = c + 750*T
        if due + delay <= t0 + horizon*1000:
            hit=[t for t,names in queries if ty in names and due <= t <= due+delay]
            if not hit: bad.append(('no 75% query', alias, T, (due-t0)//1000, [ (t-t0)//1000 for t,n in queries if ty in n][:8])); continue
            q1=hit[0]
            # rescue queries
            nxt=q1+100*T
            k=0
            while nxt < c+1000*T and nxt+delay <= t0+horizon*1000:
                hit2=[t for t,names in queries if ty in names and nxt <= t <= nxt+delay]
                if not hit2: bad.append(('no rescue', alias, T, k, (nxt-t0)//1000)); break
                nxt=hit2[0]+100*T; k+=1
        # removed only at expiry
        rem=[t for t,e,n in lis.ev if e=='rem' and n==alias]
        if rem and rem[0] < c+1000*T: bad.append(('early rem', alias))
    if br.query_scheduler._next_run is None or br.query_scheduler._next_run.cancelled(): bad.append(('dead',))
    await br.async_cancel(); await zb._async_close()
    return bad
nb=0
for seed in range(int(sys.argv[1])):
    res, errs = run(main, seed)
    if res or errs:
        nb+=1
        if nb<=6: print(seed, str(res)[:400], errs[:1])
print('bad', nb)
