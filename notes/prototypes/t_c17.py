import asyncio, random, socket, sys
from vsim2 import *
from zeroconf import ServiceInfo, const, ServiceListener, DNSOutgoing, DNSQuestion, DNSPointer
from zeroconf.asyncio import AsyncServiceBrowser, AsyncServiceInfo, AsyncZeroconf
T='_a._tcp.local.'
class L(ServiceListener):
    def __init__(s, loop): s.ev=[]; s.loop=loop
    def add_service(s, zc, t, n): s.ev.append((s.loop.ms,'add',n))
    def remove_service(s, zc, t, n): s.ev.append((s.loop.ms,'rem',n))
    def update_service(s, zc, t, n): s.ev.append((s.loop.ms,'upd',n))
async def main(loop, rng):
    net = Net(loop, rng, maxdelay=30)
    a = Host(net,'A','10.0.0.1'); b = Host(net,'B','10.0.0.2')
    za = make_zc(a); zb = make_zc(b); await za.async_wait_for_start(); await zb.async_wait_for_start()
    aza = AsyncZeroconf(zc=za)
    lis = L(loop)
    infos = [ServiceInfo(T, f's{i}.{T}', 80, addresses=[socket.inet_aton('10.0.0.1')], server='ha.local.') for i in range(2)]
    infob = ServiceInfo(T, f'sb.{T}', 80, addresses=[socket.inet_aton('10.0.0.2')], server='hb.local.')
    async def traffic():
        t = await zb.async_register_service(infob); await t
        while True:
            await asyncio.sleep(rng.randint(50, 900)/1000)
            out = DNSOutgoing(const._FLAGS_QR_QUERY | (const._FLAGS_TC if rng.random()<0.3 else 0))
            q = DNSQuestion(T, const._TYPE_PTR, const._CLASS_IN); q.unicast = rng.random()<0.3
            out.add_question(q)
            if rng.random()<0.5: out.add_question(DNSQuestion('ha.local.', const._TYPE_A, const._CLASS_IN))
            zb.async_send(out)
    tt = asyncio.ensure_future(traffic())
    async def scenario():
        if rng.random()<0.8: await aza.async_add_service_listener(T, lis)
        for i in infos:
            if rng.random()<0.8:
                asyncio.ensure_future(aza.async_register_service(i))
                await asyncio.sleep(rng.randint(0, 700)/1000)
        if rng.random()<0.6:
            asyncio.ensure_future(AsyncServiceInfo(T, f'nosuch.{T}').async_request(za, 3000))
    sc = asyncio.ensure_future(scenario())
    await asyncio.sleep(rng.randint(0, 3000)/1000)
    await aza.async_close()
    tclose = loop.ms; nlog = len([x for x in net.log if x[1]=='A']); nev = len(lis.ev)
    await asyncio.sleep(rng.choice([5, 100, 600]))
    await aza.async_close()
    await asyncio.sleep(20)
    bad=[]
    after = [x for x in net.log if x[1]=='A'][nlog:]
    if after: bad.append(('send after close', [(x[0]+1_000_000-tclose) for x in after]))
    if len(lis.ev) > nev: bad.append(('callback after close', lis.ev[nev:]))
    tt.cancel(); sc.cancel()
    await zb._async_close()
    return bad
nb=0
for seed in range(int(sys.argv[1])):
    res, errs = run(main, seed)
    errs = [e for e in errs if 'CancelledError' not in str(e)]
    if res or errs:
        nb+=1
        if nb<=5: print(seed, res, [str(e)[:300] for e in errs[:2]])
print('bad', nb)
