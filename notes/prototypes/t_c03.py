import asyncio, random, socket, sys
from vsim2 import *
from zeroconf import DNSIncoming, DNSOutgoing, DNSPointer, DNSQuestion, DNSService, DNSText, DNSAddress, DNSNsec, const, ServiceInfo
ENUM='_services._dns-sd._udp.local.'
def ident(r):
    if isinstance(r, DNSPointer): return ('ptr', r.key, r.type, r.class_, r.alias_key, r.ttl)
    if isinstance(r, DNSText): return ('txt', r.key, r.type, r.class_, r.text, r.ttl)
    if isinstance(r, DNSAddress): return ('addr', r.key, r.type, r.class_, r.address, r.ttl)
    if isinstance(r, DNSService): return ('srv', r.key, r.type, r.class_, r.priority, r.weight, r.port, r.server_key, r.ttl)
    if isinstance(r, DNSNsec): return ('nsec', r.key, r.type, r.class_, r.next_name, tuple(r.rdtypes), r.ttl)
def recs_of(s):
    """spec records of a service dict"""
    ptr=('ptr', s['type'].lower(), 12, 1, s['name'].lower(), s['ottl'])
    srv=('srv', s['name'].lower(), 33, 1, 0, 0, s['port'], s['server'].lower(), s['httl'])
    txt=('txt', s['name'].lower(), 16, 1, s['text'], s['ottl'])
    addrs=[('addr', s['server'].lower(), 1 if len(a)==4 else 28, 1, a, s['httl']) for a in s['addrs']]
    have={a[2] for a in addrs}; missing=tuple(sorted({1,28}-have))
    nsec=[('nsec', s['name'].lower(), 47, 1, s['name'], missing, s['httl'])] if missing else []
    return ptr,srv,txt,addrs,nsec
def half(r, known):  # suppressed?
    k=r[:-1]
    return k in known and known[k] > r[-1]/2
EVER=[]
def spec(reg, questions, known):
    ans={}  # ident -> set(additional idents)
    types=list(EVER) if MIMIC else []
    for s in reg.values():
        if s['type'].lower() not in types: types.append(s['type'].lower())
    for (qn,qt) in questions:
        ql=qn.lower()
        if qt==12 and ql==ENUM:
            for t in types:
                r=('ptr', ENUM, 12, 1, t, 4500)
                if not half(r,known): ans.setdefault(r,set())
            continue
        for s in reg.values():
            ptr,srv,txt,addrs,nsec=recs_of(s)
            if qt in (12,255) and s['type'].lower()==ql and not half(ptr,known):
                ans[ptr]={srv,txt,*addrs,*nsec}
            if qt in (1,28) and s['server'].lower()==ql:
                mine=[a for a in addrs if a[2]==qt and not half(a,known)]
                others={a for a in addrs if a[2]!=qt}
                have={a[2] for a in addrs}
                if mine:
                    for a in mine: ans[a]=others|set(nsec)
                elif qt not in have:
                    for n in nsec: ans[n]=set()
            if qt in (33,255) and s['name'].lower()==ql and not half(srv,known): ans[srv]={*addrs,*nsec}
            if qt in (16,255) and s['name'].lower()==ql and not half(txt,known): ans[txt]=set()
    return ans
async def main(loop, rng):
    net = Net(loop, rng); a = Host(net,'A','10.0.0.1'); za = make_zc(a); await za.async_wait_for_start()
    bad=[]; reg={}; infos={}; EVER.clear(); HT=rng.choice([120,10])
    TYPES=['_a._tcp.local.','_b._tcp.local.','_A._tcp.local.']; HOSTS=['h1.local.','h2.local.','H1.local.']
    for step in range(rng.randint(1,14)):
        op=rng.choice(['reg','reg','unreg','update'])
        if op=='reg':
            t=rng.choice(TYPES); nm=rng.choice(['x','y','z','X'])+'.'+t
            if nm.lower() in reg: continue
            addrs=rng.choice([[bytes([10,0,0,1])],[bytes([0xfe,0x80]+[0]*13+[1])],[bytes([10,0,0,2]),bytes([0xfe,0x80]+[0]*13+[2])],[bytes([10,0,0,3]),bytes([10,0,0,4])]])
            s=dict(type=t,name=nm,port=rng.randint(1,9),server=rng.choice(HOSTS),text=b'\x01'+bytes([rng.randint(97,99)]),addrs=addrs,httl=HT,ottl=rng.choice([4500,60]))
            info=ServiceInfo(t,nm,s['port'],properties=s['text'],server=s['server'],addresses=addrs,host_ttl=s['httl'],other_ttl=s['ottl'])
            za.registry.async_add(info); reg[nm.lower()]=s; infos[nm.lower()]=info
            if t.lower() not in EVER: EVER.append(t.lower())
        elif op=='unreg' and reg:
            k=rng.choice(sorted(reg)); za.registry.async_remove(infos[k]); del reg[k]; del infos[k]
        elif op=='update' and reg:
            k=rng.choice(sorted(reg)); s=reg[k]; info=infos[k]
            s['port']=rng.randint(10,19); info.port=s['port']
            if rng.random()<0.5: s['addrs']=[bytes([10,0,1,rng.randint(1,3)])]; info.addresses=s['addrs']
            za.registry.async_update(info)
        # query
        names=[ENUM]+TYPES+HOSTS+[n for n in reg]+[s['name'].upper() for s in reg.values()]+['nosuch.local.']
        qs=[(rng.choice(names), rng.choice([12,1,28,33,16,255,47,99])) for _ in range(rng.randint(1,3))]
        qs=[(n,t) for (n,t) in qs if not (t==255 and n.lower() in {h.lower() for h in HOSTS})]
        if not qs: continue
        out=DNSOutgoing(const._FLAGS_QR_QUERY)
        for n,t in qs: out.add_question(DNSQuestion(n,t,1))
        known={}
        allrec=[]
        for s in reg.values():
            ptr,srv,txt,addrs,nsec=recs_of(s); allrec+= [ptr,srv,txt]+addrs
        for r in rng.sample(allrec, min(len(allrec), rng.randint(0,3))):
            kt=rng.choice([r[-1]//2, r[-1]//2+1, r[-1], 1])
            known[r[:-1]]=kt
            if r[0]=='ptr': rec=DNSPointer(r[1],12,1,kt,r[4])
            elif r[0]=='srv': rec=DNSService(r[1],33,1,kt,0,0,r[6],r[7])
            elif r[0]=='txt': rec=DNSText(r[1],16,1,kt,r[4])
            else: rec=DNSAddress(r[1],r[2],1,kt,r[4])
            out.add_answer_at_time(rec,0)
        msg=DNSIncoming(out.packets()[0])
        qa=za.query_handler.async_response([msg], False)
        got={}
        if qa is not None:
            for d in (qa.ucast, qa.mcast_now, qa.mcast_aggregate, qa.mcast_aggregate_last_second):
                for r,adds in d.items(): got[ident(r)]={ident(x) for x in adds}
        want=spec(reg, qs, known)
        if set(got)!=set(want): bad.append(('answers', qs, sorted(set(got)^set(want))[:3], sorted(known.items())[:2])); break
        for k in got:
            if got[k]!=want[k]: bad.append(('additionals', qs, k, sorted(got[k]^want[k])[:3])); break
    await za._async_close()
    return bad
MIMIC = len(sys.argv)>2
nb=0
for seed in range(int(sys.argv[1])):
    res, errs = run(main, seed)
    if res or errs:
        nb+=1
        if nb<=6: print(seed, str(res)[:500], errs[:1])
print('bad', nb)
