import asyncio, socket
from vsim2 import *
from zeroconf import ServiceInfo, DNSIncoming, DNSOutgoing, DNSQuestion, DNSPointer, const, NonUniqueNameException
def dec(d):
    m = DNSIncoming(d)
    return ('Q' if m.is_query() else 'R', [(q.name,q.type,q.unique) for q in m.questions], m.num_authorities, [(r.name, r.type, r.ttl, r.unique) for r in m.answers()])
def resp(records):
    out = DNSOutgoing(const._FLAGS_QR_RESPONSE | const._FLAGS_AA)
    for r in records: out.add_answer_at_time(r, 0)
    return out.packets()[0]
async def main(loop, rng):
    net = Net(loop, rng)
    a = Host(net, 'A', '10.0.0.1')
    za = make_zc(a); await za.async_wait_for_start()
    res = {}
    for conflict_at in (None, -10, 0, 100, 175, 200, 349, 350, 351, 400):
        info = ServiceInfo('_http._tcp.local.', 'svc._http._tcp.local.', 80, addresses=[socket.inet_aton('10.0.0.1')], server='hosta.local.')
        n0 = len(net.log); t0 = loop.ms
        za.cache.cache.clear()
        ptr = DNSPointer('_http._tcp.local.', const._TYPE_PTR, const._CLASS_IN, 4500, 'svc._http._tcp.local.')
        if conflict_at is not None:
            if conflict_at < 0: a.deliver(resp([ptr]), ('10.0.0.9', 5353))
            else: loop.call_later(conflict_at/1000, a.deliver, resp([ptr]), ('10.0.0.9', 5353))
        try:
            t = await za.async_register_service(info, allow_name_change=True); await t
            r = info.name
            t = await za.async_unregister_service(info); await t
        except NonUniqueNameException: r = 'NonUnique'
        await asyncio.sleep(2)
        print(conflict_at, r, [(tm-(t0-1_000_000), dec(d)[0], dec(d)[2], [x[2] for x in dec(d)[3]][:1]) for (tm,s,ip,p,d) in net.log[n0:]])
    await za._async_close()
r, errs = run(main); print(errs)
