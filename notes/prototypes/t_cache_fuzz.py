"""Rough fuzz: RecordManager+DNSCache vs a plain spec of C05/C06; browser callbacks vs C04."""
import asyncio, random, socket, sys
from vsim2 import *
from zeroconf import DNSIncoming, DNSOutgoing, DNSPointer, DNSText, DNSAddress, DNSService, const, ServiceListener, RecordUpdateListener
from zeroconf.asyncio import AsyncServiceBrowser

T='_x._tcp.local.'
def mk(kind, i, ttl, unique):
    cls = const._CLASS_IN | (const._CLASS_UNIQUE if unique else 0)
    if kind=='ptr': return DNSPointer(T, const._TYPE_PTR, cls, ttl, ['I1.'+T,'i1.'+T,'i2.'+T][i])
    if kind=='txt': return DNSText('i1.'+T, const._TYPE_TXT, cls, ttl, [b'\x01a', b'\x01b'][i%2])
    if kind=='a': return DNSAddress('h.local.', const._TYPE_A, cls, ttl, bytes([10,0,0,i+1]))
    if kind=='srv': return DNSService('i1.'+T, const._TYPE_SRV, cls, ttl, 0,0,80+i, ['h.local.','H.local.','g.local.'][i])
def ident(r):
    if isinstance(r, DNSPointer): return ('ptr', r.key, r.class_, r.alias_key)
    if isinstance(r, DNSText): return ('txt', r.key, r.class_, r.text)
    if isinstance(r, DNSAddress): return ('a', r.key, r.class_, r.address)
    if isinstance(r, DNSService): return ('srv', r.key, r.class_, r.port, r.server_key)
def ntc(r): return (r.key, r.type, r.class_)

class L(ServiceListener):
    def __init__(s): s.ev=[]
    def add_service(s, zc, t, n): s.ev.append(('add',n.lower()))
    def remove_service(s, zc, t, n): s.ev.append(('rem',n.lower()))
    def update_service(s, zc, t, n): pass

async def main(loop, rng, allow_dup):
    net = Net(loop, rng); b = Host(net,'B','10.0.0.2'); zb = make_zc(b); await zb.async_wait_for_start()
    lis = L(); br = AsyncServiceBrowser(zb, [T], listener=lis)
    spec = {}   # ident -> [created, ttl, ntc]
    live = set(); bad = []
    for step in range(rng.randint(5,40)):
        if rng.random() < 0.35:
            dt = rng.choice([0,1,999,1000,1001,2000,9999,10000,10001,120000,1124000,1125000,4500000])
            await asyncio.sleep(dt/1000)
        else:
            recs = []
            for _ in range(rng.randint(1,4)):
                kind = rng.choice(['ptr','ptr','txt','a','srv']); i = rng.randrange(3)
                ttl = rng.choice([0,0,1,2,120,1124,1125,4500]); uq = rng.random()<0.4 and kind!='ptr'
                recs.append(mk(kind,i,ttl,uq))
            # never two spellings of one name inside a datagram (excluded by C04's quantifier)
            seen_al={}; r3=[]
            for r in recs:
                al=getattr(r,'alias',None)
                if al is not None:
                    if al.lower() in seen_al and seen_al[al.lower()]!=al: continue
                    seen_al[al.lower()]=al
                r3.append(r)
            recs=r3
            if not allow_dup:
                seen=set(); r2=[]
                for r in recs:
                    if ident(r) not in seen: seen.add(ident(r)); r2.append(r)
                recs = r2
            out = DNSOutgoing(const._FLAGS_QR_RESPONSE|const._FLAGS_AA)
            for r in recs: out.add_answer_at_time(r,0)
            now = loop.ms
            b.deliver(out.packets()[0], ('10.0.0.9',5353))
            # --- spec update (C06) ---
            before = set(spec)
            zero_cached = {ident(r) for r in recs if r.ttl==0 and ident(r) in before}
            for r in recs:
                ttl = r.ttl
                if ttl and isinstance(r, DNSPointer) and ttl < 1125: ttl = 1125
                if ttl: spec[ident(r)] = [now, ttl, ntc(r)]
            uq = {ntc(r) for r in recs if r.unique}
            inpkt = {ident(r) for r in recs}
            for k,v in spec.items():
                if v[2] in uq and now - v[0] > 1000 and k not in inpkt: v[0]=now; v[1]=1
            for k in zero_cached: spec.pop(k, None)
            await asyncio.sleep(0)
        # purge spec at cleanup instants is done by real engine every 10 s; mirror: remove expired at those instants
        # compare: every record in cache (all paths) vs spec after removing those that real purge removed
        now = loop.ms
        real = {}
        for name in zb.cache.names():
            for r in zb.cache.entries_with_name(name):
                real[ident(r)] = (r.created, r.ttl)
                g = zb.cache.get(r)
                if (g.created, g.ttl) != (r.created, r.ttl): bad.append(('get!=entries', ident(r), (g.created,g.ttl),(r.created,r.ttl)))
        # spec records that are expired may or may not be purged yet; drop from spec those expired & absent in real
        for k in list(spec):
            if spec[k][0] + 1000*spec[k][1] <= now and k not in real: del spec[k]
        sp = {k:(float(v[0]), v[1]) for k,v in spec.items()}
        if {k:(a,float(b_)) for k,(a,b_) in real.items()} != {k:(a,float(b_)) for k,(a,b_) in sp.items()}:
            bad.append(('cache!=spec', step, sorted(real.items()), sorted(sp.items()))); break
    # C04
    cur=set(); ok=True
    for e,n in lis.ev:
        if e=='add':
            if n in cur: bad.append(('double add', n))
            cur.add(n)
        else:
            if n not in cur: bad.append(('rem without add', n))
            cur.discard(n)
    cached = {r.alias_key for r in zb.cache.entries_with_name(T) if isinstance(r, DNSPointer)}
    if cur != cached: bad.append(('live!=cache', cur, cached))
    await br.async_cancel(); await zb._async_close()
    return bad
for allow_dup in (False, True):
    nbad=0
    for seed in range(400):
        (bad, errs) = run(lambda l,r: main(l,r,allow_dup), seed)
        if bad or errs:
            nbad+=1
            if nbad<=3: print('dup' if allow_dup else 'nodup', seed, bad[:2], errs[:1])
    print('allow_dup', allow_dup, 'bad runs', nbad)
