import asyncio, random, socket, sys
from vsim2 import *
from zeroconf import DNSIncoming, DNSOutgoing, DNSPointer, DNSService, DNSText, DNSAddress, DNSQuestionType, const
from zeroconf.asyncio import AsyncServiceInfo
T='_x._tcp.local.'; N='i.'+T; H='h.local.'
def mk(kind, ttl, now=None, age=0, variant=0):
    c = const._CLASS_IN | const._CLASS_UNIQUE
    cr = None
    if kind=='srv': return DNSService(N, const._TYPE_SRV, c, ttl, 0, 0, 80+variant, H)
    if kind=='txt': return DNSText(N, const._TYPE_TXT, c, ttl, b'\x03a=' + bytes([48+variant]))
    if kind=='a': return DNSAddress(H, const._TYPE_A, c, ttl, bytes([10,0,0,1+variant]))
    if kind=='aaaa': return DNSAddress(H, const._TYPE_AAAA, c, ttl, bytes([0xfe,0x80]+[0]*13+[1+variant]))
def resp(records):
    out = DNSOutgoing(const._FLAGS_QR_RESPONSE | const._FLAGS_AA)
    for r in records: out.add_answer_at_time(r, 0)
    return out.packets()[0]
async def main(loop, rng):
    net = Net(loop, rng); b = Host(net,'B','10.0.0.2'); zb = make_zc(b); await zb.async_wait_for_start()
    bad=[]
    # pre-populate cache
    pre = {}
    for kind in ('srv','txt','a','aaaa'):
        st = rng.choice(['none','fresh','stale','expired'])
        pre[kind]=st
        if st=='none': continue
        ttl = 120
        r = mk(kind, ttl)
        age = {'fresh': 1000, 'stale': 70000, 'expired': 121000}[st]
        r.created = float(loop.ms - age)
        zb.cache.async_add_records([r])
    timeout = rng.choice([200, 500, 1000, 3000, 10000])
    qtype = rng.choice([None, None, DNSQuestionType.QU, DNSQuestionType.QM])
    # arrivals
    for kind in ('srv','txt','a','aaaa'):
        if rng.random() < 0.6:
            at = rng.choice([0, 1, 199, 200, 220, 330, 1000, 1300, timeout-1, timeout, timeout+1, rng.randint(0, timeout+500)])
            loop.call_later(at/1000, lambda k=kind: zb.record_manager.async_updates_from_response(DNSIncoming(resp([mk(k, 120, variant=1)]))))
    info = AsyncServiceInfo(T, N)
    t0 = loop.ms; n0 = len(net.log)
    ok = await info.async_request(zb, timeout, qtype)
    dt = loop.ms - t0
    if dt > timeout: bad.append(('late', dt, timeout))
    has_addr = bool(info.addresses_by_version(__import__('zeroconf').IPVersion.All))
    if ok != has_addr: bad.append(('iff', ok, has_addr))
    sends = [(tm-(t0-1_000_000), DNSIncoming(d)) for (tm,s,ip,p,d) in net.log[n0:]]
    cache_ok = pre['srv'] in ('fresh','stale') and (pre['a'] in ('fresh','stale') or pre['aaaa'] in ('fresh','stale'))
    if cache_ok and (not ok or sends or dt != 0): bad.append(('cachefirst', pre, ok, len(sends), dt))
    # QU then QM
    for i,(tm,m) in enumerate(sends):
        qu = [q.unique for q in m.questions]
        exp = (qtype is DNSQuestionType.QU or qtype is None) if i==0 else False
        if qtype is DNSQuestionType.QM: exp = False
        if any(x != exp for x in qu): bad.append(('qu', i, qtype, qu))
    tms = [tm for tm,_ in sends]
    for i in range(2, len(tms)):
        if tms[i]-tms[i-1] < 1000: bad.append(('spacing', tms))
    # expired data must not be used
    if pre['srv']=='expired' and info.port == 80 and info.server: bad.append(('used expired srv', pre))
    await zb._async_close()
    return bad, pre, timeout, qtype
nb=0
for seed in range(int(sys.argv[1])):
    (res, errs) = run(main, seed)
    if res[0] or errs:
        nb+=1
        if nb<=6: print(seed, res, errs[:1])
print('bad', nb)
