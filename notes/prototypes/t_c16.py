import asyncio, random, socket, sys, zlib
from unittest import mock
from vsim2 import *
from vsim2 import _time_modules
from zeroconf import ServiceInfo, const, DNSOutgoing, DNSQuestion, DNSIncoming, DNSPointer, DNSService, DNSText, DNSAddress, ServiceListener
from zeroconf.asyncio import AsyncServiceBrowser
T='_a._tcp.local.'; TB='_b._tcp.local.'
class L(ServiceListener):
    def __init__(s, loop): s.ev=[]; s.loop=loop
    def add_service(s, zc, t, n): s.ev.append((s.loop.ms,'add',n))
    def remove_service(s, zc, t, n): s.ev.append((s.loop.ms,'rem',n))
    def update_service(s, zc, t, n): s.ev.append((s.loop.ms,'upd',n))
def canon(d):
    m=DNSIncoming(d)
    return (m.is_query(), m.id, m.flags, sorted(str(q) for q in m.questions), sorted((r.name,r.type,r.ttl,r.unique,str(getattr(r,'alias','')),getattr(r,'address',b'').hex()) for r in m.answers()))
async def main(loop, rng, dup, qu_ok):
    net = Net(loop, random.Random(1), maxdelay=0, loopback=True)
    a = Host(net,'A','10.0.0.1'); za = make_zc(a); await za.async_wait_for_start()
    info = ServiceInfo(T, f's.{T}', 80, addresses=[socket.inet_aton('10.0.0.1')], server='ha.local.')
    t = await za.async_register_service(info); await t
    lis=L(loop); br=AsyncServiceBrowser(za, [TB], listener=lis)
    await asyncio.sleep(rng.choice([1, 40, 2000]))
    n0=len(net.log)
    for k in range(rng.randint(3,15)):
        await asyncio.sleep(rng.choice([0,1,100,500,999,1000,1001,3000,11000])/1000)
        if rng.random()<0.5:
            out=DNSOutgoing(const._FLAGS_QR_QUERY | (const._FLAGS_TC if rng.random()<0.15 else 0))
            for _ in range(rng.choice([1,1,2])):
                q=rng.choice([DNSQuestion(T,12,1), DNSQuestion(info.name,33,1), DNSQuestion('ha.local.',1,1), DNSQuestion(info.name,16,1), DNSQuestion('nosuch.local.',1,1)])
                q=DNSQuestion(q.name,q.type,1); q.unicast = qu_ok and rng.random()<0.3
                out.add_question(q)
            if rng.random()<0.2: out.add_authorative_answer(DNSPointer(T,12,1,4500,'other.'+T))
            src=('10.0.0.9', rng.choice([5353,5353,40000]))
        else:
            out=DNSOutgoing(const._FLAGS_QR_RESPONSE|const._FLAGS_AA)
            for _ in range(rng.randint(1,3)):
                ttl=rng.choice([0,1,120,4500]); u=rng.random()<0.4
                r=rng.choice([DNSPointer(TB,12,1,ttl,'x.'+TB), DNSPointer(TB,12,1,ttl,'y.'+TB), DNSService('x.'+TB,33,1|(0x8000 if u else 0),ttl,0,0,80,'hb.local.'),
                              DNSText('x.'+TB,16,1|(0x8000 if u else 0),ttl,b'\x01'+bytes([rng.randint(97,98)])), DNSAddress('hb.local.',1,1|(0x8000 if u else 0),ttl,bytes([10,0,0,rng.randint(5,6)]))])
                out.add_answer_at_time(r,0)
            src=('10.0.0.9',5353)
        d=bytearray(out.packets()[0]); 
        if out.is_query(): d[0]=k; d[1]=rng.randrange(256)
        a.deliver(bytes(d), src)
        if dup: a.deliver(bytes(d), src)
    await asyncio.sleep(15)
    sends=[(tm,ip,p,canon(d)) for (tm,s,ip,p,d) in net.log[n0:] if s=='A']
    ev=list(lis.ev)
    await br.async_cancel(); await za._async_close()
    return sends, ev
def run2(seed, dup, qu_ok):
    import zeroconf.asyncio
    loop = VLoop(); asyncio.set_event_loop(loop)
    det=lambda lo,hi: lo + zlib.crc32(f'{lo},{hi},{loop.ms}'.encode()) % (hi-lo+1)
    patches=[mock.patch('time.monotonic', loop.time), mock.patch('random.randint', det)]
    import zeroconf._handlers.multicast_outgoing_queue as mq
    patches.append(mock.patch.object(mq, 'RAND_INT', det))
    import zeroconf._services.info as inf
    patches.append(mock.patch.object(inf, 'randint', det))
    for m in _time_modules(): patches.append(mock.patch.object(m, 'current_time_millis', loop.now_ms))
    for p in patches: p.start()
    try: return loop.run_until_complete(main(loop, random.Random(seed), dup, qu_ok))
    finally:
        for p in patches: p.stop()
        loop.close()
for qu_ok in (False, True):
    nb=0
    for seed in range(int(sys.argv[1])):
        r1=run2(seed, False, qu_ok); r2=run2(seed, True, qu_ok)
        if r1!=r2:
            nb+=1
            if nb<=4:
                s1,e1=r1; s2,e2=r2
                d=[x for x in s2 if x not in s1][:2]; d1=[x for x in s1 if x not in s2][:2]
                print(seed, 'extra-in-dup', str(d)[:400], 'missing-in-dup', str(d1)[:300], 'ev', e1==e2)
    print('qu_ok', qu_ok, 'diff runs', nb)
