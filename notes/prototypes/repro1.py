import sys, struct
from zeroconf import DNSIncoming, DNSOutgoing, DNSQuestion, DNSPointer, DNSText, DNSAddress, DNSService
from zeroconf import const
from zeroconf._utils.name import service_type_name
from zeroconf._exceptions import BadTypeInNameException, NamePartTooLongException

# C19: one-char service label
try:
    service_type_name('_._tcp.local.')
except BadTypeInNameException as e: print("C19 ok", e)
except Exception as e: print("C19 DEFECT", type(e), e)

# C01: 64-byte label
out = DNSOutgoing(const._FLAGS_QR_QUERY)
name = 'a'*64 + '.local.'
out.add_question(DNSQuestion(name, const._TYPE_A, const._CLASS_IN))
try:
    p = out.packets()
    inc = DNSIncoming(p[0])
    print("C01 64-label: encoded; decoded valid=", inc.valid, inc.questions)
except NamePartTooLongException: print("C01 ok rejected")

# C02: deep pointer chain
n = 1200
hdr = struct.pack('>HHHHHH', 0, 0, 1, 0, 0, 0)
body = bytearray()
# question name at offset 12: pointer to 14, at 14 pointer to 16 ... final: 0 
base = 12
for i in range(n):
    tgt = base + 2*(i+1)
    body += bytes([0xC0 | (tgt >> 8), tgt & 0xFF])
body += b'\x00'
# the question name is at offset 12 (pointer) => after name, reading type/class at 14.. which are pointer bytes; fine
data = hdr + bytes(body) + b'\x00\x01\x00\x01'
try:
    inc = DNSIncoming(data)
    print("C02 chain: valid=", inc.valid, len(data))
except RecursionError as e:
    print("C02 DEFECT RecursionError", len(data))
