import random, sys, struct
from zeroconf import DNSOutgoing, DNSIncoming, DNSQuestion, DNSPointer, DNSText, DNSAddress, DNSService, DNSHinfo, DNSNsec, const
import strict, t_c01
def lib_view(m):
    def enc(n): return n
    out=[]
    for a in m.answers():
        if isinstance(a,DNSAddress): rd=('a' if a.type==1 else 'aaaa', a.address)
        elif isinstance(a,DNSPointer): rd=('ptr',a.alias)
        elif isinstance(a,DNSText): rd=('txt',a.text)
        elif isinstance(a,DNSService): rd=('srv',a.priority,a.weight,a.port,a.server)
        elif isinstance(a,DNSHinfo): rd=('hinfo',a.cpu,a.os)
        elif isinstance(a,DNSNsec): rd=('nsec',a.next_name,a.rdtypes)
        out.append((a.name,a.type,a.class_|(0x8000 if a.unique else 0),a.ttl,rd))
    return [(q.name,q.type,q.class_|(0x8000 if q.unique else 0)) for q in m.questions], out
def nm(labels): return '.'.join(l.decode('utf-8','replace') for l in labels)+'.'
def strict_view(d):
    id_,fl,qs,secs=d
    out=[]
    for s in secs:
        for (n,t,c,ttl,rd) in s:
            if rd[0]=='ptr': rd=('ptr',nm(rd[1]))
            elif rd[0]=='srv': rd=rd[:4]+(nm(rd[4]),)
            elif rd[0]=='hinfo': rd=('hinfo',rd[1].decode('utf-8','replace'),rd[2].decode('utf-8','replace'))
            elif rd[0]=='nsec': rd=('nsec',nm(rd[1]),sorted(rd[2]))
            elif rd[0]=='unk': continue
            out.append((nm(n),t,c,ttl,rd))
    return [(nm(n),t,c) for (n,t,c) in qs], out
def gen(rng):
    k=rng.random()
    if k<0.15: return bytes(rng.randrange(256) for _ in range(rng.choice([0,5,11,12,13,30,200])))
    # valid message then mutate
    seed=rng.randrange(10**9)
    rr=random.Random(seed); pool=[]
    out=DNSOutgoing(rr.choice([0,0x8400]), True, 0)
    for _ in range(rr.randint(0,3)): out.add_question(DNSQuestion(t_c01.rname(rr,pool), rr.choice([1,12,33]), 1))
    for _ in range(rr.randint(0,6)): out.add_answer_at_time(t_c01.rrec(rr,pool,False,False),0)
    for _ in range(rr.randint(0,3)): out.add_additional_answer(t_c01.rrec(rr,pool,False,False))
    p=bytearray(out.packets()[0])
    if k<0.4: return bytes(p)
    for _ in range(rng.randint(1,4)):
        m=rng.random()
        if not p: break
        i=rng.randrange(len(p))
        if m<0.3: p[i]^=1<<rng.randrange(8)
        elif m<0.5: p=p[:i]
        elif m<0.65: p[i:i]=bytes([rng.choice([0,0xc0,0x0c,0x40,0xff,63])])
        elif m<0.8 and len(p)>=12: j=rng.choice([4,5,6,7,8,9,10,11]); p[j]=rng.choice([0,1,2,255])
        else: p[i]=rng.choice([0xc0,0xc1,0x0c,0,63,64,192,255])
    return bytes(p)
if __name__=='__main__':
    nb=0; acc=0; tot=0
    for seed in range(int(sys.argv[1])):
        rng=random.Random(seed)
        for _ in range(20):
            b=gen(rng); tot+=1
            try:
                m=DNSIncoming(b); lv=lib_view(m)
            except BaseException as e:
                nb+=1; print('EXC',seed,type(e).__name__, b.hex()[:80]); continue
            for (n,*_) in lv[0]+lv[1]:
                if len(n)>253: nb+=1; print('long name', seed)
            try: d=strict.decode(b)
            except strict.Bad: continue
            acc+=1
            sv=strict_view(d)
            if not m.valid or sv!=lv:
                nb+=1
                if nb<8: print('DIFF',seed,m.valid,b.hex()[:200],'\n  strict',str(sv)[:300],'\n  lib   ',str(lv)[:300])
    print('tot',tot,'strict-accepted',acc,'bad',nb)
