import itertools
from zeroconf import DNSQuestion, DNSPointer, DNSText, DNSAddress, DNSService, DNSHinfo, DNSNsec
names=['a.local.','A.local.','b.local.']
recs=[]
for n in names:
  for cls in (1,0x8001,3):
    for ttl in (0,120):
      for cr in (1.0, 5.0):
        recs += [DNSAddress(n,1,cls,ttl,b'\x0a\0\0\1',created=cr), DNSAddress(n,1,cls,ttl,b'\x0a\0\0\2',created=cr), DNSAddress(n,28,cls,ttl,b'\xfe\x80'+b'\0'*14,created=cr), DNSAddress(n,28,cls,ttl,b'\xfe\x80'+b'\0'*14,scope_id=3,created=cr),
                 DNSPointer(n,12,cls,ttl,'x.local.',created=cr), DNSPointer(n,12,cls,ttl,'X.local.',created=cr), DNSPointer(n,5,cls,ttl,'x.local.',created=cr), DNSPointer(n,12,cls,ttl,'y.local.',created=cr),
                 DNSText(n,16,cls,ttl,b'\1a',created=cr), DNSText(n,16,cls,ttl,b'\1b',created=cr),
                 DNSService(n,33,cls,ttl,0,0,80,'h.local.',created=cr), DNSService(n,33,cls,ttl,0,0,80,'H.local.',created=cr), DNSService(n,33,cls,ttl,1,0,80,'h.local.',created=cr), DNSService(n,33,cls,ttl,0,1,80,'h.local.',created=cr), DNSService(n,33,cls,ttl,0,0,81,'h.local.',created=cr),
                 DNSHinfo(n,13,cls,ttl,'c','o',created=cr), DNSHinfo(n,13,cls,ttl,'C','o',created=cr), DNSHinfo(n,13,cls,ttl,'c','p',created=cr),
                 DNSNsec(n,47,cls,ttl,n,[1,28],created=cr), DNSNsec(n,47,cls,ttl,n,[28,1],created=cr), DNSNsec(n,47,cls,ttl,n,[1],created=cr), DNSNsec(n,47,cls,ttl,'N'+n[1:],[1],created=cr)]
def ident(r):
    base=(type(r).__name__, r.name.lower(), r.type, r.class_)
    if isinstance(r,DNSAddress): return base+(r.address, r.scope_id)
    if isinstance(r,DNSPointer): return base+(r.alias.lower(),)
    if isinstance(r,DNSText): return base+(r.text,)
    if isinstance(r,DNSService): return base+(r.priority,r.weight,r.port,r.server.lower())
    if isinstance(r,DNSHinfo): return base+(r.cpu,r.os)
    if isinstance(r,DNSNsec): return base+(r.next_name,tuple(sorted(r.rdtypes)))
bad=0; n=0
for a,b in itertools.product(recs, recs):
    n+=1
    e=(a==b); s=ident(a)==ident(b)
    if e!=s: bad+=1; print('eq mismatch', a, b) if bad<5 else None
    if e and hash(a)!=hash(b): bad+=1; print('hash', a, b)
qs=[DNSQuestion(n,t,c) for n in names for t in (1,12) for c in (1,0x8001,3)]
for a,b in itertools.product(qs,qs):
    e=(a==b); s=(a.name.lower(),a.type,a.class_)==(b.name.lower(),b.type,b.class_)
    if e!=s or (e and hash(a)!=hash(b)): bad+=1
for q in qs:
    for r in recs[:50]:
        if q==r or r==q: bad+=1; print('q==r')
print('pairs',n,'bad',bad)
