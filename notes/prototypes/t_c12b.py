import asyncio, random, socket, sys
from vsim2 import *
from zeroconf import ServiceInfo, const, DNSOutgoing, DNSQuestion, DNSIncoming, DNSPointer, DNSService, DNSAddress
T='_a._tcp.local.'
def rid(r):
    return (r.key, r.type, getattr(r,'alias_key',None), getattr(r,'address',None), getattr(r,'port',None))
def split(m):
    allr=m.answers(); return allr[:m.num_answers], allr[m.num_answers:]
async def main(loop, rng):
    net = Net(loop, rng, maxdelay=5, loopback=True)
    a = Host(net,'A','10.0.0.1'); za = make_zc(a); await za.async_wait_for_start()
    infos=[ServiceInfo(T, f's{i}.{T}', 80+i, addresses=[socket.inet_aton(f'10.0.0.{i+1}')], server=f'h{i}.local.') for i in range(2)]
    for i in infos:
        t = await za.async_register_service(i); await t
    await asyncio.sleep(rng.choice([0.1, 2, 50, 2000]))
    arrivals=[]; n0=len(net.log)
    for k in range(rng.randint(1,8)):
        await asyncio.sleep(rng.choice([0,1,20,119,120,121,200,499,500,501,999,1000,1001,1120,rng.randint(0,3000)])/1000)
        out = DNSOutgoing(const._FLAGS_QR_QUERY); nq = rng.choice([1,1,2]); qs=[]; cands=[]
        for _ in range(nq):
            kind=rng.choice(['ptr','ptr','srv','a'])
            if kind=='ptr': q=DNSQuestion(T, const._TYPE_PTR, const._CLASS_IN); cands+=[i.dns_pointer() for i in infos]
            elif kind=='srv': q=DNSQuestion(infos[0].name, const._TYPE_SRV, const._CLASS_IN); cands.append(infos[0].dns_service())
            else: q=DNSQuestion('h1.local.', const._TYPE_A, const._CLASS_IN); cands+=infos[1].dns_addresses()
            qs.append(kind); out.add_question(q)
        now=loop.ms
        exp={}
        for r in cands:
            e=za.cache.async_get_unique(r)
            recent = e is not None and now - e.created < 1000
            immediate = (not recent) and nq==1 and qs[0] in ('srv','a')
            exp[rid(r)] = (now+1020, now+1200) if recent else ((now,now) if immediate else (now+20, now+500))
            if recent: exp[rid(r)] += (e.created,)
        arrivals.append((now, qs, exp))
        d=bytearray(out.packets()[0]); d[0]=k; d[1]=rng.randrange(256)
        a.deliver(bytes(d), ('10.0.0.9', 5353))
    await asyncio.sleep(3)
    sends=[(tm+1_000_000,)+split(DNSIncoming(d)) for (tm,s,ip,p,d) in net.log[n0:] if s=='A' and ip=='224.0.0.251']
    bad=[]
    for (t, qs, exp) in arrivals:
        for key,win in exp.items():
            ts=[tm for tm,ans,add in sends if tm>=t and any(rid(r)==key for r in ans)]
            if not ts: bad.append(('unanswered', t-1_000_000, key[:2])); continue
            # first transmission at/after arrival must be <= upper bound; and answer-section transmissions in (t, lo) must be justified by an earlier arrival
            if ts[0] > win[1]: bad.append(('late', key[:2], ts[0]-t, win[1]-t))
            if len(win)==3:
                early=[tm for tm in ts if tm < win[2]+1000]
                for tm in early:
                    # allowed if caused by an earlier arrival whose window covers tm and that was non-recent at its time
                    if not any(t2 <= t and e2 is not exp and key in e2 and e2[key][0] <= tm <= e2[key][1] for (t2,_,e2) in arrivals):
                        bad.append(('answer re-multicast within 1s of sighting', key[:2], tm-win[2]))
            else:
                if ts[0] < win[0] and not any(t2 <= t and e2 is not exp and key in e2 and e2[key][0] <= ts[0] <= e2[key][1] for (t2,_,e2) in arrivals):
                    bad.append(('early', key[:2], ts[0]-t, win[0]-t))
    for tm,ans,add in sends:
        keys=[rid(r) for r in ans+add]
        if len(keys)!=len(set(keys)): bad.append(('dup in batch',))
    await za._async_close()
    return bad
nb=0
for seed in range(int(sys.argv[1])):
    res, errs = run(main, seed)
    if res or errs:
        nb+=1
        if nb<=8: print(seed, str(res)[:300], errs[:1])
print('bad', nb)
