"""vsim2: integer-ms quantised virtual-time simulator (prototype)."""
import asyncio, heapq, random, socket, sys
from unittest import mock
import zeroconf, importlib, pkgutil

class VLoop(asyncio.SelectorEventLoop):
    def __init__(self):
        super().__init__()
        self.ms = 1_000_000
    def time(self): return self.ms / 1000.0
    def now_ms(self): return float(self.ms)
    def call_at(self, when, callback, *args, context=None):
        q = round(when * 1000)
        if q < self.ms: q = self.ms
        return super().call_at(q / 1000.0, callback, *args, context=context)
    def _run_once(self):
        sched = self._scheduled
        while sched and sched[0]._cancelled:
            h = heapq.heappop(sched); h._scheduled = False
            self._timer_cancelled_count = max(0, self._timer_cancelled_count - 1)
        if not self._ready and sched:
            w = round(sched[0]._when * 1000)
            if w > self.ms: self.ms = w
        super()._run_once()

class FakeSock:
    def __init__(self, fileno, addr): self.family = socket.AF_INET; self._f = fileno; self._a = addr
    def fileno(self): return self._f
    def getsockname(self): return self._a
    def close(self): pass

class FakeTransport(asyncio.DatagramTransport):
    def __init__(self, host, sock, protocol):
        super().__init__(); self.host = host; self.sock = sock; self.protocol = protocol; self.closed = False
    def get_extra_info(self, name, default=None): return self.sock if name == 'socket' else default
    def sendto(self, data, addr=None):
        if not self.closed: self.host.net.send(self.host, bytes(data), addr)
    def close(self): self.closed = True
    def is_closing(self): return self.closed

class Net:
    def __init__(self, loop, rng, maxdelay=20, loopback=True):
        self.loop = loop; self.hosts = []; self.rng = rng; self.log = []; self.maxdelay = maxdelay; self.loopback = loopback
        self.drop_index = None; self.n = 0
    def send(self, src, data, addr):
        self.log.append((self.loop.ms - 1_000_000, src.name, addr[0], addr[1], data))
        for h in self.hosts:
            if addr[0] == '224.0.0.251' or h.ip == addr[0]:
                if h is src and not self.loopback: continue
                i = self.n; self.n += 1
                if i == self.drop_index: continue
                self.loop.call_later(self.rng.randint(0, self.maxdelay) / 1000.0, h.deliver, data, (src.ip, src.port))

class Host:
    def __init__(self, net, name, ip):
        self.net = net; self.name = name; self.ip = ip; self.port = 5353; self.zc = None; self.transport = None
        net.hosts.append(self)
    def deliver(self, data, src):
        if self.transport is None or self.transport.closed: return
        self.transport.protocol.datagram_received(data, src)

_cur = [None]
_sock_host = {}
def make_zc(host):
    from zeroconf import Zeroconf
    import zeroconf._core as core
    sock = FakeSock(10 + len(host.net.hosts), (host.ip, 5353))
    _cur[0] = (host, sock); _sock_host[id(sock)] = host
    with mock.patch.object(core, 'create_sockets', lambda *a, **k: (None, [sock])):
        zc = Zeroconf(interfaces=[host.ip])
    host.zc = zc
    return zc

async def _cde(self, protocol_factory, sock=None, **kw):
    host = _sock_host[id(sock)]
    proto = protocol_factory(); tr = FakeTransport(host, sock, proto); host.transport = tr
    proto.connection_made(tr); return tr, proto
VLoop.create_datagram_endpoint = _cde

def _time_modules():
    mods = []
    for m in list(sys.modules.values()):
        if m and getattr(m, '__name__', '').startswith('zeroconf') and hasattr(m, 'current_time_millis'):
            mods.append(m)
    return mods

def run(main, seed=0):
    import zeroconf.asyncio  # ensure all modules loaded
    loop = VLoop(); asyncio.set_event_loop(loop)
    rng = random.Random(seed)
    patches = [mock.patch('time.monotonic', loop.time), mock.patch('random.randint', rng.randint)]
    for m in _time_modules():
        patches.append(mock.patch.object(m, 'current_time_millis', loop.now_ms))
    for p in patches: p.start()
    errs = []
    loop.set_exception_handler(lambda l, ctx: errs.append(ctx))
    try:
        r = loop.run_until_complete(main(loop, rng))
        return r, errs
    finally:
        for p in patches: p.stop()
        loop.close()
