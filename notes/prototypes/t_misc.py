import asyncio, socket, struct
from vsim import *
from zeroconf import ServiceInfo, DNSIncoming, DNSOutgoing, DNSQuestion, DNSPointer, DNSText, DNSAddress, const, ServiceListener, current_time_millis
from zeroconf.asyncio import AsyncZeroconf, AsyncServiceBrowser

def decode(data):
    m = DNSIncoming(data)
    return ('Q' if m.is_query() else 'R', [str(q) for q in m.questions], [(r.name, r.type, r.ttl, getattr(r,'alias','')) for r in m.answers()])

class L(ServiceListener):
    def __init__(s, loop): s.ev=[]; s.loop=loop
    def add_service(s, zc, t, n): s.ev.append((round(s.loop.time()-1000,3),'add',n))
    def remove_service(s, zc, t, n): s.ev.append((round(s.loop.time()-1000,3),'rem',n))
    def update_service(s, zc, t, n): s.ev.append((round(s.loop.time()-1000,3),'upd',n))

def resp(records):
    out = DNSOutgoing(const._FLAGS_QR_RESPONSE | const._FLAGS_AA)
    for r in records: out.add_answer_at_time(r, 0)
    return out.packets()[0]

async def main(loop, rng):
    net = Net(loop, rng)
    a = Host(net, 'A', '10.0.0.1'); b = Host(net, 'B', '10.0.0.2')
    za = make_zc(a); await za.async_wait_for_start()
    zb = make_zc(b); await zb.async_wait_for_start()
    # ---- unregister during announce
    info = ServiceInfo('_http._tcp.local.', 'svc._http._tcp.local.', 80, addresses=[socket.inet_aton('10.0.0.1')], server='hosta.local.')
    task = await za.async_register_service(info)
    n0 = len(net.log)
    t = await za.async_unregister_service(info)
    await t; await task
    await asyncio.sleep(2)
    print("-- unregister during announce")
    for (tm, src, addr, data) in net.log[n0-1:]:
        d = decode(data); print(tm, src, d[0], [(x[0],x[1],x[2]) for x in d[2]][:2])
    # ---- C03: type enumeration after last instance removed
    i1 = ServiceInfo('_a._tcp.local.', 'x._a._tcp.local.', 80, addresses=[socket.inet_aton('10.0.0.1')], server='hosta.local.')
    i2 = ServiceInfo('_b._tcp.local.', 'y._b._tcp.local.', 80, addresses=[socket.inet_aton('10.0.0.1')], server='hosta.local.')
    za.registry.async_add(i1); za.registry.async_add(i2); za.registry.async_remove(i1)
    out = DNSOutgoing(const._FLAGS_QR_QUERY); out.add_question(DNSQuestion(const._SERVICE_TYPE_ENUMERATION_NAME, const._TYPE_PTR, const._CLASS_IN))
    qa = za.query_handler.async_response([DNSIncoming(out.packets()[0])], False)
    print("-- C03 enumeration:", [r.alias for r in qa.mcast_aggregate])
    za.registry.async_remove(i2)
    # ---- C05: duplicate record in one datagram
    now = current_time_millis()
    r1 = DNSPointer('_x._tcp.local.', const._TYPE_PTR, const._CLASS_IN, 1200, 'i._x._tcp.local.')
    r2 = DNSPointer('_x._tcp.local.', const._TYPE_PTR, const._CLASS_IN, 1200, 'i._x._tcp.local.')
    lb = L(loop)
    br = AsyncServiceBrowser(zb, ['_x._tcp.local.'], listener=lb)
    b.deliver(resp([r1, r2]), ('10.0.0.9', 5353))
    await asyncio.sleep(1000)
    b.deliver(resp([r1]), ('10.0.0.9', 5353))   # refresh
    await asyncio.sleep(1)
    c = zb.cache
    print("-- C05 get:", [(x.created, x.ttl) for x in [c.get(r1)]], "entries:", [(x.created, x.ttl) for x in c.entries_with_name('_x._tcp.local.')])
    await asyncio.sleep(300)
    print("   after 1301s: entries:", c.entries_with_name('_x._tcp.local.'), lb.ev)
    await br.async_cancel()
    # ---- C10: scheduler re-arm
    lb2 = L(loop)
    t0 = loop.time()
    br = AsyncServiceBrowser(zb, ['_y._tcp.local.'], listener=lb2)
    await asyncio.sleep(20)
    b.deliver(resp([DNSPointer('_y._tcp.local.', const._TYPE_PTR, const._CLASS_IN, 4500, 'long._y._tcp.local.')]), ('10.0.0.9', 5353))
    await asyncio.sleep(40)
    b.deliver(resp([DNSPointer('_y._tcp.local.', const._TYPE_PTR, const._CLASS_IN, 1200, 'short._y._tcp.local.')]), ('10.0.0.9', 5353))
    n0 = len(net.log)
    await asyncio.sleep(1400)
    print("-- C10 queries by B after learning:", [(round(tm/1000 - (t0-1000),1), decode(d)[1]) for (tm,s,ad,d) in net.log[n0:] if s=='B'], [(round(e[0]-(t0-1000),1),e[1],e[2]) for e in lb2.ev])
    await br.async_cancel()
    # ---- C15: legacy unicast query with invalid utf-8 label echo
    za.registry.async_add(i2)
    lab = b'\xff' * 40     # 40 bytes of invalid utf8 -> 40 U+FFFD chars -> 120 bytes utf8
    q = struct.pack('>HHHHHH', 7, 0, 2, 0, 0, 0) + bytes([len(lab)]) + lab + b'\x05local\x00' + b'\x00\x01\x00\x01' + b'\x02_b\x04_tcp\x05local\x00\x00\x0c\x00\x01'
    errs = []
    loop.set_exception_handler(lambda l, ctx: errs.append(ctx))
    try:
        a.deliver(q, ('10.0.0.7', 40000))
        print("-- C15 no exception", errs)
    except Exception as e:
        print("-- C15 DEFECT exception escapes datagram_received:", type(e).__name__)
    await za._async_close(); await zb._async_close()
run(main)
