"""Rough oracle for C13 (known answers/suppression) and C11 (routing classes)."""
import asyncio, random, socket, sys
from vsim2 import *
from zeroconf import DNSIncoming, DNSOutgoing, DNSPointer, DNSQuestion, DNSQuestionType, const, ServiceInfo
from zeroconf._services.browser import generate_service_query
T='_x._tcp.local.'
async def main(loop, rng):
    net = Net(loop, rng); b = Host(net,'B','10.0.0.2'); zb = make_zc(b); await zb.async_wait_for_start()
    bad=[]
    now0 = loop.ms
    # populate cache with PTRs of various ages
    recs=[]
    n = rng.choice([0,1,3,40,300])
    for i in range(n):
        ttl = rng.choice([1125, 4500, 120, 10])
        age = rng.choice([0, ttl*500-1, ttl*500, ttl*500+1, ttl*1000-1, ttl*1000, rng.randint(0, ttl*1000)])
        r = DNSPointer(T, const._TYPE_PTR, const._CLASS_IN, ttl, f'inst{i}.{T}', created=float(now0-age) if now0-age else None)
        zb.cache.async_add_records([r]); recs.append(r)
    now = float(loop.ms)
    for qt in (None, DNSQuestionType.QU, DNSQuestionType.QM):
        for multicast in (True, False):
            zb.question_history.clear()
            outs = generate_service_query(zb, now, {T}, multicast, qt)
            qu = (not multicast) if qt is None else qt is DNSQuestionType.QU
            pk = [p for o in outs for p in o.packets()]
            msgs = [DNSIncoming(p) for p in pk]
            qs = [q for m in msgs for q in m.questions]
            if len(qs)!=1 or qs[0].unique != (qu and multicast) : bad.append(('question', qt, multicast, [(q.name,q.unique) for q in qs]))
            ka = [(a.alias, a.ttl) for m in msgs for a in m.answers()]
            want = sorted((r.alias, int((r.created + 1000*r.ttl - now)//1000)) for r in recs if now < r.created + 500*r.ttl)
            if sorted(ka) != want: bad.append(('known', qt, multicast, len(ka), len(want), sorted(ka)[:3], want[:3]))
            tcs = [m.truncated for m in msgs]
            if tcs != [True]*(len(msgs)-1)+[False]: bad.append(('tc', tcs))
            if any(len(p) > 1460 for p in pk): bad.append(('size', [len(p) for p in pk]))
            # suppression: ask again at gap g
            for g in (0, 998, 999, 1000):
                outs2 = generate_service_query(zb, now+g, {T}, multicast, qt)
                # known answers at now+g may be fewer (staler) -> subset -> suppressed if QM and g<=999
                asked = bool(outs2)
                ka2 = {r.alias for r in recs if now+g < r.created + 500*r.ttl}
                ka1 = {r.alias for r in recs if now < r.created + 500*r.ttl}
                exp_suppress = (not qu) and g <= 999 and ka1 <= ka2
                if asked == exp_suppress: bad.append(('suppress', qt, multicast, g, asked, exp_suppress))
                zb.question_history.clear()
                generate_service_query(zb, now, {T}, multicast, qt)
    await zb._async_close()
    return bad
nb=0
for seed in range(int(sys.argv[1])):
    res, errs = run(main, seed)
    if res or errs:
        nb+=1
        if nb<=4: print(seed, res[:3], errs[:1])
print('bad', nb)
