"""Independent strict RFC1035 decoder (prototype oracle)."""
import struct
class Bad(Exception): pass
def rd_name(b, off, end_limit=None):
    labels=[]; start=off; cur=off; jumped=False; ret=None; seg_start=off; total=0; hops=0
    while True:
        if cur >= len(b): raise Bad('eof name')
        n=b[cur]
        if n==0:
            cur+=1
            if not jumped: ret=cur
            break
        if n<64:
            if cur+1+n>len(b): raise Bad('label eof')
            labels.append(bytes(b[cur+1:cur+1+n])); total+=n+1; cur+=1+n
            if total>253: raise Bad('name too long')
            continue
        if n<192: raise Bad('bad label type')
        if cur+1>=len(b): raise Bad('ptr eof')
        link=((n&0x3f)<<8)|b[cur+1]
        if link>=seg_start: raise Bad('forward ptr')
        if not jumped: ret=cur+2
        jumped=True; hops+=1
        if hops>128: raise Bad('hops')
        cur=link; seg_start=link
    return labels, ret
def decode(b):
    if len(b)<12: raise Bad('hdr')
    id_,flags,nq,na,nau,nad=struct.unpack('>HHHHHH', b[:12]); off=12
    qs=[]
    for _ in range(nq):
        n,off=rd_name(b,off)
        if off+4>len(b): raise Bad('q eof')
        t,c=struct.unpack('>HH', b[off:off+4]); off+=4
        qs.append((n,t,c))
    secs=[]
    for cnt in (na,nau,nad):
        rs=[]
        for _ in range(cnt):
            n,off=rd_name(b,off)
            if off+10>len(b): raise Bad('r eof')
            t,c,ttl,rl=struct.unpack('>HHIH', b[off:off+10]); off+=10
            end=off+rl
            if end>len(b): raise Bad('rdata eof')
            if t==1:
                if rl!=4: raise Bad('a')
                rd=('a',bytes(b[off:end]))
            elif t==28:
                if rl!=16: raise Bad('aaaa')
                rd=('aaaa',bytes(b[off:end]))
            elif t in (12,5):
                nm,e=rd_name(b,off)
                if e!=end: raise Bad('ptr len')
                rd=('ptr',nm)
            elif t==16: rd=('txt',bytes(b[off:end]))
            elif t==33:
                if rl<7: raise Bad('srv')
                p,w,po=struct.unpack('>HHH', b[off:off+6]); nm,e=rd_name(b,off+6)
                if e!=end: raise Bad('srv len')
                rd=('srv',p,w,po,nm)
            elif t==13:
                o=off; ss=[]
                for _i in range(2):
                    if o>=end: raise Bad('hinfo')
                    l=b[o]; 
                    if o+1+l>end: raise Bad('hinfo2')
                    ss.append(bytes(b[o+1:o+1+l])); o+=1+l
                if o!=end: raise Bad('hinfo3')
                rd=('hinfo',ss[0],ss[1])
            elif t==47:
                nm,e=rd_name(b,off); types=[]; o=e
                while o<end:
                    if o+2>end: raise Bad('nsec')
                    w,l=b[o],b[o+1]
                    if o+2+l>end or l==0 or l>32: raise Bad('nsec2')
                    for i,by in enumerate(b[o+2:o+2+l]):
                        for bit in range(8):
                            if by&(0x80>>bit): types.append(w*256+i*8+bit)
                    o+=2+l
                if o!=end: raise Bad('nsec3')
                rd=('nsec',nm,types)
            else: rd=('unk',t,bytes(b[off:end]))
            off=end
            rs.append((n,t,c,ttl,rd))
        secs.append(rs)
    if off!=len(b): raise Bad('trailing')
    return id_,flags,qs,secs
