import random, sys, struct
from zeroconf import DNSOutgoing, DNSIncoming, DNSQuestion, DNSPointer, DNSText, DNSAddress, DNSService, DNSHinfo, DNSNsec, const
from zeroconf._exceptions import NamePartTooLongException
import strict
def rlabel(rng, long_ok):
    k = rng.random()
    if k<0.5: return rng.choice(['a','b','foo','Foo','_tcp','_http','local','é','日本','x y'])
    n = rng.choice([1,2,10,31,32,62,63] + ([64,65,100] if long_ok else []))
    return ''.join(rng.choice('abcXYZ09-_') for _ in range(n))
def rname(rng, pool, long_ok=False):
    if pool and rng.random()<0.6:
        base = rng.choice(pool).split('.')[:-1]
        k = rng.randint(0, len(base))
        labs = [rlabel(rng,long_ok) for _ in range(rng.randint(0,2))] + base[k:]
        if not labs: labs=[rlabel(rng,long_ok)]
    else:
        labs = [rlabel(rng,long_ok) for _ in range(rng.randint(1,5))]
    name = '.'.join(labs)+'.'
    while len(name)>253: labs=labs[1:]; name='.'.join(labs)+'.'
    pool.append(name); return name
def rrec(rng, pool, long_ok, big):
    name = rname(rng,pool,long_ok); kind = rng.choice(['a','aaaa','ptr','cname','txt','srv','hinfo','nsec'])
    cls = rng.choice([1,1,1,0x8001,3,255,0x7fff]); ttl = rng.choice([0,1,120,4500,2**31,2**32-1,rng.randint(0,2**32-1)])
    if kind=='a': return DNSAddress(name,1,cls,ttl,bytes(rng.randrange(256) for _ in range(4)))
    if kind=='aaaa': return DNSAddress(name,28,cls,ttl,bytes(rng.randrange(256) for _ in range(16)))
    if kind=='ptr': return DNSPointer(name,12,cls,ttl,rname(rng,pool,long_ok))
    if kind=='cname': return DNSPointer(name,5,cls,ttl,rname(rng,pool,long_ok))
    if kind=='txt':
        n = rng.choice([0,1,10,255,256,1000] + ([1300,1400,1440,1460,5000,8000,8900-len(name.encode())-30] if big else []))
        return DNSText(name,16,cls,ttl,bytes(rng.randrange(256) for _ in range(n)))
    if kind=='srv': return DNSService(name,33,cls,ttl,rng.randrange(65536),rng.randrange(65536),rng.randrange(65536),rname(rng,pool,long_ok))
    if kind=='hinfo': return DNSHinfo(name,13,cls,ttl,'c'*rng.choice([0,1,255]),rng.choice(['','os','é'*100]))
    if kind=='nsec': return DNSNsec(name,47,cls,ttl,rname(rng,pool,long_ok),sorted(rng.sample(range(0,256),rng.randint(1,6))))
def canon_rd(r):
    enc=lambda n:[l.encode() for l in n.split('.')[:-1]]
    if isinstance(r,DNSAddress): return ('a' if r.type==1 else 'aaaa', r.address)
    if isinstance(r,DNSPointer): return ('ptr',enc(r.alias))
    if isinstance(r,DNSText): return ('txt',r.text)
    if isinstance(r,DNSService): return ('srv',r.priority,r.weight,r.port,enc(r.server))
    if isinstance(r,DNSHinfo): return ('hinfo',r.cpu.encode(),r.os.encode())
    if isinstance(r,DNSNsec): return ('nsec',enc(r.next_name),r.rdtypes)
def run(seed):
    rng=random.Random(seed); pool=[]
    long_ok = rng.random()<0.2; big = rng.random()<0.4
    flags = rng.choice([0, 0x8400, 0x8000, 0x0400]); mc = rng.random()<0.6; id_=rng.randrange(65536)
    out = DNSOutgoing(flags, mc, id_)
    nq = rng.choice([0,1,2,5,80,300]) if rng.random()<0.5 else 0
    qs=[DNSQuestion(rname(rng,pool,long_ok), rng.choice([1,12,16,28,33,255]), rng.choice([1,0x8001,255])) for _ in range(nq)]
    for q in qs: out.add_question(q)
    secs=[[],[],[]]
    for si in range(3):
        for _ in range(rng.choice([0,0,1,3,10,60,200]) if rng.random()<0.7 else 0):
            r=rrec(rng,pool,long_ok,big)
            if si==1 and not isinstance(r,DNSPointer): continue
            secs[si].append(r)
    for r in secs[0]: out.add_answer_at_time(r,0)
    for r in secs[1]: out.add_authorative_answer(r)
    for r in secs[2]: out.add_additional_answer(r)
    has_long = any(len(l.encode())>63 for n in pool for l in n.split('.')[:-1])
    try: pk=out.packets()
    except NamePartTooLongException:
        return None if has_long else ('spurious NamePartTooLong',)
    bad=[]
    gq=[]; gs=[[],[],[]]
    for i,p in enumerate(pk):
        if len(p)>8966: bad.append(('oversize',len(p)))
        try: id2,fl,q2,s2 = strict.decode(p)
        except strict.Bad as e: bad.append(('strict rejects',str(e),len(p),has_long)); break
        n_ent = len(q2)+sum(map(len,s2))
        if len(p)>1460 and n_ent!=1: bad.append(('>1460 multi', len(p), n_ent))
        if id2 != (0 if mc else id_): bad.append(('id',id2))
        last = i==len(pk)-1
        isq = (flags&0x8000)==0
        if bool(fl&0x200) != (isq and not last) or (fl & ~0x200)!=(flags & ~0x200 & 0xffff): bad.append(('flags',hex(fl),i,len(pk)))
        gq+=q2
        for k in range(3): gs[k]+=s2[k]
        m=DNSIncoming(p)
        if not m.valid: bad.append(('lib invalid',)); break
        lib=[(a.name,a.type,a.class_,a.unique,a.ttl) for a in m.answers()]
        if len(lib)!=sum(map(len,s2)): bad.append(('lib count',len(lib),sum(map(len,s2))))
    if not bad:
        enc=lambda n:[l.encode() for l in n.split('.')[:-1]]
        wq=[(enc(q.name),q.type,q.class_|(0x8000 if (q.unique and mc) else 0)) for q in qs]
        if gq!=wq: bad.append(('questions differ',len(gq),len(wq)))
        for k in range(3):
            want=[(enc(r.name),r.type,r.class_|(0x8000 if (r.unique and mc) else 0),r.ttl,canon_rd(r)) for r in secs[k]]
            if gs[k]!=want:
                d=[i for i,(x,y) in enumerate(zip(gs[k],want)) if x!=y][:1]
                bad.append(('section differ',k,len(gs[k]),len(want),d, gs[k][d[0]] if d else None, want[d[0]] if d else None))
    return bad or None
if __name__=='__main__':
    nb=0
    for seed in range(int(sys.argv[1])):
        try: r=run(seed)
        except Exception as e: r=('EXC',type(e).__name__,str(e)[:100])
        if r:
            nb+=1
            if nb<=8: print(seed, str(r)[:400])
    print('bad',nb)
