import asyncio, socket
from vsim import *
from zeroconf import ServiceInfo, DNSIncoming, DNSOutgoing, DNSQuestion, const
def decode(data):
    m = DNSIncoming(data)
    return ('Q' if m.is_query() else 'R', [(r.name, r.type, r.ttl) for r in m.answers()])
async def main(loop, rng):
    net = Net(loop, rng)
    a = Host(net, 'A', '10.0.0.1')
    za = make_zc(a); await za.async_wait_for_start()
    info = ServiceInfo('_http._tcp.local.', 'svc._http._tcp.local.', 80, addresses=[socket.inet_aton('10.0.0.1')], server='hosta.local.', host_ttl=3, other_ttl=3)
    task = await za.async_register_service(info); await task
    await asyncio.sleep(0.8)   # last announcement looped back ~0.8 s ago: > ttl/4 = 0.75 s, < 1 s
    out = DNSOutgoing(const._FLAGS_QR_QUERY)
    q = DNSQuestion('svc._http._tcp.local.', const._TYPE_SRV, const._CLASS_IN); q.unicast = True
    out.add_question(q)
    n0 = len(net.log)
    a.deliver(out.packets()[0], ('10.0.0.2', 5353))
    await asyncio.sleep(3)
    print([ (tm,)+decode(d) for (tm,s,ad,d) in net.log[n0-1:]])
    await za._async_close()
run(main)
