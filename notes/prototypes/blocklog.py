"""Prototype: atomic-block logging on top of vsim2 (no source hooks)."""
import asyncio, functools, random, socket, sys, json
from asyncio import tasks
from unittest import mock
import vsim2
from vsim2 import *
from vsim2 import _time_modules

LOG = []          # list of dict events
CUR = [None]      # current block record
OBJ = {}          # id(obj) -> small int
def oid(o):
    return OBJ.setdefault(id(o), len(OBJ))

class Block:
    def __init__(self, loop, kind, obj=None, **kw):
        self.rec = dict(t=loop.ms - 1_000_000, kind=kind, obj=obj, out=[], draws=[], **kw)
    def __enter__(self):
        self.prev = CUR[0]
        if self.prev is None:
            CUR[0] = self.rec; LOG.append(self.rec)
        else:
            self.prev.setdefault('nested', []).append(self.rec['kind'])
        return self
    def __exit__(self, *a):
        if self.prev is None: CUR[0] = None

def out_event(ev):
    if CUR[0] is None:
        LOG.append(dict(t=None, kind='ORPHAN', out=[ev]))
    else:
        CUR[0]['out'].append(ev)

def wrap_method(loop, cls, name, kind, objf=lambda self: oid(self)):
    orig = getattr(cls, name)
    @functools.wraps(orig)
    def w(self, *a, **k):
        with Block(loop, kind, objf(self)):
            return orig(self, *a, **k)
    setattr(cls, name, w)
    return (cls, name, orig)

INTERESTING = ('async_check_service','_async_broadcast_service','async_request','async_unregister_all_services',
               'async_close','async_register_service','async_unregister_service','async_update_service','_async_start_query_sender','_async_setup','_async_close')
class LTask(tasks._PyTask):
    def _Task__step(self, exc=None):
        q = self.get_coro().__qualname__
        name = q.split('.')[-1]
        if name in INTERESTING or 'scenario' in q or 'wrapper' in q:
            with Block(self._loop, 'step:'+name, oid(self)):
                return super()._Task__step(exc)
        return super()._Task__step(exc)

def install(loop, net, rng):
    import zeroconf._handlers.multicast_outgoing_queue as mq
    import zeroconf._services.browser as br
    import zeroconf._engine as eng
    import zeroconf._listener as lst
    saved = []
    saved.append(wrap_method(loop, mq.MulticastOutgoingQueue, 'async_ready', 'outq.ready'))
    saved.append(wrap_method(loop, br.QueryScheduler, '_process_startup_queries', 'sched.startup'))
    saved.append(wrap_method(loop, br.QueryScheduler, '_process_ready_types', 'sched.ready'))
    saved.append(wrap_method(loop, eng.AsyncEngine, '_async_cache_cleanup', 'cleanup'))
    saved.append(wrap_method(loop, lst.AsyncListener, '_respond_query', 'tc.respond'))
    o = lst.AsyncListener.datagram_received
    def dr(self, data, addrs):
        with Block(loop, 'recv', oid(self.zc), src=list(addrs[:2]), data=bytes(data).hex()):
            return o(self, data, addrs)
    lst.AsyncListener.datagram_received = dr; saved.append((lst.AsyncListener, 'datagram_received', o))
    # sends
    osend = net.send
    def send(src, data, addr):
        out_event(dict(send=src.name, to=list(addr[:2]), data=data.hex()))
        osend(src, data, addr)
    net.send = send
    return saved

def uninstall(saved):
    for cls, name, orig in saved: setattr(cls, name, orig)

def run(main, seed=0):
    import zeroconf.asyncio
    LOG.clear(); OBJ.clear(); CUR[0]=None
    loop = VLoop(); asyncio.set_event_loop(loop)
    rng = random.Random(seed)
    def randint(lo, hi):
        v = rng.randint(lo, hi)
        if CUR[0] is not None: CUR[0]['draws'].append([lo, hi, v])
        else: LOG.append(dict(t=None, kind='ORPHAN-DRAW', draws=[[lo,hi,v]]))
        return v
    patches = [mock.patch('time.monotonic', loop.time), mock.patch('random.randint', randint)]
    import zeroconf._handlers.multicast_outgoing_queue as mq, zeroconf._services.info as inf
    patches += [mock.patch.object(mq, 'RAND_INT', randint), mock.patch.object(inf, 'randint', randint)]
    for m in _time_modules(): patches.append(mock.patch.object(m, 'current_time_millis', loop.now_ms))
    for p in patches: p.start()
    saved=[]
    loop.set_task_factory(lambda loop, coro, **kw: LTask(coro, loop=loop, **kw))
    try:
        async def wrapper():
            net = Net(loop, random.Random(seed+1), maxdelay=20)
            saved.extend(install(loop, net, rng))
            return await main(loop, rng, net)
        return loop.run_until_complete(wrapper())
    finally:
        uninstall(saved)
        for p in patches: p.stop()
        loop.close()

if __name__ == '__main__':
    from zeroconf import ServiceInfo, ServiceListener, DNSIncoming
    from zeroconf.asyncio import AsyncServiceBrowser, AsyncZeroconf, AsyncServiceInfo
    T='_a._tcp.local.'
    class L(ServiceListener):
        def __init__(s, host): s.host=host
        def add_service(s, zc, t, n): out_event(dict(cb='add', host=s.host, name=n))
        def remove_service(s, zc, t, n): out_event(dict(cb='rem', host=s.host, name=n))
        def update_service(s, zc, t, n): out_event(dict(cb='upd', host=s.host, name=n))
    async def scenario(loop, rng, net):
        a = Host(net,'A','10.0.0.1'); za = make_zc(a); await za.async_wait_for_start()
        b = Host(net,'B','10.0.0.2'); zb = make_zc(b); await zb.async_wait_for_start()
        br = AsyncServiceBrowser(zb, [T], listener=L('B'))
        info = ServiceInfo(T, f's.{T}', 80, addresses=[socket.inet_aton('10.0.0.1')], server='ha.local.')
        t = await za.async_register_service(info); await t
        await asyncio.sleep(2)
        ok = await AsyncServiceInfo(T, info.name).async_request(zb, 3000)
        t = await za.async_unregister_service(info); await t
        await asyncio.sleep(1)
        await br.async_cancel()
        await AsyncZeroconf(zc=za).async_close(); await AsyncZeroconf(zc=zb).async_close()
        return ok
    r = run(scenario, int(sys.argv[1]) if len(sys.argv)>1 else 0)
    kinds = {}
    for e in LOG: kinds[e['kind']] = kinds.get(e['kind'],0)+1
    print('result', r, 'blocks', len(LOG), kinds)
    orphans=[e for e in LOG if e['kind'].startswith('ORPHAN')]
    print('orphans', len(orphans), orphans[:3])
    for e in LOG[:70]:
        outs=[('send' if 'send' in o else o.get('cb')) for o in e['out']]
        print(e['t'], e['kind'], e.get('obj'), e.get('src',''), 'draws', e.get('draws'), 'out', outs, e.get('nested',''))
    import hashlib; print('digest', hashlib.sha1(json.dumps(LOG, sort_keys=True).encode()).hexdigest()[:12])
