import asyncio, random, socket, sys
from vsim2 import *
from zeroconf import ServiceInfo, const, DNSOutgoing, DNSQuestion, DNSIncoming, DNSPointer
T='_a._tcp.local.'
def split(m):
    allr=m.answers(); return allr[:m.num_answers], allr[m.num_answers:]
async def main(loop, rng):
    net = Net(loop, rng, maxdelay=3, loopback=True)
    a = Host(net,'A','10.0.0.1'); za = make_zc(a); await za.async_wait_for_start()
    info=ServiceInfo(T, f's.{T}', 80, addresses=[socket.inet_aton('10.0.0.1')], server='ha.local.')
    t = await za.async_register_service(info); await t
    bad=[]
    for it in range(rng.randint(1,5)):
        await asyncio.sleep(rng.choice([0.5, 2, 29, 30, 31, 1124, 1125, 1126, 5000]))
        kinds = [rng.choice(['ptr','srv','txt','a']) for _ in range(rng.choice([1,1,2]))]
        out = DNSOutgoing(const._FLAGS_QR_QUERY)
        cands=[]; qs=[]
        for kind in kinds:
            if kind=='ptr': q=DNSQuestion(T,12,1); c=[info.dns_pointer()]
            elif kind=='srv': q=DNSQuestion(info.name,33,1); c=[info.dns_service()]
            elif kind=='txt': q=DNSQuestion(info.name,16,1); c=[info.dns_text()]
            else: q=DNSQuestion('ha.local.',1,1); c=info.dns_addresses()
            q.unicast = rng.random()<0.5; qs.append(q); out.add_question(q); cands.append((q,c))
        probe = rng.random()<0.25
        if probe: out.add_authorative_answer(DNSPointer(T,12,1,4500,'zz.'+T))
        port = rng.choice([5353,5353,40000]); addr='10.0.0.9'; qid=rng.randrange(1,65536)
        d=bytearray(out.packets()[0]); d[0]=qid>>8; d[1]=qid&255
        now=loop.ms; n0=len(net.log)
        exp_ucast=set(); exp_mnow=set(); exp_later=set()
        for q,c in cands:
            for r in c:
                e=za.cache.async_get_unique(r)
                recent = e is not None and e.created + 250*r.ttl > now
                last1s = e is not None and now - e.created < 1000
                k=(r.key,r.type)
                if port==5353 and q.unicast:
                    if probe: exp_ucast.add(k)
                    if not recent: exp_mnow.add(k)
                    elif not probe: exp_ucast.add(k)
                else:
                    if port!=5353: exp_ucast.add(k)
                    if probe: exp_mnow.add(k)
                    elif last1s: exp_later.add(k)
                    elif len(qs)==1 and qs[0].type in (33,1,28,47): exp_mnow.add(k)
                    else: exp_later.add(k)
        a.deliver(bytes(d), (addr, port))
        imm=[(ip,p,DNSIncoming(dd)) for (tm,s,ip,p,dd) in net.log[n0:] if s=='A' and tm+1_000_000==now]
        got_u=set(); got_m=set()
        for ip,p,m in imm:
            ans,add=split(m)
            if ip=='224.0.0.251':
                got_m |= {(r.key,r.type) for r in ans}
                if m.id!=0 or m.flags!=0x8400 or m.questions: bad.append(('mcast fmt',m.id,hex(m.flags),len(m.questions)))
                for r in ans+add:
                    if r.unique != (r.type!=12): bad.append(('flush bit', r.type, r.unique))
            else:
                got_u |= {(r.key,r.type) for r in ans}
                if (ip,p)!=(addr,port): bad.append(('ucast dest',ip,p))
                if m.id!=qid: bad.append(('ucast id',m.id,qid))
                if (len(m.questions)>0)!=(port!=5353): bad.append(('ucast questions',len(m.questions),port))
                if port!=5353 and [(q.name,q.type) for q in m.questions]!=[(q.name,q.type) for q in qs]: bad.append(('echo',))
                for r in ans+add:
                    if r.unique: bad.append(('ucast flush bit',r.type))
        if got_u!=exp_ucast: bad.append(('ucast set',sorted(got_u),sorted(exp_ucast),port,probe,[q.unicast for q in qs]))
        if got_m!=exp_mnow: bad.append(('mcast-now set',sorted(got_m),sorted(exp_mnow),port,probe,[q.unicast for q in qs],kinds))
        await asyncio.sleep(1.3)
        later={(r.key,r.type) for (tm,s,ip,p,dd) in net.log[n0:] if s=='A' and ip=='224.0.0.251' and tm+1_000_000>now for r in split(DNSIncoming(dd))[0]}
        if not exp_later <= later: bad.append(('later missing', sorted(exp_later-later)))
    await za._async_close()
    return bad
nb=0
for seed in range(int(sys.argv[1])):
    res, errs = run(main, seed)
    if res or errs:
        nb+=1
        if nb<=8: print(seed, str(res)[:400], errs[:1])
print('bad', nb)
