import asyncio, os, socket, sys
sys.path.insert(0, "/repo/src")
from zeroconf import DNSOutgoing, ServiceInfo, Zeroconf, const

T = "_demux._tcp.local."

async def main():
    zc = Zeroconf(interfaces=["127.0.0.1"])
    await zc.async_wait_for_start()
    ls = zc.engine.protocols
    print([p.sock_description for p in ls])
    info = ServiceInfo(T, "s0." + T, 8000, addresses=[socket.inet_aton("10.0.0.1")], server="h0.local.")
    out = DNSOutgoing(const._FLAGS_QR_RESPONSE | const._FLAGS_AA)
    out.add_answer_at_time(info.dns_pointer(), 0)
    pkt_u = out.packets()[0]
    out2 = DNSOutgoing(const._FLAGS_QR_RESPONSE | const._FLAGS_AA)
    out2.add_answer_at_time(info.dns_text(), 0)
    pkt_m = out2.packets()[0]
    s = socket.socket(socket.AF_INET, socket.SOCK_DGRAM)
    s.setsockopt(socket.SOL_SOCKET, socket.SO_REUSEADDR, 1)
    s.bind(("127.0.0.1", 0))
    for k in range(5):
        s.sendto(pkt_u + bytes([0]) * 0, ("127.0.0.1", 5353))
        await asyncio.sleep(0.1)
        print("unicast to 127.0.0.1:5353 received by:", [p.sock_description for p in ls if p.data == pkt_u])
        for p in ls:
            p.data = None
    s.setsockopt(socket.IPPROTO_IP, socket.IP_MULTICAST_IF, socket.inet_aton("127.0.0.1"))
    s.setsockopt(socket.IPPROTO_IP, socket.IP_MULTICAST_LOOP, 1)
    s.sendto(pkt_m, ("224.0.0.251", 5353))
    await asyncio.sleep(0.2)
    print("multicast received by:", [p.sock_description for p in ls if p.data == pkt_m])
    await zc._async_close()

asyncio.run(main())
