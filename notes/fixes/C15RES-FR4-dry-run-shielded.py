"""F-R4 (C15RES, D28 class): a service that PASSES the D28 dry-run encode and still makes a later reply raise.

Standalone: PYTHONPATH=<tree>/src python notes/fixes/C15RES-FR4-dry-run-shielded.py     (no sockets, no event loop)

The dry run of `async_register_service` / `async_update_service` (D28, /repo 748f52b) is ONE call
`self.generate_service_broadcast(info, None).packets()`.  `packets()` stops -- without raising -- as soon as a record alone exceeds the
8966-byte limit ("no progress"; it returns the datagrams built so far plus an empty one), so the records BEHIND such a record are never
encoded by the dry run.  The announcement order is PTR, SRV, TXT, addresses:

    server     = 150 labels of 60 x 'h' + "local."   (9156 bytes: every label is legal, the SRV record alone exceeds 8966 bytes)
    properties = 70 280 bytes of TXT                 (rdlength does not fit 16 bits: `struct.error` when the record is written)

The dry run writes PTR, gives up on SRV and returns; the service is registered and announced (PTR only).  The first query for its TXT
record -- e.g. a legacy query `TXT s1._a._tcp.local.` from 10.0.0.2:40000 -- makes the responder write the TXT record alone:
`struct.error: 'H' format requires 0 <= number <= 65535` leaves `DNSOutgoing.packets()` -> `async_send` -> `datagram_received`.
(Observed on /repo 609d2f3 under the simulator: `/tmp`-free replay of the same input in `harness/c15api.py` scenario form:
 {"op": "register", "name": "s1._a._tcp.local.", "type": "_a._tcp.local.", "server": <above>, "port": 80, "text": <above, hex>}, then
 {"op": "deliver", "kind": "query", "name": "s1._a._tcp.local.", "qtype": 16, "port": 40000, "src": ["10.0.0.2", 40000]}.)

Repair (proposal): the dry run must look at every record -- encode each record of the broadcast in a DNSOutgoing of its own, or refuse a
service when `packets()` did not consume every answer (a record that does not fit a datagram alone can never be sent anyway).
Lean: `Zc.Survive.Api.ArgsInRange.fits` is exactly the condition under which the dry run is sound (`dryRun_sound`)."""
import socket
import sys

from zeroconf import DNSOutgoing, ServiceInfo
from zeroconf.const import _FLAGS_AA, _FLAGS_QR_RESPONSE

TA = "_a._tcp.local."
server = ".".join(["h" * 60] * 150) + ".local."
txt = b"".join(bytes([250]) + b"k%03d=" % i + b"v" * 245 for i in range(280))
info = ServiceInfo(TA, "s1." + TA, 80, addresses=[socket.inet_aton("10.0.0.1")], server=server, properties=txt)
print("server: %d bytes, longest label %d; TXT: %d bytes" % (len(server), max(len(l) for l in server.split(".")), len(info.text)))

# the dry run, through the library's own `async_update_service` (same lines as in `async_register_service`) on an instance without
# sockets: `set_server_if_missing`, the dry-run encode, `registry.async_update`; the broadcast task is cancelled before it starts
import asyncio
import struct

from zeroconf import Zeroconf
from zeroconf._exceptions import NamePartTooLongException
from zeroconf._services.registry import ServiceRegistry


async def through_the_api():
    zc = object.__new__(Zeroconf)
    zc.registry = ServiceRegistry()
    try:
        task = await zc.async_update_service(info)
    except (struct.error, NamePartTooLongException) as e:
        return "refused: %s: %s" % (type(e).__name__, e)
    task.cancel()
    return "accepted" if info.key in zc.registry._services else "not registered"

verdict = asyncio.run(through_the_api())
print("async_update_service:", verdict)
if verdict.startswith("refused"):
    print("the dry run refuses the service: not reproduced (repaired tree)")
    sys.exit(0)
# what the dry run did: `generate_service_broadcast(info, None).packets()`
out = DNSOutgoing(_FLAGS_QR_RESPONSE | _FLAGS_AA)
out.add_answer_at_time(info.dns_pointer(), 0)
out.add_answer_at_time(info.dns_service(), 0)
out.add_answer_at_time(info.dns_text(), 0)
for a in info.dns_addresses():
    out.add_answer_at_time(a, 0)
pk = out.packets()
print("dry run: packets() returned %d datagram(s) of %s bytes -- no exception, the service is accepted" % (len(pk), [len(p) for p in pk]))

# a later reply that carries the TXT record (what a TXT / ANY question for the instance name produces)
reply = DNSOutgoing(_FLAGS_QR_RESPONSE | _FLAGS_AA, multicast=False)
reply.add_answer_at_time(info.dns_text(), 0)
try:
    reply.packets()
    print("reply: packets() returned -- NOT reproduced")
    sys.exit(0)
except Exception as e:  # struct.error
    print("reply: packets() raised %s: %s -- out of datagram_received on a running instance" % (type(e).__name__, e))
    sys.exit(1)
