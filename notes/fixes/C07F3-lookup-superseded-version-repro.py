"""C07 finding F3 (work package C07FIX): a lookup answered from the cache returns a superseded SRV / TXT.

An application registers a service and updates it shortly afterwards (`async_update_service` 1 ms after `async_register_service`
returned, or two updates less than 100 ms apart).  The last announcement of the old records and the first announcement of the
new ones are on the link at the same time; the link may deliver them in the other order (delay 0 .. 100 ms per datagram):

    t = 1600   new SRV (port 8001) / TXT arrive      -> cached
    t = 1699   old SRV (port 8000) / TXT arrive      -> cached too: RFC 6762 10.2 flushes nothing younger than one second
    t = 1925, 2150   the new records again           -> their entry is refreshed IN PLACE (`reset_ttl`), the old one is only
                                                         126 / 451 ms old and is still not flushed

Both versions now stay in the cache for their full TTL (SRV 120 s, TXT 75 min).  `ServiceInfo._load_from_cache` takes
`reversed(cache.get_all_by_details(...))` -- the LAST INSERTED unexpired record, which is the overtaken old one -- although the new
one was received three times since.  Every lookup on that host (the Added callback's included) resolves port 8000 / the old TXT
for as long as the old records live, and a mix (new port, old TXT) after the old SRV has expired.

Property C07: "A service-info lookup made from the Added callback resolves the advertised host, port, TXT and addresses."
(The D14 repair introduced `reversed(...)` to skip expired-unpurged records; its comment says "the newest", the code means the
last inserted.)

Run:  /venv/bin/python notes/fixes/C07F3-lookup-superseded-version-repro.py      (VERIF_REPO=<copy> for another tree)
Exit 1 = defect reproduced, 0 = not reproduced."""
import asyncio
import os
import socket
import sys

sys.path.insert(0, os.path.join(os.environ.get("VERIF_REPO", "/repo"), "src"))

from zeroconf import DNSIncoming, DNSOutgoing, ServiceInfo, Zeroconf, const  # noqa: E402
from zeroconf.asyncio import AsyncServiceInfo  # noqa: E402

T = "_c07f3demo._tcp.local."


def announcement(info):
    out = DNSOutgoing(const._FLAGS_QR_RESPONSE | const._FLAGS_AA)
    for r in [info.dns_pointer(), info.dns_service(), info.dns_text()] + info.dns_addresses():
        out.add_answer_at_time(r, 0)
    return out.packets()[0]


async def main():
    zc = Zeroconf(interfaces=["127.0.0.1"])
    await zc.async_wait_for_start()
    old = ServiceInfo(T, "s0." + T, 8000, addresses=[socket.inet_aton("10.0.0.1")], server="h0.local.", properties={"k": "v0"})
    new = ServiceInfo(T, "s0." + T, 8001, addresses=[socket.inet_aton("10.0.0.1")], server="h0.local.", properties={"k": "v1"})

    def deliver(info):
        zc.record_manager.async_updates_from_response(DNSIncoming(announcement(info)))

    deliver(new)  # first announcement of the update, not delayed
    await asyncio.sleep(0.099)
    deliver(old)  # last announcement of the registration, sent 1 ms earlier, delayed 100 ms
    await asyncio.sleep(0.226)
    deliver(new)  # second announcement of the update
    await asyncio.sleep(0.225)
    deliver(new)  # third
    await asyncio.sleep(3.0)
    look = AsyncServiceInfo(T, "s0." + T)
    ok = await look.async_request(zc, 3000)
    srvs = [(r.port, round(r.created)) for r in zc.cache.get_all_by_details("s0." + T, const._TYPE_SRV, const._CLASS_IN)]
    print("SRV records cached for the instance (port, created): %s" % srvs)
    print("lookup 3 s after the update's last announcement -> %s port=%s properties=%s   (advertised: port 8001, k=v1)" % (ok, look.port, look.properties))
    await zc._async_close()
    return not (ok and look.port == 8001 and look.properties == {b"k": b"v1"})


bad = asyncio.run(main())
print("DEFECT REPRODUCED: the lookup resolved the superseded version" if bad else "not reproduced")
raise SystemExit(1 if bad else 0)
