"""DC02a (number to be assigned by the coordinator): `_protocol/incoming.py::_seen_logs` grows without bound under hostile traffic.

`DNSIncoming._log_exception_debug` remembers, for ever and in a module-level dict, one `sys.exc_info()` tuple per *distinct
exception text*.  The text of every `IncomingDecodeError` embeds the offset and the sender (`... at 14 from ('192.0.2.7', 5353)`),
so a remote sender chooses as many distinct texts as it likes; every remembered `exc_info` holds the traceback, the traceback holds
the frames, the frames hold `self` = the `DNSIncoming` object with the whole datagram.  Nothing ever removes an entry and the stored
value is never read (only `exc_str not in _seen_logs` is).  Malformed datagrams are never answered, so the sender needs no reply.

usage: /venv/bin/python notes/fixes/DC02a-seen-logs-repro.py [repo-root, default /repo] [datagrams, default 2000]
exit 1 when the growth is there (more than 1000 entries / more than 1 MB retained after 2000 datagrams), exit 0 when it is bounded.
"""
import gc
import struct
import sys
import tracemalloc

sys.dont_write_bytecode = True
repo = sys.argv[1] if len(sys.argv) > 1 else "/repo"
n = int(sys.argv[2]) if len(sys.argv) > 2 else 2000
sys.path.insert(0, repo + "/src")
from zeroconf._protocol import incoming as inc  # noqa: E402

tracemalloc.start()
gc.collect()
base = tracemalloc.get_traced_memory()[0]
size0 = len(inc._seen_logs)
for i in range(n):
    # a question whose name is i labels `a` followed by a reserved label type (0x80) at offset 12 + 2i: a distinct message text per datagram
    body = b"\x01a" * (i % 4000) + b"\x80"
    pkt = (struct.pack(">HHHHHH", i & 0xFFFF, 0, 1, 0, 0, 0) + body + b"\x00" * 9000)[:8966]
    m = inc.DNSIncoming(pkt, ("192.0.2.%d" % (i // 4000 + 1), 5353))  # as the listener constructs it
    m.answers()
    assert not m.valid
del m, pkt, body
gc.collect()
entries = len(inc._seen_logs) - size0
retained = tracemalloc.get_traced_memory()[0] - base
print("%d hostile datagrams -> %d new entries in incoming._seen_logs, %.1f MB retained (%.1f KB per datagram)"
      % (n, entries, retained / 1e6, retained / 1e3 / n))
bad = entries > 1000 or retained > 1_000_000
print("UNBOUNDED GROWTH" if bad else "bounded")
sys.exit(1 if bad else 0)
