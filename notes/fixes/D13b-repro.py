"""D13b (C13): duplicate-question suppression only remembers the LAST sighting of a question.

Property C13: "A QM question is not sent if this instance asked it, or heard it as an authoritative responder, within the
previous 999 ms with a known-answer list that contained nothing it does not know itself".

Sequence (no sockets, explicit times, the library's own objects):
  T0       this instance asks PTR _x._tcp.local. (QM) with the known answers it holds            -> sent, remembered (T0, K0)
  T0+100   a peer's query for the same question is heard; its known-answer list contains a
           record this instance does not hold (Other._x._tcp.local.)                             -> remembered (T0+100, K1)
  T0+500   this instance wants to ask the same question again (same cache)

The sighting at T0 is 500 ms old and its list K0 is fully known -> the sentence says: not sent.
`QuestionHistory._history[question] = (now, known_answers)` overwrote it with the T0+100 sighting, whose list is not covered,
so the real code sends the query.  Without the heard query (control run) the same ask at T0+500 is suppressed.

Exit status 1 = the deviation is present (as on python-zeroconf 0.132.2), 0 = not present.
"""
import os
import sys

sys.path.insert(0, os.path.join(os.environ.get("VERIF_REPO", "/repo"), "src"))

from zeroconf import DNSPointer, DNSQuestion, const  # noqa: E402
from zeroconf._cache import DNSCache  # noqa: E402
from zeroconf._history import QuestionHistory  # noqa: E402
from zeroconf._services.browser import generate_service_query  # noqa: E402

T = "_x._tcp.local."
T0 = 1_000_000.0


class Stub:
    def __init__(self):
        self.cache = DNSCache()
        self.question_history = QuestionHistory()


def ptr(alias, created):
    return DNSPointer(T, const._TYPE_PTR, const._CLASS_IN, 4500, alias, created=created)


def run(with_heard_query):
    zc = Stub()
    zc.cache.async_add_records([ptr("Inst0." + T, T0 - 1000)])
    first = generate_service_query(zc, T0, {T}, True, None)           # our own QM ask, known answers {Inst0}
    assert first, "the first ask is sent"
    if with_heard_query:
        # what QueryHandler.async_response does when it hears the peer's QM question as an authoritative responder
        q = DNSQuestion(T, const._TYPE_PTR, const._CLASS_IN)
        zc.question_history.add_question_at_time(q, T0 + 100, {ptr("Inst0." + T, T0 + 100), ptr("Other." + T, T0 + 100)})
    again = generate_service_query(zc, T0 + 500, {T}, True, None)
    return bool(again)


control = run(False)
seq = run(True)
print("control (ask, ask 500 ms later):                       second ask sent = %s  (expected False)" % control)
print("ask, hear a list we do not cover at +100, ask at +500: second ask sent = %s  (the sentence says False: we asked it 500 ms ago with a list we fully know)" % seq)
sys.exit(1 if (seq and not control) else 0)
