"""C07 finding F1 (work package C07FIX): a service-info lookup "succeeds" without a TXT record.

`ServiceInfo._is_complete` tests `self.text is not None`, but `text` is `b''` from the constructor on, so a lookup is complete as
soon as it knows an address of the SRV target.  When SRV/address and TXT reach the host in different datagrams -- the responder's
answer to a browser is split by `DNSOutgoing.packets()` as soon as it exceeds 1460 bytes (3 services with 900-byte TXT records, or
about 20 small ones) -- or when the TXT (other_ttl) has expired before the SRV (host_ttl), `async_request` started from the Added
callback returns True at once, with `text == b''` and `properties == {}`, and never asks for the TXT.

Property C07: "A service-info lookup made from the Added callback resolves the advertised host, port, TXT and addresses."

Run:  /venv/bin/python notes/fixes/C07F1-lookup-success-without-txt-repro.py      (VERIF_REPO=<copy> for another tree)
Exit 1 = defect reproduced (FAIL lines), 0 = not reproduced."""
import asyncio
import os
import socket
import sys

sys.path.insert(0, os.path.join(os.environ.get("VERIF_REPO", "/repo"), "src"))

from zeroconf import DNSIncoming, DNSOutgoing, ServiceInfo, Zeroconf, const  # noqa: E402
from zeroconf.asyncio import AsyncServiceInfo  # noqa: E402

T = "_c07f1demo._tcp.local."


async def main():
    bad = 0
    # the responder's side, without a network: three registered services with 900-byte TXT records, and its answer to "PTR T ?"
    infos = [ServiceInfo(T, "s%d.%s" % (i, T), 8000 + i, addresses=[socket.inet_aton("10.0.0.1")], server="h0.local.",
                         properties={"k": "v", "i": str(i), **{"p%d" % j: "x" * 190 for j in range(4)}}) for i in range(3)]
    out = DNSOutgoing(const._FLAGS_QR_RESPONSE | const._FLAGS_AA)
    for inf in infos:
        out.add_answer_at_time(inf.dns_pointer(), 0)
    for inf in infos:  # the additionals the query handler attaches to every pointer answer
        out.add_additional_answer(inf.dns_service())
        out.add_additional_answer(inf.dns_text())
        for a in inf.dns_addresses():
            out.add_additional_answer(a)
    packets = out.packets()
    print("the answer is %d datagrams of %s bytes" % (len(packets), [len(p) for p in packets]))
    assert len(packets) >= 2

    zc = Zeroconf(interfaces=["127.0.0.1"])
    await zc.async_wait_for_start()
    # the first datagram arrives (the second is up to 100 ms behind, or lost)
    zc.record_manager.async_updates_from_response(DNSIncoming(packets[0]))
    for inf in infos:
        look = AsyncServiceInfo(T, inf.name)
        ok = await look.async_request(zc, 3000)
        want = inf.text
        state = "ok" if (ok and look.text == want) else ("FAIL" if ok else "timeout")
        if state == "FAIL":
            bad += 1
        print("%s lookup(%s) -> %s port=%s addresses=%s text=%d bytes (advertised %d bytes)"
              % (state, inf.name, ok, look.port, look.parsed_addresses(), len(look.text or b""), len(want)))
    # second shape: TXT expired (other_ttl 120 s) while SRV / address (host_ttl 600 s) are still cached
    inf = ServiceInfo(T, "late." + T, 8100, addresses=[socket.inet_aton("10.0.0.2")], server="h1.local.", properties={"k": "v"},
                      host_ttl=600, other_ttl=120)
    from zeroconf import current_time_millis

    now = current_time_millis()
    recs = [inf.dns_pointer(), inf.dns_service(), inf.dns_text()] + inf.dns_addresses()
    for r in recs:
        r.created = now - 300_000  # learned five minutes ago
    zc.cache.async_add_records(recs)
    look = AsyncServiceInfo(T, inf.name)
    ok = await look.async_request(zc, 3000)
    state = "FAIL" if (ok and look.text != inf.text) else "ok"
    if state == "FAIL":
        bad += 1
    print("%s lookup(%s) five minutes after the announcement (TXT ttl 120 s expired, SRV ttl 600 s alive) -> %s text=%r (advertised %r)"
          % (state, inf.name, ok, look.text, inf.text))
    await zc._async_close()
    return bad


bad = asyncio.run(main())
print("DEFECT REPRODUCED: %d lookups returned True with an empty TXT" % bad if bad else "not reproduced")
raise SystemExit(1 if bad else 0)
