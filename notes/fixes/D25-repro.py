"""D25 (C03): a known AAAA answer is never honoured when the query arrives on an IPv6 socket.

`AsyncListener._process_datagram_at_time` hands the sockaddr's scope id to `DNSIncoming` (`_listener.py:137-148`),
`DNSIncoming._read_record` stamps it on every AAAA record it parses (`_protocol/incoming.py:345`) -- known answers of a
query included.  The responder's own AAAA records are built with `scope_id=None` (`_services/info.py`, `_dns_addresses`),
and `DNSAddress._eq` / `__hash__` compare `scope_id` (`_dns.py:263-268`).  `DNSRRSet.suppresses` looks the responder's
record up among the known answers by `__eq__`/`__hash__`, so the querier's copy (same owner, type, class, address, full
TTL) is "another record" and the AAAA record is offered anyway.  On an IPv4 socket (scope None) the same query is
correctly answered with nothing.  A sockaddr scope of 0 (global source address on an IPv6 socket) fails the same way
(0 != None).

Run:  /venv/bin/python notes/fixes/D25-repro.py [<repo root, default /repo>]
exit 1 = deviation reproduced, exit 0 = the known answer suppresses on every socket family.
"""
import sys
import types

REPO = sys.argv[1] if len(sys.argv) > 1 else "/repo"
sys.dont_write_bytecode = True
sys.path.insert(0, REPO + "/src")

from zeroconf import DNSAddress, DNSCache, DNSIncoming, DNSOutgoing, DNSQuestion, ServiceInfo, const  # noqa: E402
from zeroconf._handlers.query_handler import QueryHandler  # noqa: E402
from zeroconf._history import QuestionHistory  # noqa: E402
from zeroconf._listener import AsyncListener  # noqa: E402
from zeroconf._services.registry import ServiceRegistry  # noqa: E402

V6 = bytes([0x20, 0x01, 0x0D, 0xB8] + [0] * 11 + [1])
V4 = bytes([10, 0, 0, 1])


def query_packet():
    """AAAA? h1.local. + A? h1.local., listing both address records as known answers with their full TTL (120 s)"""
    out = DNSOutgoing(const._FLAGS_QR_QUERY)
    out.add_question(DNSQuestion("h1.local.", const._TYPE_AAAA, const._CLASS_IN))
    out.add_question(DNSQuestion("h1.local.", const._TYPE_A, const._CLASS_IN))
    out.add_answer_at_time(DNSAddress("h1.local.", const._TYPE_AAAA, const._CLASS_IN | const._CLASS_UNIQUE, 120, V6), 0)
    out.add_answer_at_time(DNSAddress("h1.local.", const._TYPE_A, const._CLASS_IN | const._CLASS_UNIQUE, 120, V4), 0)
    (pk,) = out.packets()
    return pk


def fresh_handler():
    reg = ServiceRegistry()
    zc = types.SimpleNamespace(registry=reg, cache=DNSCache(), question_history=QuestionHistory(), out_queue=None, out_delay_queue=None)
    info = ServiceInfo("_a._tcp.local.", "x._a._tcp.local.", 80, 0, 0, b"", "h1.local.", addresses=[V4, V6])
    reg.async_add(info)
    return QueryHandler(zc)


def offered(msg):
    qa = fresh_handler().async_response([msg], False)
    recs = set()
    if qa is not None:
        for b in ("ucast", "mcast_now", "mcast_aggregate", "mcast_aggregate_last_second"):
            recs |= set(getattr(qa, b))
    return sorted("%s type=%d ttl=%d" % (r.name, r.type, r.ttl) for r in recs)


def through_listener(addrs):
    """the same datagram through the real receive path: what does the listener hand to the query handler?"""
    seen = []

    class QH:
        def handle_assembled_query(self, packets, addr, port, transport, v6_flow_scope):
            seen.append([(a.type, getattr(a, "scope_id", None)) for p in packets for a in p.answers()])

    reg = types.SimpleNamespace(has_entries=True)
    zc = types.SimpleNamespace(registry=reg, query_handler=QH(), record_manager=None, loop=None)
    lis = AsyncListener.__new__(AsyncListener)
    for k, v in dict(zc=zc, _registry=reg, _query_handler=zc.query_handler, _record_manager=None, data=None, last_time=0, last_message=None,
                     transport=types.SimpleNamespace(), sock_description="fake", _deferred={}, _timers={}).items():
        try:
            setattr(lis, k, v)
        except AttributeError:
            pass
    pk = query_packet()
    lis._process_datagram_at_time(False, len(pk), 1000.0, pk, addrs)
    return seen


def main():
    pk = query_packet()
    rows = [("IPv4 socket   (scope None)", DNSIncoming(pk, ("10.9.9.9", 5353))),
            ("IPv6 socket   (scope 3, link-local source)", DNSIncoming(pk, ("fe80::9", 5353), 3)),
            ("IPv6 socket   (scope 0, global source)", DNSIncoming(pk, ("2001:db8::9", 5353), 0))]
    bad = 0
    for label, msg in rows:
        got = offered(msg)
        print("%-46s offered: %s" % (label, got or "nothing"))
        if got:
            bad += 1
    try:
        for addrs in (("10.9.9.9", 5353), ("fe80::9", 5353, 0, 3)):
            print("listener, sockaddr %-28r -> (type, scope_id) of the known answers handed on: %s" % (addrs, through_listener(addrs)))
    except Exception as ex:  # noqa: BLE001  (the listener's private attributes differ between versions: the part above is the repro)
        print("listener path not exercised: %s: %s" % (type(ex).__name__, ex))
    if bad:
        print("DEVIATION: the querier lists the AAAA record with its full TTL, the responder offers it anyway on an IPv6 socket")
        return 1
    print("ok: known address answers suppress on every socket family")
    return 0


if __name__ == "__main__":
    sys.exit(main())
