"""C07 finding F4 (work package C07FIX): the duplicate-packet guard is per socket, the cache is per instance --
a withdrawn service stays Added for its whole TTL, with NO datagram lost.

In its default configuration (`unicast=False`) an instance has a dedicated listen socket (multicast arrives there) next to its
respond socket(s) (unicast to the interface address arrives there); every socket has its own `AsyncListener` with its own
`data` / `last_time` / `last_message`.  The three goodbyes of an unregister are the same bytes, 125 ms apart:

    t = 1260   owner answers the late browser's first (QU) question by unicast: PTR, TTL 4500       (delayed 100 ms on the link)
    t = 1350   owner unregisters; goodbye #1 (multicast)   -> listen socket: processed, nothing cached yet, no-op
    t = 1360   the unicast answer arrives                  -> respond socket: PTR cached, browser says Added
    t = 1475   goodbye #2 = the bytes of #1, < 1 s later   -> listen socket: "duplicate", IGNORED (its guard never saw the answer)
    t = 1600   goodbye #3                                  -> ignored likewise

The browser reports the instance for the next 75 minutes although it is not registered.  On a one-socket host the answer passes
through the same listener and resets the guard, so goodbye #2 is processed.

Property C07: "... each unregistered or closed one Removed" (no loss needed; plain delay / reordering).
Found by the C07 harness once hosts got the default socket topology (`"listen": true`): corpus/C07/F4-listen-socket-goodbye-repeats-ignored.json.

Run:  /venv/bin/python notes/fixes/C07F4-duplicate-guard-per-socket-repro.py      (VERIF_REPO=<copy> for another tree)
Exit 1 = defect reproduced, 0 = not reproduced."""
import asyncio
import os
import socket
import sys

sys.path.insert(0, os.path.join(os.environ.get("VERIF_REPO", "/repo"), "src"))

from zeroconf import DNSOutgoing, DNSQuestion, ServiceInfo, ServiceListener, Zeroconf, const  # noqa: E402
from zeroconf._handlers.answers import construct_outgoing_unicast_answers  # noqa: E402
from zeroconf.asyncio import AsyncServiceBrowser  # noqa: E402

T = "_c07f4demo._tcp.local."


class L(ServiceListener):
    def __init__(self):
        self.events = []

    def add_service(self, zc, t, n):
        self.events.append("Added")

    def remove_service(self, zc, t, n):
        self.events.append("Removed")

    def update_service(self, zc, t, n):
        pass


async def main():
    zc = Zeroconf(interfaces=["127.0.0.1"])  # default topology: listen socket + one respond socket
    await zc.async_wait_for_start()
    listeners = zc.engine.protocols
    print("receiving sockets of the instance: %s" % [p.sock_description for p in listeners])
    if len(listeners) < 2:
        print("this build gives the instance one socket only; nothing to show")
        return False
    listen, respond = listeners[0], listeners[1]
    info = ServiceInfo(T, "s0." + T, 8000, addresses=[socket.inet_aton("10.0.0.1")], server="h0.local.", properties={"k": "v"})
    # what the owner sends
    answers = {info.dns_pointer(): {info.dns_service(), info.dns_text(), *info.dns_addresses()}}
    unicast_answer = construct_outgoing_unicast_answers(answers, False, [DNSQuestion(T, const._TYPE_PTR, const._CLASS_IN)], 0).packets()[0]
    bye = DNSOutgoing(const._FLAGS_QR_RESPONSE | const._FLAGS_AA)
    for r in [info.dns_pointer(override_ttl=0), info.dns_service(override_ttl=0), info.dns_text(override_ttl=0)] + info.dns_addresses(override_ttl=0):
        bye.add_answer_at_time(r, 0)
    goodbye = bye.packets()[0]

    lst = L()
    br = AsyncServiceBrowser(zc, [T], listener=lst)
    src = ("10.0.0.1", 5353)
    bad = False
    for attempt in range(6):
        # quiet phase of the browser (its own questions loop back to the listen socket and would reset the guard: they leave at
        # about 0.1, 1.1, 5.1 and 14.1 s); foreign mDNS traffic on this box's loopback can interfere too -- detected and retried
        await asyncio.sleep(1.4 if attempt == 0 else 0.3)
        lst.events.clear()
        listen.datagram_received(goodbye, src)  # goodbye #1 (multicast -> listen socket)
        await asyncio.sleep(0.01)
        respond.datagram_received(unicast_answer, src)  # the delayed unicast answer (-> respond socket)
        await asyncio.sleep(0.115)
        quiet = listen.data in (goodbye, None)
        listen.datagram_received(goodbye, src)  # goodbye #2
        await asyncio.sleep(0.125)
        quiet = quiet and listen.data in (goodbye, None)
        listen.datagram_received(goodbye, src)  # goodbye #3
        await asyncio.sleep(0.2)
        held = [r for r in zc.cache.get_all_by_details(T, const._TYPE_PTR, const._CLASS_IN)]
        print("attempt %d: callbacks %s; pointer records still cached: %d%s"
              % (attempt, lst.events, len(held), "" if quiet else "   (other traffic reached the listen socket in between: not conclusive)"))
        if lst.events == ["Added"] and held:
            bad = True
            break
        if quiet:
            break
        zc.cache.async_remove_records(held)
    await br.async_cancel()
    await zc._async_close()
    return bad


bad = asyncio.run(main())
print("DEFECT REPRODUCED: goodbyes #2 and #3 were ignored as duplicates; the withdrawn instance stays Added" if bad else "not reproduced")
raise SystemExit(1 if bad else 0)
