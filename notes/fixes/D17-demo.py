import asyncio
from zeroconf.asyncio import AsyncZeroconf
async def main():
    az = AsyncZeroconf(interfaces=["127.0.0.1"])
    r = await asyncio.gather(az.async_close(), az.async_close(), return_exceptions=True)
    print(r)
    return all(x is None for x in r)
ok = asyncio.run(main())
print("PASS" if ok else "FAIL"); raise SystemExit(0 if ok else 1)
