"""R3-C03-a (C03, fourth member of the D20 family; C08's goodbye clause too): `async_unregister_service(info)` removes the service
registered under `info.key`, but builds the purge list for the two multicast queues **and the goodbye** from the object it is
handed (`_core.py:476-496`), not from the registered one.

An application that did not keep the registered `ServiceInfo` builds a second one for the same name.  If its fields differ from the
registered ones (another port / TXT, or none at all):

  A. a reply queued before the call (TXT+SRV question 5 ms earlier) is NOT purged (the D5 repair compares records of the handle):
     the goodbye announces TTL 0 for SRV port 81 / TXT a=2 -- records that never existed -- and a few ms later the registered SRV
     port 80 / TXT a=1 are multicast at full TTL: peers re-add the service that was just unregistered;
  B. a bare `ServiceInfo(type, name)` handle: the registry is emptied, then the goodbye encoder raises TypeError (port None):
     the caller gets an exception, no goodbye is ever sent, the queues are not purged.

Run:  /venv/bin/python notes/fixes/R3-C03-a-repro.py [<repo root, default /repo>]
exit 1 = reproduced, exit 0 = the registered service's records are withdrawn whatever handle is passed.
"""
import asyncio
import sys
from unittest.mock import patch

REPO = sys.argv[1] if len(sys.argv) > 1 else "/repo"
sys.dont_write_bytecode = True
sys.path.insert(0, REPO + "/src")

from zeroconf import DNSIncoming, DNSOutgoing, DNSQuestion, ServiceInfo, const  # noqa: E402
from zeroconf.asyncio import AsyncZeroconf  # noqa: E402

TYPE = "_a._tcp.local."
NAME = "x." + TYPE
ADDR = bytes([10, 0, 0, 1])


async def _noop(*a, **k):
    return None


async def scenario(handle_factory, label):
    sent = []
    with patch("zeroconf._core.create_sockets", return_value=(None, [])):
        aiozc = AsyncZeroconf(interfaces=["127.0.0.1"])
    zc = aiozc.zeroconf
    await zc.async_wait_for_start()
    loop = asyncio.get_running_loop()
    t0 = loop.time()

    def capture(out, addr=None, port=const._MDNS_PORT, v6_flow_scope=(), transport=None):
        for pk in out.packets():
            inc = DNSIncoming(pk)
            sent.append((round((loop.time() - t0) * 1000), [(r.type, int(r.ttl), getattr(r, "port", None), getattr(r, "text", None)) for r in inc.answers()]))

    bad = []
    with patch.object(zc, "async_send", capture):
        registered = ServiceInfo(TYPE, NAME, 80, 0, 0, b"\x03a=1", "h1.local.", addresses=[ADDR])
        with patch.object(zc, "async_check_service", new=_noop):
            await (await zc.async_register_service(registered))
        await asyncio.sleep(1.3)
        del sent[:]
        # a TXT+SRV question (QM, two questions: the reply is aggregated 20-120 ms) ...
        q = DNSOutgoing(const._FLAGS_QR_QUERY)
        q.add_question(DNSQuestion(NAME, const._TYPE_TXT, const._CLASS_IN))
        q.add_question(DNSQuestion(NAME, const._TYPE_SRV, const._CLASS_IN))
        zc.query_handler.handle_assembled_query([DNSIncoming(q.packets()[0], ("10.9.9.9", 5353))], "10.9.9.9", 5353, None, ())
        await asyncio.sleep(0.005)
        # ... and 5 ms later the service is unregistered through another object of the same name
        try:
            await (await zc.async_unregister_service(handle_factory()))
            outcome = "ok"
        except Exception as ex:  # noqa: BLE001
            outcome = "%s(%s)" % (type(ex).__name__, ex)
        await asyncio.sleep(0.8)
        print("%s: async_unregister_service -> %s; registered afterwards: %r" % (label, outcome, list(zc.registry._services)))
        for t, recs in sent:
            print("    +%4d ms  %s" % (t - sent[0][0] if sent else 0, recs))
        goodbyes = [r for _, recs in sent for r in recs if r[1] == 0]
        alive = [(t, r) for t, recs in sent for r in recs if r[1] > 0 and r[0] in (const._TYPE_SRV, const._TYPE_TXT)]
        if outcome != "ok":
            bad.append("the call raised %s" % outcome)
        if not any(r[0] == const._TYPE_SRV and r[2] == 80 for r in goodbyes):
            bad.append("no goodbye for the registered SRV record (port 80)")
        if alive:
            bad.append("records of the unregistered service multicast with a positive TTL after the call: %s" % alive)
        await aiozc.async_close()
    return bad


def main():
    cases = [("A  handle with other fields (port 81, a=2)", lambda: ServiceInfo(TYPE, NAME, 81, 0, 0, b"\x03a=2", "h1.local.", addresses=[ADDR])),
             ("B  bare handle ServiceInfo(type, name)", lambda: ServiceInfo(TYPE, NAME)),
             ("C  the registered object's equal copy", lambda: ServiceInfo(TYPE, NAME, 80, 0, 0, b"\x03a=1", "h1.local.", addresses=[ADDR]))]
    failed = 0
    for label, factory in cases:
        bad = asyncio.run(scenario(factory, label))
        for b in bad:
            print("    DEVIATION:", b)
        failed += bool(bad)
    if failed:
        return 1
    print("ok: the registered service's records are withdrawn whatever handle is passed")
    return 0


if __name__ == "__main__":
    sys.exit(main())
