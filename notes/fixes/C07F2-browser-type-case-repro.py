"""C07 finding F2 (work package C07FIX): a browser matches its types case-sensitively.

`_ServiceBrowserBase` keeps the types as the application spelled them and intersects that set with
`cached_possible_types(pointer.name)` -- the owner name of the PTR record as spelled ON THE WIRE; the replay of the cache to a new
browser goes through `DNSQuestion.answered_by`, which compares `name`, not `key`.  Everything else compares DNS
names case-insensitively (RFC 6762 section 16): the responder answers `_a._tcp.local.` questions for a service registered as
`_A._tcp.local.`, the cache files the record under the lower-cased key, the browser's own question lists it as a known answer.
Only the browser never reports it: a browser for `_c07f2demo._tcp.local.` stays silent about an instance registered under
`_C07F2Demo._tcp.local.` (and vice versa), for as long as it runs.

Property C07: every browser ends up reporting exactly the instances of its type that are currently registered on the link.

Run:  /venv/bin/python notes/fixes/C07F2-browser-type-case-repro.py      (VERIF_REPO=<copy> for another tree)
Exit 1 = defect reproduced, 0 = not reproduced."""
import asyncio
import os
import socket
import sys

sys.path.insert(0, os.path.join(os.environ.get("VERIF_REPO", "/repo"), "src"))

from zeroconf import DNSIncoming, DNSOutgoing, ServiceInfo, ServiceListener, Zeroconf, const  # noqa: E402
from zeroconf.asyncio import AsyncServiceBrowser  # noqa: E402

LOWER = "_c07f2demo._tcp.local."
MIXED = "_C07F2Demo._tcp.local."


class L(ServiceListener):
    def __init__(self):
        self.events = []

    def add_service(self, zc, t, n):
        self.events.append(("Added", t, n))

    def remove_service(self, zc, t, n):
        self.events.append(("Removed", t, n))

    def update_service(self, zc, t, n):
        pass


def announcement(info):
    out = DNSOutgoing(const._FLAGS_QR_RESPONSE | const._FLAGS_AA)
    for r in [info.dns_pointer(), info.dns_service(), info.dns_text()] + info.dns_addresses():
        out.add_answer_at_time(r, 0)
    return DNSIncoming(out.packets()[0])


async def main():
    zc = Zeroconf(interfaces=["127.0.0.1"])
    await zc.async_wait_for_start()
    bad = 0
    for browsed, registered, late in ((LOWER, LOWER, False), (MIXED, MIXED, False), (LOWER, MIXED, False), (MIXED, LOWER, False),
                                      (LOWER, MIXED, True), (MIXED, LOWER, True)):
        lst = L()
        info = ServiceInfo(registered, "Printer." + registered, 631, addresses=[socket.inet_aton("10.0.0.1")], server="h0.local.")
        if late:  # the announcement is already cached when the browser is created (replay through DNSQuestion.answered_by)
            zc.record_manager.async_updates_from_response(announcement(info))
        br = AsyncServiceBrowser(zc, [browsed], listener=lst)
        if not late:
            zc.record_manager.async_updates_from_response(announcement(info))
        await asyncio.sleep(0.05)
        cached = [r.alias for r in zc.cache.get_all_by_details(browsed, const._TYPE_PTR, const._CLASS_IN)]
        ok = any(e[0] == "Added" for e in lst.events)
        if not ok:
            bad += 1
        print("%s browser (%s) for %-26s instance registered under %-26s cache.get_all_by_details(browsed type) = %s callbacks = %s"
              % ("ok  " if ok else "FAIL", "created later" if late else "already there", browsed, registered, cached, lst.events))
        await br.async_cancel()
        zc.cache.async_remove_records(list(zc.cache.get_all_by_details(browsed, const._TYPE_PTR, const._CLASS_IN)))
    await zc._async_close()
    return bad


bad = asyncio.run(main())
print("DEFECT REPRODUCED: %d browsers never reported an instance their own host's cache holds for the browsed type" % bad if bad else "not reproduced")
raise SystemExit(1 if bad else 0)
