#!/venv/bin/python
"""D33 -- C19 (TXT half), finding `C19:txt-str-with-lone-surrogate` -- standalone reproduction on the unchanged library.

A `str` key or value that holds a lone surrogate (a Python str that is not Unicode text) makes
`ServiceInfo(..., properties=...)` raise UnicodeEncodeError out of `_set_properties` (info.py:375 / :381,
`key.encode('utf-8')` / `str(value).encode('utf-8')`).  The property quantifies over "all property dictionaries with
str/bytes keys, str/bytes/None values"; such a dictionary is inside that quantifier and is not encoded.

Recorded as a *finding*, not repaired: unlike the name validator (where the property names the one exception allowed and the
same class was repaired, b0b9659) nothing says what bytes such a str should become -- 'surrogatepass' / 'surrogateescape'
would put invalid UTF-8 on the wire, 'replace' would lose the key -- and rejecting non-text with UnicodeEncodeError (a
ValueError, like the ValueError for an item over 255 bytes) before anything is stored is a defensible answer.

Exit status 1 = reproduced (the constructor raised UnicodeEncodeError for every dictionary below), 0 = not reproduced.
"""
import sys

sys.path.insert(0, "/repo/src")
from zeroconf import ServiceInfo  # noqa: E402

T, N = "_x._tcp.local.", "n._x._tcp.local."
cases = [{"\ud800": "v"}, {"k": "\ud800"}, {b"k": "\udfff"}, {"\udc80": None}, {"a": "1", "b\ud83d": "2"},
         {"k" * 300: "\ud800"}]          # the last one also has an item over 255 bytes: UnicodeEncodeError comes first
hit = 0
for d in cases:
    try:
        info = ServiceInfo(T, N, properties=d)
        print("accepted   %r -> text %r" % (d if len(repr(d)) < 60 else "{'k'*300: '\\ud800'}", info.text))
    except UnicodeEncodeError as ex:
        hit += 1
        print("raised     UnicodeEncodeError for %s (%s)" % (ascii(d) if len(ascii(d)) < 60 else "{'k'*300: '\\ud800'}", ex.reason))
    except Exception as ex:  # noqa: BLE001
        print("raised     %s for %s" % (type(ex).__name__, ascii(d)[:60]))
# nothing was stored on a partially built object: a fresh object with a well-formed dictionary is unaffected
ok = ServiceInfo(T, N, properties={"k": "v"})
assert ok.text == b"\x03k=v" and ok.properties == {b"k": b"v"}
print("reproduced" if hit == len(cases) else "not reproduced (%d of %d)" % (hit, len(cases)))
sys.exit(1 if hit == len(cases) else 0)
