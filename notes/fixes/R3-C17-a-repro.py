"""R3-C17-a (C17): `Zeroconf.close()` from a non-loop thread while the instance is still creating its endpoints.

A loop-backed instance (`Zeroconf()` constructed inside a running loop, as `AsyncZeroconf()` does) opens its sockets in a
task (`AsyncEngine._async_setup`).  `close()` from another thread does not wait for that (unlike `async_close`, which waits
up to 1 s): with no service registered it runs straight through -- `done = True`, `engine.close()` finds no transports to
close, cancels the cleanup timer -- and returns.  Start-up then **completes on the closed instance**: the sockets are opened
and never closed, `running_event` is set, and a response arriving on them reaches the record manager: an untracked
`AsyncServiceBrowser` fires `Added` long after `close()` returned.  C17: "after close() has returned ... no listener, browser
or lookup callback fires".  The same happens to `async_close()` when start-up takes longer than its 1 s wait.

Standalone: `/venv/bin/python notes/fixes/R3-C17-a-repro.py [path-to-src] [start-up delay in s, default 0.05]`; real sockets on
127.0.0.1.  Prints `R3-C17-a REPRODUCED` and exits 1 when sockets are open / a callback fired after close() returned;
`not reproduced` / exit 0 with notes/fixes/R3-C17-a.diff applied.
"""
import asyncio
import logging
import sys
import time

sys.dont_write_bytecode = True
sys.path.insert(0, sys.argv[1] if len(sys.argv) > 1 else "/repo/src")
DELAY = float(sys.argv[2]) if len(sys.argv) > 2 else 0.05

import zeroconf._engine as eng  # noqa: E402
from zeroconf import DNSOutgoing, Zeroconf, const  # noqa: E402
from zeroconf._dns import DNSPointer  # noqa: E402
from zeroconf.asyncio import AsyncServiceBrowser  # noqa: E402

logging.getLogger("zeroconf").setLevel(logging.CRITICAL)
logging.getLogger("asyncio").setLevel(logging.CRITICAL)   # (the browser's start task ends with NotRunningException: never retrieved)
orig = eng.AsyncEngine._async_create_endpoints


async def slow(self):
    await asyncio.sleep(DELAY)  # the sockets take a moment (many interfaces, a busy loop)
    return await orig(self)


eng.AsyncEngine._async_create_endpoints = slow
T = "_r3._tcp.local."
events = []


def handler(zeroconf, service_type, name, state_change):
    events.append((time.monotonic(), name, state_change.name))


async def main():
    loop = asyncio.get_running_loop()
    zc = Zeroconf(interfaces=["127.0.0.1"])
    browser = AsyncServiceBrowser(zc, [T], handlers=[handler])  # the application never cancels it: close() is all it calls
    raised = []

    def do_close():
        try:
            zc.close()
        except BaseException as ex:  # noqa: BLE001
            raised.append(repr(ex))

    await loop.run_in_executor(None, do_close)
    t_ret = time.monotonic()
    print("close() returned (raised: %s): done=%s" % (raised, zc.done))
    await asyncio.sleep(DELAY + 0.2)
    open_socks = [not t.transport.is_closing() for t in zc.engine.readers]
    print("%.0f ms later: running_event set=%s, sockets open=%s" % ((DELAY + 0.2) * 1000, zc.engine.running_event.is_set(), open_socks))
    out = DNSOutgoing(const._FLAGS_QR_RESPONSE | const._FLAGS_AA)
    out.add_answer_at_time(DNSPointer(T, const._TYPE_PTR, const._CLASS_IN, 4500, "x." + T), 0)
    for proto in zc.engine.protocols[:1]:
        if not proto.transport.transport.is_closing():      # a datagram can only arrive on a socket that is open
            proto.datagram_received(out.packets()[0], ("127.0.0.1", 5353))
    await asyncio.sleep(0.1)
    late = [(round((e[0] - t_ret) * 1000), e[1], e[2]) for e in events if e[0] > t_ret]
    print("browser callbacks after close() returned (ms after return):", late)
    for t in zc.engine.readers:
        t.transport.close()
    browser.query_scheduler.stop()
    return any(open_socks) or bool(late) or zc.engine.running_event.is_set()


bad = asyncio.run(main())
print("R3-C17-a REPRODUCED" if bad else "R3-C17-a not reproduced")
sys.exit(1 if bad else 0)
