"""D31 (C17): listener callbacks of a thread-based `ServiceBrowser` keep firing after `Zeroconf.close()` returned.

The README's own usage -- `browser = ServiceBrowser(zc, type, listener)` ... `zc.close()` -- creates a browser the
instance does not track (`zc.browsers` only holds the ones made by `add_service_listener`).  `close()` therefore
neither cancels nor joins it; whatever state changes sit in its queue when `close()` is called are delivered to the
listener afterwards, one by one, on the browser thread (each callback typically calls `zc.get_service_info`, which
now raises / times out on the closed instance).  C17: "after close() has returned ... no listener, browser or
lookup callback fires, regardless of what was in progress".

Standalone: `/venv/bin/python notes/fixes/D31-repro.py [path-to-src]` (default /repo/src); real sockets on 127.0.0.1.
One response with 4 PTR records is handed to the instance, the listener takes 50 ms per callback, close() is called
20 ms later from the main thread.  Prints `D31 REPRODUCED` and exits 1 when callbacks ran after close() returned.
"""
import logging
import sys
import time

sys.dont_write_bytecode = True
sys.path.insert(0, sys.argv[1] if len(sys.argv) > 1 else "/repo/src")

from zeroconf import DNSOutgoing, ServiceBrowser, ServiceListener, Zeroconf, const  # noqa: E402
from zeroconf._dns import DNSPointer  # noqa: E402

T = "_d31._tcp.local."
events = []


class Slow(ServiceListener):
    def add_service(self, zc, type_, name):
        events.append((time.monotonic(), "add_service starts", name, "zc.done=%s" % zc.done))
        time.sleep(0.05)

    def remove_service(self, zc, type_, name):
        events.append((time.monotonic(), "remove_service", name, ""))

    def update_service(self, zc, type_, name):
        events.append((time.monotonic(), "update_service", name, ""))


logging.getLogger("zeroconf").setLevel(logging.CRITICAL)
zc = Zeroconf(interfaces=["127.0.0.1"])
browser = ServiceBrowser(zc, T, Slow())          # as in README.rst; never cancelled by the application
time.sleep(0.3)
out = DNSOutgoing(const._FLAGS_QR_RESPONSE | const._FLAGS_AA)
for i in range(4):
    out.add_answer_at_time(DNSPointer(T, const._TYPE_PTR, const._CLASS_IN, 4500, "x%d.%s" % (i, T)), 0)
zc.loop.call_soon_threadsafe(zc.engine.protocols[0].datagram_received, out.packets()[0], ("127.0.0.1", 5353))
time.sleep(0.02)
zc.close()
t_ret = time.monotonic()
time.sleep(0.6)
late = [(round((e[0] - t_ret) * 1000), e[1], e[2], e[3]) for e in events if e[0] > t_ret]
print("callbacks that STARTED after close() returned (ms after return):")
for l in late:
    print("   ", l)
print("%d of %d callbacks started after close() had returned; browser thread alive: %s" % (len(late), len(events), browser.is_alive()))
print("D31 REPRODUCED" if late else "D31 not reproduced")
sys.exit(1 if late else 0)
