"""D26 (C03): `async_update_service(info)` with a ServiceInfo that has no `server=` raises AssertionError *after* the registry has
dropped the registered service -- neither the old nor the new state is left.

`async_register_service` and `async_unregister_service` call `info.set_server_if_missing()` (the documented default: "server:
fully qualified name for service host (defaults to name)"); `async_update_service` (`_core.py:366-371`) does not.
`ServiceRegistry.async_update` is `_remove([info]); _add(info)`: `_remove` deletes the registered service found under `info.key`,
then `_add` fails its `assert info.server_key is not None`.  The caller gets an AssertionError, the service is gone from the
registry (no goodbye is sent, peers keep the records until they expire), every later query for it is answered with nothing.
With `python -O` the assert is compiled away and the service is indexed under the host key `None` instead.

Run:  /venv/bin/python notes/fixes/D26-repro.py [<repo root, default /repo>]
exit 1 = reproduced through the public API, exit 0 = after `async_update_service` the service is registered with the new data
(the first line printed shows the registry-level behaviour, which the proposed one-line repair does not change: it makes the
public API hand the registry a ServiceInfo with a server, as the two sibling calls do).
"""
import asyncio
import sys
from unittest.mock import patch

REPO = sys.argv[1] if len(sys.argv) > 1 else "/repo"
sys.dont_write_bytecode = True
sys.path.insert(0, REPO + "/src")

from zeroconf import ServiceInfo  # noqa: E402
from zeroconf._services.registry import ServiceRegistry  # noqa: E402
from zeroconf.asyncio import AsyncZeroconf  # noqa: E402

TYPE = "_a._tcp.local."
NAME = "x." + TYPE


def registry_level():
    reg = ServiceRegistry()
    old = ServiceInfo(TYPE, NAME, 80, 0, 0, b"\x03a=1", "h1.local.", addresses=[bytes([10, 0, 0, 1])])
    reg.async_add(old)
    new = ServiceInfo(TYPE, NAME, 81, 0, 0, b"\x03a=2", addresses=[bytes([10, 0, 0, 1])])  # no server=
    try:
        reg.async_update(new)
        outcome = "ok"
    except AssertionError as ex:
        outcome = "AssertionError(%s)" % ex
    print("registry.async_update(info without server=): %s; registry afterwards: services=%r types=%r servers=%r has_entries=%r"
          % (outcome, list(reg._services), reg.types, reg.servers, reg.has_entries))
    return outcome != "ok" and not reg._services


async def api_level():
    with patch("zeroconf._core.create_sockets", return_value=(None, [])):
        aiozc = AsyncZeroconf(interfaces=["127.0.0.1"])
    zc = aiozc.zeroconf
    await zc.async_wait_for_start()
    bad = False
    try:
        with patch.object(zc, "async_send", lambda *a, **k: None):
            old = ServiceInfo(TYPE, NAME, 80, 0, 0, b"\x03a=1", "h1.local.", addresses=[bytes([10, 0, 0, 1])])
            with patch.object(zc, "async_check_service", new=_noop):
                await (await zc.async_register_service(old))
            new = ServiceInfo(TYPE, NAME, 81, 0, 0, b"\x03a=2", addresses=[bytes([10, 0, 0, 1])])  # no server=
            try:
                await (await zc.async_update_service(new))
                outcome = "ok"
            except AssertionError as ex:
                outcome = "AssertionError(%s)" % ex
            got = zc.registry.async_get_info_name(NAME.lower())
            print("zc.async_update_service(info without server=): %s; registered under %r afterwards: %s"
                  % (outcome, NAME, "nothing" if got is None else "port %d, server %r" % (got.port, got.server)))
            bad = got is None
    finally:
        with patch.object(zc, "async_send", lambda *a, **k: None):
            await aiozc.async_close()
    return bad


async def _noop(*a, **k):
    return None


def main():
    registry_level()  # informational: the registry itself drops the old service before its assertion fails
    b = asyncio.run(api_level())
    if b:
        print("DEVIATION: the update raised and the registered service is lost (neither the old nor the new state)")
        return 1
    print("ok: after the update the service is registered with the new data")
    return 0


if __name__ == "__main__":
    sys.exit(main())
