"""D29 (C11 / C12 territory): on an IPv6 socket the one-second flood protection and the QU quarter-TTL rule never apply to AAAA
records, because the host's own AAAA records sit in its cache *with a scope id* and are looked up *without* one.

A responder hears its own multicasts (IP_MULTICAST_LOOP).  `AsyncListener._process_datagram_at_time` hands the sockaddr's scope id
to `DNSIncoming` (`_listener.py:137-148`), which stamps it on every AAAA record (`_protocol/incoming.py:345`); the record manager
puts those records into the cache.  `_QueryResponse._has_mcast_record_in_last_second` and `_has_mcast_within_one_quarter_ttl`
(`_handlers/query_handler.py`) look the responder's *own* record up with `cache.async_get_unique(record)`; own records are built
with `scope_id=None` (`ServiceInfo._dns_addresses`) and `DNSAddress.__eq__/__hash__` compare the scope id, so the look-up misses:

  * a QM question for an AAAA record that was multicast < 1 s ago is answered from the ordinary queue (20-120 ms) instead of the
    protected one (>= 1 s after the last multicast) -- RFC 6762 s14 / property C12 "never the same record twice within one second";
  * a QU question for an AAAA record that was multicast within a quarter of its TTL is multicast again instead of being answered
    by unicast only -- RFC 6762 s5.4 / property C11.

The A record of the same host, heard in the same datagram, is found (no scope id on A records): the two address families of one
service are routed differently.  Same root cause as D25 (known AAAA answers on an IPv6 socket), other consumers.

Run:  /venv/bin/python notes/fixes/D29-repro.py [<repo root, default /repo>]
exit 1 = reproduced, exit 0 = A and AAAA are routed alike.
"""
import sys
import types

REPO = sys.argv[1] if len(sys.argv) > 1 else "/repo"
sys.dont_write_bytecode = True
sys.path.insert(0, REPO + "/src")

from zeroconf import DNSCache, DNSIncoming, DNSOutgoing, DNSQuestion, ServiceInfo, const  # noqa: E402
from zeroconf._handlers.query_handler import QueryHandler  # noqa: E402
from zeroconf._history import QuestionHistory  # noqa: E402
from zeroconf._services.registry import ServiceRegistry  # noqa: E402

V6 = bytes([0xFE, 0x80] + [0] * 13 + [1])
V4 = bytes([10, 0, 0, 1])
NOW = 1000000.0
SCOPE = 3


def host(scope):
    """a responder with one dual-stack service that has just heard its own announcement on a socket with the given scope id"""
    reg = ServiceRegistry()
    cache = DNSCache()
    zc = types.SimpleNamespace(registry=reg, cache=cache, question_history=QuestionHistory(), out_queue=None, out_delay_queue=None)
    info = ServiceInfo("_a._tcp.local.", "x._a._tcp.local.", 80, 0, 0, b"", "h1.local.", addresses=[V4, V6])
    reg.async_add(info)
    # the announcement as it is on the wire ...
    out = DNSOutgoing(const._FLAGS_QR_RESPONSE | const._FLAGS_AA)
    for rec in info.dns_addresses():
        out.add_answer_at_time(rec, 0)
    (pk,) = out.packets()
    # ... and as the listener of that socket parses it 500 ms before the query (loop-back of the host's own multicast)
    heard = DNSIncoming(pk, ("fe80::1", 5353) if scope is not None else ("10.0.0.1", 5353), scope, NOW - 500)
    cache.async_add_records(heard.answers())
    return QueryHandler(zc)


def ask(qh, scope, qu):
    out = DNSOutgoing(const._FLAGS_QR_QUERY)
    cls = const._CLASS_IN | (const._CLASS_UNIQUE if qu else 0)
    out.add_question(DNSQuestion("h1.local.", const._TYPE_A, cls))
    out.add_question(DNSQuestion("h1.local.", const._TYPE_AAAA, cls))
    (pk,) = out.packets()
    msg = DNSIncoming(pk, ("fe80::9", 5353) if scope is not None else ("10.9.9.9", 5353), scope, NOW)
    qa = qh.async_response([msg], False)
    where = {}
    for bucket in ("ucast", "mcast_now", "mcast_aggregate", "mcast_aggregate_last_second"):
        for rec in getattr(qa, bucket):
            where.setdefault("AAAA" if rec.type == const._TYPE_AAAA else "A", []).append(bucket)
    return where


def main():
    bad = 0
    for label, scope in (("IPv4 socket (no scope id)", None), ("IPv6 socket (scope id %d)" % SCOPE, SCOPE)):
        qm = ask(host(scope), scope, qu=False)
        qu = ask(host(scope), scope, qu=True)
        print("%-28s QM 500 ms after the multicast: A -> %s, AAAA -> %s" % (label, qm.get("A"), qm.get("AAAA")))
        print("%-28s QU 500 ms after the multicast: A -> %s, AAAA -> %s" % (label, qu.get("A"), qu.get("AAAA")))
        if qm.get("A") != qm.get("AAAA") or qu.get("A") != qu.get("AAAA"):
            bad += 1
    if bad:
        print("DEVIATION: on the IPv6 socket the AAAA record is not recognised as multicast 500 ms ago (QM: ordinary queue instead of the "
              "protected one; QU: multicast again instead of unicast only), the A record of the same datagram is")
        return 1
    print("ok: A and AAAA records are routed alike on both socket families")
    return 0


if __name__ == "__main__":
    sys.exit(main())
