"""R3-C13-a (C13): a heard truncated (TC) query whose continuation has not arrived does not suppress our own question until the
listener's deferral timer fires.

Property C13: "A QM question is not sent if this instance asked it, or heard it as an authoritative responder, within the previous 999 ms
with a known-answer list that contained nothing it does not know itself".

`AsyncListener.handle_query_or_defer` holds a query packet with the TC bit back for 400-500 ms (waiting for the rest of the known
answers); `QueryHandler.async_response` -- which writes the question history -- runs only when a non-TC packet from the same source
arrives or the timer fires.  In between the history knows nothing of the question: our own QM question for it, with a known-answer
list that covers the peer's, IS SENT 1 ms after hearing it.  Once the timer has fired the entry is there (stamped with the arrival
time) and the same ask is suppressed; without the TC bit it is suppressed at once.

No sockets (create_sockets stubbed); the datagram is fed to a real AsyncListener with an explicit reception time.
Exit status 1 = the deviation is present (python-zeroconf 0.132.2), 0 = not present.
"""
import asyncio
import os
import socket
import sys
from unittest.mock import patch

sys.path.insert(0, os.path.join(os.environ.get("VERIF_REPO", "/repo"), "src"))

from zeroconf import DNSOutgoing, DNSPointer, DNSQuestion, DNSQuestionType, ServiceInfo, const, current_time_millis  # noqa: E402
from zeroconf._listener import AsyncListener  # noqa: E402
from zeroconf._services.browser import generate_service_query  # noqa: E402
from zeroconf.asyncio import AsyncZeroconf  # noqa: E402

TYPE = "_x._tcp.local."
PEER = ("192.0.2.7", const._MDNS_PORT)


class _NoTransport:
    is_ipv6 = False
    fileno = -1
    sock_name = ("127.0.0.1", 5353)
    transport = None


def peer_query(tc: bool, t: float) -> bytes:
    out = DNSOutgoing(const._FLAGS_QR_QUERY | (const._FLAGS_TC if tc else 0))
    out.add_question(DNSQuestion(TYPE, const._TYPE_PTR, const._CLASS_IN))  # QM
    out.add_answer_at_time(DNSPointer(TYPE, const._TYPE_PTR, const._CLASS_IN, 4500, "Inst0." + TYPE, created=t), 0)
    return out.packets()[0]


async def scenario(tc: bool, wait_ms: int) -> bool:
    """-> was our own QM question sent `wait_ms` (+1) ms after hearing the peer's query?"""
    with patch("zeroconf._core.create_sockets", return_value=(None, [])):
        aiozc = AsyncZeroconf(interfaces=["127.0.0.1"])
    zc = aiozc.zeroconf
    await zc.async_wait_for_start()
    listener = AsyncListener(zc)
    listener.transport = _NoTransport()  # type: ignore[assignment]
    try:
        # we are authoritative for the type, and we hold the record the peer lists as known answer
        zc.registry.async_add(ServiceInfo(TYPE, "Mine." + TYPE, 80, 0, 0, {}, "mine.local.", addresses=[socket.inet_aton("10.0.0.2")]))
        t = current_time_millis()
        zc.cache.async_add_records([DNSPointer(TYPE, const._TYPE_PTR, const._CLASS_IN, 4500, "Inst0." + TYPE, created=t - 1000)])
        data = peer_query(tc, t)
        with patch.object(zc, "async_send", lambda *a, **k: None):
            listener._process_datagram_at_time(False, len(data), t, data, PEER)
            if wait_ms:
                await asyncio.sleep(wait_ms / 1000.0)
        outs = generate_service_query(zc, t + wait_ms + 1, {TYPE}, True, DNSQuestionType.QM)
        return bool(outs)
    finally:
        with patch.object(zc, "async_send", lambda *a, **k: None):
            await aiozc.async_close()


async def main() -> int:
    plain = await scenario(tc=False, wait_ms=0)
    early = await scenario(tc=True, wait_ms=0)
    late = await scenario(tc=True, wait_ms=600)
    print("query without TC heard, own ask 1 ms later:            sent = %s (expected False)" % plain)
    print("truncated query heard (rest never arrives), +1 ms:     sent = %s (the sentence says False: heard 1 ms ago, list covered)" % early)
    print("truncated query heard, own ask 601 ms later (timer fired): sent = %s (expected False)" % late)
    return 1 if (early and not plain and not late) else 0


sys.exit(asyncio.run(main()))
