"""D27 (C08, first clause) -- a re-used ServiceInfo is never withdrawn under its old name.

    task = await zc.async_unregister_service(info)
    await zc.async_register_service(info, allow_name_change=True)      # same object, goodbye task not awaited first

`async_unregister_service` builds its purge list from the object at once but only *starts* the goodbye task; the
task reads the object again at each of its three steps (`generate_service_broadcast(info, 0, ...)`, _core.py:404).
The re-registration runs first: `async_check_service` finds the host's OWN announcement of `svc` (multicast loops back
into the cache) and renames the object to `svc-2` before the goodbye task's first step.  All three goodbyes then
carry `svc-2` (a name nobody was ever told about); `svc` is never withdrawn and stays in every peer's cache until its
TTL runs out (PTR/TXT: 75 minutes).

No network: the instance has no sockets; one recording transport plays the interface and hands every response the
host multicasts back to its own record manager (what IP_MULTICAST_LOOP does on a real socket).
Exit status 1 = the defect is present (no goodbye carried the unregistered name).
"""
import asyncio
import socket
import sys
from unittest import mock

sys.path.insert(0, (sys.argv[1] if len(sys.argv) > 1 else "/repo") + "/src")

import zeroconf._core as core  # noqa: E402
from zeroconf import DNSIncoming, ServiceInfo, Zeroconf  # noqa: E402
from zeroconf._transport import _WrappedTransport  # noqa: E402

TYPE = "_http._tcp.local."
NAME = "svc." + TYPE


class Loopback:
    def __init__(self, zc, log, loop):
        self.zc, self.log, self.loop = zc, log, loop

    def sendto(self, data, addr=None):
        data = bytes(data)
        self.log.append((self.loop.time(), data))
        msg = DNSIncoming(data)
        if msg.valid and not msg.is_query():
            self.loop.call_soon(self.zc.record_manager.async_updates_from_response, msg)

    def close(self):
        pass


async def main() -> int:
    with mock.patch.object(core, "create_sockets", return_value=(None, [])):
        zc = Zeroconf(interfaces=["127.0.0.1"])
    loop = asyncio.get_running_loop()
    log = []
    zc.engine.senders.append(_WrappedTransport(Loopback(zc, log, loop), False, None, 99, ("127.0.0.1", 5353)))
    await zc.async_wait_for_start()

    info = ServiceInfo(TYPE, NAME, 80, server="hosta.local.", addresses=[socket.inet_aton("10.0.0.1")])
    await (await zc.async_register_service(info, allow_name_change=True))
    assert info.name == NAME
    await asyncio.sleep(0.3)

    n0 = len(log)
    goodbyes = await zc.async_unregister_service(info)
    announcements = await zc.async_register_service(info, allow_name_change=True)
    await goodbyes
    await announcements
    await asyncio.sleep(0.2)

    withdrawn, bye_names = 0, set()
    for _, data in log[n0:]:
        msg = DNSIncoming(data)
        if msg.is_query():
            continue
        recs = msg.answers()
        if recs and all(r.ttl == 0 for r in recs):
            names = {getattr(r, "alias", r.name) for r in recs}
            bye_names |= names
            if NAME in names:
                withdrawn += 1
    await zc._async_close()
    print("object is now named      :", info.name)
    print("goodbye datagrams named  :", sorted(bye_names))
    print("goodbyes carrying %r : %d of 3" % (NAME, withdrawn))
    if withdrawn < 3:
        print("DEFECT: the unregistered name was never (fully) withdrawn")
        return 1
    print("ok")
    return 0


if __name__ == "__main__":
    sys.exit(asyncio.run(main()))
