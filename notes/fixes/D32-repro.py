"""Standalone repro: packets() called again after NamePartTooLongException returns a corrupt datagram.

usage: /venv/bin/python retry.py [<repo dir, default /repo>]   exit 0 = second call rejects again, 1 = corrupt datagram
"""
import sys

sys.dont_write_bytecode = True
sys.path.insert(0, (sys.argv[1] if len(sys.argv) > 1 else "/repo") + "/src")
from zeroconf import DNSIncoming, DNSOutgoing, DNSQuestion  # noqa: E402
from zeroconf._exceptions import NamePartTooLongException  # noqa: E402

o = DNSOutgoing(0)
o.add_question(DNSQuestion("ok.local.", 12, 1))
o.add_question(DNSQuestion("a" * 64 + ".local.", 12, 1))
try:
    o.packets()
    print("first call: no exception")
    sys.exit(2)
except NamePartTooLongException:
    print("first call: NamePartTooLongException (the message is rejected)")
try:
    p = o.packets()
except NamePartTooLongException:
    print("second call: NamePartTooLongException again -> PASS")
    sys.exit(0)
print("second call returns", [x.hex() for x in p])
inc = DNSIncoming(p[0])
print("valid", inc.valid, "header questions", inc.num_questions, "decoded", [(q.name, q.type) for q in inc.questions])
print("FAIL: a rejected message yields a datagram on the second call; the rejected name is not in it")
sys.exit(1)
