"""Reproduce the three C11 findings D35, D36, D29 on a tree of python-zeroconf (default /repo) with C11's own simulated host and oracle.

  VERIF_REPO=<dir containing src/zeroconf> /venv/bin/python notes/fixes/D35-D36-D29-repro.py [D35|D36|D29 ...]

exit 1 = at least one of the asked findings is reproduced (its oracle sentence is violated), exit 0 = none.

D35  a query from a source port other than 5353 whose bytes equal the preceding datagram's (< 1 s), from ANOTHER source sockaddr, gets no reply
     (duplicate guard of AsyncListener._process_datagram_at_time compares the bytes only)      candidate: notes/fixes/D35-candidate.diff
D36  a plain query from A:p2 while a truncated packet from A:p1 is held is answered together with it: reply to A:p2 with A:p1's id and
     questions, nothing to A:p1 (_deferred / _timers keyed by the address string)               candidate: notes/fixes/D36-candidate.diff
D29  on a host without IPv4 sockets a QU question for an AAAA record multicast well within a quarter of its TTL is multicast again: the host's
     own AAAA record is cached with the IPv6 socket's scope id and looked up without one         candidate: notes/fixes/D29-candidate.diff
"""
import os
import pathlib
import sys

ROOT = pathlib.Path(__file__).resolve().parent.parent.parent
sys.path.insert(0, str(ROOT))
sys.dont_write_bytecode = True

from harness import c11  # noqa: E402  (imports zeroconf from VERIF_REPO)

WHAT = {"D35": ("twin", "C11:identical-bytes-other-source-unanswered"),
        "D36": ("ports", "C11:held-tc-merged-with-other-port"),
        "D29": ("v6own", "C11:scoped-aaaa-not-recognised-as-seen")}


def main():
    asked = [a for a in sys.argv[1:] if a in WHAT] or list(WHAT)
    print("tree:", os.environ.get("VERIF_REPO", "/repo"))
    hit = 0
    for name in asked:
        mode, sig = WHAT[name]
        res = c11._Result("C11")
        ctx = {"tier": "quick", "seed": 0, "widened": False, "driver_ok": False, "stages": {}}   # oracle only, no model
        c11.run_trace_stream(ctx, res, 0, only=[(0, k, mode) for k in range(12)])
        mine = [v for v in res.violations if v["sig"] == sig]
        other = sorted({v["sig"] for v in res.violations} - {s for (_m, s) in WHAT.values()})
        print("%s: %s" % (name, "REPRODUCED -- " + mine[0]["what"][:300] if mine else "not reproduced in 12 scenarios of family '%s'" % mode))
        if other:
            print("     other violations in these scenarios:", other)
        hit += bool(mine)
    return 1 if hit else 0


if __name__ == "__main__":
    sys.exit(main())
