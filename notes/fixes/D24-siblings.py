"""Siblings of D24 on the real code (run: `/venv/bin/python notes/fixes/D24-siblings.py`, `VERIF_REPO=<dir>` for another tree).

S1  with the D24 patch: browsers iterated AFTER a listener that registers another listener with a question inside its update
    callback are told Removed twice for one withdrawal (nested purge round, then the goodbye of the datagram)
S2  the same re-entrant call inside the PERIODIC purge's own round: safe
S5  a browser created inside a first-round callback of the datagram that adds its PTR never reports it (created in the completion
    round it does)
S6  a browser iterated BEFORE a listener that registers another listener with a question inside its update callback has its pending
    Added fired by the nested completion round before the datagram's records are cached
The harness machinery (real DNSCache / RecordManager / _ServiceBrowserBase on a stub Zeroconf, injected clock) is harness/cachecommon.py."""
import os
import sys

sys.path.insert(0, os.path.join(os.path.dirname(os.path.abspath(__file__)), "..", ".."))
from harness import cachecommon as CC  # noqa: E402
from zeroconf._dns import DNSQuestion  # noqa: E402
from zeroconf._updates import RecordUpdateListener  # noqa: E402
import zeroconf._services.browser as zb  # noqa: E402

TX = CC.TX
T0 = CC.T0


def world():
    return CC.World(CC.case_probes({"ops": [["D", T0, [["p", TX, 12, 1, 0, 1125, "a._x._tcp.local."]], []]]}))


print("== S1: four browsers and listener 1; the PTR (1125 s) has run out unpurged when its goodbye arrives; listener 1's update callback")
print("       registers listener 2 with a question")
w = world()
ops = [["BA", 0, T0, [TX]], ["BA", 2, T0, [TX]], ["BA", 4, T0, [TX]], ["BA", 6, T0, [TX]], ["LA", 1],
       ["D", T0 + 10, [["p", TX, 12, 1, 0, 1125, "a._x._tcp.local."]], []],
       ["D", T0 + 10 + 1125000 + 500, [["p", TX, 12, 1, 0, 0, "a._x._tcp.local."]], [[1, 1, 2, 2, 0, "_other._tcp.local.", 12, 1]]]]
for op in ops:
    o = w.apply(op)
    if op[0] == "D":
        print("   D at %d: err=%s browser callbacks (browser, change, name): %s" % (op[1], o["err"], [(c[0], c[1], c[3]) for c in o["cb"]]))

print("== S2: add-with-question inside the periodic purge's round (the clock has moved on inside the callback)")
w = world()
w.apply(["BA", 0, T0, [TX]])
w.apply(["D", T0, [["p", TX, 12, 1, 0, 1125, "a._x._tcp.local."], ["t", "a._x._tcp.local.", 16, 1, 0, 2, "00"]], []])
calls = []


class Re(RecordUpdateListener):
    def __init__(self, w):
        self.w, self.n = w, 0

    def async_update_records(self, zc, now, records):
        calls.append(("update", [CC.C.rec_line(r.new).split(" ")[0] for r in records]))
        self.n += 1
        if self.n == 1:
            CC._CLOCK[0] = float(T0 + 1125000 + 5)      # the PTR has run out as well by now
            zc.async_add_listener(self.w.listener(7), DNSQuestion(TX, 12, 1))

    def async_update_records_complete(self):
        calls.append(("complete",))


w.rm.async_add_listener(Re(w), None)
o = w.apply(["X", T0 + 3000])
print("   err:", o["err"], "| calls of the re-entrant listener:", calls)
print("   browser callbacks:", [(c[0], c[1], c[3]) for c in o["cb"]], "| cache names after:", w.cache.names())

print("== S5: a browser created in a first-round callback of the datagram that adds the PTR it browses for")
for phase in (1, 2):
    w = world()
    made = []

    class Mk(RecordUpdateListener):
        def _make(self, zc):
            if not made:
                b = zb._ServiceBrowserBase(zc, [TX], listener=CC._SvcListener(w, 9))
                made.append(b)
                CC.start_browser(b)

        def async_update_records(self, zc, now, records):
            if phase == 1:
                self._make(zc)

        def async_update_records_complete(self):
            if phase == 2:
                self._make(w.zc)

    w.rm.async_add_listener(Mk(), None)
    o = w.apply(["D", T0, [["p", TX, 12, 1, 0, 4500, "a._x._tcp.local."]], []])
    o2 = w.apply(["D", T0 + 1000, [["p", TX, 12, 1, 0, 4500, "a._x._tcp.local."]], []])
    print("   created in the %s round: callbacks for the datagram %s, for its refresh 1 s later %s, cached PTRs %s"
          % ("update" if phase == 1 else "complete", [(c[0], c[1], c[3]) for c in o["cb"]], [(c[0], c[1], c[3]) for c in o2["cb"]], w.ptr_view()))

print("== S6: browser 0, then (iteration order) a listener whose update callback registers a listener with a question; an address record")
print("       has run out unpurged; the datagram adds PTR b")
w = world()
w.apply(["BA", 0, T0, [TX]])
w.apply(["D", T0, [["a", "h.local.", 1, 1, 0, 120, "0a000001"]], []])


class Late(RecordUpdateListener):
    def __hash__(self):
        return 13          # after the browser (hash 7) in the set's iteration order

    def async_update_records(self, zc, now, records):
        zc.async_add_listener(w.listener(3), DNSQuestion("_other._tcp.local.", 12, 1))

    def async_update_records_complete(self):
        pass


w.rm.async_add_listener(Late(), None)
o = w.apply(["D", T0 + 121000, [["p", TX, 12, 1, 0, 4500, "b._x._tcp.local."]], []])
print("   err:", o["err"], "| callbacks (browser, change, name, lookup inside add_service finds the record):", [(c[0], c[1], c[3], c[4]) for c in o["cb"]])
