import sys; sys.path.insert(0,'/repo/src')
import asyncio, time
from unittest import mock
import zeroconf
from zeroconf import const, DNSPointer, DNSQuestion, DNSIncoming, DNSOutgoing, RecordUpdateListener, current_time_millis
from zeroconf._core import Zeroconf
import zeroconf._handlers.record_manager as rm

async def main():
    zc = Zeroconf(interfaces=['127.0.0.1'])
    await zc.async_wait_for_start()
    T="_x._tcp.local."
    now = current_time_millis()
    # cache a PTR with ttl 1 created 3 s ago -> expired, unpurged
    ptr = DNSPointer(T, const._TYPE_PTR, const._CLASS_IN, 1, "a."+T, created=now-3000)
    zc.cache.async_add_records([ptr])
    class L(RecordUpdateListener):
        def __init__(s): s.n=0
        def async_update_records(s, zc_, now_, recs):
            s.n+=1
            if s.n==1:
                zc_.async_add_listener(L2(), DNSQuestion("_other._tcp.local.", const._TYPE_PTR, const._CLASS_IN))
        def async_update_records_complete(s): print("complete L")
    class L2(RecordUpdateListener):
        def async_update_records(s, *a): pass
        def async_update_records_complete(s): pass
    zc.async_add_listener(L(), None)
    # goodbye datagram for that PTR
    out = DNSOutgoing(const._FLAGS_QR_RESPONSE | const._FLAGS_AA)
    out.add_answer_at_time(DNSPointer(T, const._TYPE_PTR, const._CLASS_IN, 0, "a."+T), 0)
    msg = DNSIncoming(out.packets()[0])
    try:
        zc.record_manager.async_updates_from_response(msg)
        print("no exception")
    except Exception as e:
        print("RAISED", type(e).__name__, e)
    await zc._async_close()
asyncio.run(main())
