"""D30 (C17): `Zeroconf.close()` called from the callback thread of a thread-based `ServiceBrowser` that the
instance tracks (`Zeroconf.add_service_listener`) raises `RuntimeError: cannot join current thread` out of
`close()`; the instance is left half shut: `done` is False, the sockets are open, the browser's `_async_cancel`
has run once and the browser is still in `zc.browsers` -- so the *next* `close()` schedules `_async_cancel` a second
time and its `assert self._query_sender_task is not None` fails inside the event loop.

The calling thread is a non-loop thread (the browser's own thread), i.e. inside C17's quantifier
("close from a non-loop thread requested at any instant").  Closing an instance from a discovery callback
("found what I was looking for -> shut down") is an ordinary thing to do.

Standalone: `/venv/bin/python notes/fixes/D30-repro.py [path-to-src]` (default /repo/src); real sockets on 127.0.0.1.
Prints `D30 REPRODUCED` (exit 1) on the unrepaired tree, `D30 not reproduced` (exit 0) with notes/fixes/D30.diff applied.
"""
import logging
import sys
import threading
import time

sys.dont_write_bytecode = True
sys.path.insert(0, sys.argv[1] if len(sys.argv) > 1 else "/repo/src")

from zeroconf import DNSOutgoing, ServiceListener, Zeroconf, const  # noqa: E402
from zeroconf._dns import DNSPointer  # noqa: E402

T = "_d30._tcp.local."
seen = []
loop_errors = []


class CloseOnFirstHit(ServiceListener):
    def add_service(self, zc, type_, name):
        who = threading.current_thread().name
        try:
            zc.close()
            seen.append(("close() returned", who, name))
        except BaseException as ex:  # noqa: BLE001
            seen.append(("close() RAISED %s: %s" % (type(ex).__name__, ex), who, name))

    def remove_service(self, zc, type_, name):
        seen.append(("remove_service", threading.current_thread().name, name))

    def update_service(self, zc, type_, name):
        seen.append(("update_service", threading.current_thread().name, name))


logging.getLogger("zeroconf").setLevel(logging.CRITICAL)
zc = Zeroconf(interfaces=["127.0.0.1"])
zc.loop.call_soon_threadsafe(
    zc.loop.set_exception_handler, lambda loop, ctx: loop_errors.append(repr(ctx.get("exception") or ctx.get("message")))
)
zc.add_service_listener(T, CloseOnFirstHit())
time.sleep(0.3)
out = DNSOutgoing(const._FLAGS_QR_RESPONSE | const._FLAGS_AA)
out.add_answer_at_time(DNSPointer(T, const._TYPE_PTR, const._CLASS_IN, 4500, "found." + T), 0)
zc.loop.call_soon_threadsafe(zc.engine.protocols[0].datagram_received, out.packets()[0], ("127.0.0.1", 5353))
time.sleep(1.0)

socks_open = [t.transport.is_closing() is False for t in zc.engine.senders + zc.engine.readers]
print("callback thread saw      :", seen)
print("after that close()       : done=%s, transports still open=%s, listener still tracked=%s" % (zc.done, socks_open, len(zc.browsers)))
second = None
try:
    zc.close()
    second = "returned"
except BaseException as ex:  # noqa: BLE001
    second = "RAISED %s: %s" % (type(ex).__name__, ex)
time.sleep(0.2)
print("close() from main thread :", second, "| done=%s" % zc.done)
print("loop exception handler   :", loop_errors)
bad = any(s[0].startswith("close() RAISED") for s in seen) or bool(loop_errors)
print("D30 REPRODUCED" if bad else "D30 not reproduced")
sys.exit(1 if bad else 0)
