"""D32 (C17): two `Zeroconf.close()` calls from two non-loop threads that overlap in time -- one of them raises.

Instance with its own loop thread (created with no running loop), one service registered.  Thread 1 calls `close()`
and is inside `unregister_all_services()` (three goodbyes, 250 ms).  Thread 2 calls `close()` meanwhile: the registry
is already empty, so it goes straight through `_close()`, `engine.close()` and `_shutdown_threads()`, which waits for
the pending tasks and **stops the loop** and joins its thread.  Thread 1 then comes back from its goodbyes to an
instance whose loop is gone:
  * `engine.close()` passed `loop.is_running()` just before the stop -> `run_coro_with_timeout(_async_close())` never
    completes -> `EventLoopBlocked` after 13 s; or
  * `_shutdown_threads()` read `_loop_thread` before thread 2 cleared it -> `shutdown_loop()` on the stopped loop ->
    `concurrent.futures.TimeoutError` after 3 s (or `AttributeError: 'NoneType' object has no attribute 'join'`).
"Closing again is a no-op" (C17) fails for the sync API when the two calls overlap -- the sync sibling of D17
(overlapping `async_close()` during start-up, fixed 25230c1).  A sequential second `close()` is fine.

Standalone: `/venv/bin/python notes/fixes/D32-repro.py [path-to-src] [stagger-ms]` (default /repo/src, 20 ms); real
sockets on 127.0.0.1; takes up to 13 s.  Prints `D32 REPRODUCED` and exits 1 when a close() call raised.
"""
import logging
import socket
import sys
import threading
import time

sys.dont_write_bytecode = True
sys.path.insert(0, sys.argv[1] if len(sys.argv) > 1 else "/repo/src")
stagger = (int(sys.argv[2]) if len(sys.argv) > 2 else 20) / 1000.0

from zeroconf import ServiceInfo, Zeroconf  # noqa: E402

logging.getLogger("zeroconf").setLevel(logging.CRITICAL)
logging.getLogger("asyncio").setLevel(logging.CRITICAL)
zc = Zeroconf(interfaces=["127.0.0.1"])
zc.register_service(
    ServiceInfo("_d32._tcp.local.", "one._d32._tcp.local.", 80, addresses=[socket.inet_aton("127.0.0.1")], server="d32.local."),
    cooperating_responders=True,
)
results = []


def closer(k):
    time.sleep(stagger * k)
    t0 = time.monotonic()
    try:
        zc.close()
        results.append((k, "returned", round((time.monotonic() - t0) * 1000)))
    except BaseException as ex:  # noqa: BLE001
        results.append((k, "RAISED %s %s" % (type(ex).__name__, ex), round((time.monotonic() - t0) * 1000)))


threads = [threading.Thread(target=closer, args=(k,)) for k in range(2)]
for t in threads:
    t.start()
for t in threads:
    t.join(30)
for r in sorted(results):
    print("close() call #%d: %s after %d ms" % r)
bad = any(r[1] != "returned" for r in results) or len(results) < 2
print("D32 REPRODUCED" if bad else "D32 not reproduced")
sys.exit(1 if bad else 0)
