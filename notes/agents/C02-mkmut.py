"""usage: python3 notes/agents/C02-mkmut.py <name>  -> /tmp/wpC02/mut-<name>/src (copy of /repo/src with one edit); then
VERIF_REPO=/tmp/wpC02/mut-<name> ./check C02 quick   (table in notes/agents/C02.md, "Mutants"; mF additionally needs
`self._did_read_others = True` appended at the end of `_read_others`; delete the copies afterwards)"""
import shutil, sys, os, pathlib

MUTS = {
    # second review, table 4
    "mC": ("_protocol/incoming.py", "                        rdtypes.append(bit + window * 256 + i * 8)\n",
           "                        rdtypes.append(bit + window * 256 + i * 8)\n                        rdtypes.sort()\n"),
    "mA": ("_protocol/incoming.py", "                        rdtypes.append(bit + window * 256 + i * 8)\n",
           "                        t = bit + window * 256 + i * 8\n                        if t not in rdtypes:\n                            rdtypes.append(t)\n"),
    "mD": ("_protocol/incoming.py", "if len(seen_pointers) >= MAX_DNS_LABELS:", "if len(seen_pointers) >= 32:"),
    "mE": ("_protocol/incoming.py", "if len(labels) > MAX_DNS_LABELS:", "if len(labels) > 64:"),
    "mB": ("_protocol/incoming.py", "                seen_pointers.add(link_py_int)\n", "                seen_pointers.add(link_py_int)\n                seen_pointers.add(off)\n"),
    # mine: python-level quadratic work in the bitmap loop (a re-validation pass per window)
    "mQ": ("_protocol/incoming.py", "            self.offset += 2 + bitmap_length\n        return rdtypes",
           "            self.offset += 2 + bitmap_length\n            for t in rdtypes:\n                if t > 65535:\n                    raise IncomingDecodeError('bad type')\n        return rdtypes"),
    # mine: insert at the front (C-level quadratic)
    "mI": ("_protocol/incoming.py", "                        rdtypes.append(bit + window * 256 + i * 8)\n",
           "                        rdtypes.insert(0, bit + window * 256 + i * 8)\n"),
    # mine: the bitmap loop does not skip the window it has read when it is empty (re-scan: offset advances by 2 only ... still terminates)
    "mR": ("_protocol/incoming.py", "            self.offset += 2 + bitmap_length\n", "            self.offset += 2 + (bitmap_length if bitmap_length < 200 else 0)\n"),
    # mine: a python-level per-record pass over all answers so far (quadratic in the number of records)
    "mP": ("_protocol/incoming.py", "            if rec is not None:\n                self._answers.append(rec)\n",
           "            if rec is not None:\n                for old in self._answers:\n                    if old is rec:\n                        break\n                self._answers.append(rec)\n"),
    # escape 7 of the second review: behaviour that depends on how full the memo is
    "mS": ("_protocol/incoming.py", "        if exc_str not in _seen_logs:\n", "        if len(_seen_logs) >= 512:\n            raise RuntimeError('log memo full')\n        if exc_str not in _seen_logs:\n"),
    # item 4: only datagrams with an unsupported record are affected
    "mU": ("_protocol/incoming.py", "        self.offset += length\n        return None\n", "        self.offset += length & 0xFF\n        return None\n"),
    # escape 8: `_did_read_others` set only on success -> a second answers() call parses again
    "mF": ("_protocol/incoming.py", "        self._did_read_others = True\n        view = self.view\n        n = self._num_answers",
           "        view = self.view\n        n = self._num_answers"),
    # escape 6: a narrowed C type in the .pxd
    "mX": ("_protocol/incoming.pxd", '        link="unsigned int",', '        link="unsigned short",'),
}

name = sys.argv[1]
f, old, new = MUTS[name]
dst = pathlib.Path("/tmp/wpC02/mut-" + name)
if dst.exists():
    shutil.rmtree(dst)
dst.mkdir(parents=True)
shutil.copytree("/repo/src", dst / "src")
p = dst / "src" / "zeroconf" / f
s = p.read_text()
assert s.count(old) == 1, (name, s.count(old))
p.write_text(s.replace(old, new))
print(dst)
