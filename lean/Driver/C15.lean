import Zc.Model.Survive
import Zc.Model.Wire.BitmapIters
namespace Zc.Driver.C15
open Zc Zc.Wire Zc.Survive

def b01 (b : Bool) : String := if b then "1" else "0"

/-- one block of a host history -/
inductive Op where
  | recv (entries ucast : Bool) (now : Int) (draw : Nat) (addr : String) (port : Nat) (data : Bytes)
  | tcfire (ucast : Bool) (addr : String)

def Op.parse : Tok Op := do
  let k ← Tok.next
  if k = "r" then
    let entries ← Tok.bool; let ucast ← Tok.bool; let now ← Tok.int; let draw ← Tok.nat
    let addr ← Tok.str; let port ← Tok.nat; let data ← Tok.bytes
    pure (.recv entries ucast now draw addr port data)
  else if k = "t" then
    let ucast ← Tok.bool; let addr ← Tok.str
    pure (.tcfire ucast addr)
  else failure

/-- a harmless registry record standing for "the unicast answer set is not empty" -/
def dummy : Encode.ERecord := ⟨[[104, 97], [108, 111, 99, 97, 108]], 1, 1, true, 120, 0, .addr [10, 0, 0, 1]⟩

/-- the scripted downstream: state = (`registry.has_entries`, "async_response returns unicast answers"),
both observed on the implementation for the block at hand -/
def scripted : Down (Bool × Bool) String where
  ingest s _ := .ok (s, ["R"])
  hasEntries s := s.1
  answer s _ _ := .ok (s, some ⟨if s.2 then ⟨[dummy], []⟩ else ⟨[], []⟩, ⟨[], []⟩, false, false⟩)
  enqueue s _ _ := (s, [])

def insertBy {α} (k : String) (v : α) : List (String × α) → List (String × α)
  | [] => [(k, v)]
  | (k', v') :: r => if k < k' then (k, v) :: (k', v') :: r else (k', v') :: insertBy k v r

def sortByKey {α} (l : List (String × α)) : List (String × α) := l.foldl (fun acc p => insertBy p.1 p.2 acc) []

def summary (s : State (Bool × Bool)) : String :=
  let ts := sortByKey s.timers
  let ds := sortByKey (s.deferred.filter (fun p => !p.2.isEmpty))
  let t := if ts.isEmpty then "-" else ",".intercalate (ts.map (fun p => s!"{p.1}@{p.2.due}"))
  let d := if ds.isEmpty then "-" else ",".intercalate (ds.map (fun p => s!"{p.1}#{p.2.length}"))
  s!"{t}/{d}"

def runOps : State (Bool × Bool) → List Op → List String
  | _, [] => []
  | s, .recv entries ucast now draw addr port data :: rest =>
    let s := { s with down := (entries, ucast) }
    match recv scripted s data addr port now draw with
    | .ok (s', _, tag) => s!"{tag.toString}/-/{summary s'}" :: runOps s' rest
    | .error e => s!"error/{e.name}/-/-" :: runOps s rest
  | s, .tcfire ucast addr :: rest =>
    let s := { s with down := (s.down.1, ucast) }
    match tcFire scripted s addr with
    | .ok (s', _, tag) => s!"{tag.toString}/-/{summary s'}" :: runOps s' rest
    | .error e => s!"error/{e.name}/-/-" :: runOps s rest

/-- `c15run <n> { r <entries> <ucast> <t> <draw> <addr> <port> <data> | t <ucast> <addr> }` →
per block `tag/exception/timers/deferred` -/
def c15run (toks : List String) : String :=
  match (do let ops ← Tok.list Op.parse; Tok.done; pure ops : Tok (List Op)).run toks with
  | some (ops, _) => " ".intercalate (runOps (State.init (false, false)) ops)
  | none => "bad-op"

/-- `c15enc <data>` → does writing back any decoded name raise NamePartTooLongException (`0` = all names
can be written back), and the theorem's predicate `encodable` -/
def c15enc (toks : List String) : String :=
  match (do let d ← Tok.bytes; Tok.done; pure d : Tok Bytes).run toks with
  | some (d, _) =>
    match (DecodeLib.parse d).parsed? with
    | none => "none -"
    | some p => s!"{b01 (!(DecodeSpec.namesOf p).any writeBackRaises)} {b01 (encodable p)}"
  | none => "bad-op"

/-- `c15bm <data> <off> <end>` → windows entered and bitmap bytes scanned by `_read_bitmap(end)` entered at `off` -/
def c15bm (toks : List String) : String :=
  match (do let d ← Tok.bytes; let o ← Tok.nat; let e ← Tok.nat; Tok.done; pure (d, o, e) : Tok (Bytes × Nat × Nat)).run toks with
  | some ((d, o, e), _) => let r := DecodeLib.bitmapWork d o e; s!"{r.1} {r.2}"
  | none => "bad-op"

def dispatch (cmd : String) (rest : List String) : Option String :=
  match cmd with
  | "c15run" => some (c15run rest)
  | "c15enc" => some (c15enc rest)
  | "c15bm" => some (c15bm rest)
  | _ => none

end Zc.Driver.C15
