import Zc.Model.Wire.Strict
namespace Zc.Driver.Wire
open Zc Zc.Wire

/-- `strict <hex>` → `ok <msg line>` | `reject` -/
def strict (toks : List String) : String :=
  match toks with
  | [h] => match bytesOfHex h with
    | some b => match Strict.decode b with
      | some m => "ok " ++ m.toLine
      | none => "reject"
    | none => "bad-op"
  | _ => "bad-op"

/-- `utf8 <hex>` → `<charCount> <reencodedLen> <codepoints,>` -/
def utf8 (toks : List String) : String :=
  match toks with
  | [h] => match bytesOfHex h with
    | some b => s!"{Utf8.charCount b} {Utf8.reencodedLen b} {natListStr (Utf8.decodeReplace b)}"
    | none => "bad-op"
  | _ => "bad-op"

def dispatch (cmd : String) (rest : List String) : Option String :=
  match cmd with
  | "strict" => some (strict rest)
  | "utf8" => some (utf8 rest)
  | _ => none

end Zc.Driver.Wire
