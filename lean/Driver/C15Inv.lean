import Zc.Proofs.SurviveApi
/-! `c15inv`: evaluate the clauses of the composite invariant (`CInv` / `TInv`, C15) on a state **extracted from a real instance** at a
block boundary (review 2, finding 4): the registry with its two indexes, both indexes of the cache, every browser's scheduler
(dict + heap) and pending-handler count, the browsed types and the names of the lookups in progress.

Each clause is the executable twin of the Prop the theorems use (the Props themselves where they are decidable: `RecSafe`,
`NameSafe`, `KeysDistinct`-style pairwise tests; a finite check where the Prop quantifies over all strings: `IdxOk` is checked
bucket by bucket and service by service). -/
namespace Zc.Driver.C15Inv
open Zc Zc.Wire Zc.Survive Zc.Survive.Comp Zc.Survive.Api

def low := asciiLower

/-! ### registry: `IndexInv` -/

def bucketOf (f : Svc → String) (svcs : List Svc) (k : String) : List String :=
  (svcs.filter (fun s => f s == k)).map (fun s => low s.name)

def distinctS : List String → Bool
  | [] => true
  | a :: t => !(t.contains a) && distinctS t

/-- every bucket is exactly the keys of the services with that type / server, in registration order, and not empty; every service
has its bucket; no key twice -/
def idxOkB (f : Svc → String) (svcs : List Svc) (idx : NameIndex) : Bool :=
  distinctS (idx.map (·.1)) && idx.all (fun kb => !kb.2.isEmpty && kb.2 == bucketOf f svcs kb.1) &&
    svcs.all (fun s => (dget (f s) idx).isSome)

def indexInvB (reg : Registry) : Bool :=
  distinctS (reg.services.map (fun s => low s.name)) && idxOkB (Svc.typeKey low) reg.services reg.types &&
    idxOkB (Svc.serverKey low) reg.services reg.servers && (reg.hasEntries == !reg.services.isEmpty)

/-- `RegSafe`: every own record of every registered service is accepted by the encoder (the Prop itself, decided) -/
def regSafeB (reg : Registry) : Bool :=
  reg.services.all (fun s => (RespSpec.own low 4500 s).all (fun r => decide (RecSafe (wireOfRec r) 0)))

/-! ### cache: the shape behind `Refines ∧ Flat.WF`, `names`, `fields` -/

def pairwiseNe : List Rec → Bool
  | [] => true
  | a :: t => !(t.any (fun b => a.beq low b)) && pairwiseNe t

/-- `str.lower` is ASCII lowering in the driver (DESIGN §4): names with other characters are not judged where case folding matters -/
def asciiS (s : String) : Bool := s.toList.all (fun (c : Char) => decide (c.toNat < 128))

/-- by-name index: keys distinct, no empty bucket, every record under its lower-cased name, no identity twice in a bucket -/
def cacheShapeB (c : Cache) : Bool :=
  distinctS (c.cache.map (·.1)) &&
    c.cache.all (fun kb => !kb.2.isEmpty && kb.2.all (fun r => !asciiS r.name || low r.name == kb.1) && pairwiseNe kb.2)

/-- by-server index: exactly the SRV records of the by-name index, under their lower-cased target -/
def svcShapeB (c : Cache) : Bool :=
  distinctS (c.svc.map (·.1)) &&
    c.svc.all (fun kb => !kb.2.isEmpty && pairwiseNe kb.2 &&
      kb.2.all (fun r => (!asciiS kb.1 || r.serverKey low == some kb.1) &&
        (!asciiS r.name || (c.cache.get (low r.name)).any (fun e => e.beq low r)))) &&
    c.allRecs.all (fun r => match r.serverKey low with
      | some k => !asciiS k || (c.svc.get k).any (fun e => e.beq low r)
      | none => true)

def nameSafeB (s : String) : Bool := decide (NameSafe (labelsOfText s))

/-- `CInv.names` as the timer blocks use it: every name of every cached record is accepted by the encoder -/
def recNamesB (r : Rec) : Bool :=
  nameSafeB r.name &&
    match r.rdata with
    | .ptr a => nameSafeB a
    | .srv _ _ _ t => nameSafeB t
    | .nsec n _ => nameSafeB n
    | _ => true

/-- `RecFieldsOK` -/
def recFieldsB (r : Rec) : Bool :=
  decide (r.type < 65536) && decide (r.class_ < 32768) && decide (r.ttl < 4294967296) &&
    (match r.rdata with
     | .addr a _ => decide (a.length ≤ 60000)
     | .txt t => decide (t.length ≤ 60000)
     | .srv p w q _ => decide (p < 65536) && decide (w < 65536) && decide (q < 65536)
     | .hinfo _ _ => r.type == 13
     | .nsec _ _ => r.type == 47
     | _ => true)

def cacheRecs (c : Cache) : List Rec := c.allRecs ++ c.svc.flatMap (·.2)

/-! ### schedulers: `Inv2` (C10's `HD`), pending handlers -/

structure SchedDump where
  /-- `_next_scheduled_for_alias`: alias ↦ object id -/
  dict : List (String × Nat)
  /-- `_query_heap`: (object id, alias, name, cancelled) -/
  heap : List (Nat × String × String × Bool)
  types : List String
  pending : Nat

/-- every dict value is a live heap member for its alias, every live heap member is its alias' dict value, ids distinct -/
def hdB (s : SchedDump) : Bool :=
  distinctS (s.dict.map (·.1)) &&
    s.dict.all (fun e => s.heap.any (fun o => o.1 == e.2 && o.2.1 == e.1 && !o.2.2.2)) &&
    s.heap.all (fun o => o.2.2.2 || s.dict.any (fun e => e.1 == o.2.1 && e.2 == o.1)) &&
    (let ids := s.heap.map (·.1); ids.all (fun i => (ids.filter (· == i)).length == 1))

/-! ### the protocol -/

def parseSvc : Tok Svc := do
  let name ← Tok.str; let type ← Tok.str; let server ← Tok.str; let port ← Tok.nat; let text ← Tok.bytes
  let v4 ← Tok.list Tok.bytes; let v6 ← Tok.list Tok.bytes; let httl ← Tok.nat; let ottl ← Tok.nat
  pure { type := type, name := name, server := server, port := port, weight := 0, priority := 0, text := text, hostTtl := httl,
         otherTtl := ottl, v4 := v4, v6 := v6 }

def parseIdx : Tok NameIndex := Tok.list (do let k ← Tok.str; let v ← Tok.list Tok.str; pure (k, v))

def parseIndex : Tok Index := Tok.list (do let k ← Tok.str; let v ← Tok.list Rec.parse; pure (k, v))

def parseSched : Tok SchedDump := do
  let dict ← Tok.list (do let a ← Tok.str; let i ← Tok.nat; pure (a, i))
  let heap ← Tok.list (do let i ← Tok.nat; let a ← Tok.str; let n ← Tok.str; let c ← Tok.bool; pure (i, a, n, c))
  let types ← Tok.list Tok.str
  let pending ← Tok.nat
  pure ⟨dict, heap, types, pending⟩

def b01 (b : Bool) : String := if b then "1" else "0"

/-- `c15inv <services> <types idx> <servers idx> <has> <cache idx> <service_cache idx> <schedulers> <lookup names>` →
`index regsafe cacheshape svcshape names fields hd pending typessafe heapnames lookok`, one bit each -/
def c15inv (toks : List String) : String :=
  let p : Tok String := do
    let svcs ← Tok.list parseSvc
    let types ← parseIdx; let servers ← parseIdx; let has ← Tok.bool
    let cache ← parseIndex; let svc ← parseIndex
    let scheds ← Tok.list parseSched
    let looks ← Tok.list Tok.str
    Tok.done
    let reg : Registry := { services := svcs, types := types, servers := servers, hasEntries := has }
    let c : Cache := { cache := cache, svc := svc }
    pure (" ".intercalate
      [b01 (indexInvB reg), b01 (regSafeB reg), b01 (cacheShapeB c), b01 (svcShapeB c),
       b01 ((cacheRecs c).all recNamesB), b01 ((cacheRecs c).all recFieldsB),
       b01 (scheds.all hdB), b01 (scheds.all (fun s => s.pending == 0)),
       b01 (scheds.all (fun s => s.types.all nameSafeB)), b01 (scheds.all (fun s => s.heap.all (fun o => nameSafeB o.2.2.1))),
       b01 (looks.all nameSafeB)])
  match p.run toks with
  | some (r, _) => r
  | none => "bad-op"

def dispatch (cmd : String) (rest : List String) : Option String :=
  match cmd with
  | "c15inv" => some (c15inv rest)
  | _ => none

end Zc.Driver.C15Inv
