import Zc.Model.Wire.DecodeSpec
import Zc.Model.Wire.DecodeWork
namespace Zc.Driver.C02
open Zc Zc.Wire Zc.Wire.DecodeLib Zc.Wire.DecodeSpec

def b01 (b : Bool) : String := if b then "1" else "0"

/-- `c02 <hex>` → the model's run of `DNSIncoming(data)` + `answers()` -/
def cmdParse (toks : List String) : String :=
  match toks with
  | [h] => match bytesOfHex h with
    | some b => (parse b).toLine
    | none => "bad-op"
  | _ => "bad-op"

/-- `c02s <hex>` → `reject` | `ok <supportedOnly> <reencodable> | <canonical strict message>`:
header, questions, then the three sections flattened with NSEC types sorted (what `answers()` shows) -/
def cmdStrict (toks : List String) : String :=
  match toks with
  | [h] => match bytesOfHex h with
    | some b => match Strict.decode b with
      | some m =>
        let rs := flat m
        s!"ok {b01 (Strict.supportedOnly m)} {b01 (reencodable m)} | {m.id} {m.flags} {m.questions.length} {m.answers.length} {m.authorities.length} {m.additionals.length} {m.questions.length}"
          ++ String.join (m.questions.map (fun q => " " ++ q.toLine))
          ++ s!" {rs.length}" ++ String.join (rs.map (fun r => " " ++ r.toLine))
      | none => "reject"
    | none => "bad-op"
  | _ => "bad-op"

/-- `c02b <len> <names> <acts> <reads> <depth>` → the budget predicate on measured counters -/
def cmdBudget (toks : List String) : String :=
  match toks.mapM String.toNat? with
  | some [len, names, acts, reads, depth] => b01 (withinBudget len names acts reads depth)
  | _ => "bad-op"

/-- `c02w <hex>` → the model's loop counters: `questions records bmCalls bmIters bmBytes bmTypes` -/
def cmdWork (toks : List String) : String :=
  match toks with
  | [h] => match bytesOfHex h with
    | some b => (parseWork b).toLine
    | none => "bad-op"
  | _ => "bad-op"

/-- `c02wb <len> <names> <acts> <reads> <questions> <records> <bmCalls> <bmIters> <bmBytes> <bmTypes> <steps>` →
`<loops within budget> <lines within the calibrated cost model>` on measured counters -/
def cmdWorkBudget (toks : List String) : String :=
  match toks.mapM String.toNat? with
  | some [len, names, acts, reads, q, r, calls, iters, bytes, types, steps] =>
    let w : Work := ⟨q, r, calls, iters, bytes, types⟩
    s!"{b01 (workWithin len w)} {b01 (linesWithin steps names acts reads w)}"
  | _ => "bad-op"

/-- `c02g <len>` → does the listener hand a datagram of that length to the decoder -/
def cmdGuard (toks : List String) : String :=
  match toks.mapM String.toNat? with
  | some [len] => b01 (!Gen.Incoming.oversize len)
  | _ => "bad-op"

/-- `c02n <name>` → `<nameLen> <short>`: the 253-character predicate on one name -/
def cmdNameLen (toks : List String) : String :=
  match toks with
  | [t] => match parseName t with
    | some n => s!"{nameLen n} {b01 (decide (nameLen n ≤ 253))}"
    | none => "bad-op"
  | _ => "bad-op"

def dispatch (cmd : String) (rest : List String) : Option String :=
  match cmd with
  | "c02" => some (cmdParse rest)
  | "c02s" => some (cmdStrict rest)
  | "c02b" => some (cmdBudget rest)
  | "c02w" => some (cmdWork rest)
  | "c02wb" => some (cmdWorkBudget rest)
  | "c02g" => some (cmdGuard rest)
  | "c02n" => some (cmdNameLen rest)
  | _ => none

end Zc.Driver.C02
