import Zc.Model.Reply
/-! driver commands for C12 / C11 (reply timing and routing) -/
namespace Zc.Driver.C12
open Zc Zc.Reply

def sortN (l : List Nat) : List Nat := l.mergeSort (fun a b => decide (a ≤ b))

def pDict : Tok Dict := Tok.list (do let k ← Tok.nat; let v ← Tok.natList; pure (k, v))
def pSeen : Tok SeenMap := Tok.list (do let r ← Tok.nat; let c ← Tok.int; let t ← Tok.nat; pure (r, { created := c, ttl := t }))
def pCand : Tok Cand := do let id ← Tok.nat; let ttl ← Tok.nat; let sup ← Tok.bool; let adds ← Tok.natList; pure { id, ttl, adds, sup }
def pItem : Tok QItem := do let qu ← Tok.bool; let cands ← Tok.list pCand; pure { qu, cands }
def pPkt (dataId : Nat) : Tok Pkt := do
  let now ← Tok.int; let id ← Tok.nat; let flags ← Tok.nat; let numAuth ← Tok.nat; let nq ← Tok.nat; let q0type ← Tok.nat
  let items ← Tok.list pItem
  let known ← Tok.list (do let r ← Tok.nat; let t ← Tok.nat; pure (r, t))
  pure { dataId, now, id, flags, numAuth, nq, q0type, items, known }

def pEv : Tok Ev := do
  let k ← Tok.next
  match k with
  | "rx" => do
    let t ← Tok.int; let addr ← Tok.nat; let port ← Tok.nat; let dataId ← Tok.nat; let size ← Tok.nat; let isq ← Tok.bool; let qus ← Tok.natList
    let hasQu := isq && hasQuFlag (qus.map (fun b => decide (b ≠ 0)))
    let kk ← Tok.next
    let kind ← match kk with
      | "i" => pure RxKind.invalid
      | "r" => pure RxKind.response
      | "q" => do let p ← pPkt dataId; pure (RxKind.query p)
      | _ => failure
    let seen ← pSeen
    let draws ← Tok.list Tok.int
    pure (Ev.rx t addr port dataId size hasQu kind seen draws)
  | "tc" => do
    let t ← Tok.int; let addr ← Tok.nat; let seen ← pSeen; let draws ← Tok.list Tok.int
    pure (Ev.tcfire t addr seen draws)
  | "qf" => do let t ← Tok.int; let d ← Tok.bool; pure (Ev.qfire t d)
  | "qr" => do let t ← Tok.int; let d ← Tok.bool; let recs ← Tok.natList; pure (Ev.qremove t d recs)
  | _ => failure

def idsStr (l : List Nat) : String := natListStr (sortN l)

def outStr : Out → String
  | .mcast a b => s!"m:{idsStr a}:{idsStr b}"
  | .ucast addr port id nq a b => s!"u:{addr}:{port}:{id}:{nq}:{idsStr a}:{idsStr b}"

def drawStr (d : Draw) : String := s!"{d.lo}/{d.hi}/{d.v}"

def evOutStr (x : Int × List Out × List Draw) : String :=
  let outs := if x.2.1.isEmpty then "-" else ",".intercalate ((x.2.1.map outStr).mergeSort (fun a b => decide (a ≤ b)))
  let draws := if x.2.2.isEmpty then "-" else ",".intercalate (x.2.2.map drawStr)
  s!"{outs} {draws}"

/-- run as far as the model accepts; report where it stopped -/
def runPrefix : Host → Int → List Ev → List String → List String × Option String
  | _, _, [], acc => (acc.reverse, none)
  | h, clock, e :: es, acc =>
    if e.time < clock then (acc.reverse, some "time-went-backwards") else
    match h.step e with
    | .error m => (acc.reverse, some m)
    | .ok r => runPrefix r.host e.time es (evOutStr (e.time, r.outs, r.draws) :: acc)

/-- `c12run <events>` → `ok | <outs draws> | …` or `reject <index> <reason> | …` -/
def c12run (toks : List String) : String :=
  match (do let evs ← Tok.list pEv; Tok.done; pure evs : Tok (List Ev)).run toks with
  | some (evs, _) =>
    let (outs, err) := runPrefix {} (evs.head?.map Ev.time |>.getD 0) evs []
    let body := " | ".intercalate outs
    match err with
    | none => s!"ok | {body}"
    | some m => s!"reject {outs.length} {m} | {body}"
  | none => "bad-op"

/-! queue op sequences -/

inductive QOp where
  | add (clock now draw : Int) (answers : Dict)
  | fire (now : Int)
  | remove (clock : Int) (recs : List Nat)

def pQOp : Tok QOp := do
  let k ← Tok.next
  match k with
  | "a" => do let c ← Tok.int; let n ← Tok.int; let d ← Tok.int; let a ← pDict; pure (QOp.add c n d a)
  | "f" => do let n ← Tok.int; pure (QOp.fire n)
  | "r" => do let c ← Tok.int; let recs ← Tok.natList; pure (QOp.remove c recs)
  | _ => failure

def dictStr (d : Dict) : String :=
  if d.isEmpty then "-" else ",".intercalate (d.map (fun e => s!"{e.1}={"+".intercalate ((sortN e.2).map toString)}"))

def qStr (q : Queue) : String :=
  let gs := if q.groups.isEmpty then "-" else ";".intercalate (q.groups.map (fun g => s!"{g.sa}/{g.sb}/{dictStr g.answers}"))
  let tm := match q.timer with | some d => toString d | none => "-"
  s!"{gs} {tm}"

def runQ (p : QP) : Queue → List QOp → List String → List String
  | _, [], acc => acc.reverse
  | q, .add c n d a :: ops, acc =>
    if (match q.timer with | some due => decide (c ≤ due) | none => true) && decide (drawLo ≤ d ∧ d ≤ drawHi) then
      let q' := q.add p c n d a
      runQ p q' ops (s!"{qStr q'}" :: acc)
    else (s!"reject" :: acc).reverse
  | q, .fire n :: ops, acc =>
    if q.timer = some n then
      let (q', b) := q.ready n
      let bs := match b with | some b => dictStr b | none => "none"
      runQ p q' ops (s!"{qStr q'} {bs}" :: acc)
    else (s!"reject" :: acc).reverse
  | q, .remove c recs :: ops, acc =>
    if (match q.timer with | some due => decide (c ≤ due) | none => true) then
      let q' := q.removeRecords recs
      runQ p q' ops (s!"{qStr q'}" :: acc)
    else (s!"reject" :: acc).reverse

/-- `c12q <delayed> <ops>`: the real queue parameters (`out_queue` / `out_delay_queue`) -/
def c12q (toks : List String) : String :=
  match (do let d ← Tok.bool; let ops ← Tok.list pQOp; Tok.done; pure (d, ops) : Tok (Bool × List QOp)).run toks with
  | some ((d, ops), _) => " | ".intercalate (runQ (if d then delayQP else outQP) {} ops [])
  | none => "bad-op"

/-- `c12cls <isProbe> <ucastSource> <qu> <nq> <q0type> <now> <seen: - | created ttl>` → `ucast mcastNow agg last` for one record -/
def c12cls (toks : List String) : String :=
  match (do
    let probe ← Tok.bool; let us ← Tok.bool; let qu ← Tok.bool; let nq ← Tok.nat; let q0 ← Tok.nat; let now ← Tok.int
    let s ← Tok.next
    let seen ← if s = "-" then pure none else do
      let c ← (match s.toInt? with | some c => pure c | none => failure : Tok Int)
      let t ← Tok.nat
      pure (some ({ created := c, ttl := t } : Seen))
    Tok.done
    pure (probe, us, qu, nq, q0, now, seen) : Tok _).run toks with
  | some ((probe, us, qu, nq, q0, now, seen), _) =>
    let sm : SeenMap := match seen with | some s => [(0, s)] | none => []
    let qr := QR.route us probe sm now nq q0 {} qu [(0, [])]
    let b := fun (l : List Nat) => if l.isEmpty then "0" else "1"
    s!"{b qr.ucast} {b qr.mcastNow} {b qr.mcastAgg} {b qr.mcastLast}"
  | none => "bad-op"

/-- `c11fmt <multicast> <id> <class> <unique>` → `wireId flags wireClass` -/
def c11fmt (toks : List String) : String :=
  match (do let m ← Tok.bool; let id ← Tok.nat; let c ← Tok.nat; let u ← Tok.bool; Tok.done; pure (m, id, c, u) : Tok _).run toks with
  | some ((m, id, c, u), _) => s!"{wireId m id} {replyFlags} {wireClass c u m}"
  | none => "bad-op"

/-- `c11reply <unicast 0/1> <ucast_source> <id> <class> <unique>` → `wireId flags wireClass` of a record in the datagram
built by `construct_outgoing_unicast_answers` (1) / `construct_outgoing_multicast_answers` (0) -/
def c11reply (toks : List String) : String :=
  match (do let uc ← Tok.bool; let us ← Tok.bool; let id ← Tok.nat; let c ← Tok.nat; let u ← Tok.bool; Tok.done; pure (uc, us, id, c, u) : Tok _).run toks with
  | some ((uc, us, id, c, u), _) =>
    let m := if uc then ucastReplyMulticast id us else mcastReplyMulticast
    let id' := if uc then id else 0   -- the multicast constructor passes no id (default 0)
    s!"{wireId m id'} {replyFlags} {wireClass c u m}"
  | none => "bad-op"

/-- `c11send <ipv6_socket> <addr_has_colon>` → can_send_to -/
def c11send (toks : List String) : String :=
  match (do let a ← Tok.bool; let b ← Tok.bool; Tok.done; pure (a, b) : Tok _).run toks with
  | some ((a, b), _) => if Gen.Reply.can_send_to a b then "1" else "0"
  | none => "bad-op"

def dispatch (cmd : String) (rest : List String) : Option String :=
  match cmd with
  | "c12run" => some (c12run rest)
  | "c12q" => some (c12q rest)
  | "c12cls" => some (c12cls rest)
  | "c11fmt" => some (c11fmt rest)
  | "c11send" => some (c11send rest)
  | "c11reply" => some (c11reply rest)
  | _ => none

end Zc.Driver.C12
