import Zc.Model.Dns
namespace Zc.Driver
open Zc

def b01 (b : Bool) : String := if b then "1" else "0"

/-- `c20r <recA> <recB>` → `eq hasheq kindeq speceq`; the class field of each record is the **raw constructor
argument** (flush bit included), `normCtor` is `DNSEntry._set_class` -/
def c20r (toks : List String) : String :=
  match (do let a ← Rec.parse; let b ← Rec.parse; Tok.done; pure (a, b) : Tok (Rec × Rec)).run toks with
  | some ((a0, b0), _) =>
    let a := a0.normCtor
    let b := b0.normCtor
    let eq := a.beq asciiLower b
    let heq := decide (a.hashKey asciiLower = b.hashKey asciiLower)
    let keq := decide (a.rdata.kind = b.rdata.kind)
    let seq := decide (a.specIdent asciiLower = b.specIdent asciiLower)
    s!"{b01 eq} {b01 heq} {b01 keq} {b01 seq}"
  | none => "bad-op"

/-- `c20q <qA> <qB>` → `eq hasheq speceq` -/
def c20q (toks : List String) : String :=
  match (do let a ← Question.parse; let b ← Question.parse; Tok.done; pure (a, b) : Tok (Question × Question)).run toks with
  | some ((a0, b0), _) =>
    let a := a0.normCtor
    let b := b0.normCtor
    s!"{b01 (a.beq asciiLower b)} {b01 (decide (a.hashKey asciiLower = b.hashKey asciiLower))} {b01 (decide (a.specIdent asciiLower = b.specIdent asciiLower))}"
  | none => "bad-op"

/-- `c20s <k> <rec>*k <probe>` → `DNSRRSet(recs).suppresses(probe)` (raw classes as in `c20r`) -/
def c20s (toks : List String) : String :=
  match (do
      let k ← Tok.nat
      let rs ← Tok.many Rec.parse k
      let r ← Rec.parse
      Tok.done
      pure (rs, r) : Tok (List Rec × Rec)).run toks with
  | some ((rs, r), _) => b01 (rrsetSuppresses asciiLower (rs.map Rec.normCtor) r.normCtor)
  | none => "bad-op"

namespace C20
def dispatch (cmd : String) (rest : List String) : Option String :=
  match cmd with
  | "c20r" => some (c20r rest)
  | "c20q" => some (c20q rest)
  | "c20s" => some (c20s rest)
  | _ => none
end C20

end Zc.Driver
