import Zc.Model.Dns
namespace Zc.Driver
open Zc

def b01 (b : Bool) : String := if b then "1" else "0"

/-! `str.lower` is a parameter of the model.  The driver does not implement Unicode case mapping: every C20 line starts
with a table `<n> (<hex s> <hex lower s>)*n` giving the lower-cased form of the strings on the line whose lower-casing is
not plain ASCII lowering; the harness computes the table from the constructor arguments with its own folding table (not
with the implementation's `str.lower()`).  A string that is not listed is lowered by `asciiLower`. -/

def lowerTable : Tok (List (String × String)) :=
  Tok.list (do let s ← Tok.str; let l ← Tok.str; pure (s, l))

def lowerOf (t : List (String × String)) (s : String) : String :=
  match t.lookup s with
  | some l => l
  | none => asciiLower s

/-- `c20r <tbl> <recA> <recB>` → `eq hasheq kindeq speceq suppressedByAnswer`; the class field of each record is the **raw
constructor argument** (flush bit included), `normCtor` is `DNSEntry._set_class` -/
def c20r (toks : List String) : String :=
  match (do let t ← lowerTable; let a ← Rec.parse; let b ← Rec.parse; Tok.done; pure (t, a, b) : Tok (List (String × String) × Rec × Rec)).run toks with
  | some ((t, a0, b0), _) =>
    let lower := lowerOf t
    let a := a0.normCtor
    let b := b0.normCtor
    let eq := a.beq lower b
    let heq := decide (a.hashKey lower = b.hashKey lower)
    let keq := decide (a.rdata.kind = b.rdata.kind)
    let seq := decide (a.specIdent lower = b.specIdent lower)
    s!"{b01 eq} {b01 heq} {b01 keq} {b01 seq} {b01 (a.suppressedByAnswer lower b)}"
  | none => "bad-op"

/-- `c20q <tbl> <qA> <qB>` → `eq hasheq speceq` -/
def c20q (toks : List String) : String :=
  match (do let t ← lowerTable; let a ← Question.parse; let b ← Question.parse; Tok.done; pure (t, a, b) : Tok (List (String × String) × Question × Question)).run toks with
  | some ((t, a0, b0), _) =>
    let lower := lowerOf t
    let a := a0.normCtor
    let b := b0.normCtor
    s!"{b01 (a.beq lower b)} {b01 (decide (a.hashKey lower = b.hashKey lower))} {b01 (decide (a.specIdent lower = b.specIdent lower))}"
  | none => "bad-op"

/-- `<tbl> <k> <rec>*k <probe>` -/
def listProbe : Tok (List (String × String) × List Rec × Rec) := do
  let t ← lowerTable
  let k ← Tok.nat
  let rs ← Tok.many Rec.parse k
  let r ← Rec.parse
  Tok.done
  pure (t, rs, r)

/-- `c20s <tbl> <k> <rec>*k <probe>` → `DNSRRSet(recs).suppresses(probe)` (raw classes as in `c20r`) -/
def c20s (toks : List String) : String :=
  match listProbe.run toks with
  | some ((t, rs, r), _) => b01 (rrsetSuppresses (lowerOf t) (rs.map Rec.normCtor) r.normCtor)
  | none => "bad-op"

/-- `c20m <tbl> <k> <rec>*k <probe>` → `probe.suppressed_by(<message with these answers>)` -/
def c20m (toks : List String) : String :=
  match listProbe.run toks with
  | some ((t, rs, r), _) => b01 (r.normCtor.suppressedBy (lowerOf t) (rs.map Rec.normCtor))
  | none => "bad-op"

/-- `c20d <tbl> <k> <answer>*k <n> <additional>*n` → number of additionals sent after duplicate removal -/
def c20d (toks : List String) : String :=
  match (do
      let t ← lowerTable
      let k ← Tok.nat
      let ans ← Tok.many Rec.parse k
      let n ← Tok.nat
      let adds ← Tok.many Rec.parse n
      Tok.done
      pure (t, ans, adds) : Tok (List (String × String) × List Rec × List Rec)).run toks with
  | some ((t, ans, adds), _) => toString (replyAdditionals (lowerOf t) (ans.map Rec.normCtor) (adds.map Rec.normCtor)).length
  | none => "bad-op"

namespace C20
def dispatch (cmd : String) (rest : List String) : Option String :=
  match cmd with
  | "c20r" => some (c20r rest)
  | "c20q" => some (c20q rest)
  | "c20s" => some (c20s rest)
  | "c20m" => some (c20m rest)
  | "c20d" => some (c20d rest)
  | _ => none
end C20

end Zc.Driver
