import Zc.Model.Shutdown
namespace Zc.Driver.C17
open Zc Zc.Shutdown

def kindOf (s : String) : Option Kind :=
  match s with
  | "recv" => some .recv | "outq" => some .outq | "tc" => some .tc | "sched" => some .sched
  | "cleanup" => some .cleanup | "task" => some .task | "close" => some .close
  | _ => none

/-- one observed block: kind, the flags read from the real objects when it started, whether close had
already returned, and what it emitted -/
def opParse : Tok String := do
  let k ← Tok.next
  let done ← Tok.bool; let tclosed ← Tok.bool; let rx ← Tok.bool; let cleanup ← Tok.bool; let after ← Tok.bool
  let nsend ← Tok.nat; let ncb ← Tok.nat
  match kindOf k with
  | some kind => pure (accepts kind done tclosed rx cleanup after nsend ncb)
  | none => failure

/-- `c17run <n> {kind done tclosed rxclosed cleanup after nsend ncb}` → `ok` / `reject:…` per block, `;`-separated -/
def c17run (toks : List String) : String :=
  match (do let vs ← Tok.list opParse; Tok.done; pure vs : Tok (List String)).run toks with
  | some (vs, _) => ";".intercalate vs
  | none => "bad-op"

/-- `c17quiet <done> <tclosed> <cleanup>`: is a host with these flags, after close returned, `Closed`? (the
hypothesis of `C17_quiet`, decided by the model) -/
def c17closed (toks : List String) : String :=
  match (do let d ← Tok.bool; let t ← Tok.bool; let c ← Tok.bool; Tok.done; pure (d, t, c) : Tok (Bool × Bool × Bool)).run toks with
  | some ((d, t, c), _) => if decide (Closed (hostOfFlags d t c true 0)) then "1" else "0"
  | none => "bad-op"

def dispatch (cmd : String) (rest : List String) : Option String :=
  match cmd with
  | "c17run" => some (c17run rest)
  | "c17closed" => some (c17closed rest)
  | _ => none

end Zc.Driver.C17
