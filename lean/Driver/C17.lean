import Zc.Model.Shutdown
namespace Zc.Driver.C17
open Zc Zc.Shutdown

def kindOf (s : String) : Option Kind :=
  match s with
  | "recv" => some .recv | "outq" => some .outq | "tc" => some .tc | "sched" => some .sched
  | "cleanup" => some .cleanup | "task" => some .task
  | _ => none

/-- one observed non-close block: kind, the flags read from the real objects when it started, whether a close
had already returned, and what it emitted -/
def opParse : Tok String := do
  let k ← Tok.next
  let done ← Tok.bool; let tclosed ← Tok.bool; let rx ← Tok.bool; let cleanup ← Tok.bool; let after ← Tok.bool
  let nsend ← Tok.nat; let ncb ← Tok.nat; let tcd ← Tok.optNat
  match kindOf k with
  | some kind => pure (accepts kind done tclosed rx cleanup after nsend ncb (tcd.getD 1))
  | none => failure

/-- `c17run <n> {kind done tclosed rxclosed cleanup after nsend ncb tcmin|-}` → `ok` / `reject:…` per block, `;`-separated -/
def c17run (toks : List String) : String :=
  match (do let vs ← Tok.list opParse; Tok.done; pure vs : Tok (List String)).run toks with
  | some (vs, _) => ";".intercalate vs
  | none => "bad-op"

/-- `c17closed <done> <tclosed> <cleanup>`: is a host with these flags, after a close returned, `Closed`? (the
hypothesis of `C17_quiet`, decided by the model) -/
def c17closed (toks : List String) : String :=
  match (do let d ← Tok.bool; let t ← Tok.bool; let c ← Tok.bool; Tok.done; pure (d, t, c) : Tok (Bool × Bool × Bool)).run toks with
  | some ((d, t, c), _) => if decide (Closed (hostOfFlags d t c true 0)) then "1" else "0"
  | none => "bad-op"

def blockParse : Tok Block := do
  let k ← Tok.next
  let i ← Tok.nat
  let a ← Tok.bool
  match k with
  | "call" => pure (.closeCall a)
  | "wake" => pure (.closeWake i a)
  | "gb" => pure (.closeGoodbye i)
  | "md" => pure (.closeMarkDone i none)
  | "tc" => pure (.closeThreadsCheck i)
  | "ts" => pure (.closeThreadsStop i)
  | "bl" => pure (.closeBlocked i)
  | "sd" => pure (.closeShutdown i)
  | "fin" => pure (.closeFinish i)
  | "ab" => pure (.closeAbort i)
  | "start" => pure .startUp
  | _ => failure

def stepParse : Tok CloseStepObs := do
  let bs ← Tok.list blockParse
  let reg ← Tok.optNat
  let gb ← Tok.nat
  let r ← Tok.next
  let raised ← (match r with
    | "-" => pure none | "nr" => pure (some Exc.notRunning) | "ca" => pure (some Exc.cancelled)
    | "re" => pure (some Exc.runtimeError) | "to" => pure (some Exc.timeout) | _ => failure : Tok (Option Exc))
  let d ← Tok.bool; let t ← Tok.bool; let c ← Tok.bool
  pure ⟨bs, reg, gb, raised, ⟨d, t, c⟩⟩

/-- `c17closes <done> <tclosed> <cleanup> <running> <n> {step}`: the interleaved steps of all close calls of one run,
replayed through `Shutdown.run` (see `replayCloses`) → one verdict per step -/
def c17closes (toks : List String) : String :=
  match (do
      let d ← Tok.bool; let t ← Tok.bool; let c ← Tok.bool; let r ← Tok.bool
      let steps ← Tok.list stepParse; Tok.done
      pure (d, t, c, r, steps) : Tok (Bool × Bool × Bool × Bool × List CloseStepObs)).run toks with
  | some ((d, t, c, r, steps), _) =>
    let b1 : Browser := { tracked := true, cancelled := false, timer := true, listening := true }
    let b2 : Browser := { tracked := false, cancelled := false, timer := true, listening := true }
    let h : Host := { hostOfFlags d t c false 1 with running := r, browsers := [b1, b2] }
    let vs := replayCloses h steps
    if vs.isEmpty then "-" else ";".intercalate vs
  | none => "bad-op"

def snapParse : Tok SyncSnap := do
  let d ← Tok.bool; let t ← Tok.bool; let c ← Tok.bool; let lt ← Tok.bool; let lr ← Tok.bool
  let reg ← Tok.nat; let zb ← Tok.nat; let zc ← Tok.nat
  pure ⟨d, t, c, lt, lr, reg, zb, zc⟩

/-- `c17sync <call> <caller|-> <before: done tclosed cleanup loopThread loopRunning registry zcBrowsers zcCancelled> <after: same>
<goodbyes> <raised>`: one of the four calls `Zeroconf.close()` makes, observed on real threads (`acceptSyncCall`) -/
def c17sync (toks : List String) : String :=
  match (do
      let call ← Tok.next
      let caller ← Tok.optNat
      let before ← snapParse
      let after ← snapParse
      let gb ← Tok.nat
      let r ← Tok.next
      let raised ← (match r with
        | "-" => pure none | "re" => pure (some Exc.runtimeError) | "to" => pure (some Exc.timeout) | _ => failure : Tok (Option Exc))
      Tok.done
      let c ← (match call with
        | "unregister" => pure SyncCall.unregister | "markdone" => pure (SyncCall.markDone caller)
        | "engine" => pure SyncCall.engineClose | "threads" => pure SyncCall.threads | _ => failure : Tok SyncCall)
      pure (c, before, after, gb, raised) : Tok (SyncCall × SyncSnap × SyncSnap × Nat × Option Exc)).run toks with
  | some ((c, b, a, gb, r), _) => acceptSyncCall c b a gb r
  | none => "bad-op"

/-- `c17tcs <n> {kind done <before: n1,..,nk|-> <after: n1,..,nk|->}`: the listener's armed deferral timers before and after each
observed block (`explainsTcs`) → one verdict per block -/
def tcsParse : Tok String := do
  let k ← Tok.next
  let d ← Tok.bool
  let b ← Tok.natList
  let a ← Tok.natList
  match kindOf k with
  | some kind => pure (explainsTcs kind d b a)
  | none => failure

def c17tcs (toks : List String) : String :=
  match (do let vs ← Tok.list tcsParse; Tok.done; pure vs : Tok (List String)).run toks with
  | some (vs, _) => ";".intercalate vs
  | none => "bad-op"

def excTok : Tok Exc := do
  let r ← Tok.next
  match r with
  | "nr" => pure Exc.notRunning | "ca" => pure Exc.cancelled | "re" => pure Exc.runtimeError | "to" => pure Exc.timeout
  | "lb" => pure Exc.loopBlocked | _ => failure

def excStr : Exc → String
  | .notRunning => "nr" | .cancelled => "ca" | .runtimeError => "re" | .timeout => "to" | .loopBlocked => "lb"

/-- `c17conc <init snapshot> <n> {block} <m> {exc} <done> <loopThread> <loopRunning>`: several sync `close()` calls from several
threads, as the harness saw them interleave (each call of each closer placed where it started / ended): the model must enable every
block, raise exactly the observed exceptions (as a multiset) and end with the observed `done` / loop-thread flags -/
def c17conc (toks : List String) : String :=
  match (do
      let init ← snapParse
      let bs ← Tok.list blockParse
      let ex ← Tok.list excTok
      let d ← Tok.bool; let lt ← Tok.bool; let lr ← Tok.bool
      Tok.done
      pure (init, bs, ex, d, lt, lr) : Tok (SyncSnap × List Block × List Exc × Bool × Bool × Bool)).run toks with
  | some ((init, bs, ex, d, lt, lr), _) =>
    match run (hostOfSnap init []) bs with
    | none =>
      -- name the first block that is not enabled
      let rec go (h : Host) (k : Nat) : List Block → String
        | [] => "reject:?"
        | b :: rest => match step h b with
          | none => s!"reject:not-enabled:block{k}"
          | some (h', _) => go h' (k + 1) rest
      go (hostOfSnap init []) 0 bs
    | some (h1, out) =>
      let raisedNow := (out.filterMap (fun o => match o with | .raised e => some (excStr e) | _ => none)).mergeSort (· ≤ ·)
      let want := (ex.map excStr).mergeSort (· ≤ ·)
      if raisedNow != want then s!"reject:raise:model={raisedNow}"
      else if (h1.done, h1.loopThread, h1.loopRunning) != (d, lt, lr) then s!"reject:state:model:done={h1.done},loopThread={h1.loopThread},loopRunning={h1.loopRunning}"
      else "ok"
  | none => "bad-op"

def dispatch (cmd : String) (rest : List String) : Option String :=
  match cmd with
  | "c17run" => some (c17run rest)
  | "c17closed" => some (c17closed rest)
  | "c17closes" => some (c17closes rest)
  | "c17sync" => some (c17sync rest)
  | "c17tcs" => some (c17tcs rest)
  | "c17conc" => some (c17conc rest)
  | _ => none

end Zc.Driver.C17
