import Zc.Model.Dns
import Zc.Model.Sched
/-! line protocol for C10 (QueryScheduler).

`c10run <minDelay> <qtype:-|0|1> <lo> <hi> <ntypes> <type hex>… <nops> <op>…` with ops
`S t draw` · `P t aliasHex nameHex ttl created` · `C t aliasHex` · `F t done` · `X t`.
Answer: one chunk per op joined by ` | `: `ok|rej ; sends ; armed ; startupSent ; live entries`.
Aliases are lower-cased here (`pointer.alias_key`). -/
namespace Zc.Driver.C10
open Zc Zc.Sched

def b01 (b : Bool) : String := if b then "1" else "0"

def optB : Option Bool → String | none => "-" | some true => "1" | some false => "0"

def sortStr (l : List String) : List String := l.mergeSort (fun a b => decide (a ≤ b))

def dedup : List String → List String
  | a :: b :: r => if a = b then dedup (b :: r) else a :: dedup (b :: r)
  | l => l

def sendStr (o : Send) : String :=
  s!"{o.t},{b01 o.first},{optB o.qtype},{"+".intercalate (dedup (sortStr (o.types.map hexOfStr)))}"

def qStr (q : Q) : String := s!"{hexOfStr q.alias},{hexOfStr q.name},{q.ttl},{q.expire},{q.when}"

def armedStr : Option (Timer × Int) → String
  | none => "-"
  | some (.startup, d) => s!"s{d}"
  | some (.ready, d) => s!"r{d}"

def stateStr (s : S) : String :=
  let l := sortStr ((live s.heap).map qStr)
  s!"{armedStr s.armed} ; {s.startupSent} ; {if l.isEmpty then "-" else " ".intercalate l}"

def parseOp : Tok (Int × Op) := do
  let k ← Tok.next
  let t ← Tok.int
  match k with
  | "S" => do let d ← Tok.nat; pure (t, .start d)
  | "P" => do
    let a ← Tok.str; let n ← Tok.str; let ttl ← Tok.nat; let cr ← Tok.int
    pure (t, .ptr (asciiLower a) n ttl cr)
  | "C" => do let a ← Tok.str; pure (t, .cancel (asciiLower a))
  | "F" => do let d ← Tok.bool; pure (t, .fire d)
  | "X" => pure (t, .stop)
  | _ => failure

def parseQtype : Tok (Option Bool) := do
  let t ← Tok.next
  if t = "-" then pure none else if t = "1" then pure (some true) else if t = "0" then pure (some false) else failure

def parse : Tok (Cfg × List (Int × Op)) := do
  let minDelay ← Tok.nat
  let qtype ← parseQtype
  let lo ← Tok.nat
  let hi ← Tok.nat
  let types ← Tok.list Tok.str
  let ops ← Tok.list parseOp
  Tok.done
  pure ({ types, minDelay, qtype, lo, hi }, ops)

/-- run op by op (like `exec`, but keeps going after a rejected block so that the harness sees where) -/
def runOps (c : Cfg) : S → Int → List (Int × Op) → List String
  | _, _, [] => []
  | s, clk, (t, op) :: es =>
    if enabledAt s clk t then
      match step c s t op with
      | some (s1, o) =>
        s!"ok ; {if o.isEmpty then "-" else " ".intercalate (o.map sendStr)} ; {stateStr s1}" :: runOps c s1 t es
      | none => s!"rej-step ; - ; {stateStr s}" :: runOps c s t es
    else s!"rej-time ; - ; {stateStr s}" :: runOps c s (max clk t) es

def c10run (toks : List String) : String :=
  match parse.run toks with
  | some ((c, ops), _) =>
    let chunks := runOps c {} (match ops with | (t, _) :: _ => t | [] => 0) ops
    -- agreement of the op-by-op runner with `exec` (the function the theorems are about)
    let viaExec := match exec c {} (match ops with | (t, _) :: _ => t | [] => 0) ops with
      | some (s, outs) => s!"exec-ok {outs.length} {armedStr s.armed}"
      | none => "exec-none"
    " | ".intercalate (viaExec :: chunks)
  | none => "bad-op"

def dispatch (cmd : String) (rest : List String) : Option String :=
  match cmd with
  | "c10run" => some (c10run rest)
  | _ => none

end Zc.Driver.C10
