import Zc.Model.Dns
import Zc.Model.Sched
import Zc.Model.Sched2
/-! line protocol for C10 (QueryScheduler).

`c10run <minDelay> <qtype:-|0|1> <lo> <hi> <ntypes> <type hex>… <nops> <op>…` with ops
`S t draw` · `P t aliasHex nameHex ttl created` · `C t aliasHex` · `F t done` · `X t`.
Answer: one chunk per op joined by ` | `: `ok|rej ; sends ; armed ; startupSent ; live entries`.
Aliases are lower-cased here (`pointer.alias_key`). -/
namespace Zc.Driver.C10
open Zc Zc.Sched Zc.Sched2

def b01 (b : Bool) : String := if b then "1" else "0"

def optB : Option Bool → String | none => "-" | some true => "1" | some false => "0"

def sortStr (l : List String) : List String := l.mergeSort (fun a b => decide (a ≤ b))

def dedup : List String → List String
  | a :: b :: r => if a = b then dedup (b :: r) else a :: dedup (b :: r)
  | l => l

def sendStr (o : Send) : String :=
  s!"{o.t},{b01 o.first},{optB o.qtype},{"+".intercalate (dedup (sortStr (o.types.map hexOfStr)))}"

def qStr (q : Q) : String := s!"{hexOfStr q.alias},{hexOfStr q.name},{q.ttl},{q.expire},{q.when}"

def armedStr : Option (Timer × Int) → String
  | none => "-"
  | some (.startup, d) => s!"s{d}"
  | some (.ready, d) => s!"r{d}"

/-- a heap entry with its flag -/
def objStr (o : Obj) : String := s!"{qStr o.q},{b01 o.q.cancelled}"

/-- `alias=<the object stored under it>`; `?` when the identity is not in the heap -/
def dictEntryStr (heap : List Obj) (e : String × Nat) : String :=
  match getObj e.2 heap with
  | some o => s!"{hexOfStr e.1}={objStr o}"
  | none => s!"{hexOfStr e.1}=?"

def stateStr (s : S2) : String :=
  let d := sortStr (s.dict.map (dictEntryStr s.heap))
  let h := sortStr (s.heap.map objStr)
  s!"{armedStr s.armed} ; {s.startupSent} ; {if d.isEmpty then "-" else " ".intercalate d} ; {if h.isEmpty then "-" else " ".intercalate h}"

def errStr : Err → String
  | .notEnabled => "rej-step"
  | .keyError => "KeyError"
  | .dangling => "dangling"

def parseOp : Tok (Int × Op) := do
  let k ← Tok.next
  let t ← Tok.int
  match k with
  | "S" => do let d ← Tok.nat; pure (t, .start d)
  | "P" => do
    let a ← Tok.str; let n ← Tok.str; let ttl ← Tok.nat; let cr ← Tok.int
    pure (t, .ptr (asciiLower a) n ttl cr)
  | "C" => do let a ← Tok.str; pure (t, .cancel (asciiLower a))
  | "F" => do let d ← Tok.bool; pure (t, .fire d)
  | "X" => pure (t, .stop)
  | _ => failure

def parseQtype : Tok (Option Bool) := do
  let t ← Tok.next
  if t = "-" then pure none else if t = "1" then pure (some true) else if t = "0" then pure (some false) else failure

def parse : Tok (Cfg × List (Int × Op)) := do
  let minDelay ← Tok.nat
  let qtype ← parseQtype
  let lo ← Tok.nat
  let hi ← Tok.nat
  let types ← Tok.list Tok.str
  let ops ← Tok.list parseOp
  Tok.done
  pure ({ types, minDelay, qtype, lo, hi }, ops)

/-- run op by op on the two-container model (like `exec2`, but keeps going after a rejected block so that the
harness sees where) -/
def runOps (c : Cfg) : S2 → Int → List (Int × Op) → List String
  | _, _, [] => []
  | s, clk, (t, op) :: es =>
    if enabledAt2 s clk t then
      match step2 c s t op with
      | .ok (s1, o) =>
        s!"ok ; {if o.isEmpty then "-" else " ".intercalate (o.map sendStr)} ; {stateStr s1}" :: runOps c s1 t es
      | .error e => s!"{errStr e} ; - ; {stateStr s}" :: runOps c s t es
    else s!"rej-time ; - ; {stateStr s}" :: runOps c s (max clk t) es

def c10run (toks : List String) : String :=
  match parse.run toks with
  | some ((c, ops), _) =>
    let t0 := match ops with | (t, _) :: _ => t | [] => 0
    let chunks := runOps c {} t0 ops
    -- agreement of the op-by-op runner with `exec2` and with the abstract `exec` (the functions the theorems are about)
    let via2 := match exec2 c {} t0 ops with
      | .ok (s, outs) => s!"exec-ok {outs.length} {armedStr s.armed}"
      | .error e => s!"exec-{errStr e}"
    let via1 := match exec c {} t0 ops with
      | some (s, outs) => s!"exec-ok {outs.length} {armedStr s.armed}"
      | none => "exec-rej-step"
    " | ".intercalate ((if via1 = via2 then via2 else s!"exec-mismatch[{via1}/{via2}]") :: chunks)
  | none => "bad-op"

def dispatch (cmd : String) (rest : List String) : Option String :=
  match cmd with
  | "c10run" => some (c10run rest)
  | _ => none

end Zc.Driver.C10
