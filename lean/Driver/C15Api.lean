import Zc.Model.SurviveClosed
/-! `c15api`: replay a block log of a real instance — datagram arrivals *and* the API / timer blocks of `Model/SurviveApi` —
through the closed composite `Zc.Survive.Closed.hstep`, one observation per block. -/
namespace Zc.Driver.C15Api
open Zc Zc.Wire Zc.Survive Zc.Survive.Comp Zc.Survive.Route Zc.Survive.User Zc.Survive.Api Zc.Survive.Closed

/-- the user listener of the harness: counts the calls of each callback -/
def counter : UserL (Nat × Nat) String where
  update n _ _ _ := .ok ((n.1 + 1, n.2), [])
  complete n _ := .ok ((n.1, n.2 + 1), [])

abbrev St := State (CS (Nat × Nat))

def svcOf (name type server : String) (port : Nat) (text : Bytes) (v4 v6 : List Bytes) : Svc :=
  { type := type, name := name, server := server, port := port, weight := 0, priority := 0, text := text,
    hostTtl := 120, otherTtl := 4500, v4 := v4, v6 := v6 }

/-- a service as the application passed it: names, port, TXT rdata, every IPv4 and every IPv6 address -/
def parseSvc : Tok Svc := do
  let name ← Tok.str; let type ← Tok.str; let server ← Tok.str; let port ← Tok.nat; let text ← Tok.bytes
  let v4 ← Tok.list Tok.bytes; let v6 ← Tok.list Tok.bytes
  pure (svcOf name type server port text v4 v6)

def parseOp : Tok (HBlock (Nat × Nat)) := do
  let k ← Tok.next
  match k with
  | "r" => do
    let now ← Tok.int; let draw ← Tok.nat; let addr ← Tok.str; let port ← Tok.nat; let data ← Tok.bytes
    pure (.recv data addr port now draw)
  | "t" => do let addr ← Tok.str; pure (.tcFire addr)
  | "g" => do
    let s ← parseSvc
    let strict ← Tok.bool
    pure (.api (.register s strict))
  | "u" => do let s ← parseSvc; pure (.api (.update s))
  | "x" => do let s ← parseSvc; pure (.api (.unregister s))
  | "b" => do
    let now ← Tok.int; let types ← Tok.list Tok.str
    pure (.api (.browserStart ⟨types, 1000, none, 20, 120⟩ now))
  | "c" => do let i ← Tok.nat; pure (.api (.browserCancel i))
  | "l" => do let name ← Tok.str; let now ← Tok.int; pure (.api (.lookupStart name now))
  | "f" => do let j ← Tok.nat; pure (.api (.lookupFinish j))
  | "p" => do let now ← Tok.int; pure (.api (.purge now))
  | "a" => pure (.api (.addUser (0, 0)))
  | "d" => do let i ← Tok.nat; pure (.api (.removeUser i))
  | _ => failure

def changeStr : Change → String
  | .added => "add" | .removed => "rem" | .updated => "upd"

def insertS (k : String) : List String → List String
  | [] => [k]
  | k' :: r => if k < k' then k :: k' :: r else k' :: insertS k r

def sortS (l : List String) : List String := l.foldl (fun acc k => insertS k acc) []

def join (l : List String) : String := if l.isEmpty then "-" else ",".intercalate l

/-- what is compared after each block: callbacks fired in it (sorted), registered keys (sorted), `has_entries`, number of cached
record objects, of browsers, of lookups in progress, and the user listeners' call counts -/
def summary (s : St) (out : List (Out (COut String))) : String :=
  let cbs := out.filterMap (fun o => match o with
    | .down (.callback i cb) => some s!"{i}:{changeStr cb.change}:{hexOfStr cb.type}:{hexOfStr cb.name}"
    | _ => none)
  let keys := s.down.reg.services.map (fun x => hexOfStr (asciiLower x.name))
  let users := s.down.rest.1.users.map (fun n => s!"{n.1}+{n.2}")
  s!"ok/{join (sortS cbs)}/{join (sortS keys)}/{if s.down.reg.hasEntries then 1 else 0}/{s.down.cache.allRecs.length}/{s.down.browsers.length}/{s.down.lookups.length}/{join users}"

def stepD (s : St) (b : HBlock (Nat × Nat)) : Except PyExc (St × List (Out (COut String))) :=
  hstep asciiLower possibleTypes 4500 (fun _ _ => true) (fun _ t => (20, 20, t)) (fun _ => 0) counter (fun _ _ _ => false) s b

/-- the same block over `downQ` (per-question routing, known-answer suppression, the four answer sets): the downstream of
`C15_history_closedQ_partial` and of the two third-clause theorems (review 3: it was never executed by a harness) -/
def stepQ (s : St) (b : HBlock (Nat × Nat)) : Except PyExc (St × List (Out (COut String))) :=
  hstepD asciiLower possibleTypes (fun _ => 0) counter (fun _ _ _ => false)
    (downQ asciiLower possibleTypes 4500 (fun _ t => (20, 20, t)) counter (fun _ _ _ => false)) s b

def runOps (step : St → HBlock (Nat × Nat) → Except PyExc (St × List (Out (COut String)))) : St → List (HBlock (Nat × Nat)) → List String
  | _, [] => []
  | s, b :: rest =>
    match step s b with
    | .ok (s', out) => summary s' out :: runOps step s' rest
    | .error e => s!"error:{e.name}/-/-/-/-/-/-/-" :: runOps step s rest

/-- `c15api <n> { op }` → per block `ok|error:<exc>/callbacks/keys/has_entries/cached/browsers/lookups/users` -/
def c15api (q : Bool) (toks : List String) : String :=
  match (do let ops ← Tok.list parseOp; Tok.done; pure ops : Tok (List (HBlock (Nat × Nat)))).run toks with
  | some (ops, _) => " ".intercalate (runOps (if q then stepQ else stepD) (State.init ⟨{}, [], [], [], {}, [], [], none, ({}, {})⟩) ops)
  | none => "bad-op"

def dispatch (cmd : String) (rest : List String) : Option String :=
  match cmd with
  | "c15api" => some (c15api false rest)
  | "c15apiq" => some (c15api true rest)
  | _ => none

end Zc.Driver.C15Api
