import Zc.Model.Link
import Zc.Proofs.LinkBridgeEval
import Driver.C08
import Driver.C10
import Driver.C12
/-! line protocol for C07 (link traces and the contracts K1–K7).

`c07 <endT> <n> <event>…` with events
`up t h` · `close t h` · `reg|upd|unreg t o ty i` · `browse t h ty i` · `send t h d dst|- <items>` ·
`dlv t d src h mc <items>` · `add|rem t bh bty bi so sty si` · `obs t`; `<items>` = `n` then `p o ty i ttl full` | `q ty k (o ty i)ᵏ qu`.
Answer: `WF=b K1=b … K7=b K5a=b K6f=b K3b=b KF=b conv=b lastChange=t state=<browser>.<svc>:<live><held><registered>,…`.

Projection hypotheses of `C07_convergence_from_models_partial`, evaluated on the block log of one real host / browser
(`Zc.Bridge.hostEval`, `browserEval`, `cacheEval`, `respEval`; `<trace>` = `<n> <event>…` as above, strings hex-encoded as everywhere):

* `c07host <endT> <trace> <hid> <types> <svcs> <T0> <nblocks> (<t> <adst|-> <block>)…` — `<types>`/`<svcs>` = `n (nameHex id)…`: the
  link numbers of type names and instance names; `<block>` = an op of `c08run` (`reg`/`upd`/`unreg`/`task`/`ans`/`enq`/`rdy`/`all`/
  `alls`/`close`), executed at `t`; `adst` = the host an `ans` block unicasts to (`-` = multicast).
  Answer: `run=b rej=i|- names=b disc=b spaced=b distinct=b fair=b open=b sendsIn=b sendsOut=b regsIn=b regsOut=b updsIn=b updsOut=b
  unregsIn=b unregsOut=b`.
* `c07browser <endT> <trace> <tb> <bh bty bi> <ntypes> <typeHex>… <nameHex> <minDelay> <tS> <npre0> <op>… <d> <nevs> <op>…
  <naliases> (<o ty i> <aliasHex>)…` — `<op>` = an op of `c10run` (`P`/`C`/`F`; no `S`: the start block is `(tb, start d)`).
  Answer: `run=b nIn=b idle=b active=b covers=b wire=b rate=b names=b learned=b wireWithout=b`.
* `c07cache <endT> <trace> <tb> <bh bty bi> <npre> <cev>… <nevs> <cev>…` — `<cev>` = `D t d` (the host's cache processes the datagram
  with link id `d` at `t`: its pointer items become pointer records) | `P t` (the periodic purge).  Names are synthesised.
  Answer: `cb=b cbOther=b cacheUp=b cacheDown=b`.
* `c07resp <endT> <trace> <hid> <types> <svcs> <ntbl> <rec>… <naddrs> (<addr> <host>)… <c0> <nks> <kev>…` — `<rec>` as `Rec.parse`,
  `<kev>` = `B <ev of c12run>` | `G t <n> <recId>…` (the D5 purge).
  Answer: `run=b covers=b noTC=b purgeKeeps=b rx=b isQuery=b outs=b purge=b query=-`. -/
namespace Zc.Driver.C07
open Zc Zc.Link

def b01 (b : Bool) : String := if b then "1" else "0"

def pSvc : Tok Link.Svc := do let o ← Tok.nat; let ty ← Tok.nat; let i ← Tok.nat; pure ⟨o, ty, i⟩
def pBr : Tok Br := do let o ← Tok.nat; let ty ← Tok.nat; let i ← Tok.nat; pure ⟨o, ty, i⟩

def pItem : Tok Item := do
  let k ← Tok.next
  match k with
  | "p" => do let s ← pSvc; let ttl ← Tok.nat; let f ← Tok.bool; pure (.ptr s ttl f)
  | "q" => do let ty ← Tok.nat; let known ← Tok.list pSvc; let qu ← Tok.bool; pure (.query ty known qu)
  | _ => failure

def pEv : Tok TEv := do
  let k ← Tok.next
  let t ← Tok.int
  match k with
  | "up" => do let h ← Tok.nat; pure ⟨t, .up h⟩
  | "close" => do let h ← Tok.nat; pure ⟨t, .close h⟩
  | "reg" => do let s ← pSvc; pure ⟨t, .reg s⟩
  | "upd" => do let s ← pSvc; pure ⟨t, .upd s⟩
  | "unreg" => do let s ← pSvc; pure ⟨t, .unreg s⟩
  | "browse" => do let b ← pBr; pure ⟨t, .browse b⟩
  | "send" => do
    let h ← Tok.nat; let d ← Tok.nat; let dst ← Tok.optNat; let items ← Tok.list pItem
    pure ⟨t, .send h d dst items⟩
  | "dlv" => do
    let d ← Tok.nat; let src ← Tok.nat; let h ← Tok.nat; let mc ← Tok.bool; let items ← Tok.list pItem
    pure ⟨t, .dlv d src h mc items⟩
  | "add" => do let b ← pBr; let s ← pSvc; pure ⟨t, .added b s⟩
  | "rem" => do let b ← pBr; let s ← pSvc; pure ⟨t, .removed b s⟩
  | "obs" => pure ⟨t, .obs⟩
  | _ => failure

def parse : Tok (Int × Trace) := do
  let endT ← Tok.int
  let tr ← Tok.list pEv
  Tok.done
  pure (endT, tr)

def dedupS : List Link.Svc → List Link.Svc → List Link.Svc
  | [], acc => acc.reverse
  | s :: r, acc => if acc.contains s then dedupS r acc else dedupS r (s :: acc)

/-- services in order of first appearance in `reg` / `added` / `removed` events -/
def svcU (tr : Trace) : List Link.Svc :=
  dedupS (tr.filterMap fun e => match e.e with | .reg s => some s | .added _ s => some s | .removed _ s => some s | _ => none) []

def run (endT : Int) (tr : Trace) : String :=
  let cfg := Cfg.gen
  let bs := activeBrowsers tr
  let ss := svcU tr
  -- the conclusion at every observation instant at least `settle` after the last change, and at the end
  let obsT := (tr.filterMap fun e => match e.e with | .obs => some e.t | _ => none) ++ [endT]
  let conv := obsT.all fun T => T < lastChange tr + 16000 ||
    (let p := tr.filter fun e => e.t ≤ T
     bs.all fun b => ss.all fun s => convergedFor cfg p b s)
  let st := bs.flatMap fun b => ss.map fun s =>
    s!"{b.idx}.{s.idx}:{b01 (live tr b s)}{b01 (held tr b.host s)}{b01 (registered cfg tr s)}"
  s!"WF={b01 (WF cfg tr endT)} K1={b01 (K1 cfg tr endT)} K2={b01 (K2 cfg tr endT)} K3={b01 (K3 cfg tr endT)} " ++
  s!"K4={b01 (K4 cfg tr endT)} K5={b01 (K5 cfg tr endT)} K6={b01 (K6 cfg tr)} K7={b01 (K7 cfg tr endT)} K5a={b01 (K5added tr)} K6f={b01 (K6full tr)} K3b={b01 (K3b cfg tr endT)} KF={b01 (KF cfg tr endT)} conv={b01 conv} " ++
  s!"lastChange={lastChange tr} state={if st.isEmpty then "-" else ",".intercalate st}"

/-! ### projection hypotheses on block logs -/

def pTrace : Tok Trace := Tok.list pEv

def pTable : Tok (List (String × Nat)) := Tok.list (do let n ← Tok.str; let i ← Tok.nat; pure (asciiLower n, i))

/-- a name the tables do not list gets a number outside them -/
def lookupId (tbl : List (String × Nat)) (n : String) : Nat := ((tbl.find? fun p => p.1 == n).map (·.2)).getD 4000000000

def noDup : List Nat → Bool
  | [] => true
  | x :: r => !(r.contains x) && noDup r

def tableOK (tbl : List (String × Nat)) : Bool := noDup (tbl.map (·.2)) && (tbl.all fun p => (tbl.filter fun q => q.1 == p.1).length == 1)

def pBlock : Tok (Int × Goodbye.Block × Option Nat) := do
  let t ← Tok.int
  let ad ← Tok.optNat
  let op ← Zc.Driver.C08.parseOp
  match op with
  | .blk b _ => pure (t, b, ad)
  | _ => failure

def blockSvc : Goodbye.Block → Option Register.Svc
  | .register s _ _ => some s
  | .update s _ _ => some s
  | .unregister s _ _ => some s
  | _ => none

def c07host (toks : List String) : String :=
  let p : Tok (Int × Trace × Nat × List (String × Nat) × List (String × Nat) × Int × List (Int × Goodbye.Block × Option Nat)) := do
    let endT ← Tok.int; let tr ← pTrace; let hid ← Tok.nat; let tys ← pTable; let svs ← pTable; let T0 ← Tok.int
    let bl ← Tok.list pBlock
    Tok.done
    pure (endT, tr, hid, tys, svs, T0, bl)
  match p.run toks with
  | none => "bad-op"
  | some ((endT, tr, hid, tys, svs, T0, bl), _) =>
    let N : Bridge.Naming := ⟨hid, lookupId tys, lookupId svs⟩
    let names := tableOK tys && tableOK svs && bl.all fun x => match blockSvc x.2.1 with
      | some s => (tys.any fun q => q.1 == asciiLower s.type) && (svs.any fun q => q.1 == asciiLower s.name)
      | none => true
    match Bridge.mkRunD asciiLower Goodbye.Host.init T0 bl with
    | none =>
      let r := match Bridge.rejAt asciiLower Goodbye.Host.init T0 bl 0 with | some i => toString i | none => "-"
      s!"run=0 rej={r} names={b01 names}"
    | some steps =>
      let e := Bridge.hostEval asciiLower N tr endT steps
      s!"run=1 rej=- names={b01 names} disc={b01 e.disc} spaced={b01 e.spaced} distinct={b01 e.distinct} fair={b01 e.fair} " ++
      s!"open={b01 e.opened} sendsIn={b01 e.sendsIn} sendsOut={b01 e.sendsOut} regsIn={b01 e.regsIn} regsOut={b01 e.regsOut} " ++
      s!"updsIn={b01 e.updsIn} updsOut={b01 e.updsOut} unregsIn={b01 e.unregsIn} unregsOut={b01 e.unregsOut}"

def c07browser (toks : List String) : String :=
  let p : Tok (Int × Trace × Int × Br × List String × String × Nat × Int × List (Int × Sched.Op) × Nat × List (Int × Sched.Op)
      × List (Link.Svc × String)) := do
    let endT ← Tok.int; let tr ← pTrace; let tb ← Tok.int; let b ← pBr; let types ← Tok.list Tok.str; let n ← Tok.str
    let minDelay ← Tok.nat; let tS ← Tok.int
    let pre0 ← Tok.list Zc.Driver.C10.parseOp; let d ← Tok.nat; let evs ← Tok.list Zc.Driver.C10.parseOp
    let al ← Tok.list (do let s ← pSvc; let a ← Tok.str; pure (s, asciiLower a))
    Tok.done
    pure (endT, tr, tb, b, types, n, minDelay, tS, pre0, d, evs, al)
  match p.run toks with
  | none => "bad-op"
  | some ((endT, tr, tb, b, types, n, minDelay, tS, pre0, d, evs, al), _) =>
    let aliasOf : Link.Svc → String := fun s => ((al.find? fun q => q.1 == s).map (·.2)).getD s!"?{s.owner}.{s.ty}.{s.idx}"
    let e := Bridge.browserEval tr endT tb b types n minDelay tS pre0 d evs aliasOf
    s!"run={b01 e.run} nIn={b01 e.nIn} idle={b01 e.idle} active={b01 e.active} covers={b01 e.covers} wire={b01 e.wire} " ++
    s!"rate={b01 e.rate} names={b01 e.names} learned={b01 e.learned} wireWithout={b01 e.wireWithout}"

/-- synthesised, well-formed names for the cache model -/
def tyNameOf (ty : Nat) : String := s!"_t{ty}._tcp.local."
def aliasNameOf (s : Link.Svc) : String := s!"i{s.idx}o{s.owner}.{tyNameOf s.ty}"

/-- the pointer records of a datagram as the cache sees them -/
def recsOfItems (now : Int) (items : List Item) : List Rec :=
  items.filterMap fun it => match it with
    | .ptr s ttl _ => some ⟨tyNameOf s.ty, 12, 1, false, ttl, now, .ptr (aliasNameOf s)⟩
    | _ => none

def pCev (tr : Trace) (h : Nat) : Tok Event := do
  let k ← Tok.next
  let t ← Tok.int
  match k with
  | "D" => do
    let d ← Tok.nat
    match (dlvs tr).find? fun e => e.h == h && e.d == d && e.t == t with
    | some e => pure (.datagram t (recsOfItems t e.items))
    | none => failure
  | "P" => pure (.purge t)
  | _ => failure

def c07cache (toks : List String) : String :=
  let p : Tok (Int × Trace × Int × Br × List Event × List Event) := do
    let endT ← Tok.int; let tr ← pTrace; let tb ← Tok.int; let b ← pBr
    let pre ← Tok.list (pCev tr b.host); let evs ← Tok.list (pCev tr b.host)
    Tok.done
    pure (endT, tr, tb, b, pre, evs)
  match p.run toks with
  | none => "bad-op"
  | some ((endT, tr, tb, b, pre, evs), _) =>
    let e := Bridge.cacheEval asciiLower possibleTypes tr endT tb b [tyNameOf b.ty] (tyNameOf b.ty) aliasNameOf pre evs
    s!"cb={b01 e.cb} cbOther={b01 e.cbOther} cacheUp={b01 e.cacheUp} cacheDown={b01 e.cacheDown}"

def pKev : Tok Bridge.KEv := do
  let k ← Tok.next
  match k with
  | "B" => do let e ← Zc.Driver.C12.pEv; pure (.blk e)
  | "G" => do let t ← Tok.int; let W ← Tok.natList; pure (.purge t W)
  | _ => failure

def c07resp (toks : List String) : String :=
  let p : Tok (Int × Trace × Nat × List (String × Nat) × List (String × Nat) × List Rec × List (Nat × Nat) × Int × List Bridge.KEv) := do
    let endT ← Tok.int; let tr ← pTrace; let hid ← Tok.nat; let tys ← pTable; let svs ← pTable
    let tbl ← Tok.list Rec.parse
    let addrs ← Tok.list (do let a ← Tok.nat; let h ← Tok.nat; pure (a, h))
    let c0 ← Tok.int
    let ks ← Tok.list pKev
    Tok.done
    pure (endT, tr, hid, tys, svs, tbl, addrs, c0, ks)
  match p.run toks with
  | none => "bad-op"
  | some ((endT, tr, hid, tys, svs, tbl, addrs, c0, ks), _) =>
    let N : Bridge.Naming := ⟨hid, lookupId tys, lookupId svs⟩
    let hostOf : Nat → Nat := fun a => ((addrs.find? fun q => q.1 == a).map (·.2)).getD 4000000000
    let e := Bridge.respEval asciiLower N tr endT tbl hostOf c0 ks
    s!"run={b01 e.run} covers={b01 e.covers} noTC={b01 e.noTC} purgeKeeps={b01 e.purgeKeeps} rx={b01 e.rx} " ++
    s!"isQuery={b01 e.isQuery} outs={b01 e.outs} purge={b01 e.purge} query=-"

def dispatch (cmd : String) (rest : List String) : Option String :=
  if cmd = "c07" then
    some (match parse.run rest with
      | some ((endT, tr), _) => run endT tr
      | none => "bad-op")
  else if cmd = "c07host" then some (c07host rest)
  else if cmd = "c07browser" then some (c07browser rest)
  else if cmd = "c07cache" then some (c07cache rest)
  else if cmd = "c07resp" then some (c07resp rest)
  else none

end Zc.Driver.C07
