import Zc.Model.Link
/-! line protocol for C07 (link traces and the contracts K1–K7).

`c07 <endT> <n> <event>…` with events
`up t h` · `close t h` · `reg|upd|unreg t o ty i` · `browse t h ty i` · `send t h d dst|- <items>` ·
`dlv t d src h mc <items>` · `add|rem t bh bty bi so sty si` · `obs t`; `<items>` = `n` then `p o ty i ttl full` | `q ty k (o ty i)ᵏ qu`.
Answer: `WF=b K1=b … K7=b K5a=b K6f=b K3b=b KF=b conv=b lastChange=t state=<browser>.<svc>:<live><held><registered>,…`. -/
namespace Zc.Driver.C07
open Zc Zc.Link

def b01 (b : Bool) : String := if b then "1" else "0"

def pSvc : Tok Svc := do let o ← Tok.nat; let ty ← Tok.nat; let i ← Tok.nat; pure ⟨o, ty, i⟩
def pBr : Tok Br := do let o ← Tok.nat; let ty ← Tok.nat; let i ← Tok.nat; pure ⟨o, ty, i⟩

def pItem : Tok Item := do
  let k ← Tok.next
  match k with
  | "p" => do let s ← pSvc; let ttl ← Tok.nat; let f ← Tok.bool; pure (.ptr s ttl f)
  | "q" => do let ty ← Tok.nat; let known ← Tok.list pSvc; let qu ← Tok.bool; pure (.query ty known qu)
  | _ => failure

def pEv : Tok TEv := do
  let k ← Tok.next
  let t ← Tok.int
  match k with
  | "up" => do let h ← Tok.nat; pure ⟨t, .up h⟩
  | "close" => do let h ← Tok.nat; pure ⟨t, .close h⟩
  | "reg" => do let s ← pSvc; pure ⟨t, .reg s⟩
  | "upd" => do let s ← pSvc; pure ⟨t, .upd s⟩
  | "unreg" => do let s ← pSvc; pure ⟨t, .unreg s⟩
  | "browse" => do let b ← pBr; pure ⟨t, .browse b⟩
  | "send" => do
    let h ← Tok.nat; let d ← Tok.nat; let dst ← Tok.optNat; let items ← Tok.list pItem
    pure ⟨t, .send h d dst items⟩
  | "dlv" => do
    let d ← Tok.nat; let src ← Tok.nat; let h ← Tok.nat; let mc ← Tok.bool; let items ← Tok.list pItem
    pure ⟨t, .dlv d src h mc items⟩
  | "add" => do let b ← pBr; let s ← pSvc; pure ⟨t, .added b s⟩
  | "rem" => do let b ← pBr; let s ← pSvc; pure ⟨t, .removed b s⟩
  | "obs" => pure ⟨t, .obs⟩
  | _ => failure

def parse : Tok (Int × Trace) := do
  let endT ← Tok.int
  let tr ← Tok.list pEv
  Tok.done
  pure (endT, tr)

def dedupS : List Svc → List Svc → List Svc
  | [], acc => acc.reverse
  | s :: r, acc => if acc.contains s then dedupS r acc else dedupS r (s :: acc)

/-- services in order of first appearance in `reg` / `added` / `removed` events -/
def svcU (tr : Trace) : List Svc :=
  dedupS (tr.filterMap fun e => match e.e with | .reg s => some s | .added _ s => some s | .removed _ s => some s | _ => none) []

def run (endT : Int) (tr : Trace) : String :=
  let cfg := Cfg.gen
  let bs := activeBrowsers tr
  let ss := svcU tr
  -- the conclusion at every observation instant at least `settle` after the last change, and at the end
  let obsT := (tr.filterMap fun e => match e.e with | .obs => some e.t | _ => none) ++ [endT]
  let conv := obsT.all fun T => T < lastChange tr + 16000 ||
    (let p := tr.filter fun e => e.t ≤ T
     bs.all fun b => ss.all fun s => convergedFor cfg p b s)
  let st := bs.flatMap fun b => ss.map fun s =>
    s!"{b.idx}.{s.idx}:{b01 (live tr b s)}{b01 (held tr b.host s)}{b01 (registered cfg tr s)}"
  s!"WF={b01 (WF cfg tr endT)} K1={b01 (K1 cfg tr endT)} K2={b01 (K2 cfg tr endT)} K3={b01 (K3 cfg tr endT)} " ++
  s!"K4={b01 (K4 cfg tr endT)} K5={b01 (K5 cfg tr endT)} K6={b01 (K6 cfg tr)} K7={b01 (K7 cfg tr endT)} K5a={b01 (K5added tr)} K6f={b01 (K6full tr)} K3b={b01 (K3b cfg tr endT)} KF={b01 (KF cfg tr endT)} conv={b01 conv} " ++
  s!"lastChange={lastChange tr} state={if st.isEmpty then "-" else ",".intercalate st}"

def dispatch (cmd : String) (rest : List String) : Option String :=
  if cmd = "c07" then
    some (match parse.run rest with
      | some ((endT, tr), _) => run endT tr
      | none => "bad-op")
  else none

end Zc.Driver.C07
