import Zc.Model.Goodbye
import Driver.C09
/-! driver commands of C08 (withdrawal): replay of the block log of one simulated host -/
namespace Zc.Driver.C08
open Zc Zc.Register Zc.Goodbye Zc.Driver.C09

inductive Op where
  | blk (b : Block) (now : Option Int)
  /-- no broadcast task may be overdue at `now` unless it stops silently -/
  | flush (now : Int)
  /-- `_async_broadcast_service` of info `oid` returned at `now`: if its task is still pending in the model (due now), it must stop here -/
  | stop (oid : Nat) (ttl : Option Nat) (addresses : Bool) (now : Int)
  /-- the `ServiceInfo` object `oid` now has these fields (it was renamed by a re-registration while one of its tasks runs: D27) -/
  | mut (oid : Nat) (s : Svc)
  /-- a public close call begins (`sync = false`: `AsyncZeroconf.async_close`): which blocks will it consist of? -/
  | closecall (sync : Bool) (now : Int)

def parseEntry : Tok (Rec × List Rec) := do
  let k ← Rec.parse
  let adds ← Tok.list Rec.parse
  pure (k, adds)

def parseOp : Tok Op := do
  let c ← Tok.next
  match c with
  | "reg" => do let oid ← Tok.nat; let now ← Tok.int; let s ← parseSvc; pure (.blk (.register s oid now) none)
  | "upd" => do let oid ← Tok.nat; let now ← Tok.int; let s ← parseSvc; pure (.blk (.update s oid now) none)
  | "unreg" => do let oid ← Tok.nat; let now ← Tok.int; let s ← parseSvc; pure (.blk (.unregister s oid now) none)
  | "task" => do let oid ← Tok.nat; let ttl ← Tok.optNat; let ad ← Tok.bool; let now ← Tok.int; pure (.blk (.task oid ttl ad now) none)
  | "ans" => do let rs ← Tok.list Rec.parse; pure (.blk (.answer rs) none)
  | "enq" => do
      let d ← Tok.bool; let now ← Tok.int; let draw ← Tok.nat
      let es ← Tok.list parseEntry
      pure (.blk (.enqueue d now draw es) none)
  | "rdy" => do let d ← Tok.bool; let now ← Tok.int; pure (.blk (.ready d now) none)
  | "all" => do let now ← Tok.int; pure (.blk (.unregisterAll now) none)
  | "alls" => do let now ← Tok.int; pure (.blk (.allStep now) none)
  | "close" => pure (.blk .close none)
  | "flush" => do let now ← Tok.int; pure (.flush now)
  | "stop" => do let oid ← Tok.nat; let ttl ← Tok.optNat; let ad ← Tok.bool; let now ← Tok.int; pure (.stop oid ttl ad now)
  | "mut" => do let oid ← Tok.nat; let s ← parseSvc; pure (.mut oid s)
  | "closecall" => do let k ← Tok.next; let now ← Tok.int; pure (.closecall (k == "s") now)
  | _ => failure

def pktsStr (ps : List Pkt) : String := if ps.isEmpty then "-" else ";".intercalate (ps.map Pkt.canon)

/-- tasks that are overdue at `now`: those that stop silently are dropped, those that would send are reported -/
def flushTasks (h : Host) (now : Int) : Host × Nat :=
  let overdue := h.tasks.filter (fun t => t.due < now)
  let missed := overdue.filter (fun t => ((t.step (registeredAs asciiLower h.reg t.svc t.oid)).2).isSome)
  ({ h with tasks := h.tasks.filter (fun t => !(t.due < now) || ((t.step (registeredAs asciiLower h.reg t.svc t.oid)).2).isSome) }, missed.length)

def blockName : Block → String
  | .unregisterAll _ => "all"
  | .allStep _ => "alls"
  | .close => "close"
  | _ => "?"

def runOps : Host → List Op → List String → List String
  | _, [], acc => acc.reverse
  | h, .mut oid s :: ops, acc => runOps (h.mutate oid s) ops ("ok" :: acc)
  | h, .closecall sync now :: ops, acc =>
    let prog := if sync then syncClose h now [] [] else asyncClose h now [] []
    runOps h ops (",".intercalate (prog.map blockName) :: acc)
  | h, .flush now :: ops, acc =>
    let (h', n) := flushTasks h now
    let closeLate := h.closing.any (fun a => decide (a.due < now))
    runOps h' ops ((if n == 0 && !closeLate then "ok" else s!"missed:{n}:{closeLate}") :: acc)
  | h, .stop oid ttl ad now :: ops, acc =>
    match findTask h.tasks oid ttl ad now with
    | none => runOps h ops ("ok" :: acc)
    | some t =>
      if ((t.step (registeredAs asciiLower h.reg t.svc t.oid)).2).isSome then runOps h ops ("would-send" :: acc)
      else runOps { h with tasks := dropTask h.tasks oid ttl ad now } ops ("ok" :: acc)
  | h, .blk b now :: ops, acc =>
    -- the due time of the task about to be stepped
    let due : Option Int := none
    match h.step asciiLower b with
    | none => runOps h ops ("rej" :: acc)
    | some (h', out) =>
      let timing := match now, due with
        | some n, some d => if n = d then "" else s!"due:{d}!"
        | _, _ => ""
      runOps h' ops ((timing ++ pktsStr out) :: acc)

/-- `c08run <ops>` → one token per op -/
def c08run (toks : List String) : String :=
  match (do let ops ← Tok.list parseOp; Tok.done; pure ops : Tok (List Op)).run toks with
  | some (ops, _) => " ".intercalate (runOps Host.init ops [])
  | none => "bad-op"

def dispatch (cmd : String) (rest : List String) : Option String :=
  match cmd with
  | "c08run" => some (c08run rest)
  | _ => none

end Zc.Driver.C08
