import Zc.Model.Cache
import Zc.Model.Reentrant
import Zc.Model.BrowserCb
import Zc.Model.CacheListener
import Zc.Model.BrowserReentrant
/-! Driver command `crun` shared by C05, C06 and C04: one line = one whole history.

```
crun P <nNames> name* <nRecs> rec* <nTriples> (name type class)* OPS <nOps> op*
op := D now <n> rec* <nreact> (code lid kind target [t qname qtype qclass])*
                                                            -- response datagram + scripted reactions; code = 10*depth + phase;
                                                            -- kind 1 = add listener, 0 = remove, 2 = add WITH a question (clock reading t)
    | W now payload <n> rec* <nreact> (…)*                  -- the same datagram as bytes through the listener (equal payload numbers = equal bytes)
    | X now                                                 -- periodic purge (_async_cache_cleanup)
    | LA id | LR id                                         -- add / remove a recording listener
    | BA id now <n> type*                                   -- new browser (purge, then initial replay, both at `now`)
    | BR id                                                 -- cancel browser
    | BP bid change name newBid <n> type*                   -- plan: browser bid's service listener, told `change` (A/R/U) for `name`,
                                                            --   creates browser newBid on the types (once), from inside the handler
```
Output: one observation per op, joined by ` | `.  See `harness/cachecommon.py` for the mirror image. -/
namespace Zc.Driver.C05
open Zc

/-- the driver's `str.lower`: ASCII and the Latin-1 capitals (U+00C0–U+00DE except ×), which is what `str.lower` does to every
character of the harness vocabularies (theorems take an arbitrary `lower`) -/
def lowerD (s : String) : String :=
  s.map (fun c => if 0xC0 ≤ c.toNat ∧ c.toNat ≤ 0xDE ∧ c.toNat ≠ 0xD7 then Char.ofNat (c.toNat + 32) else c.toLower)

def sep (s : String) (l : List String) : String := if l.isEmpty then "~" else s.intercalate l

def recStr (r : Rec) : String := r.toLine
def optRecStr : Option Rec → String | none => "~" | some r => recStr r
def recsStr (l : List Rec) : String := sep "," (l.map recStr)

/-- the cache as `names()` + `entries_with_name` show it -/
def snapStr (c : Cache) : String :=
  sep ";" (c.cache.map (fun kb => s!"{hexOfStr kb.1}:{recsStr kb.2}"))

structure Probes where
  names : List String
  recs : List Rec
  triples : List (String × Nat × Nat)
  /-- what the wall clock shows when the readers are evaluated: the instant of the op (set by `step`) -/
  now : Ms := 0

def readersStr (p : Probes) (c : Cache) : String :=
  let l := lowerD
  let n := sep "," ((c.names).map hexOfStr)
  let e := sep ";" (p.names.map (fun k => recsStr (c.entriesWithName l k)))
  let s := sep ";" (p.names.map (fun k => recsStr (c.entriesWithServer l k)))
  let g := sep ";" (p.recs.map (fun r => optRecStr (c.get l r)))
  let u := sep ";" (p.recs.map (fun r => optRecStr (c.getUnique l r)))
  let d := sep ";" (p.triples.map (fun t => optRecStr (c.getByDetails l t.1 t.2.1 t.2.2)))
  let a := sep ";" (p.triples.map (fun t => recsStr (c.getAllByDetails l t.1 t.2.1 t.2.2)))
  let ae := sep ";" (p.names.map (fun k => recsStr (c.asyncEntriesWithName l k)))
  let as := sep ";" (p.names.map (fun k => recsStr (c.asyncEntriesWithServer l k)))
  let aa := sep ";" (p.triples.map (fun t => recsStr (c.asyncAllByDetails l t.1 t.2.1 t.2.2)))
  let ce := sep ";" (p.recs.filterMap (fun r => match r.rdata with
    | .ptr alias => some (optRecStr (c.currentEntryWithNameAndAlias l r.name alias p.now))
    | _ => none))
  s!"N={n} E={e} S={s} G={g} U={u} D={d} A={a} AE={ae} AS={as} AA={aa} CE={ce}"

structure React where
  /-- 10 * depth + phase -/
  code : Nat
  lid : Nat
  act : CbAct

inductive Op where
  | dg (now : Ms) (recs : List Rec) (reacts : List React)
  | wire (now : Ms) (payload : Nat) (recs : List Rec) (reacts : List React)
  | purge (now : Ms)
  | lAdd (id : Nat) | lRem (id : Nat)
  | bAdd (id : Nat) (now : Ms) (types : List String)
  | bRem (id : Nat)
  | plan (p : Plan)

def parseReact : Tok React := do
  let code ← Tok.nat; let lid ← Tok.nat; let kind ← Tok.nat; let target ← Tok.nat
  match kind with
  | 0 => pure { code, lid, act := .remove target }
  | 1 => pure { code, lid, act := .add target }
  | 2 => do
    let t ← Tok.int; let name ← Tok.str; let type ← Tok.nat; let class_ ← Tok.nat
    pure { code, lid, act := .addQ target t [{ name, type, class_, unique := false }] }
  | _ => failure

def parseOp : Tok Op := do
  let k ← Tok.next
  match k with
  | "D" => do let now ← Tok.int; let recs ← Tok.list Rec.parse; let reacts ← Tok.list parseReact; pure (.dg now recs reacts)
  | "W" => do let now ← Tok.int; let pid ← Tok.nat; let recs ← Tok.list Rec.parse; let reacts ← Tok.list parseReact; pure (.wire now pid recs reacts)
  | "X" => do let now ← Tok.int; pure (.purge now)
  | "LA" => do let i ← Tok.nat; pure (.lAdd i)
  | "LR" => do let i ← Tok.nat; pure (.lRem i)
  | "BA" => do let i ← Tok.nat; let now ← Tok.int; let ts ← Tok.list Tok.str; pure (.bAdd i now ts)
  | "BR" => do let i ← Tok.nat; pure (.bRem i)
  | "BP" => do
    let bid ← Tok.nat; let ch ← Tok.next; let name ← Tok.str; let nb ← Tok.nat; let ts ← Tok.list Tok.str
    let change ← match ch with | "A" => pure Change.added | "R" => pure Change.removed | "U" => pure Change.updated | _ => failure
    pure (.plan { bid, change, name, newBid := nb, types := ts })
  | _ => failure

def parseTriple : Tok (String × Nat × Nat) := do
  let n ← Tok.str; let t ← Tok.nat; let c ← Tok.nat; pure (n, t, c)

def parseAll : Tok (Probes × List Op) := do
  let p ← Tok.next
  if p ≠ "P" then failure
  let names ← Tok.list Tok.str; let recs ← Tok.list Rec.parse; let triples ← Tok.list parseTriple
  let o ← Tok.next
  if o ≠ "OPS" then failure
  let ops ← Tok.list parseOp
  Tok.done
  pure ({ names, recs, triples }, ops)

structure Host where
  cache : Cache := {}
  /-- `RecordManager.listeners` restricted to the harness's recording listeners (a set) -/
  listeners : List Nat := []
  browsers : List (Nat × Browser) := []
  /-- the listener's `self.data` / `self.last_time` (W ops) -/
  wdata : Option Nat := none
  wlast : Ms := 0
  /-- handler plans of the browsers' service listeners that have not run yet -/
  plans : List Plan := []

def setAdd (l : List Nat) (x : Nat) : List Nat := if l.contains x then l else l ++ [x]
def setRem (l : List Nat) (x : Nat) : List Nat := l.filter (fun y => y != x)

/-- the scripted reactions of listener `l`'s callback of `phase` entered at nesting depth `depth` -/
def reactFn (reacts : List React) (depth phase l : Nat) : List CbAct :=
  (reacts.filter (fun r => r.code = 10 * depth + phase && r.lid = l)).map (fun r => r.act)

def idsStr (l : List Nat) : String := sep "," ((l.mergeSort (fun a b => a ≤ b)).map toString)

def changeStr : Change → String | .added => "A" | .removed => "R" | .updated => "U"

/-- callbacks of one batch: stable-sorted by (browser id, lower-cased name, type) -/
def cbStr (cbs : List (Nat × Callback)) : String :=
  let keyed := cbs.map (fun (p : Nat × Callback) => ((p.1, hexOfStr (lowerD p.2.name), hexOfStr p.2.type), s!"{p.1}:{changeStr p.2.change}:{hexOfStr p.2.type}:{hexOfStr p.2.name}"))
  let sorted := keyed.mergeSort (fun a b => a.1.1 < b.1.1 || (a.1.1 == b.1.1 && (a.1.2.1 < b.1.2.1 || (a.1.2.1 == b.1.2.1 && a.1.2.2 ≤ b.1.2.2))))
  sep "," (sorted.map (fun x => x.2))

def pairsStr (us : List (Rec × Option Rec)) : String :=
  sep "," (us.map (fun u => s!"{recStr u.1}>{optRecStr u.2}"))

/-- phase 1 of every browser, then phase 2, as the record manager drives them -/
def browsersUpdate (h : Host) (c1 : Cache) (now : Ms) (us : List (Rec × Option Rec)) : List (Nat × Browser) :=
  h.browsers.map (fun ib => (ib.1, Browser.updateRecords lowerD possibleTypes c1 now ib.2 us))

def browsersComplete (bs : List (Nat × Browser)) : List (Nat × Browser) × List (Nat × Callback) :=
  (bs.map (fun ib => (ib.1, (Browser.complete ib.2).1)), bs.flatMap (fun ib => (Browser.complete ib.2).2.map (fun cb => (ib.1, cb))))

/-- what happened below depth 0, in execution order (mirror of `cachecommon.render_nest`) -/
def nestStr (log : List NestEv) : String :=
  sep ";" (log.filterMap (fun ev =>
    match ev with
    | .addq depth lid target t => some s!"Q{depth}:{lid}>{target}@{t}"
    | .purge depth _ recs => some s!"P{depth}[{recsStr recs}]"
    | .made depth bid nb => some s!"B{depth}:{bid}>{nb}"
    | .call depth phase lid replay =>
      if depth = 0 then none
      else if phase = 1 then (if replay.isEmpty then some s!"u{depth}:{lid}" else some s!"R{depth}:{lid}[{recsStr replay}]")
      else some s!"c{depth}:{lid}"))

/-- the generated facts about `_ServiceBrowserBase.async_update_records_complete` (D24b repair): are the pending changes detached
before they are fired? -/
def detaches : Bool := Browser.detachesCode

def errName (e : PyExc) : String := if e = .other then "RuntimeError" else e.name

def hostR (h : Host) : HostR := { cache := h.cache, listeners := h.listeners, browsers := h.browsers, plans := h.plans }

/-- the ops of a history in which some service listener still has a plan (it may create a browser from inside a handler): the
composite of `Zc/Model/BrowserReentrant.lean` -/
def stepPlans (p : Probes) (h : Host) (op : Op) : Option (Host × String) :=
  let l := lowerD
  let fuel := 24
  match op with
  | .dg now recs _ =>
    let a := ingestPre l (Cache.ops l) h.cache now recs
    if a.updates.isEmpty then none
    else
      let c1 := a.cache
      let us := livePairs (Cache.ops l) c1 a.updates
      -- the harness's clock ticks per reading during this op too: the arrival time was reading 0
      let S1 := updateAllR l possibleTypes 0 now us { hostR h with cache := c1, tick := some 1 }
      match ingestFinish (Cache.ops l) S1.cache a with
      | .error e => some (h, s!"D err={errName e}")
      | .ok f =>
        let S2 := completeAllR l possibleTypes detaches fuel 0 now { S1 with cache := f.1 }
        let h' : Host := { cache := S2.cache, listeners := h.listeners, browsers := S2.browsers, plans := S2.plans }
        match S2.err with
        | some e =>
          some (h', s!"D err={errName e} u={pairsStr us} c1={idsStr h.listeners} s1={snapStr c1} c2={idsStr h.listeners} s2={snapStr f.1} nest={nestStr S2.log} ls={idsStr h.listeners} {readersStr p S2.cache}")
        | none =>
          some (h', s!"D u={pairsStr us} c1={idsStr h.listeners} s1={snapStr c1} c2={idsStr h.listeners} s2={snapStr f.1} nest={nestStr S2.log} ls={idsStr h.listeners} n={if f.2 then 1 else 0} cb={cbStr S2.cbs} {readersStr p S2.cache}")
  | .purge now =>
    match expire (Cache.ops l) h.cache (Gen.Cache.purge_expire_now now) with
    | .error e => some (h, s!"X err={errName e}")
    | .ok out =>
      let pairs := out.2.map (fun r => (r, some r))
      -- the harness's clock ticks per reading during this op: the cleanup took reading 0
      let S1 := updateAllR l possibleTypes 0 (Gen.Cache.purge_updates_now now) pairs { hostR h with cache := out.1, tick := some 1 }
      let S2 := completeAllR l possibleTypes detaches fuel 0 now S1
      let h' : Host := { cache := S2.cache, listeners := h.listeners, browsers := S2.browsers, plans := S2.plans }
      match S2.err with
      | some e => some (h', s!"X err={errName e}")
      | none => some (h', s!"X u={pairsStr pairs} c1={idsStr h.listeners} c2={idsStr h.listeners} n=0 cb={cbStr S2.cbs} {readersStr p S2.cache}")
  | .bAdd i now types =>
    let h := { h with browsers := h.browsers.filter (fun ib => ib.1 != i) }
    let S := createR l possibleTypes detaches fuel 0 now i types (hostR h)
    let h' : Host := { cache := S.cache, listeners := h.listeners, browsers := S.browsers, plans := S.plans }
    match S.err with
    | some e => some (h', s!"BA err={errName e}")
    | none =>
      match S.log.findSome? (fun ev => match ev with | .purge 0 _ recs => some recs | _ => none) with
      | none => some (h', s!"BA u=~ c1=~ c2=~ cb={cbStr S.cbs}")
      | some recs => some (h', s!"BA u={pairsStr (recs.map (fun r => (r, some r)))} c1={idsStr h.listeners} c2={idsStr h.listeners} cb={cbStr S.cbs}")
  | _ => none

def stepPlain (p : Probes) (h : Host) (op : Op) : Host × String :=
  let l := lowerD
  match op with
  | .wire .. => (h, "bad-op")
  | .dg now recs reacts =>
    -- the harness's listeners hash to their id, so the set iterates in ascending id order
    let d := deliverR l (fun ls => ls.mergeSort (fun a b => a ≤ b)) (reactFn reacts) 8 h.cache h.listeners now recs
    let nest := nestStr ((d.r1.map (fun r => r.1.log)).getD [] ++ (d.r2.map (fun r => r.1.log)).getD [])
    let round1 := (d.r1.map (fun r => r.2.map Prod.fst)).getD []
    let round2 := (d.r2.map (fun r => r.2.map Prod.fst)).getD []
    let notify := (d.fin.map (fun f => f.2)).getD false
    match d.r1 with
    | some _ =>
      let c1 := d.pre.cache
      let us := livePairs (Cache.ops l) c1 d.pre.updates
      match d.err with
      | some e =>
        -- an exception propagated: the datagram is abandoned where it was (browsers are not part of these histories)
        ({ h with cache := d.cache, listeners := d.listeners },
          s!"D err={e.name} u={pairsStr us} c1={idsStr round1} s1={snapStr c1} c2={idsStr round2} s2={match d.fin with | some f => snapStr f.1 | none => "!"} nest={nest} ls={idsStr d.listeners} {readersStr p d.cache}")
      | none =>
        let bs := browsersUpdate h c1 now us
        let (bs', cbs) := browsersComplete bs
        let c2 := (d.fin.map (fun f => f.1)).getD d.cache
        ({ cache := d.cache, listeners := d.listeners, browsers := bs' },
          s!"D u={pairsStr us} c1={idsStr round1} s1={snapStr c1} c2={idsStr round2} s2={snapStr c2} nest={nest} ls={idsStr d.listeners} n={if notify then 1 else 0} cb={cbStr cbs} {readersStr p d.cache}")
    | none =>
      match d.err with
      | some e => (h, s!"D err={e.name}")
      | none =>
        ({ h with cache := d.cache }, s!"D u=~ c1=~ s1=~ c2=~ s2=~ nest=~ ls={idsStr d.listeners} n={if notify then 1 else 0} cb=~ {readersStr p d.cache}")
  | .purge now =>
    match deliverPurge l (fun ls => ls.mergeSort (fun a b => a ≤ b)) h.cache h.listeners now (fun _ => []) (fun _ => []) with
    | .error e => (h, s!"X err={e.name}")
    | .ok d =>
      let bs := browsersUpdate h d.cache (Gen.Cache.purge_updates_now now) d.pairs
      let (bs', cbs) := browsersComplete bs
      ({ h with cache := d.cache, browsers := bs', listeners := d.listeners },
        s!"X u={pairsStr d.pairs} c1={idsStr d.round1} c2={idsStr d.round2} n={if d.notify then 1 else 0} cb={cbStr cbs} {readersStr p d.cache}")
  | .lAdd i => ({ h with listeners := setAdd h.listeners i }, s!"LA {idsStr (setAdd h.listeners i)}")
  | .lRem i =>
    match applyAct Gen.Cache.remove_listener_catches_keyerror h.listeners (.remove i) with
    | .ok ls => ({ h with listeners := ls }, s!"LR {idsStr ls}")
    | .error e => (h, s!"LR err={e.name}")
  | .bAdd i now types =>
    -- a browser with this id is replaced: the old one is cancelled first
    let h := { h with browsers := h.browsers.filter (fun ib => ib.1 != i) }
    match Browser.create l possibleTypes h.cache now types with
    | .error e => (h, s!"BA err={e.name}")
    | .ok o =>
      if o.purged.isEmpty then
        ({ h with cache := o.cache, browsers := h.browsers ++ [(i, o.browser)] },
          s!"BA u=~ c1=~ c2=~ cb={cbStr (o.callbacks.map (fun cb => (i, cb)))}")
      else
        -- the purge round goes to the listeners and browsers registered before
        let us := o.purged.map (fun r => (r, some r))
        let bs := browsersUpdate h o.cache (Gen.Cache.add_listener_purge_updates_now now) us
        let (bs', cbs) := browsersComplete bs
        ({ h with cache := o.cache, browsers := bs' ++ [(i, o.browser)] },
          s!"BA u={pairsStr us} c1={idsStr h.listeners} c2={idsStr h.listeners} cb={cbStr (cbs ++ o.callbacks.map (fun cb => (i, cb)))}")
  | .bRem i => ({ h with browsers := h.browsers.filter (fun ib => ib.1 != i) }, "BR")
  | .plan pl => ({ h with plans := h.plans ++ [pl] }, "BP")

def stepCore (p : Probes) (h : Host) (op : Op) : Host × String :=
  if h.plans.isEmpty then stepPlain p h op
  else match stepPlans p h op with
    | some r => r
    | none => stepPlain p h op

/-- the instant the wall clock shows after the op -/
def opTime : Op → Option Ms
  | .dg now .. => some now | .wire now .. => some now | .purge now => some now | .bAdd _ now _ => some now | _ => none

/-- one op.  A `W` datagram first passes the listener's duplicate guard (`Zc.WireState.suppresses`, the generated test): dropped, or
remembered and handed to the record manager exactly as a `D` datagram with the arrival time -/
def step (p : Probes) (h : Host) (op : Op) : Host × String :=
  let p := { p with now := (opTime op).getD p.now }
  match op with
  | .wire now pid recs reacts =>
    let ws : WireState := { cache := h.cache, data := h.wdata, lastTime := h.wlast }
    if ws.suppresses pid now then (h, s!"W dup {readersStr p h.cache}")
    else
      let (h', s) := stepCore p h (.dg now recs reacts)
      ({ h' with wdata := some pid, wlast := now }, "W" ++ String.ofList (s.toList.drop 1))
  | op => stepCore p h op

def run (p : Probes) (ops : List Op) : String :=
  let (_, outs) := ops.foldl (fun (acc : Host × List String) op => let (h', s) := step p acc.1 op; (h', s :: acc.2)) ({}, [])
  " | ".intercalate outs.reverse

def crun (toks : List String) : String :=
  match parseAll.run toks with
  | some ((p, ops), _) => run p ops
  | none => "bad-op"

/-- `ptypes <name>` → possible_types(name), sorted -/
def ptypes (toks : List String) : String :=
  match (do let n ← Tok.str; Tok.done; pure n : Tok String).run toks with
  | some (n, _) => sep "," (((possibleTypes n).map hexOfStr).mergeSort (fun a b => a ≤ b))
  | none => "bad-op"

def dispatch (cmd : String) (rest : List String) : Option String :=
  match cmd with
  | "crun" => some (crun rest)
  | "ptypes" => some (ptypes rest)
  | _ => none

end Zc.Driver.C05
