import Zc.Model.Name
import Zc.Model.Txt
namespace Zc.Driver.C19
open Zc

def strHex (s : Name.Str) : String := hexOfStr (String.ofList s)

/-- `c19n <strict01> <hex name>` → `ok <hex type>` | `err <Exception>` -/
def c19n (toks : List String) : String :=
  match (do let st ← Tok.bool; let s ← Tok.str; Tok.done; pure (st, s) : Tok (Bool × String)).run toks with
  | some ((st, s), _) =>
    match Name.serviceTypeName s.toList st with
    | .ok t => s!"ok {strHex t}"
    | .error e => s!"err {e.name}"
  | none => "bad-op"

/-- `c19c <hex type_> <hex name>` → `ok` | `err <Exception>` (the constructor's test) -/
def c19c (toks : List String) : String :=
  match (do let t ← Tok.str; let n ← Tok.str; Tok.done; pure (t, n) : Tok (String × String)).run toks with
  | some ((t, n), _) =>
    match Name.ctorCheck t.toList n.toList with
    | .ok _ => "ok"
    | .error e => s!"err {e.name}"
  | none => "bad-op"

def valStr : Option Bytes → String
  | none => "N"
  | some v => hexOfBytes v

def propsStr (d : Txt.Props) : String :=
  s!"{d.length}" ++ String.join (d.map (fun e => s!" {hexOfBytes e.1} {valStr e.2}"))

def entry : Tok (Bytes × Option Bytes) := do
  let k ← Tok.bytes
  let has ← Tok.bool
  let v ← Tok.bytes
  pure (k, if has then some v else none)

/-- `c19t <containsStr01> <n> (<key> <hasValue01> <value>)*` →
`ok <text> L <properties> R <rfc parse | bad>` | `err <Exception>` -/
def c19t (toks : List String) : String :=
  match (do let cs ← Tok.bool; let ps ← Tok.list entry; Tok.done; pure (cs, ps) : Tok (Bool × Txt.Props)).run toks with
  | some ((cs, ps), _) =>
    match Txt.encode ps with
    | .error e => s!"err {e.name}"
    | .ok text =>
      let rfc := match Txt.Spec.parse text with
        | some d => propsStr d
        | none => "bad"
      s!"ok {hexOfBytes text} L {propsStr (Txt.propertiesObs cs ps text)} D {propsStr (Txt.decodeLib text)} R {rfc}"
  | none => "bad-op"

/-- `c19d <text>` → `L <library decode> R <rfc parse | bad>` -/
def c19d (toks : List String) : String :=
  match (do let t ← Tok.bytes; Tok.done; pure t : Tok Bytes).run toks with
  | some (text, _) =>
    let rfc := match Txt.Spec.parse text with
      | some d => propsStr d
      | none => "bad"
    s!"L {propsStr (Txt.decodeLib text)} R {rfc}"
  | none => "bad-op"

def dispatch (cmd : String) (rest : List String) : Option String :=
  match cmd with
  | "c19n" => some (c19n rest)
  | "c19c" => some (c19c rest)
  | "c19t" => some (c19t rest)
  | "c19d" => some (c19d rest)
  | _ => none

end Zc.Driver.C19
