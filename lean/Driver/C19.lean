import Zc.Model.Name
import Zc.Model.Txt
namespace Zc.Driver.C19
open Zc

def strHex (s : Name.Str) : String := hexOfStr (String.ofList s)

/-- `c19n <strict01> <hex name>` → `ok <hex type>` | `err <Exception>` -/
def c19n (toks : List String) : String :=
  match (do let st ← Tok.bool; let s ← Tok.str; Tok.done; pure (st, s) : Tok (Bool × String)).run toks with
  | some ((st, s), _) =>
    match Name.serviceTypeName s.toList st with
    | .ok t => s!"ok {strHex t}"
    | .error e => s!"err {e.name}"
  | none => "bad-op"

/-- `c19c <hex type_> <hex name>` → `ok` | `err <Exception>` (the constructor's test) -/
def c19c (toks : List String) : String :=
  match (do let t ← Tok.str; let n ← Tok.str; Tok.done; pure (t, n) : Tok (String × String)).run toks with
  | some ((t, n), _) =>
    match Name.ctorCheck t.toList n.toList with
    | .ok _ => "ok"
    | .error e => s!"err {e.name}"
  | none => "bad-op"

def valStr : Option Bytes → String
  | none => "N"
  | some v => hexOfBytes v

def propsStr (d : Txt.Props) : String :=
  s!"{d.length}" ++ String.join (d.map (fun e => s!" {hexOfBytes e.1} {valStr e.2}"))

/-- type tag of the line protocol: 0 = bytes, 1 = `str` (its UTF-8 bytes follow), 2 = `str` with a lone surrogate -/
def pyObj (ty : Nat) (b : Bytes) : Option Txt.PyObj :=
  match ty with
  | 0 => some (.val (.bytes b))
  | 1 => some (.val (.str b))
  | 2 => some .surrogateStr
  | _ => none

def entry : Tok (Txt.PyObj × Option Txt.PyObj) := do
  let ks ← Tok.nat
  let k ← Tok.bytes
  let has ← Tok.bool
  let vs ← Tok.nat
  let v ← Tok.bytes
  match pyObj ks k, pyObj vs v with
  | some ko, some vo => pure (ko, if has then some vo else none)
  | _, _ => failure

/-- an observed key/value: bytes as hex; a `str` (which `.properties` must never contain) tagged -/
def pyTok : Txt.PyVal → String
  | .bytes b => hexOfBytes b
  | .str u => "!str:" ++ hexOfBytes u

def pyDictStr (d : Txt.PyDict) : String :=
  s!"{d.length}" ++ String.join (d.map (fun e => s!" {pyTok e.1} " ++ (match e.2 with | none => "N" | some v => pyTok v)))

/-- `c19t <n> (<keyType> <key> <hasValue01> <valueType> <value>)*` (type 0 bytes, 1 str as its UTF-8 bytes, 2 str with a lone
surrogate) → `ok <text> L <.properties> D <library decode of text> R <rfc parse | bad> A <.properties is the caller's object>`
| `err <Exception>` -/
def c19t (toks : List String) : String :=
  match (do let d ← Tok.list entry; Tok.done; pure d : Tok Txt.PyDictRaw).run toks with
  | some (d, _) =>
    match Txt.setPropertiesRaw d with
    | .error e => s!"err {e.name}"
    | .ok (text, obs) =>
      let rfc := match Txt.Spec.parse text with
        | some d => propsStr d
        | none => "bad"
      let alias := if Txt.returnsCallersDict (Txt.textOf d) then "1" else "0"
      s!"ok {hexOfBytes text} L {pyDictStr obs} D {propsStr (Txt.decodeLib text)} R {rfc} A {alias}"
  | none => "bad-op"

/-- `c19d <text>` → `L <library decode> R <rfc parse | bad>` -/
def c19d (toks : List String) : String :=
  match (do let t ← Tok.bytes; Tok.done; pure t : Tok Bytes).run toks with
  | some (text, _) =>
    let rfc := match Txt.Spec.parse text with
      | some d => propsStr d
      | none => "bad"
    s!"L {propsStr (Txt.decodeLib text)} R {rfc}"
  | none => "bad-op"

def dispatch (cmd : String) (rest : List String) : Option String :=
  match cmd with
  | "c19n" => some (c19n rest)
  | "c19c" => some (c19c rest)
  | "c19t" => some (c19t rest)
  | "c19d" => some (c19d rest)
  | _ => none

end Zc.Driver.C19
