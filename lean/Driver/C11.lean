import Zc.Model.ReplyNet
import Zc.Model.NameText
import Driver.C12
/-! driver commands for C11's socket level (`Model/ReplyNet.lean`): `c11net` (trace acceptance with the physical datagrams of
every block: socket, complete destination sockaddr, id, flags, questions, class fields), `c11bytes` (the two reply constructors
down to the bytes of C01's encoder) -/
namespace Zc.Driver.C11
open Zc Zc.Reply Zc.Reply.Net Zc.Wire Zc.Wire.Encode

def pSock : Tok Sock := do
  let id ← Tok.nat; let v6 ← Tok.bool; let f ← Tok.nat; let s ← Tok.nat
  pure { id := id, v6 := v6, flow := f, scope := s }

/-- `-` or `flow scope` -/
def pFs : Tok FlowScope := do
  let t ← Tok.next
  if t = "-" then pure none else
  match t.toNat? with
  | some f => do let s ← Tok.nat; pure (some (f, s))
  | none => failure

/-- `addrId ipId colon fs` -/
def pPeer : Tok (Nat × Ip × FlowScope) := do
  let a ← Tok.nat; let ip ← Tok.nat; let c ← Tok.bool; let fs ← pFs
  pure (a, .peer ip c, fs)

def pQs : Tok (Nat × List EQuestion) := do
  let d ← Tok.nat; let qs ← Tok.list (EQuestion.parseN NameText.Tok.nameT)
  pure (d, qs)

def pKind : Tok (Option RKind) := do
  let t ← Tok.next
  match t with
  | "ptr" => pure (some .ptr) | "srv" => pure (some .srv) | "txt" => pure (some .txt) | "a" => pure (some .a)
  | "aaaa" => pure (some .aaaa) | "nsec" => pure (some .nsec) | "enum" => pure (some .enumPtr) | "-" => pure none
  | _ => failure

/-- a record known by its constructor site only: type, class and `unique` as that site builds them -/
def recOfKind : Option RKind → ERecord
  | some k => { name := [], rtype := k.ctorType, rclass := k.rclass, unique := k.unique, ttl := 0, created := 0, rdata := .txt [] }
  | none => { name := [], rtype := 0, rclass := 0, unique := false, ttl := 0, created := 0, rdata := .txt [] }

/-- `<socks> <rx index> <peers> <question sections> <record kinds>` -/
def pWorld : Tok World := do
  let socks ← Tok.list pSock
  let rxi ← Tok.nat
  let peers ← Tok.list pPeer
  let qs ← Tok.list pQs
  let kinds ← Tok.list pKind
  pure { senders := socks
         rx := socks.getD rxi default
         peer := fun a => match peers.find? (fun p => p.1 == a) with | some p => p.2 | none => (.peer 0 false, none)
         questions := fun d => match qs.find? (fun p => p.1 == d) with | some p => p.2 | none => []
         recOf := fun r => recOfKind (kinds.getD r none) }

def ipStr : Ip → String
  | .group4 => "g4" | .group6 => "g6" | .peer id _ => s!"p{id}"

def fsStr : FlowScope → String
  | none => "-" | some (f, s) => s!"{f}.{s}"

def qStr (mc : Bool) (q : EQuestion) : String := s!"{nameToLine q.name}:{q.qtype}:{Wire.Encode.wireClass q.qclass q.unique mc}"

def recStr (w : World) (mc : Bool) (r : RecId) : String :=
  s!"{r}.{(w.recOf r).rtype}.{Reply.wireClass (w.recOf r).rclass (w.recOf r).unique mc}"

def joinOr (sep : String) (l : List String) : String := if l.isEmpty then "-" else sep.intercalate l

/-- `sock>ip/port/fs|id|flags|questions|answers|additionals` as they are on the wire -/
def sentStr (w : World) (d : Sent Content) : String :=
  let c := d.packet
  let recs := fun (l : List RecId) => joinOr "," ((C12.sortN l).map (recStr w c.multicast))
  s!"{d.sock}>{ipStr d.dest.ip}/{d.dest.port}/{fsStr d.dest.fs}|{wireId c.multicast c.id}|{c.flags}|{joinOr "+" (c.questions.map (qStr c.multicast))}|{recs c.answers}|{recs c.adds}"

def physStr (w : World) (ds : List (Sent Content)) : String :=
  joinOr " " ((ds.map (sentStr w)).mergeSort (fun a b => decide (a ≤ b)))

/-- run as far as the model accepts; per block the logical observation and the physical datagrams -/
def runPrefix (w : World) : Host → Int → List Ev → List String → List String × Option String
  | _, _, [], acc => (acc.reverse, none)
  | h, clock, e :: es, acc =>
    if e.time < clock then (acc.reverse, some "time-went-backwards") else
    match Net.step w h e with
    | .error m => (acc.reverse, some m)
    | .ok (r, ds) => runPrefix w r.host e.time es (s!"{C12.evOutStr (e.time, r.outs, r.draws)} ;; {physStr w ds}" :: acc)

/-- `c11net <known answers numbered without the scope id: 0/1> <seen snapshot scope-blind: 0/1> <world> <events>` → `ok | <outs draws ;; datagrams> | …` or
`reject <index> <reason> | …`.  The first flag is how the harness numbered the known answers of packets received on an IPv6 socket
(`reply_common.parse_query`); it must be what the translated tree does (`resp_known_unscoped` for a message with a scope id). -/
def c11net (toks : List String) : String :=
  match (do let ku ← Tok.bool; let sb ← Tok.bool; let w ← pWorld; let evs ← Tok.list C12.pEv; Tok.done
            pure (ku, sb, w, evs) : Tok (Bool × Bool × World × List Ev)).run toks with
  | some ((ku, sb, w, evs), _) =>
    if ku != Gen.ReplyNet.resp_known_unscoped false then "reject 0 known-answers-numbered-for-the-other-tree |" else
    if sb != Gen.ReplyNet.qu_lookup_ignores_scope then "reject 0 seen-snapshot-taken-for-the-other-tree |" else
    let (outs, err) := runPrefix w {} (evs.head?.map Ev.time |>.getD 0) evs []
    let body := " | ".intercalate outs
    match err with
    | none => s!"ok | {body}"
    | some m => s!"reject {outs.length} {m} | {body}"
  | none => "bad-op"

/-- `c11bytes <unicast 0/1> <ucast_source> <id> <questions> <answers: records> <additionals: records>` → `ok <hex> …` | `err <PyExc>`:
the bytes `packets()` gives for the `DNSOutgoing` built by `construct_outgoing_unicast_answers` (1) /
`construct_outgoing_multicast_answers` (0) with the records in the given order -/
def c11bytes (toks : List String) : String :=
  match (do
    let uc ← Tok.bool; let us ← Tok.bool; let id ← Tok.nat
    let qs ← Tok.list (EQuestion.parseN NameText.Tok.nameT)
    let ans ← Tok.list (ERecord.parseN NameText.Tok.nameT)
    let adds ← Tok.list (ERecord.parseN NameText.Tok.nameT)
    Tok.done
    pure (uc, us, id, qs, ans, adds) : Tok _).run toks with
  | some ((uc, us, id, qs, ans, adds), _) =>
    let all := ans ++ adds
    let recOf : RecId → ERecord := fun r => all.getD r default
    let a := List.range ans.length
    let b := (List.range adds.length).map (· + ans.length)
    let c := if uc then ucastContent qs us id a b else mcastContent a b
    match packets (c.msg recOf) with
    | .ok pks => "ok " ++ " ".intercalate (pks.map hexOfBytes)
    | .error e => "err " ++ e.name
  | none => "bad-op"

def dispatch (cmd : String) (rest : List String) : Option String :=
  match cmd with
  | "c11net" => some (c11net rest)
  | "c11bytes" => some (c11bytes rest)
  | _ => none

end Zc.Driver.C11
