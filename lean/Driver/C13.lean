import Zc.Model.QueryGen
/-! line protocol for C13.

`c13svc now qu <cache: n rec…> <hist: n (question at <n rec…>)…> <types: n hex…>`   generate_service_query
`c13req now qu <cache> <hist> nameHex serverHex`                                     _generate_request_query
`c13hear canAnswer now <hist> question <known: n rec…>`                                       responder records a question
`c13hearm now <hist> <packets>`                                                      responder hears a whole (multi-packet) query
`c13grp <n> (size id)…`                                                              bucket grouping
`c13loop forced now timeout <draws: n d…>`                                           request loop on its own wake-ups
`c13iter first delay next last forced now draw`                                      one loop iteration
Answers: questions as `q=<question line> k=<rec,ttl;…>` joined by ` | `, then ` || ` and the history. -/
namespace Zc.Driver.C13
open Zc Zc.QueryGen

def b01 (b : Bool) : String := if b then "1" else "0"

def sortStr (l : List String) : List String := l.mergeSort (fun a b => decide (a ≤ b))

def commas (s : String) : String := s.map (fun c => if c = ' ' then ',' else c)

def recStr (r : Rec) : String := commas r.toLine

def wireStr (l : List (Rec × Nat)) : String :=
  let items := sortStr (l.map (fun p => s!"{recStr p.1}:{p.2}"))
  if items.isEmpty then "-" else ";".intercalate items

def qoutStr (o : QOut) : String := s!"q={commas o.q.toLine} k={wireStr o.wire}"

def histStr (h : History) : String :=
  let items := sortStr (h.map (fun e =>
    s!"{hexOfStr (asciiLower e.q.name)},{e.q.type},{e.q.class_}@{e.time}:[{";".intercalate (sortStr (e.known.map recStr))}]"))
  if items.isEmpty then "-" else " ".intercalate items

def resStr (_now : Int) (r : List QOut × History) : String :=
  let qs := sortStr (r.1.map qoutStr)
  s!"{if qs.isEmpty then "-" else " | ".intercalate qs} || {histStr r.2}"

def parseHEntry : Tok HEntry := do
  let q ← Question.parse
  let at_ ← Tok.int
  let known ← Tok.list Rec.parse
  pure { q, time := at_, known }

def parseForced : Tok (Option Bool) := do
  let t ← Tok.next
  if t = "-" then pure none else if t = "1" then pure (some true) else if t = "0" then pure (some false) else failure

def run (p : Tok String) (toks : List String) : String :=
  match (do let r ← p; Tok.done; pure r : Tok String).run toks with
  | some (s, _) => s
  | none => "bad-op"

def c13svc : Tok String := do
  let now ← Tok.int; let qu ← Tok.bool
  let cache ← Tok.list Rec.parse
  let hist ← Tok.list parseHEntry
  let types ← Tok.list Tok.str
  pure (resStr now (serviceQuestions asciiLower cache now qu types hist))

def c13req : Tok String := do
  let now ← Tok.int; let qu ← Tok.bool
  let cache ← Tok.list Rec.parse
  let hist ← Tok.list parseHEntry
  let name ← Tok.str; let server ← Tok.str
  pure (resStr now (requestQuery asciiLower cache hist now qu name server))

def c13hear : Tok String := do
  let can ← Tok.bool
  let now ← Tok.int
  let hist ← Tok.list parseHEntry
  let q ← Question.parse
  let known ← Tok.list Rec.parse
  pure (histStr (responderHears asciiLower can hist q now known))

def parseHeardPacket : Tok HeardPacket := do
  let probe ← Tok.bool
  let questions ← Tok.list (do let q ← Question.parse; let can ← Tok.bool; pure (q, can))
  let records ← Tok.list Rec.parse
  pure { probe, questions, records }

/-- `c13hearm now <hist> <packets: n (probe <questions: n (question canAnswer)…> <records: n rec…>)…>` -/
def c13hearm : Tok String := do
  let now ← Tok.int
  let hist ← Tok.list parseHEntry
  let pkts ← Tok.list parseHeardPacket
  pure (histStr (hearQuery asciiLower hist pkts now))

def c13grp : Tok String := do
  let items ← Tok.list (do let s ← Tok.nat; let i ← Tok.nat; pure (s, i))
  let dummy : Question := { name := "", type := 0, class_ := 0, unique := false }
  let bs := group maxBucketSize (items.map (fun (s, i) => (s, ({ q := { dummy with type := i }, known := [], wire := [] } : QOut))))
  pure ("|".intercalate (bs.map (fun b => ",".intercalate (b.items.map (fun it => toString it.2.q.type)))))

def c13expire : Tok String := do
  let now ← Tok.int
  let hist ← Tok.list parseHEntry
  pure (histStr (History.cleanupTick hist now))

def iterStr : Iter → String
  | .timeout => "timeout"
  | .ask qu => s!"ask{b01 qu}"
  | .wait => "wait"

def c13loop : Tok String := do
  let forced ← parseForced
  let now ← Tok.int; let timeout ← Tok.int
  let draws ← Tok.list Tok.nat
  let r := Loop.run forced (draws.length + 2) (Loop.init now timeout) now draws
  pure (if r.isEmpty then "-" else " ".intercalate (r.map (fun (t, qu) => s!"{t},{b01 qu}")))

def c13iter : Tok String := do
  let first ← Tok.bool; let delay ← Tok.int; let next ← Tok.int; let last ← Tok.int
  let forced ← parseForced
  let now ← Tok.int; let draw ← Tok.nat
  let (k, l) := ({ first, delay, next, last } : Loop).iter forced now draw
  pure s!"{iterStr k} {b01 l.first} {l.delay} {l.next} {l.last} {l.wake}"

def c13init : Tok String := do
  let now ← Tok.int; let timeout ← Tok.int
  let l := Loop.init now timeout
  pure s!"{b01 l.first} {l.delay} {l.next} {l.last}"

def dispatch (cmd : String) (rest : List String) : Option String :=
  match cmd with
  | "c13svc" => some (run c13svc rest)
  | "c13req" => some (run c13req rest)
  | "c13hear" => some (run c13hear rest)
  | "c13hearm" => some (run c13hearm rest)
  | "c13grp" => some (run c13grp rest)
  | "c13expire" => some (run c13expire rest)
  | "c13loop" => some (run c13loop rest)
  | "c13iter" => some (run c13iter rest)
  | "c13init" => some (run c13init rest)
  | _ => none

end Zc.Driver.C13
