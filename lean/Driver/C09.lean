import Zc.Model.Register
/-! driver commands of C09 (registration): replay of the block log of one `async_register_service` call -/
namespace Zc.Driver.C09
open Zc Zc.Register

def commaLine (s : String) : String := s.map (fun c => if c = ' ' then ',' else c)

def recsCanon (l : List Rec) : String :=
  "|".intercalate ((l.map (fun r => commaLine r.toLine)).mergeSort (fun a b => decide (a ≤ b)))

def Pkt.canon (p : Pkt) : String :=
  s!"{p.flags}#{"|".intercalate (p.questions.map (fun q => commaLine q.toLine))}#{recsCanon p.answers}#{recsCanon p.authorities}#{recsCanon p.additionals}"

def parseSvc : Tok Svc := do
  let type ← Tok.str; let name ← Tok.str; let server ← Tok.str
  let port ← Tok.nat; let weight ← Tok.nat; let priority ← Tok.nat
  let text ← Tok.bytes
  let v4 ← Tok.list Tok.bytes
  let v6 ← Tok.list Tok.bytes
  let hostTtl ← Tok.nat; let otherTtl ← Tok.nat
  pure { type, name, server, port, weight, priority, text, v4, v6, hostTtl, otherTtl }

def parseWake : Tok Wake := do
  let now ← Tok.int
  let bucket ← Tok.list Rec.parse
  pure { now, bucket }

def outcomeStr : Phase → String
  | .waiting due => s!"wait:{due}"
  | .done => "done"
  | .failed e => s!"raise:{e.name}"
  | .stuck => "stuck"

/-- one block's observation: sends, how the block ended, the info's name afterwards -/
def blockStr (before after : Cfg) : String :=
  let new := after.sent.drop before.sent.length
  let sends := ";".intercalate (new.map (fun x => Pkt.canon x.2))
  s!"[{sends}]~{outcomeStr after.phase}~{hexOfStr after.st.svc.name}"

def runBlocks (allow : Bool) (valid : String → Bool) : Cfg → List Wake → List String → List String × Option Cfg
  | c, [], acc => (acc.reverse, some c)
  | c, w :: ws, acc =>
    match c.wake { allow, valid, bucket := w.bucket } w.now with
    | some c' => runBlocks allow valid c' ws (blockStr c c' :: acc)
    | none => (("rejected" :: acc).reverse, none)

/-- `c09run <svc> <inst> <allow> <invalid names> <start wake> <wakes>`
→ one token per block, then `F~<phase>~<name>~<announcement schedule>` -/
def c09run (toks : List String) : String :=
  let p : Tok (Svc × String × Bool × List String × Wake × List Wake) := do
    let svc ← parseSvc; let inst ← Tok.str; let allow ← Tok.bool
    let invalid ← Tok.list Tok.str
    let w0 ← parseWake
    let ws ← Tok.list parseWake
    Tok.done
    pure (svc, inst, allow, invalid, w0, ws)
  match p.run toks with
  | some ((svc, inst, allow, invalid, w0, ws), _) =>
    let valid := fun n => !invalid.contains n
    let c0 := Cfg.start { allow, valid, bucket := w0.bucket } svc inst w0.now
    let b0 := blockStr { c0 with sent := [] } c0
    let (blocks, fin) := runBlocks allow valid c0 ws [b0]
    let tail := match fin with
      | none => "F~rejected"
      | some c =>
        -- the composition "check, registry add, announcement task" is the model's `registerRun` (theorem `C09_only_then`)
        let ann := match registerRun allow valid asciiLower [] svc inst 0 w0 ws with
          | some r => (match r.task with | some t => t.schedule 3 | none => [])
          | none => []
        s!"F~{outcomeStr c.phase}~{hexOfStr c.st.svc.name}~" ++ ";".intercalate (ann.map (fun x => s!"{x.1}@{Pkt.canon x.2}"))
    " ".intercalate (blocks ++ [tail])
  | none => "bad-op"

/-- `c09pkt <svc> <ttl|-> <addresses>` → the broadcast datagram; `c09probe <svc>` → the probe -/
def c09pkt (toks : List String) : String :=
  match (do let s ← parseSvc; let o ← Tok.optNat; let a ← Tok.bool; Tok.done; pure (s, o, a) : Tok _).run toks with
  | some ((s, o, a), _) => Pkt.canon (broadcastPkt s o a)
  | none => "bad-op"

def dispatch (cmd : String) (rest : List String) : Option String :=
  match cmd with
  | "c09run" => some (c09run rest)
  | "c09pkt" => some (c09pkt rest)
  | _ => none

end Zc.Driver.C09
