import Zc.Model.NameText
import Zc.Model.Wire.Strict
/-! line-protocol commands of the text layer of names (work package TEXTGLUE) -/
namespace Zc.Driver.NameText
open Zc Zc.Wire Zc.NameText

/-- `ntlabels =<hex>` → the label list `write_name` works on for that `str` (`61.62`; `-` is an empty label) -/
def cmdLabels (toks : List String) : String :=
  match toks with
  | [t] => match textOfToken t with
    | some s => nameToLine (labelsOfText s)
    | none => "bad-op"
  | _ => "bad-op"

/-- `nttext <wname>` → `=<hex of the text _read_name returns> <len(name)>` -/
def cmdText (toks : List String) : String :=
  match toks with
  | [t] => match parseName t with
    | some n => s!"{tokenOfText (textOfLabels n)} {(textOfLabels n).length}"
    | none => "bad-op"
  | _ => "bad-op"

def tableLine (names : TNames) : String :=
  s!"{names.length}" ++ String.join (names.reverse.map (fun p => s!" {tokenOfText p.1} {p.2}"))

/-- a sequence of `write_name` calls on one fresh packet: the chunk each call appends, until one raises -/
def writeAll : Nat → TNames → List Text → List Bytes → (List Bytes × TNames × Option PyExc)
  | _, names, [], acc => (acc.reverse, names, none)
  | size, names, s :: rest, acc =>
    match writeNameText size names s with
    | .ok (b, names') => writeAll (size + b.length) names' rest (b :: acc)
    | .error e => (acc.reverse, names, some e)

/-- `ntwrite <size> =<name> =<name> …` → `ok|err:<exc> <#chunks> <hex>… <#entries> (=<key> <offset>)…`: the names written one
after the other from absolute offset `size` with the library's `str`-keyed table (insertion order) -/
def cmdWrite (toks : List String) : String :=
  match toks with
  | sz :: names =>
    match sz.toNat?, names.mapM textOfToken with
    | some size, some ts =>
      let (chunks, tbl, err) := writeAll size [] ts []
      let st := match err with | none => "ok" | some e => "err:" ++ e.name
      s!"{st} {chunks.length}" ++ String.join (chunks.map (fun c => " " ++ hexOfBytes c)) ++ " " ++ tableLine tbl
    | _, _ => "bad-op"
  | _ => "bad-op"

def rdLine : SRData → String
  | .addr a => s!"a {hexOfBytes a}"
  | .ptr t => s!"p {tokenOfText t}"
  | .txt t => s!"t {hexOfBytes t}"
  | .srv p w q t => s!"s {p} {w} {q} {tokenOfText t}"
  | .hinfo c o => s!"h {hexOfBytes c} {hexOfBytes o}"
  | .nsec n ts => s!"n {tokenOfText n} {natListStr ts}"
  | .other r => s!"o {hexOfBytes r}"

def qLine (q : SQuestion) : String := s!"{tokenOfText q.name} {q.qtype} {q.qclass}"
def rLine (r : SRecord) : String := s!"{tokenOfText r.name} {r.rtype} {r.rclass} {r.ttl} {rdLine r.rdata}"

/-- `stricttext <hex>` → `ok <WMsg line with every name as =<hex of its text>>` | `reject`: the strictly decoded message
as `DNSIncoming` would present it (each label decoded with 'replace', joined, one dot appended) -/
def cmdStrictText (toks : List String) : String :=
  match toks with
  | [h] => match bytesOfHex h with
    | some b => match Strict.decode b with
      | some m =>
        let sec (l : List WRecord) := s!"{l.length}" ++ String.join (l.map (fun r => " " ++ rLine (seenRecord r)))
        s!"ok {m.id} {m.flags} {m.questions.length}" ++ String.join (m.questions.map (fun q => " " ++ qLine (seenQuestion q)))
          ++ " " ++ sec m.answers ++ " " ++ sec m.authorities ++ " " ++ sec m.additionals
      | none => "reject"
    | none => "bad-op"
  | _ => "bad-op"

def dispatch (cmd : String) (rest : List String) : Option String :=
  match cmd with
  | "ntlabels" => some (cmdLabels rest)
  | "nttext" => some (cmdText rest)
  | "ntwrite" => some (cmdWrite rest)
  | "stricttext" => some (cmdStrictText rest)
  | _ => none

end Zc.Driver.NameText
