import Zc.Model.Responder
import Zc.Model.RespSpec
import Zc.Model.RespScope
/-! Driver commands of C03 (one scenario per line).

* `c03 <n> op…` — a registry history with queries; prints one observation per op, joined by ` | `.
  `op` is `R <svc>` (async_add) · `U <svc>` (async_update) · `X <n> <hexkey>…` (async_remove of a list) ·
  `M <hexkey> <mut>` (attribute write on the registered object) · `Q <n> msg…` (async_response).
  `svc` = type name server port weight priority text hostTtl otherTtl <n4> v4… <n6> v6…
  `mut` = `port n | weight n | priority n | text hex | httl n | ottl n | addrs <n4> … <n6> …`
  `msg` = isProbe hasScope <nq> question… <nk> record…   (`hasScope`: the packet was parsed with a scope id, i.e. received on
  an IPv6 socket; whether the suppression then looks at the known answers without their scope ids is the translated test
  `treeUnscopes`, so the model follows a tree with and without the D25 repair)
  `str.lower` is `lowerD`: ASCII lowering plus `É → é` (the only non-ASCII letters the generators use are `É`, `é`, `ß` and uncased CJK).
* `c03p <n> (rec <m> rec…)…` — `_add_answers_additionals` on a dict: `answers # additionals`.
* `c03o <ns> svc… <nq> q… <nk> known… <n> (rec <m> rec…)…` — the property predicates on an *observed*
  answer map: `s=<bit per answer> c=<bit> a=<bit per answer>`.
* `c03e <ns> svc… <nt> hextype…` — `enumBacked`.
* `c03n <na> rec… <nb> rec…` — `noRepeat answers additionals`. -/
namespace Zc.Driver.C03
open Zc

/-- the driver's `str.lower`: ASCII, plus `É → é` (the harness checks `str.lower` against this on every name it generates;
`ß` is its own lower-case form) -/
def lowerD (s : String) : String := s.map (fun c => if c = 'É' then 'é' else c.toLower)

def strList (l : List String) : String := if l.isEmpty then "-" else ",".intercalate (l.map hexOfStr)

def svcP : Tok Svc := do
  let type ← Tok.str; let name ← Tok.str; let server ← Tok.str
  let port ← Tok.nat; let weight ← Tok.nat; let priority ← Tok.nat
  let text ← Tok.bytes; let hostTtl ← Tok.nat; let otherTtl ← Tok.nat
  let v4 ← Tok.list Tok.bytes; let v6 ← Tok.list Tok.bytes
  pure { type, name, server, port, weight, priority, text, hostTtl, otherTtl, v4, v6 }

def mutP : Tok Mut := do
  let k ← Tok.next
  match k with
  | "port" => do let n ← Tok.nat; pure (.port n)
  | "weight" => do let n ← Tok.nat; pure (.weight n)
  | "priority" => do let n ← Tok.nat; pure (.priority n)
  | "text" => do let b ← Tok.bytes; pure (.text b)
  | "httl" => do let n ← Tok.nat; pure (.hostTtl n)
  | "ottl" => do let n ← Tok.nat; pure (.otherTtl n)
  | "addrs" => do let a ← Tok.list Tok.bytes; let b ← Tok.list Tok.bytes; pure (.addrs a b)
  | _ => failure

def msgP : Tok QPkt := do
  let p ← Tok.bool; let sc ← Tok.bool; let qs ← Tok.list Question.parse; let ans ← Tok.list Rec.parse
  pure { msg := { isProbe := p, questions := qs, answers := ans }, hasScope := sc }

inductive Op where
  | reg (s : Svc) | upd (s : Svc) | unreg (ks : List String) | mut (k : String) (m : Mut) | query (msgs : List QPkt)

def opP : Tok Op := do
  let k ← Tok.next
  match k with
  | "R" => do let s ← svcP; pure (.reg s)
  | "U" => do let s ← svcP; pure (.upd s)
  | "X" => do let ks ← Tok.list Tok.str; pure (.unreg ks)
  | "M" => do let key ← Tok.str; let m ← mutP; pure (.mut key m)
  | "Q" => do let ms ← Tok.list msgP; pure (.query ms)
  | _ => failure

def idxStr (idx : NameIndex) : String :=
  if idx.isEmpty then "-" else ";".intercalate (idx.map (fun p => s!"{hexOfStr p.1}:{strList p.2}"))

def dump (reg : Registry) : String :=
  s!"S={strList (reg.services.map (·.key lowerD))} T={idxStr reg.types} H={idxStr reg.servers} E={if reg.hasEntries then 1 else 0}"

def entryStr (p : Rec × List Rec) : String := " , ".intercalate (p.1.toLine :: p.2.map Rec.toLine)

def dictStr (d : DictRS) : String := if d.isEmpty then "empty" else " ; ".intercalate (d.map entryStr)

def memoStr (reg : Registry) : String :=
  if reg.services.isEmpty then "-" else
  ";".intercalate (reg.services.map (fun s =>
    let b (x : Bool) := if x then "1" else "0"
    s!"{hexOfStr (s.key lowerD)}:{b s.ptrMemo.isSome}{b s.srvMemo.isSome}{b s.txtMemo.isSome}{b s.addrMemo.isSome}{b s.anMemo.isSome}"))

def stepOp (reg : Registry) : Op → Registry × String
  | .reg s => match reg.add lowerD s with
    | .ok r => (r, s!"ok # {dump r}")
    | .error e => (reg, s!"{e.name} # {dump reg}")
  | .upd s => match reg.update lowerD s with
    | .ok r => (r, s!"ok # {dump r}")
    | .error e => (reg, s!"{e.name} # {dump reg}")
  | .unreg ks => match reg.remove lowerD ks with
    | .ok r => (r, s!"ok # {dump r}")
    | .error e => (reg, s!"{e.name} # {dump reg}")
  | .mut k m => let r := reg.mutate lowerD k m; (r, s!"ok # {dump r}")
  | .query msgs => match respondQ treeUnscopes lowerD Gen.dnsOtherTtl reg msgs with
    | .ok (none, r) => (r, s!"none # {memoStr r}")
    | .ok (some d, r) => (r, s!"{dictStr d} # {memoStr r}")
    | .error e => (reg, s!"{e.name} # {memoStr reg}")

def runOps (ops : List Op) : String :=
  let (_, out) := ops.foldl (fun (acc : Registry × List String) op =>
    let (r, o) := stepOp acc.1 op; (r, o :: acc.2)) ({}, [])
  " | ".intercalate out.reverse

def entryP : Tok (Rec × List Rec) := do let r ← Rec.parse; let adds ← Tok.list Rec.parse; pure (r, adds)

def recsStr (l : List Rec) : String := if l.isEmpty then "empty" else " ; ".intercalate (l.map Rec.toLine)

def bits (l : List Bool) : String := if l.isEmpty then "-" else String.ofList (l.map (fun b => if b then '1' else '0'))

def c03 (toks : List String) : String :=
  match (do let ops ← Tok.list opP; Tok.done; pure ops : Tok (List Op)).run toks with
  | some (ops, _) => runOps ops
  | none => "bad-op"

def c03p (toks : List String) : String :=
  match (do let d ← Tok.list entryP; Tok.done; pure d : Tok DictRS).run toks with
  | some (d, _) => let (a, b) := packetize lowerD d; s!"{recsStr a} # {recsStr b}"
  | none => "bad-op"

def c03o (toks : List String) : String :=
  match (do let svcs ← Tok.list svcP; let qs ← Tok.list Question.parse; let known ← Tok.list Rec.parse
            let d ← Tok.list entryP; Tok.done; pure (svcs, qs, known, d) : Tok (List Svc × List Question × List Rec × DictRS)).run toks with
  | some ((svcs, qs, known, d), _) =>
    let ettl := Gen.dnsOtherTtl
    let s := d.map (fun p => RespSpec.soundAnswer lowerD ettl svcs qs known p.1)
    let c := RespSpec.complete lowerD ettl svcs qs known (d.map (·.1))
    let a := d.map (fun p => RespSpec.additionalsOk lowerD ettl svcs p)
    s!"s={bits s} c={if c then 1 else 0} a={bits a}"
  | none => "bad-op"

def c03e (toks : List String) : String :=
  match (do let svcs ← Tok.list svcP; let ts ← Tok.list Tok.str; Tok.done; pure (svcs, ts) : Tok (List Svc × List String)).run toks with
  | some ((svcs, ts), _) => if RespSpec.enumBacked lowerD svcs ts then "1" else "0"
  | none => "bad-op"

def c03n (toks : List String) : String :=
  match (do let a ← Tok.list Rec.parse; let b ← Tok.list Rec.parse; Tok.done; pure (a, b) : Tok (List Rec × List Rec)).run toks with
  | some ((a, b), _) => if RespSpec.noRepeat lowerD a b then "1" else "0"
  | none => "bad-op"

def dispatch (cmd : String) (rest : List String) : Option String :=
  match cmd with
  | "c03" => some (c03 rest)
  | "c03p" => some (c03p rest)
  | "c03o" => some (c03o rest)
  | "c03e" => some (c03e rest)
  | "c03n" => some (c03n rest)
  | _ => none

end Zc.Driver.C03
