import Zc.Model.Lookup
namespace Zc.Driver.C18
open Zc Zc.Lookup

def b01 (b : Bool) : String := if b then "1" else "0"

def sortStrs (l : List String) : List String := l.mergeSort (fun a b => decide (a ≤ b))

def joinOr (sep : String) (l : List String) : String := if l.isEmpty then "-" else sep.intercalate l

/-- identity of a record on the wire: everything but TTL, creation time and flush bit -/
def recIdent (r : Rec) : String :=
  ":".intercalate (({ r with ttl := 0, created := 0, unique := false } : Rec).toLine.splitOn " ")

def qIdent (q : Question) : String := ":".intercalate (q.toLine.splitOn " ")

def optNat : Option Nat → String | none => "-" | some n => toString n
def optInt : Option Int → String | none => "-" | some n => toString n
def optBool : Option Bool → String | none => "-" | some b => b01 b
def optStr : Option String → String | none => "-" | some s => "s" ++ hexOfStr s

def infoStr (i : Info) : String :=
  s!"{hexOfStr i.name}:{optStr i.server}:{optNat i.port}:{i.weight}:{i.priority}:{hexOfBytes i.text}:{joinOr "," (i.v4.map hexOfBytes)}:{joinOr "," (i.v6.map hexOfBytes)}"

def sentStr : Option (List (Question × List Rec)) → String
  | none => "-"
  | some qs => joinOr ";" (sortStrs (qs.map (fun p => qIdent p.1))) ++ "#" ++ joinOr ";" (sortStrs ((qs.map (fun p => p.2.map recIdent)).flatten))

def outStr (o : Out) : String :=
  s!"asked={optNat o.asked} sent={sentStr o.sent} ret={optBool o.ret} wait={optInt o.wait} woke={b01 o.woke} info={infoStr o.info}"

def parseHist : Tok Hist :=
  Tok.list (do let q ← Question.parse; let than ← Tok.int; let known ← Tok.list Rec.parse; pure { q, than, known })

def parseBlock : Tok Block := do
  let k ← Tok.next
  match k with
  | "S" => do let now ← Tok.int; let c ← Tok.list Rec.parse; let h ← parseHist; let d ← Tok.int; pure (.start now c h d)
  | "U" => do let now ← Tok.int; let rs ← Tok.list Rec.parse; let c ← Tok.list Rec.parse; pure (.update now rs c)
  | "R" => do let now ← Tok.int; let c ← Tok.list Rec.parse; let h ← parseHist; let d ← Tok.int; pure (.resume now c h d)
  | _ => failure

def runPrint (s : Req) : List Block → List String
  | [] => []
  | b :: bs =>
    match step asciiLower s b with
    | none => ["reject"]
    | some (s', o) => outStr o :: runPrint s' bs

/-- `c18 <name> <timeout> <forced> <server: - | s<hex>> <n> <block>*` → the observation of every block, ` | `-separated -/
def c18 (toks : List String) : String :=
  match (do let name ← Tok.str; let timeout ← Tok.int; let forced ← Tok.nat; let server ← Tok.next; let bs ← Tok.list parseBlock; Tok.done
            pure (name, timeout, forced, server, bs) : Tok (String × Int × Nat × String × List Block)).run toks with
  | some ((name, timeout, forced, server, bs), _) =>
    let s0 := Req.init asciiLower name timeout forced
    -- `AsyncServiceInfo(type_, name, server=…)`: `self.server = server if server else None`, `server_key = server.lower()`
    let s := if server = "-" then some s0 else
      match strOfHex (String.ofList (server.toList.drop 1)) with
      | some sv => some { s0 with info := { s0.info with server := some sv, serverKey := some (asciiLower sv) } }
      | none => none
    match s with
    | some s => " | ".intercalate (runPrint s bs)
    | none => "bad-op"
  | none => "bad-op"

def dispatch (cmd : String) (rest : List String) : Option String :=
  match cmd with
  | "c18" => some (c18 rest)
  | _ => none

end Zc.Driver.C18
