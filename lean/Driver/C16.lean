import Zc.Model.Listener
namespace Zc.Driver.C16
open Zc Zc.Listener

def b01 (b : Bool) : String := if b then "1" else "0"

/-- one operation of a listener history -/
inductive Op where
  | recv (data : Bytes) (addr : String) (port : Nat) (now : Int) (draw : Nat) (valid : Bool) (qclasses : List Nat) (entries : Bool)
  | tcfire (addr : String)

def Op.parse : Tok Op := do
  let k ← Tok.next
  if k = "r" then
    let data ← Tok.bytes; let addr ← Tok.str; let port ← Tok.nat; let now ← Tok.int; let draw ← Tok.nat
    let valid ← Tok.bool; let qcs ← Tok.natList; let entries ← Tok.bool
    pure (.recv data addr port now draw valid qcs entries)
  else if k = "t" then
    let addr ← Tok.str
    pure (.tcfire addr)
  else failure

def headerFlags (d : Bytes) : Nat :=
  match d with
  | _ :: _ :: a :: b :: _ => a.toNat * 256 + b.toNat
  | _ => 0

/-- the logging handler: downstream state = `registry.has_entries`; `valid` comes from the real parser (table);
`has_qu_question` = some question class read off the wire has the top bit (generated leaf `Gen.Dns.unique_of`);
`is_query`/`truncated` are recomputed from the header with the generated leaves -/
def handler (table : List (Bytes × Bool × Bool)) : Handler Bool String Bool where
  parse d :=
    let (v, q) := ((table.find? (fun e => e.1 == d)).map (·.2)).getD (false, false)
    { valid := v, isQuery := Gen.Listener.is_query (headerFlags d), truncated := Gen.Listener.truncated (headerFlags d), hasQU := q }
  onResponse s _ := (s, ["R"])
  hasEntries s := s
  onQuery s ps _ _ := (s, [s!"Q{ps.length}"])
  other _ b := (b, [])

def insertBy {α} (k : String) (v : α) : List (String × α) → List (String × α)
  | [] => [(k, v)]
  | (k', v') :: r => if k < k' then (k, v) :: (k', v') :: r else (k', v') :: insertBy k v r

def sortByKey {α} (l : List (String × α)) : List (String × α) := l.foldl (fun acc p => insertBy p.1 p.2 acc) []

def summary (s : State Bool) : String :=
  let ts := sortByKey s.timers
  let ds := sortByKey (s.deferred.filter (fun p => !p.2.isEmpty))
  let t := if ts.isEmpty then "-" else ",".intercalate (ts.map (fun p => s!"{p.1}@{p.2.due}"))
  let d := if ds.isEmpty then "-" else ",".intercalate (ds.map (fun p => s!"{p.1}#{p.2.length}"))
  s!"{t}|{d}"

def runOps (H : Handler Bool String Bool) : State Bool → List Op → List String
  | _, [] => []
  | s, .recv data addr port now draw _ _ entries :: rest =>
    let s := { s with down := entries }
    let (s', _, tag) := recv H s data addr port now draw
    s!"{tag.toString}|{summary s'}" :: runOps H s' rest
  | s, .tcfire addr :: rest =>
    match tcFire H s addr with
    | .ok (s', _, tag) => s!"{tag.toString}|{summary s'}" :: runOps H s' rest
    | .error e => s!"error:{e.name}|{summary s}" :: runOps H s rest

def c16run (toks : List String) : String :=
  match (do let ops ← Tok.list Op.parse; Tok.done; pure ops : Tok (List Op)).run toks with
  | some (ops, _) =>
    let table := ops.filterMap (fun o => match o with
      | .recv d _ _ _ _ v qcs _ => some (d, v, qcs.any Gen.Dns.unique_of)
      | _ => none)
    ";".intercalate (runOps (handler table) (State.init false) ops)
  | none => "bad-op"

def ansParse : Tok Ans := do
  let id ← Tok.nat
  let k ← Tok.next
  if k = "-" then pure ⟨id, none⟩
  else if k = "+" then
    let c ← Tok.int; let ttl ← Tok.nat
    pure ⟨id, some (c, ttl)⟩
  else failure

def stratParse : Tok Strat := do
  let u ← Tok.bool
  let al ← Tok.list ansParse
  pure ⟨u, al⟩

def sortNat (l : List Nat) : List Nat := l.foldl (fun acc x =>
  let rec ins : List Nat → List Nat
    | [] => [x]
    | y :: r => if x < y then x :: y :: r else y :: ins r
  ins acc) []

def idsStr (l : List Nat) : String := if l.isEmpty then "-" else ",".intercalate ((sortNat l).map toString)

/-- `c16route <max num_authorities> <port> <now> <nq> <qtype> <n strats> {<unique> <n> {<id> (- | + created ttl)}}` -/
def c16route (toks : List String) : String :=
  match (do
    let nauth ← Tok.nat; let port ← Tok.nat; let now ← Tok.int; let nq ← Tok.nat; let qt ← Tok.nat
    let strats ← Tok.list stratParse; Tok.done
    pure ({ isProbe := Gen.Listener.is_probe nauth, port := port, now := now, nQuestions := nq, firstQType := qt, strats := strats } : QueryIn)
    : Tok QueryIn).run toks with
  | some (q, _) =>
    let r := route q
    s!"{idsStr r.ucast}|{idsStr r.mcastNow}|{idsStr r.mcastAgg}|{idsStr r.mcastAggLast}"
  | none => "bad-op"

def evParse : Tok Ev := do
  let t ← Tok.int; let a ← Tok.bool; let d ← Tok.next
  pure ⟨t, a, d⟩

/-- `c16eq <n> {t allowed digest} <m> {…}` → the property predicate on two send logs -/
def c16eq (toks : List String) : String :=
  match (do let r ← Tok.list evParse; let d ← Tok.list evParse; Tok.done; pure (r, d) : Tok (List Ev × List Ev)).run toks with
  | some ((r, d), _) => b01 (equivModUnicast r d)
  | none => "bad-op"

def dispatch (cmd : String) (rest : List String) : Option String :=
  match cmd with
  | "c16run" => some (c16run rest)
  | "c16route" => some (c16route rest)
  | "c16eq" => some (c16eq rest)
  | _ => none

end Zc.Driver.C16
