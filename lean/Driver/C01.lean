import Zc.Model.Wire.Encode
import Zc.Model.Wire.Strict
import Zc.Model.Wire.Send
import Zc.Model.NameText
namespace Zc.Driver.C01
open Zc Zc.Wire Zc.Wire.Encode

/-- the answers as `add_answer_at_time` would have stored them -/
def accept (m : Msg) : Msg := { m with answers := m.answers.foldl (fun acc (r, now) => addAnswerAtTime acc r now) [] }

/-- `enc <msg>` → `ok <hex> <hex> ...` | `err <PyExc>`.  A name token is a label list (`61.62`) or the **text** of the
name (`=<hex of its UTF-8>`), which the model strips, splits and encodes itself (`NameText.labelsOfText`). -/
def enc (toks : List String) : String :=
  match (do let m ← Msg.parseN NameText.Tok.nameT; Tok.done; pure (accept m) : Tok Msg).run toks with
  | some (m, _) =>
    match packets m with
    | .ok pks => "ok " ++ " ".intercalate (pks.map hexOfBytes)
    | .error e => "err " ++ e.name
  | none => "bad-op"

/-- `onwire <msg>` → the specification's view of the message: `<WMsg line>` with id/flags as given -/
def onwire (toks : List String) : String :=
  match (do let m ← Msg.parseN NameText.Tok.nameT; Tok.done; pure (accept m) : Tok Msg).run toks with
  | some (m, _) =>
    let w : WMsg := ⟨(if m.multicast then 0 else m.id), m.flags, m.questions.map (EQuestion.onWire m.multicast),
      m.answers.map (fun (r, now) => r.onWire m.multicast now), m.authorities.map (fun r => r.onWire m.multicast 0),
      m.additionals.map (fun r => r.onWire m.multicast 0)⟩
    w.toLine
  | none => "bad-op"

/-- `sendlens <len> <len> ...` (or `-` for none) → how many of the datagrams leave `Zeroconf.async_send` -/
def sendlens (toks : List String) : String :=
  match toks with
  | ["-"] => "0"
  | _ => match toks.mapM String.toNat? with
    | some ls => toString (Zc.Wire.Send.sentCount ls)
    | none => "bad-op"

def dispatch (cmd : String) (rest : List String) : Option String :=
  match cmd with
  | "enc" => some (enc rest)
  | "sendlens" => some (sendlens rest)
  | "onwire" => some (onwire rest)
  | _ => none

end Zc.Driver.C01
