import Driver.C20
/-! `zcdriver`: one operation per input line, one observation per output line. -/
open Zc Zc.Driver

def dispatch (line : String) : String :=
  match tokens line with
  | "c20r" :: rest => c20r rest
  | "c20q" :: rest => c20q rest
  | "ping" :: _ => "pong"
  | _ => "bad-op"

partial def loop (hin hout : IO.FS.Stream) : IO Unit := do
  let line ← hin.getLine
  if line.isEmpty then return ()
  hout.putStrLn (dispatch line)
  loop hin hout

def main : IO Unit := do
  let hin ← IO.getStdin
  let hout ← IO.getStdout
  loop hin hout
  hout.flush
