import Zc.Model.Basic
import Zc.Model.Dns
