open List in
#check @List.dropLast_append_getLast?
#check @List.dropLast_concat_getLast
#check @List.dropLast_append_getLast
#check @List.getLast?_eq_some_iff
#check @List.getLast?_eq_none_iff
#check @not_congr
