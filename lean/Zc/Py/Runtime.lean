import Zc.Model.Basic
/-! # Python containers for the statement-level translation (`tools/gen_fn.py`)

`dict`, `set` and the raising `list` methods as insertion-ordered lists, each Python operation with the exception it
raises.  The key equality is passed explicitly (`strEq` for `str`, `Rec.beq lower` / `Question.beq lower` for DNS
objects): CPython compares the *stored* key with the key looked up (`stored.__eq__(key)`), hence `eq stored key`.

A Python dict never holds two equal keys; that is the invariant `PyDict.WF` (preserved by every operation, proved
below), under which "remove the first entry for `k`" is "remove every entry for `k`".  No Mathlib. -/
namespace Zc.Py

/-- `==` on `str` -/
@[reducible] def strEq : String → String → Bool := fun a b => decide (a = b)

/-- what CPython needs of `__eq__`: an equivalence relation -/
structure KeyEq {κ : Type} (eq : κ → κ → Bool) : Prop where
  refl : ∀ a, eq a a = true
  symm : ∀ a b, eq a b = true → eq b a = true
  trans : ∀ a b c, eq a b = true → eq b c = true → eq a c = true

theorem strEq_keyEq : KeyEq strEq :=
  ⟨fun a => by simp, fun a b h => by simpa [eq_comm] using h, fun a b c h1 h2 => by simp_all⟩

theorem KeyEq.comm {κ : Type} {eq : κ → κ → Bool} (h : KeyEq eq) (a b : κ) : eq a b = eq b a := by
  cases hab : eq a b <;> cases hba : eq b a <;> simp_all
  · exact absurd (h.symm _ _ hba) (by simp [hab])
  · exact absurd (h.symm _ _ hab) (by simp [hba])

/-- equal keys find the same entries -/
theorem KeyEq.congr_right {κ : Type} {eq : κ → κ → Bool} (h : KeyEq eq) {a b : κ} (hab : eq a b = true) (c : κ) :
    eq c a = eq c b := by
  cases hca : eq c a <;> cases hcb : eq c b <;> simp_all
  · exact absurd (h.trans _ _ _ hcb (h.symm _ _ hab)) (by simp [hca])
  · exact absurd (h.trans _ _ _ hca hab) (by simp [hcb])

/-- `assert cond` -/
def pyAssert (cond : Bool) : Except PyExc Unit := if cond then .ok () else .error .assertion

/-! ## `dict` -/

/-- an insertion-ordered `dict` -/
abbrev PyDict (κ ν : Type) := List (κ × ν)

namespace PyDict
variable {κ ν : Type} (eq : κ → κ → Bool)

/-- `{}` -/
def empty : PyDict κ ν := []

/-- `d.get(k)` -/
def get? : PyDict κ ν → κ → Option ν
  | [], _ => none
  | (k', v) :: r, k => if eq k' k then some v else get? r k

/-- `k in d` -/
def contains (d : PyDict κ ν) (k : κ) : Bool := (get? eq d k).isSome

/-- `d[k]` -/
def getItem (d : PyDict κ ν) (k : κ) : Except PyExc ν :=
  match get? eq d k with
  | some v => .ok v
  | none => .error .keyError

/-- `d.get(k, dflt)` -/
def getD (d : PyDict κ ν) (k : κ) (dflt : ν) : ν := (get? eq d k).getD dflt

/-- `d[k] = v`: an existing entry keeps its position **and its key object**, a new key goes to the end -/
def set : PyDict κ ν → κ → ν → PyDict κ ν
  | [], k, v => [(k, v)]
  | (k', v') :: r, k, v => if eq k' k then (k', v) :: r else (k', v') :: set r k v

/-- the dict without its (first) entry for `k` -/
def erase : PyDict κ ν → κ → PyDict κ ν
  | [], _ => []
  | (k', v') :: r, k => if eq k' k then r else (k', v') :: erase r k

/-- `del d[k]` -/
def delItem (d : PyDict κ ν) (k : κ) : Except PyExc (PyDict κ ν) :=
  if contains eq d k then .ok (erase eq d k) else .error .keyError

/-- `d.pop(k, None)`: the value (if any) and the dict afterwards -/
def popD (d : PyDict κ ν) (k : κ) : Option ν × PyDict κ ν := (get? eq d k, erase eq d k)

/-- `d.pop(k)` -/
def pop (d : PyDict κ ν) (k : κ) : Except PyExc (ν × PyDict κ ν) :=
  match get? eq d k with
  | some v => .ok (v, erase eq d k)
  | none => .error .keyError

/-- `d.setdefault(k, v)`: the value now stored under `k` and the dict afterwards -/
def setdefault (d : PyDict κ ν) (k : κ) (v : ν) : ν × PyDict κ ν :=
  match get? eq d k with
  | some v' => (v', d)
  | none => (v, d ++ [(k, v)])

/-- `d.update(o)`: `d[k] = v` for every item of `o`, in order -/
def update (d o : PyDict κ ν) : PyDict κ ν := o.foldl (fun acc e => set eq acc e.1 e.2) d

/-- `list(d)` / iteration over `d` -/
def keys (d : PyDict κ ν) : List κ := d.map Prod.fst
/-- `d.values()` -/
def values (d : PyDict κ ν) : List ν := d.map Prod.snd
/-- `d.items()` -/
def items (d : PyDict κ ν) : List (κ × ν) := d
/-- `not d` -/
def isEmpty (d : PyDict κ ν) : Bool := List.isEmpty d

/-- no two entries with equal keys -/
def WF (d : PyDict κ ν) : Prop := List.Pairwise (fun a b => eq a.1 b.1 = false) d

end PyDict

/-! ## `set` -/

/-- an insertion-ordered `set` -/
abbrev PySet (α : Type) := List α

namespace PySet
variable {α : Type} (eq : α → α → Bool)

def empty : PySet α := []
/-- `x in s` -/
def contains (s : PySet α) (x : α) : Bool := s.any (fun y => eq y x)
/-- `s.add(x)` -/
def add (s : PySet α) (x : α) : PySet α := if contains eq s x then s else s ++ [x]
/-- `set(l)` -/
def ofList (l : List α) : PySet α := l.foldl (add eq) []
/-- `a - b` -/
def diff (a b : PySet α) : PySet α := a.filter (fun x => !(contains eq b x))
/-- `s.discard(x)` -/
def discard (s : PySet α) (x : α) : PySet α := s.filter (fun y => !(eq y x))
/-- `s.remove(x)` -/
def remove (s : PySet α) (x : α) : Except PyExc (PySet α) :=
  if contains eq s x then .ok (discard eq s x) else .error .keyError
/-- `not s` -/
def isEmpty (s : PySet α) : Bool := List.isEmpty s
/-- iteration -/
def toList (s : PySet α) : List α := s
end PySet

/-! ## `list` -/
namespace PyList
variable {α : Type} (eq : α → α → Bool)

/-- `x in l` -/
def contains (l : List α) (x : α) : Bool := l.any (fun y => eq y x)

/-- the list without the first element equal to `x` -/
def eraseFirst : List α → α → List α
  | [], _ => []
  | y :: r, x => if eq y x then r else y :: eraseFirst r x

/-- `l.remove(x)` -/
def remove (l : List α) (x : α) : Except PyExc (List α) :=
  if contains eq l x then .ok (eraseFirst eq l x) else .error .valueError

/-- `l[0]` -/
def first : List α → Except PyExc α
  | [] => .error .indexError
  | x :: _ => .ok x

/-- `l[-1]` -/
def last (l : List α) : Except PyExc α :=
  match l.getLast? with
  | some x => .ok x
  | none => .error .indexError

/-- `l[0] = v` on a non-empty list (the object at index 0 after it was changed in place) -/
def setFirst : List α → α → List α
  | [], _ => []
  | _ :: r, v => v :: r

/-- `l[-1] = v` on a non-empty list -/
def setLast (l : List α) (v : α) : List α :=
  match l with
  | [] => []
  | _ => l.dropLast ++ [v]

/-- `deque.popleft()`: the element and the rest -/
def popleft : List α → Except PyExc (α × List α)
  | [] => .error .indexError
  | x :: r => .ok (x, r)

end PyList

/-! ## objects with identity

Objects of a class whose identity matters (the same object is reachable from several containers and is changed through one of
them) live in a store; the translated program handles their ids.  `alloc` is the constructor call, `get` an attribute read
(a dangling id cannot be written in Python: `PyExc.other`), `modify` an attribute write. -/

structure PyStore (α : Type) where
  next : Nat := 0
  objs : List (Nat × α) := []

namespace PyStore
variable {α : Type}

def empty : PyStore α := {}

/-- a new object: its id and the store afterwards -/
def alloc (st : PyStore α) (o : α) : Nat × PyStore α := (st.next, { next := st.next + 1, objs := st.objs ++ [(st.next, o)] })

def get? (st : PyStore α) (i : Nat) : Option α := (st.objs.find? (fun e => e.1 == i)).map (·.2)

/-- attribute read through an id -/
def get (st : PyStore α) (i : Nat) : Except PyExc α :=
  match get? st i with
  | some o => .ok o
  | none => .error .other

/-- the object behind an id inside a comparison callback (`heapq` calling `__lt__`) -/
def getD (st : PyStore α) (i : Nat) (d : α) : α := (get? st i).getD d

/-- attribute write through an id -/
def modify (st : PyStore α) (i : Nat) (f : α → α) : PyStore α :=
  { st with objs := st.objs.map (fun e => if e.1 == i then (e.1, f e.2) else e) }

/-- every stored id is below the next one (`alloc` never reuses an id) -/
def Fresh (st : PyStore α) : Prop := ∀ e ∈ st.objs, e.1 < st.next

theorem fresh_empty : Fresh (empty : PyStore α) := fun _ h => by cases h

theorem fresh_alloc {st : PyStore α} (h : Fresh st) (o : α) : Fresh (alloc st o).2 := by
  intro e he
  simp only [alloc, List.mem_append, List.mem_singleton] at he
  rcases he with he | he
  · exact Nat.lt_succ_of_lt (h e he)
  · rw [he]; exact Nat.lt_succ_self _

theorem get?_alloc_new {st : PyStore α} (h : Fresh st) (o : α) : get? (alloc st o).2 st.next = some o := by
  simp only [get?, alloc]
  rw [List.find?_append]
  have : st.objs.find? (fun e => e.1 == st.next) = none := by
    rw [List.find?_eq_none]
    intro e he
    have := h e he
    simp only [beq_iff_eq]
    omega
  simp [this]

theorem get?_alloc_old {st : PyStore α} (o : α) {j : Nat} (hj : j < st.next) : get? (alloc st o).2 j = get? st j := by
  simp only [get?, alloc]
  rw [List.find?_append]
  cases hf : st.objs.find? (fun e => e.1 == j) with
  | some e => simp
  | none =>
    have : ¬ st.next = j := by omega
    simp [this]

theorem getD_alloc_old {st : PyStore α} (o d : α) {j : Nat} (hj : j < st.next) : getD (alloc st o).2 j d = getD st j d := by
  simp only [getD, get?_alloc_old o hj]

/-- a stored id is below the next one -/
theorem lt_next_of_get? {st : PyStore α} (h : Fresh st) {i : Nat} {o : α} (hg : get? st i = some o) : i < st.next := by
  simp only [get?, Option.map_eq_some_iff] at hg
  obtain ⟨e, he, _⟩ := hg
  have hm := List.mem_of_find?_eq_some he
  have hp := List.find?_some he
  have := h e hm
  simp only [beq_iff_eq] at hp
  omega

/-- an attribute write changes the object behind that id and no other -/
theorem get?_modify (st : PyStore α) (i j : Nat) (f : α → α) :
    get? (modify st i f) j = if j = i then (get? st j).map f else get? st j := by
  obtain ⟨n, objs⟩ := st
  simp only [get?, modify]
  induction objs with
  | nil => simp
  | cons e r ih =>
    simp only [List.map_cons, List.find?_cons]
    by_cases hej : e.1 = j
    · by_cases hei : e.1 = i
      · have hji : j = i := by omega
        simp [hej, hji]
      · have hji : ¬ j = i := by omega
        simp [hej, hji]
    · have h1 : (e.1 == j) = false := by simpa using hej
      have h2 : ((if (e.1 == i) = true then (e.1, f e.2) else e).1 == j) = false := by
        split <;> simpa using hej
      rw [h1, h2]
      exact ih

theorem fresh_modify {st : PyStore α} (h : Fresh st) (i : Nat) (f : α → α) : Fresh (modify st i f) := by
  intro e he
  simp only [modify, List.mem_map] at he
  obtain ⟨e0, he0, rfl⟩ := he
  have := h e0 he0
  split <;> exact this

end PyStore


/-! ## `heapq` on the ascending-list abstraction (DESIGN §7 C10): a heap is a list in ascending order, `heappush` inserts behind
the entries that are not greater, `heappop` takes the head.  Which of several entries with equal keys CPython's array layout
surfaces first is not modelled (the harness of C10 tolerates it; the self-test avoids ties). -/
namespace PyHeap
variable {α : Type}

/-- `heappush(h, x)`; `lt a b` is `a.__lt__(b)` -/
def push (lt : α → α → Bool) : List α → α → List α
  | [], x => [x]
  | h :: t, x => if lt x h then x :: h :: t else h :: push lt t x

/-- `heappop(h)` -/
def pop : List α → Except PyExc (α × List α)
  | [] => .error .indexError
  | x :: r => .ok (x, r)

end PyHeap

namespace PyHeap
variable {α β : Type}

/-- `heappush` through a view of the elements (ids ↦ objects) that agrees on the order -/
theorem map_push (lt : α → α → Bool) (lt' : β → β → Bool) (f : α → β) (l : List α) (x : α)
    (h : ∀ y ∈ l, lt x y = lt' (f x) (f y)) : (push lt l x).map f = push lt' (l.map f) (f x) := by
  induction l with
  | nil => rfl
  | cons y t ih =>
    simp only [push, List.map_cons]
    rw [h y List.mem_cons_self]
    cases lt' (f x) (f y)
    · simp only [Bool.false_eq_true, if_false, List.map_cons]
      rw [ih (fun z hz => h z (List.mem_cons_of_mem _ hz))]
    · rfl

end PyHeap

/-- attribute access on an `Optional[...]` value: `None.attr` is an `AttributeError` -/
def pyUnwrap {α : Type} : Option α → Except PyExc α
  | some x => .ok x
  | none => .error .other

/-- a `while` loop is translated as a `for` over a spec-given bound with `break`; still wanting to iterate when the bound is
used up is not a behaviour of the source but a wrong bound: the generated function raises (and no equation with a model proves) -/
def pyFuel (stillTrue : Bool) : Except PyExc Unit := if stillTrue then .error .other else .ok ()

@[simp] theorem pyFuel_false : pyFuel false = .ok () := rfl

/-- `x or {}` / `x or []` for `x : Optional[container]`: `None` and the empty container both give the empty container -/
def pyOrEmpty {α : Type} (x : Option (List α)) : List α :=
  match x with
  | some l => if l.isEmpty then [] else l
  | none => []

@[simp] theorem pyOrEmpty_eq {α : Type} (x : Option (List α)) : pyOrEmpty x = x.getD [] := by
  cases x with
  | none => rfl
  | some l => cases l <;> rfl

@[simp] theorem pyAssert_true : pyAssert true = .ok () := rfl
@[simp] theorem pyAssert_false : pyAssert false = .error .assertion := rfl

/-! ## lemmas: `dict` -/
namespace PyDict
variable {κ ν : Type} {eq : κ → κ → Bool}

@[simp] theorem get?_nil (k : κ) : get? eq ([] : PyDict κ ν) k = none := rfl
theorem get?_cons (k' : κ) (v : ν) (r : PyDict κ ν) (k : κ) :
    get? eq ((k', v) :: r) k = if eq k' k then some v else get? eq r k := rfl
@[simp] theorem set_nil (k : κ) (v : ν) : set eq ([] : PyDict κ ν) k v = [(k, v)] := rfl
theorem set_cons (k' : κ) (v' : ν) (r : PyDict κ ν) (k : κ) (v : ν) :
    set eq ((k', v') :: r) k v = if eq k' k then (k', v) :: r else (k', v') :: set eq r k v := rfl
@[simp] theorem erase_nil (k : κ) : erase eq ([] : PyDict κ ν) k = [] := rfl
theorem erase_cons (k' : κ) (v' : ν) (r : PyDict κ ν) (k : κ) :
    erase eq ((k', v') :: r) k = if eq k' k then r else (k', v') :: erase eq r k := rfl

/-- `d.get(k)` is the value of the first entry whose key equals `k` -/
theorem get?_eq_find? (d : PyDict κ ν) (k : κ) : get? eq d k = (d.find? (fun p => eq p.1 k)).map Prod.snd := by
  induction d with
  | nil => rfl
  | cons x r ih =>
    obtain ⟨k', v⟩ := x
    rw [get?_cons, List.find?_cons]
    cases h : eq k' k <;> simp [ih]

theorem contains_eq_any (d : PyDict κ ν) (k : κ) : contains eq d k = d.any (fun p => eq p.1 k) := by
  induction d with
  | nil => rfl
  | cons x r ih =>
    obtain ⟨k', v⟩ := x
    unfold contains at ih ⊢
    rw [get?_cons, List.any_cons]
    cases h : eq k' k <;> simp [ih]

theorem get?_eq_none_iff (d : PyDict κ ν) (k : κ) : get? eq d k = none ↔ ∀ p ∈ d, eq p.1 k = false := by
  rw [get?_eq_find?]
  simp [List.find?_eq_none]

theorem contains_false_iff (d : PyDict κ ν) (k : κ) : contains eq d k = false ↔ ∀ p ∈ d, eq p.1 k = false := by
  unfold contains
  rw [← get?_eq_none_iff]
  cases get? eq d k <;> simp

theorem getItem_eq_ok {d : PyDict κ ν} {k : κ} {v : ν} (h : get? eq d k = some v) : getItem eq d k = .ok v := by
  simp [getItem, h]

theorem getItem_eq_error {d : PyDict κ ν} {k : κ} (h : get? eq d k = none) : getItem eq d k = .error .keyError := by
  simp [getItem, h]

theorem WF_nil : WF eq ([] : PyDict κ ν) := List.Pairwise.nil

theorem WF_cons {x : κ × ν} {r : PyDict κ ν} : WF eq (x :: r) ↔ (∀ p ∈ r, eq x.1 p.1 = false) ∧ WF eq r :=
  List.pairwise_cons

theorem WF.sublist {d d' : PyDict κ ν} (h : WF eq d) (hs : List.Sublist d' d) : WF eq d' := List.Pairwise.sublist hs h

theorem WF.tail {x : κ × ν} {r : PyDict κ ν} (h : WF eq (x :: r)) : WF eq r := (WF_cons.1 h).2

/-- equal keys find the same entries (left argument) -/
theorem eq_congr_left (hk : KeyEq eq) {a b : κ} (hab : eq a b = true) (c : κ) : eq a c = eq b c := by
  cases h1 : eq a c <;> cases h2 : eq b c <;> simp
  · have := hk.trans _ _ _ hab h2; simp [h1] at this
  · have := hk.trans _ _ _ (hk.symm _ _ hab) h1; simp [h2] at this

/-- lookup after `d[k] = v` -/
theorem get?_set (hk : KeyEq eq) (d : PyDict κ ν) (k : κ) (v : ν) (k' : κ) :
    get? eq (set eq d k v) k' = if eq k k' then some v else get? eq d k' := by
  induction d with
  | nil => simp [get?_cons]
  | cons x r ih =>
    obtain ⟨k0, v0⟩ := x
    rw [set_cons]
    cases h0 : eq k0 k
    · simp only [Bool.false_eq_true, if_false, get?_cons, ih]
      cases h1 : eq k0 k' <;> cases h2 : eq k k' <;> simp
      -- k0 ~ k' and k ~ k' contradict k0 ≁ k
      have := hk.trans _ _ _ h1 (hk.symm _ _ h2)
      simp [h0] at this
    · simp only [if_true, get?_cons]
      rw [eq_congr_left hk h0 k']
      cases eq k k' <;> simp

/-- membership in `set`: old entries (possibly with a new value) or the new key -/
theorem keys_set_subset (d : PyDict κ ν) (k : κ) (v : ν) : ∀ p ∈ set eq d k v, (∃ q ∈ d, q.1 = p.1) ∨ p = (k, v) := by
  induction d with
  | nil => intro p hp; simp at hp; exact Or.inr hp
  | cons x r ih =>
    obtain ⟨k0, v0⟩ := x
    intro p hp
    rw [set_cons] at hp
    split at hp
    · rcases List.mem_cons.1 hp with h | h
      · exact Or.inl ⟨(k0, v0), List.mem_cons_self, by rw [h]⟩
      · exact Or.inl ⟨p, List.mem_cons_of_mem _ h, rfl⟩
    · rcases List.mem_cons.1 hp with h | h
      · exact Or.inl ⟨(k0, v0), List.mem_cons_self, by rw [h]⟩
      · rcases ih p h with ⟨q, hq, hqe⟩ | h
        · exact Or.inl ⟨q, List.mem_cons_of_mem _ hq, hqe⟩
        · exact Or.inr h

theorem WF_set {d : PyDict κ ν} (h : WF eq d) (k : κ) (v : ν) : WF eq (set eq d k v) := by
  induction d with
  | nil => exact List.pairwise_singleton _ _
  | cons x r ih =>
    obtain ⟨k0, v0⟩ := x
    rw [set_cons]
    obtain ⟨h1, h2⟩ := WF_cons.1 h
    cases h0 : eq k0 k
    · simp only [Bool.false_eq_true, if_false]
      refine WF_cons.2 ⟨?_, ih h2⟩
      intro p hp
      rcases keys_set_subset r k v p hp with ⟨q, hq, hqe⟩ | hp
      · rw [← hqe]; exact h1 q hq
      · rw [hp]; exact h0
    · simp only [if_true]
      exact WF_cons.2 ⟨h1, h2⟩

theorem erase_sublist (d : PyDict κ ν) (k : κ) : List.Sublist (erase eq d k) d := by
  induction d with
  | nil => exact List.Sublist.slnil
  | cons x r ih =>
    obtain ⟨k0, v0⟩ := x
    rw [erase_cons]
    split
    · exact List.sublist_cons_self _ _
    · exact List.Sublist.cons_cons _ ih

theorem WF_erase {d : PyDict κ ν} (h : WF eq d) (k : κ) : WF eq (erase eq d k) := h.sublist (erase_sublist d k)

/-- under the dict invariant, removing the entry for `k` removes every entry whose key equals `k` -/
theorem erase_eq_filter (hk : KeyEq eq) {d : PyDict κ ν} (h : WF eq d) (k : κ) :
    erase eq d k = d.filter (fun p => !(eq p.1 k)) := by
  induction d with
  | nil => rfl
  | cons x r ih =>
    obtain ⟨k0, v0⟩ := x
    obtain ⟨h1, h2⟩ := WF_cons.1 h
    rw [erase_cons, List.filter_cons]
    cases h0 : eq k0 k
    · simp [ih h2]
    · simp only [if_true, Bool.not_true, Bool.false_eq_true, if_false]
      symm
      rw [List.filter_eq_self]
      intro p hp
      have := h1 p hp
      cases h3 : eq p.1 k
      · rfl
      · have := hk.trans _ _ _ h0 (hk.symm _ _ h3)
        simp_all

/-- lookup after `del d[k]` -/
theorem get?_erase (hk : KeyEq eq) {d : PyDict κ ν} (h : WF eq d) (k k' : κ) :
    get? eq (erase eq d k) k' = if eq k k' then none else get? eq d k' := by
  induction d with
  | nil => simp
  | cons x r ih =>
    obtain ⟨k0, v0⟩ := x
    obtain ⟨h1, h2⟩ := WF_cons.1 h
    have ih' := ih h2
    rw [erase_cons]
    cases h0 : eq k0 k
    · simp only [Bool.false_eq_true, if_false, get?_cons, ih']
      cases h3 : eq k0 k' <;> cases h4 : eq k k' <;> simp
      have := hk.trans _ _ _ h3 (hk.symm _ _ h4); simp [h0] at this
    · simp only [if_true, get?_cons]
      rw [eq_congr_left hk h0 k']
      cases h4 : eq k k'
      · simp
      · simp only [if_true]
        rw [get?_eq_none_iff]
        intro p hp
        have h5 := h1 p hp
        cases h6 : eq p.1 k'
        · rfl
        · have h7 : eq k0 k' = true := by rw [eq_congr_left hk h0 k']; exact h4
          have := hk.trans _ _ _ h7 (hk.symm _ _ h6)
          simp_all

/-- the entry `(k, v)` sits in `pre ++ (k, v) :: post` and no key of `pre` equals `k'`: deleting `k'` gives `pre ++ post` -/
theorem erase_mid (pre post : PyDict κ ν) (k : κ) (v : ν) (k' : κ) (hpre : ∀ p ∈ pre, eq p.1 k' = false) (hk : eq k k' = true) :
    erase eq (pre ++ (k, v) :: post) k' = pre ++ post := by
  induction pre with
  | nil => simp [erase_cons, hk]
  | cons x r ih =>
    obtain ⟨k0, v0⟩ := x
    have h0 : eq k0 k' = false := hpre (k0, v0) List.mem_cons_self
    simp only [List.cons_append, erase_cons, h0, Bool.false_eq_true, if_false]
    rw [ih (fun p hp => hpre p (List.mem_cons_of_mem _ hp))]

theorem contains_mid (pre post : PyDict κ ν) (k : κ) (v : ν) (k' : κ) (hk : eq k k' = true) :
    contains eq (pre ++ (k, v) :: post) k' = true := by
  rw [contains_eq_any]; simp [hk]

theorem get?_append_of_none {d : PyDict κ ν} {k : κ} (h : get? eq d k = none) (e : PyDict κ ν) :
    get? eq (d ++ e) k = get? eq e k := by
  induction d with
  | nil => rfl
  | cons x r ih =>
    obtain ⟨k0, v0⟩ := x
    rw [get?_cons] at h
    rw [List.cons_append, get?_cons]
    split at h
    · cases h
    · rename_i h0; simp only [h0]; exact ih h

theorem get?_append_of_some {d : PyDict κ ν} {k : κ} {v : ν} (h : get? eq d k = some v) (e : PyDict κ ν) :
    get? eq (d ++ e) k = some v := by
  induction d with
  | nil => cases h
  | cons x r ih =>
    obtain ⟨k0, v0⟩ := x
    rw [get?_cons] at h
    rw [List.cons_append, get?_cons]
    split at h
    · rename_i h0; simp only [h0, if_true]; exact h
    · rename_i h0; simp only [h0]; exact ih h

/-- `d[k] = v` for a key that is not in `d` appends -/
theorem set_of_not_contains {d : PyDict κ ν} {k : κ} (h : contains eq d k = false) (v : ν) : set eq d k v = d ++ [(k, v)] := by
  induction d with
  | nil => rfl
  | cons x r ih =>
    obtain ⟨k0, v0⟩ := x
    have h' := (contains_false_iff _ _).1 h
    have h0 : eq k0 k = false := h' (k0, v0) List.mem_cons_self
    rw [set_cons, h0]
    simp only [Bool.false_eq_true, if_false, List.cons_append]
    rw [ih ((contains_false_iff _ _).2 (fun p hp => h' p (List.mem_cons_of_mem _ hp)))]

theorem contains_set_self (hrefl : ∀ a, eq a a = true) (d : PyDict κ ν) (k : κ) (v : ν) : contains eq (set eq d k v) k = true := by
  induction d with
  | nil => simp [contains, get?_cons, hrefl]
  | cons x r ih =>
    obtain ⟨k0, v0⟩ := x
    rw [set_cons]
    cases h0 : eq k0 k
    · simp only [Bool.false_eq_true, if_false, contains, get?_cons, h0]; exact ih
    · simp [contains, get?_cons, h0]

/-- `d[k] = v; del d[k]` is `del d[k]` (or nothing when `k` was not there) -/
theorem erase_set_self (hrefl : ∀ a, eq a a = true) (d : PyDict κ ν) (k : κ) (v : ν) : erase eq (set eq d k v) k = erase eq d k := by
  induction d with
  | nil => simp [erase_cons, hrefl]
  | cons x r ih =>
    obtain ⟨k0, v0⟩ := x
    rw [set_cons]
    cases h0 : eq k0 k
    · simp only [Bool.false_eq_true, if_false, erase_cons, h0, ih]
    · simp [erase_cons, h0]

theorem values_erase_sublist (d : PyDict κ ν) (k : κ) : List.Sublist (values (erase eq d k)) (values d) :=
  List.Sublist.map _ (erase_sublist d k)

theorem isEmpty_values (d : PyDict κ ν) : (values d).isEmpty = isEmpty d := by
  cases d <;> rfl

theorem get?_of_mem (hk : KeyEq eq) {d : PyDict κ ν} (h : WF eq d) {p : κ × ν} (hp : p ∈ d) : get? eq d p.1 = some p.2 := by
  induction d with
  | nil => cases hp
  | cons x r ih =>
    obtain ⟨k0, v0⟩ := x
    obtain ⟨h1, h2⟩ := WF_cons.1 h
    rw [get?_cons]
    rcases List.mem_cons.1 hp with rfl | hp
    · simp [hk.refl]
    · have := h1 p hp
      simp only [this, Bool.false_eq_true, if_false]
      exact ih h2 hp

theorem mem_of_get? {d : PyDict κ ν} {k : κ} {v : ν} (h : get? eq d k = some v) : ∃ k', (k', v) ∈ d ∧ eq k' k = true := by
  induction d with
  | nil => cases h
  | cons x r ih =>
    obtain ⟨k0, v0⟩ := x
    rw [get?_cons] at h
    split at h
    · rename_i h0
      cases h
      exact ⟨k0, List.mem_cons_self, h0⟩
    · obtain ⟨k', hm, he⟩ := ih h
      exact ⟨k', List.mem_cons_of_mem _ hm, he⟩

theorem WF_setdefault {d : PyDict κ ν} (h : WF eq d) (k : κ) (v : ν) : WF eq (setdefault eq d k v).2 := by
  unfold setdefault
  cases hg : get? eq d k with
  | some v' => exact h
  | none =>
    have hc : contains eq d k = false := by simp [contains, hg]
    rw [← set_of_not_contains hc]
    exact WF_set h k v

theorem setdefault_fst (d : PyDict κ ν) (k : κ) (v : ν) : (setdefault eq d k v).1 = (get? eq d k).getD v := by
  unfold setdefault
  cases get? eq d k <;> rfl

/-- `d[k] = v` where `(k, v0)` was just appended -/
theorem set_append_self (hrefl : ∀ a, eq a a = true) (d : PyDict κ ν) (k : κ) (v0 v : ν) (hc : contains eq d k = false) :
    set eq (d ++ [(k, v0)]) k v = d ++ [(k, v)] := by
  induction d with
  | nil => simp [set_cons, hrefl]
  | cons x r ih =>
    obtain ⟨k0, v1⟩ := x
    have h' := (contains_false_iff _ _).1 hc
    have h0 : eq k0 k = false := h' (k0, v1) List.mem_cons_self
    rw [List.cons_append, set_cons, h0]
    simp only [Bool.false_eq_true, if_false, List.cons_append]
    rw [ih ((contains_false_iff _ _).2 (fun p hp => h' p (List.mem_cons_of_mem _ hp)))]

/-- `d.setdefault(k, v0); d[k] = v` is `d[k] = v` -/
theorem set_setdefault (hrefl : ∀ a, eq a a = true) (d : PyDict κ ν) (k : κ) (v0 v : ν) :
    set eq (setdefault eq d k v0).2 k v = set eq d k v := by
  unfold setdefault
  cases hg : get? eq d k with
  | some v' => rfl
  | none =>
    have hc : contains eq d k = false := by simp [contains, hg]
    simp only []
    rw [set_append_self hrefl d k v0 v hc, set_of_not_contains hc]

/-- `d[k] = a; d[k] = b` is `d[k] = b` -/
theorem set_set (hrefl : ∀ a, eq a a = true) (d : PyDict κ ν) (k : κ) (a b : ν) : set eq (set eq d k a) k b = set eq d k b := by
  induction d with
  | nil => simp [set_cons, hrefl]
  | cons x r ih =>
    obtain ⟨k0, v0⟩ := x
    rw [set_cons, set_cons]
    cases h0 : eq k0 k
    · simp only [Bool.false_eq_true, if_false, set_cons, h0, ih]
    · simp [set_cons, h0]

theorem contains_erase_self (hk : KeyEq eq) {d : PyDict κ ν} (h : WF eq d) (k : κ) : contains eq (erase eq d k) k = false := by
  unfold contains
  rw [get?_erase hk h, hk.refl]
  rfl

theorem keys_erase (hk : KeyEq eq) {d : PyDict κ ν} (h : WF eq d) (k : κ) :
    keys (erase eq d k) = (keys d).filter (fun a => !(eq a k)) := by
  rw [erase_eq_filter hk h]
  simp only [keys, List.filter_map]
  rfl

theorem isEmpty_keys (d : PyDict κ ν) : (keys d).isEmpty = isEmpty d := by
  cases d <;> rfl

theorem WF_append_singleton {d : PyDict κ ν} (h : WF eq d) {k : κ} (hc : contains eq d k = false) (v : ν) :
    WF eq (d ++ [(k, v)]) := by
  rw [← set_of_not_contains hc]; exact WF_set h k v

end PyDict

/-! ## lemmas: `set` -/
namespace PySet
variable {α : Type} {eq : α → α → Bool}

theorem contains_add (hk : KeyEq eq) (s : PySet α) (y x : α) : contains eq (add eq s y) x = (contains eq s x || eq y x) := by
  unfold add
  cases hc : contains eq s y
  · simp [contains, List.any_append]
  · simp only [if_true]
    cases hx : eq y x
    · simp
    · -- some z ∈ s equals y, and y equals x
      simp only [Bool.or_true]
      simp only [contains, List.any_eq_true] at hc ⊢
      obtain ⟨z, hz, hzy⟩ := hc
      exact ⟨z, hz, hk.trans _ _ _ hzy hx⟩

/-- `x in set(l)` iff `x` equals an element of `l` -/
theorem isEmpty_add (s : PySet α) (x : α) : isEmpty (add eq s x) = false := by
  unfold add isEmpty
  cases hc : contains eq s x with
  | true =>
    cases s with
    | nil => simp [contains] at hc
    | cons y r => rfl
  | false => cases s <;> rfl

theorem isEmpty_foldl_add (l : List α) (s : PySet α) : isEmpty (l.foldl (add eq) s) = (isEmpty s && l.isEmpty) := by
  induction l generalizing s with
  | nil => simp
  | cons x r ih => rw [List.foldl_cons, ih, isEmpty_add]; simp

theorem contains_ofList (hk : KeyEq eq) (l : List α) (x : α) : contains eq (ofList eq l) x = l.any (fun y => eq y x) := by
  unfold ofList
  have key : ∀ (s : PySet α), contains eq (l.foldl (add eq) s) x = (contains eq s x || l.any (fun y => eq y x)) := by
    induction l with
    | nil => intro s; simp
    | cons y r ih =>
      intro s
      rw [List.foldl_cons, ih, contains_add hk, List.any_cons, Bool.or_assoc]
  rw [key]
  simp [contains]

end PySet

/-! ## lemmas: `for` loops

The generated loops are `forIn` over a list with the mutable variables as state.  These lemmas turn a loop whose body
is shown (by `simp`/`split`, whatever its exact shape) to always `yield` into a fold, so that the equivalence proofs do
not depend on how `do`-notation lays the body out. -/
section Loops
variable {α β : Type}

/-- a loop in `Except PyExc` whose body never raises, breaks or returns: a fold -/
theorem forIn_ok_yield (l : List α) (init : β) (f : α → β → Except PyExc (ForInStep β)) (g : β → α → β)
    (hf : ∀ x b, f x b = .ok (.yield (g b x))) : forIn l init f = .ok (l.foldl g init) := by
  induction l generalizing init with
  | nil => rfl
  | cons x r ih =>
    rw [List.forIn_cons, hf]
    exact ih (g init x)

/-- a loop in `Except PyExc` whose body may raise but never breaks or returns: a monadic fold -/
theorem forIn_except_yield (l : List α) (init : β) (f : α → β → Except PyExc (ForInStep β)) (g : β → α → Except PyExc β)
    (hf : ∀ x b, f x b = (g b x).map ForInStep.yield) : forIn l init f = l.foldlM g init := by
  induction l generalizing init with
  | nil => rfl
  | cons x r ih =>
    rw [List.forIn_cons, hf, List.foldlM_cons]
    cases h : g init x with
    | error e => rfl
    | ok b => exact ih b

/-- the same in a pure (`Id.run do`) function -/
theorem forIn_id_yield (l : List α) (init : β) (f : α → β → Id (ForInStep β)) (g : β → α → β)
    (hf : ∀ x b, f x b = pure (.yield (g b x))) : forIn l init f = pure (l.foldl g init) := by
  induction l generalizing init with
  | nil => rfl
  | cons x r ih =>
    rw [List.forIn_cons, hf]
    exact ih (g init x)

/-- a search loop in a pure function: the body leaves (`return`) at the first element satisfying `p` and otherwise keeps the
state it started with -/
theorem forIn_id_first (l : List α) (s0 : β) (f : α → β → Id (ForInStep β)) (p : α → Bool) (leave : α → β)
    (hf : ∀ x, f x s0 = pure (if p x then ForInStep.done (leave x) else ForInStep.yield s0)) :
    forIn l s0 f = pure (match l.find? p with | some x => leave x | none => s0) := by
  induction l with
  | nil => rfl
  | cons x r ih =>
    rw [List.forIn_cons, hf, List.find?_cons]
    cases p x
    · exact ih
    · rfl

/-- the first element on which `test` answers `True`; a raising test ends the search with its exception -/
def firstM (test : α → Except PyExc Bool) : List α → Except PyExc (Option α)
  | [] => .ok none
  | x :: r =>
    match test x with
    | .error e => .error e
    | .ok true => .ok (some x)
    | .ok false => firstM test r

/-- the same in `Except PyExc`, where evaluating the test may raise -/
theorem forIn_except_first (l : List α) (s0 : β) (f : α → β → Except PyExc (ForInStep β)) (test : α → Except PyExc Bool) (leave : α → β)
    (hf : ∀ x, f x s0 = (test x).map (fun b => if b = true then ForInStep.done (leave x) else ForInStep.yield s0)) :
    forIn l s0 f = (firstM test l).map (fun o => match o with | some x => leave x | none => s0) := by
  induction l with
  | nil => rfl
  | cons x r ih =>
    rw [List.forIn_cons, hf, firstM]
    cases h : test x with
    | error e => rfl
    | ok b =>
      cases b
      · simp only [Except.map, bind, Except.bind, Bool.false_eq_true, if_false]
        exact ih
      · rfl

theorem firstM_of_ok (test : α → Except PyExc Bool) (p : α → Bool) (l : List α) (h : ∀ x ∈ l, test x = .ok (p x)) :
    firstM test l = .ok (l.find? p) := by
  induction l with
  | nil => rfl
  | cons x r ih =>
    rw [firstM, List.find?_cons, h x List.mem_cons_self]
    cases p x
    · exact ih (fun y hy => h y (List.mem_cons_of_mem _ hy))
    · rfl

theorem firstM_pure (p : α → Bool) (l : List α) : firstM (fun x => .ok (p x)) l = .ok (l.find? p) := by
  induction l with
  | nil => rfl
  | cons x r ih =>
    rw [firstM, List.find?_cons]
    cases p x
    · exact ih
    · rfl

/-- `while c: step`, at most `n` times -/
def iterWhile {σ : Type} (c : σ → Bool) (step : σ → σ) : Nat → σ → σ
  | 0, st => st
  | n + 1, st => if c st then iterWhile c step n (step st) else st

/-- a translated `while` (a `for` over a bound with `break`, its body ignoring the counter): at most as many rounds as the bound -/
theorem forIn_except_while {σ : Type} (l : List α) (st : σ) (f : α → σ → Except PyExc (ForInStep σ)) (c : σ → Bool) (step : σ → σ)
    (hf : ∀ x st, f x st = .ok (if c st then ForInStep.yield (step st) else ForInStep.done st)) :
    forIn l st f = .ok (iterWhile c step l.length st) := by
  induction l generalizing st with
  | nil => rfl
  | cons x r ih =>
    rw [List.forIn_cons, hf, List.length_cons, iterWhile]
    cases c st
    · rfl
    · exact ih (step st)

/-- `while c: step`, at most `n` times, with what leaving the loop does to the loop state (`fin`: the "left by break" flag) -/
def iterWhileF {σ : Type} (c : σ → Bool) (step fin : σ → σ) : Nat → σ → σ
  | 0, st => st
  | n + 1, st => if c st then iterWhileF c step fin n (step st) else fin st

theorem forIn_except_whileF {σ : Type} (l : List α) (st : σ) (f : α → σ → Except PyExc (ForInStep σ)) (c : σ → Bool) (step fin : σ → σ)
    (hf : ∀ x st, f x st = .ok (if c st then ForInStep.yield (step st) else ForInStep.done (fin st))) :
    forIn l st f = .ok (iterWhileF c step fin l.length st) := by
  induction l generalizing st with
  | nil => rfl
  | cons x r ih =>
    rw [List.forIn_cons, hf, List.length_cons, iterWhileF]
    cases c st
    · rfl
    · exact ih (step st)

/-- a translated `while` whose body may raise: `body` on the loop state alone, at most `n` rounds -/
def iterM {σ : Type} (body : σ → Except PyExc (ForInStep σ)) : Nat → σ → Except PyExc σ
  | 0, st => .ok st
  | n + 1, st =>
    match body st with
    | .error e => .error e
    | .ok (.done st') => .ok st'
    | .ok (.yield st') => iterM body n st'

theorem forIn_except_iterM {σ : Type} (l : List α) (st : σ) (f : α → σ → Except PyExc (ForInStep σ)) (body : σ → Except PyExc (ForInStep σ))
    (hf : ∀ x st, f x st = body st) : forIn l st f = iterM body l.length st := by
  induction l generalizing st with
  | nil => rfl
  | cons x r ih =>
    rw [List.forIn_cons, hf, List.length_cons, iterM]
    cases body st with
    | error e => rfl
    | ok r' =>
      cases r' with
      | done b => rfl
      | yield b => exact ih b

/-- a fold over the selected, mapped elements -/
theorem foldl_filterMap {γ : Type} (l : List α) (f : α → Option β) (g : γ → β → γ) (init : γ) :
    (l.filterMap f).foldl g init = l.foldl (fun acc x => match f x with | some y => g acc y | none => acc) init := by
  induction l generalizing init with
  | nil => rfl
  | cons x r ih =>
    rw [List.filterMap_cons, List.foldl_cons]
    cases f x with
    | none => exact ih init
    | some y => rw [List.foldl_cons]; exact ih (g init y)

/-- a loop that rebuilds a list from its (changed) elements -/
theorem foldl_append_map (l : List α) (f : α → β) (acc : List β) :
    l.foldl (fun acc x => acc ++ [f x]) acc = acc ++ l.map f := by
  induction l generalizing acc with
  | nil => simp
  | cons x r ih => rw [List.foldl_cons, ih]; simp

/-- appending the selected, mapped elements -/
theorem foldl_collect (l : List α) (p : α → Bool) (h : α → β) (acc : List β) :
    l.foldl (fun acc x => if p x then acc ++ [h x] else acc) acc = acc ++ (l.filter p).map h := by
  induction l generalizing acc with
  | nil => simp
  | cons x r ih =>
    rw [List.foldl_cons, ih, List.filter_cons]
    cases p x <;> simp

/-- `for k in removes: del d[k]` where `removes` lists, in order, the keys of the entries of `d` that satisfy `p`: under the dict
invariant no `del` raises and exactly the other entries are left, in order.  The dict may sit inside a larger state
(`wrap`/`unwrap`: the object whose field it is). -/
theorem foldlM_delItem_filter {κ ν σ : Type} {eq : κ → κ → Bool} (hrefl : ∀ a, eq a a = true)
    (wrap : PyDict κ ν → σ) (unwrap : σ → PyDict κ ν) (hw : ∀ d, unwrap (wrap d) = d)
    (p : κ × ν → Bool) (post pre : PyDict κ ν) (hwf : PyDict.WF eq (pre ++ post)) :
    ((post.filter p).map Prod.fst).foldlM (fun s k => (PyDict.delItem eq (unwrap s) k).map wrap) (wrap (pre ++ post))
      = .ok (wrap (pre ++ post.filter (fun e => !p e))) := by
  induction post generalizing pre with
  | nil => simp; rfl
  | cons x r ih =>
    obtain ⟨k, v⟩ := x
    by_cases h : p (k, v) = true
    · simp only [List.filter_cons, h, if_true, List.map_cons, List.foldlM_cons, Bool.not_true, Bool.false_eq_true, if_false]
      have hpre : ∀ a ∈ pre, eq a.1 k = false := fun a ha => (List.pairwise_append.1 hwf).2.2 a ha (k, v) List.mem_cons_self
      have hdel : PyDict.delItem eq (pre ++ (k, v) :: r) k = .ok (pre ++ r) := by
        unfold PyDict.delItem
        rw [PyDict.contains_mid pre r k v k (hrefl k), PyDict.erase_mid pre r k v k hpre (hrefl k)]
        rfl
      have hwf' : PyDict.WF eq (pre ++ r) := hwf.sublist (List.Sublist.append_left (List.sublist_cons_self _ _) _)
      rw [hw, hdel]
      exact ih pre hwf'
    · have h' : p (k, v) = false := by simpa using h
      simp only [List.filter_cons, h', Bool.false_eq_true, if_false, Bool.not_false, if_true]
      have hwf' : PyDict.WF eq ((pre ++ [(k, v)]) ++ r) := by simpa using hwf
      have := ih (pre ++ [(k, v)]) hwf'
      simpa using this

end Loops

/-! ## lemmas: `list` -/
namespace PyList

/-- with `==` on `str`, `l.remove(x)` is `List.erase` -/
theorem eraseFirst_strEq (l : List String) (x : String) : eraseFirst strEq l x = l.erase x := by
  induction l with
  | nil => rfl
  | cons y r ih =>
    simp only [eraseFirst, List.erase_cons, ih]
    by_cases h : y = x <;> simp [h]

theorem contains_strEq (l : List String) (x : String) : contains strEq l x = decide (x ∈ l) := by
  induction l with
  | nil => rfl
  | cons y r ih =>
    simp only [contains] at ih ⊢
    simp only [List.any_cons, ih, List.mem_cons]
    by_cases h : y = x
    · simp [h]
    · have h' : ¬ x = y := fun e => h e.symm
      simp [h, h']

end PyList

end Zc.Py
