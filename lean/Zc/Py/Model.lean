import Zc.Py.Runtime
import Zc.Model.Dns
/-! Attribute reads on the opaque model types that are raise sites in Python (`tools/fnspecs/_common.py`):
an attribute that exists only on a subclass of `DNSRecord` raises `AttributeError` on any other record
(`PyExc.other`).  No Mathlib. -/
namespace Zc

/-- `record.server_key` (an attribute of `DNSService` only) -/
def Rec.attrServerKey (lower : String → String) (r : Rec) : Except PyExc String :=
  match r.rdata with
  | .srv _ _ _ s => .ok (lower s)
  | _ => .error .other

/-- `record.alias_key` (an attribute of `DNSPointer` only) -/
def Rec.attrAliasKey (lower : String → String) (r : Rec) : Except PyExc String :=
  match r.rdata with
  | .ptr a => .ok (lower a)
  | _ => .error .other

/-- `record.alias` (an attribute of `DNSPointer` only) -/
def Rec.attrAlias (r : Rec) : Except PyExc String :=
  match r.rdata with
  | .ptr a => .ok a
  | _ => .error .other

end Zc
