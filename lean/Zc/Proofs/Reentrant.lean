import Zc.Model.Reentrant
import Zc.Proofs.Listeners
import Zc.Proofs.PostState
import Zc.Proofs.CacheRun
/-! Callbacks that re-enter the record manager (`Zc/Model/Reentrant.lean`): whatever the callbacks of a round do — add and
remove listeners, register listeners *with a question* (purge at their own clock reading, the purge's nested rounds, the replay),
to any nesting depth — the round never raises, calls exactly its snapshot, and changes the cache only by removing records whose
TTL has fully elapsed at one of the clock readings. -/
namespace Zc

section
variable (lower : String → String)

/-- the indexed cache holds the records of a duplicate-free flat store (what every history of datagrams, purges and
re-entrant callbacks produces: `Refines.runEvents`, `deliverR_sound`) -/
def Cache.Sound (c : Cache) : Prop := ∃ s, Refines lower c s ∧ Flat.WF lower s

/-- still alive at every one of the clock readings `ts` -/
def aliveAt (ts : List Ms) (e : Rec) : Bool := ts.all (fun t => !(e.isExpired t))

variable {lower}

theorem aliveAt_nil (e : Rec) : aliveAt [] e = true := rfl

theorem aliveAt_append (ts ts' : List Ms) (e : Rec) : aliveAt (ts ++ ts') e = (aliveAt ts e && aliveAt ts' e) := by
  unfold aliveAt; rw [List.all_append]

theorem Option.filter_filter' {α} (p q : α → Bool) (o : Option α) : (o.filter p).filter q = o.filter (fun a => p a && q a) := by
  cases o with
  | none => rfl
  | some a =>
    by_cases hp : p a = true <;> by_cases hq : q a = true <;> simp [Option.filter, hp, hq]

theorem filter_alive_append (ts ts' : List Ms) (o : Option Rec) :
    (o.filter (aliveAt ts)).filter (aliveAt ts') = o.filter (aliveAt (ts ++ ts')) := by
  rw [Option.filter_filter']
  congr 1; funext e; rw [aliveAt_append]

theorem filter_alive_nil (o : Option Rec) : o.filter (aliveAt []) = o := by
  cases o <;> rfl

theorem Cache.Sound.empty : Cache.Sound lower {} := ⟨[], Refines.empty lower, by simp [Flat.WF]⟩

/-- a purge-like filter, identity by identity (the store holds at most one record per identity) -/
theorem Flat.getUnique_filter_wf {s : List Rec} (hw : Flat.WF lower s) (p : Rec → Bool) (q : Rec) :
    Flat.getUnique lower (s.filter p) q = (Flat.getUnique lower s q).filter p := by
  induction s with
  | nil => rfl
  | cons x t ih =>
    have hwt : Flat.WF lower t := (List.pairwise_cons.1 hw).2
    have hx : ∀ e ∈ t, x.ident lower ≠ e.ident lower := (List.pairwise_cons.1 hw).1
    unfold Flat.getUnique at ih ⊢
    rw [List.filter_cons, List.find?_cons]
    cases hb : x.beq lower q
    · -- x is not of q's identity
      simp only []
      cases hp : p x
      · simp only [Bool.false_eq_true, if_false]; exact ih hwt
      · simp only [if_true]; rw [List.find?_cons, hb]; exact ih hwt
    · simp only [Option.filter]
      have hnone : ∀ l : List Rec, (∀ e ∈ l, e ∈ t) → List.find? (fun e => e.beq lower q) l = none := by
        intro l hl
        rw [List.find?_eq_none]
        intro e he hbe
        have h1 := (beq_iff_ident lower x q).1 hb
        have h2 := (beq_iff_ident lower e q).1 (by simpa using hbe)
        exact hx e (hl e he) (h1.trans h2.symm)
      cases hp : p x
      · simp only [Bool.false_eq_true, if_false]
        exact hnone _ (fun e he => (List.mem_filter.1 he).1)
      · simp only [if_true]; rw [List.find?_cons, hb]

/-- **the purge, identity by identity**: `async_expire(t)` on a sound cache never raises, leaves a sound cache, and what the
cache holds for an identity afterwards is what it held before unless that record's TTL has fully elapsed at `t` -/
theorem Cache.Sound.expire {c : Cache} (h : Cache.Sound lower c) (t : Ms) :
    ∃ c' l, Zc.expire (Cache.ops lower) c t = .ok (c', l) ∧ Cache.Sound lower c'
      ∧ (∀ q, c'.getUnique lower q = (c.getUnique lower q).filter (fun e => !(e.isExpired t)))
      ∧ (∀ r ∈ l, r.isExpired t = true ∧ c.getUnique lower r = some r) := by
  obtain ⟨s, hr, hw⟩ := h
  obtain ⟨c', l, he, hperm, hr'⟩ := hr.expire hw t
  refine ⟨c', l, he, ⟨_, hr', List.Pairwise.filter _ hw⟩, fun q => ?_, fun r hrl => ?_⟩
  · rw [hr'.getUnique q, hr.getUnique q, Flat.getUnique_filter_wf hw]
  · have hm := (hperm.mem_iff).1 hrl
    obtain ⟨hms, hexp⟩ := List.mem_filter.1 hm
    refine ⟨hexp, ?_⟩
    rw [hr.getUnique r]
    cases hg : Flat.getUnique lower s r with
    | none =>
      have := (Flat.getUnique_eq_none s r).1 hg
      have hp : Flat.pres lower s r = true := List.any_eq_true.2 ⟨r, hms, beq_refl lower r⟩
      rw [hp] at this; cases this
    | some e =>
      have := hw.eq_of_beq (Flat.getUnique_mem hg) hms ((beq_iff_ident lower e r).2 (Flat.getUnique_ident hg))
      rw [this]


/-! ### the invariant of a running callback -/

/-- the facts the translator reads off the repaired code -/
def RmCfg.ok : RmCfg := { copied1 := true, copied2 := true, catches := true, purgesFirst := true, keepTest := fun b => b }

theorem removes_keep_test_fun : Gen.Cache.removes_keep_test = fun b => b := funext removes_keep_test_eq

theorem RmCfg.code_eq : RmCfg.code = RmCfg.ok := by
  simp only [RmCfg.code, RmCfg.ok, updates_iterates_copy_eq, complete_iterates_copy_eq, remove_listener_catches_keyerror_eq,
    add_listener_purges_first_eq, removes_keep_test_fun]

/-- the second half of the ingestion as the repaired code runs it -/
theorem ingestFinishWith_ok {σ : Type} (ops : CacheOps σ) (c1 : σ) (a : IngestAcc σ) :
    ingestFinishWith ops RmCfg.ok.keepTest c1 a = ingestFinish ops c1 a := by
  unfold ingestFinish; rw [removes_keep_test_fun]; rfl

/-- `st'` is reached from `st` by callbacks that ran without raising: the cache lost exactly the records whose TTL has fully
elapsed at one of the new clock readings, the listener set is the old one with the new changes applied in order, the log grew -/
structure Ext (lower : String → String) (st st' : RSt) : Prop where
  err : st'.err = none
  sound : Cache.Sound lower st'.cache
  cache : ∃ ts, st'.reads = st.reads ++ ts ∧ ∀ q, st'.cache.getUnique lower q = (st.cache.getUnique lower q).filter (aliveAt ts)
  live : ∃ tr, st'.trace = st.trace ++ tr ∧ st'.live = (actsFrom true tr (st.live, none)).1
  log : ∃ lg, st'.log = st.log ++ lg

theorem Ext.refl {st : RSt} (h : st.err = none) (hs : Cache.Sound lower st.cache) : Ext lower st st :=
  ⟨h, hs, ⟨[], by simp, fun q => (filter_alive_nil _).symm⟩, ⟨[], by simp, rfl⟩, ⟨[], by simp⟩⟩

theorem actsFrom_append (catches : Bool) (x y : List ListenerAct) (st : List Nat × Option PyExc) :
    actsFrom catches (x ++ y) st = actsFrom catches y (actsFrom catches x st) := by
  unfold actsFrom; rw [List.foldl_append]

theorem Ext.trans {a b c : RSt} (h1 : Ext lower a b) (h2 : Ext lower b c) : Ext lower a c := by
  obtain ⟨ts1, hr1, hc1⟩ := h1.cache
  obtain ⟨ts2, hr2, hc2⟩ := h2.cache
  obtain ⟨tr1, ht1, hl1⟩ := h1.live
  obtain ⟨tr2, ht2, hl2⟩ := h2.live
  obtain ⟨lg1, hg1⟩ := h1.log
  obtain ⟨lg2, hg2⟩ := h2.log
  refine ⟨h2.err, h2.sound, ⟨ts1 ++ ts2, by rw [hr2, hr1, List.append_assoc], fun q => ?_⟩,
    ⟨tr1 ++ tr2, by rw [ht2, ht1, List.append_assoc], ?_⟩, ⟨lg1 ++ lg2, by rw [hg2, hg1, List.append_assoc]⟩⟩
  · rw [hc2 q, hc1 q, filter_alive_append]
  · rw [actsFrom_append, hl2]
    have h2' : (actsFrom true tr1 (a.live, none)).2 = none := actsFrom_true_ok _ _ rfl
    have : actsFrom true tr1 (a.live, none) = (b.live, none) := by
      rw [hl1]; exact Prod.ext rfl h2'
    rw [this]

/-- only the log grew -/
theorem Ext.logOnly {st : RSt} (h : st.err = none) (hs : Cache.Sound lower st.cache) (x : NestEv) :
    Ext lower st { st with log := st.log ++ [x] } :=
  ⟨h, hs, ⟨[], by simp, fun q => (filter_alive_nil _).symm⟩, ⟨[], by simp, rfl⟩, ⟨[x], rfl⟩⟩

theorem RSt.andThen_ok {st : RSt} (h : st.err = none) (f : RSt → RSt) : st.andThen f = f st := by
  unfold RSt.andThen; rw [h]

/-- `listeners.add` / `listeners.remove` with the D18 repair never raise -/
theorem lsAct_ext {st : RSt} (h : st.err = none) (hs : Cache.Sound lower st.cache) (a : ListenerAct) :
    Ext lower st (st.lsAct RmCfg.ok a) := by
  obtain ⟨ls, hls⟩ := applyAct_true_ok st.live a
  have hdef : st.lsAct RmCfg.ok a = { st with live := ls, trace := st.trace ++ [a] } := by
    unfold RSt.lsAct
    show (match applyAct true st.live a with | .ok ls => _ | .error e => _) = _
    rw [hls]
  rw [hdef]
  refine ⟨h, hs, ⟨[], by simp, fun q => (filter_alive_nil _).symm⟩, ⟨[a], rfl, ?_⟩, ⟨[], by simp⟩⟩
  show ls = (actsFrom true [a] (st.live, none)).1
  unfold actsFrom
  simp only [List.foldl_cons, List.foldl_nil, hls]

/-- what is assumed of the callbacks one level down -/
def BodyOK (lower : String → String) (body : Nat → Nat → Nat → RSt → RSt) : Prop :=
  ∀ d p l st, st.err = none → Cache.Sound lower st.cache → Ext lower st (body d p l st)

/-- listener `l` of a round found the cache `cl`: the cache the round started with (`st`) minus the records that had run out at
the clock readings taken before `l` was called -/
def SeenIn (lower : String → String) (st fin : RSt) (cl : Cache) : Prop :=
  ∃ mid, Ext lower st mid ∧ Ext lower mid fin ∧ cl = mid.cache

theorem SeenIn.mono {st fin fin' : RSt} {cl : Cache} (h : SeenIn lower st fin cl) (h' : Ext lower fin fin') : SeenIn lower st fin' cl := by
  obtain ⟨mid, h1, h2, h3⟩ := h
  exact ⟨mid, h1, h2.trans h', h3⟩


/-! ### a round -/

section
variable (order : List Nat → List Nat)

/-- the loop of a round over the copied listener set -/
def roundStep (body : Nat → Nat → Nat → RSt → RSt) (depth phase : Nat) (acc : RSt × List (Nat × Cache)) (l : Nat) : RSt × List (Nat × Cache) :=
  match acc.1.err with
  | some _ => acc
  | none => (body depth phase l { acc.1 with log := acc.1.log ++ [NestEv.call depth phase l []] }, acc.2 ++ [(l, acc.1.cache)])

theorem roundR_ok_eq (body : Nat → Nat → Nat → RSt → RSt) (depth phase : Nat) (st : RSt) :
    roundR RmCfg.ok order body depth phase st = (order st.live).foldl (roundStep body depth phase) (st, []) := by
  unfold roundR
  simp only [RmCfg.ok, ite_self, Bool.not_true, Bool.false_and, Bool.false_eq_true, if_false]
  rfl

theorem roundFold_spec {body : Nat → Nat → Nat → RSt → RSt} (hbody : BodyOK lower body) (depth phase : Nat) (todo : List Nat) :
    ∀ (st0 : RSt) (acc : RSt × List (Nat × Cache)), Ext lower st0 acc.1 →
      Ext lower st0 (todo.foldl (roundStep body depth phase) acc).1
      ∧ (todo.foldl (roundStep body depth phase) acc).2.map Prod.fst = acc.2.map Prod.fst ++ todo
      ∧ ∀ lc ∈ (todo.foldl (roundStep body depth phase) acc).2, lc ∈ acc.2 ∨
          ∃ mid, Ext lower acc.1 mid ∧ Ext lower mid (todo.foldl (roundStep body depth phase) acc).1 ∧ lc.2 = mid.cache := by
  induction todo with
  | nil => intro st0 acc h; exact ⟨h, by simp, fun lc hlc => Or.inl hlc⟩
  | cons l t ih =>
    intro st0 acc h
    simp only [List.foldl_cons]
    have hstep : roundStep body depth phase acc l
        = (body depth phase l { acc.1 with log := acc.1.log ++ [NestEv.call depth phase l []] }, acc.2 ++ [(l, acc.1.cache)]) := by
      unfold roundStep; rw [h.err]
    have e1 : Ext lower acc.1 { acc.1 with log := acc.1.log ++ [NestEv.call depth phase l []] } := Ext.logOnly h.err h.sound _
    have e2 := hbody depth phase l _ e1.err e1.sound
    have e3 : Ext lower acc.1 (roundStep body depth phase acc l).1 := by rw [hstep]; exact e1.trans e2
    obtain ⟨i1, i2, i3⟩ := ih st0 (roundStep body depth phase acc l) (h.trans e3)
    obtain ⟨j1, _, _⟩ := ih (roundStep body depth phase acc l).1 (roundStep body depth phase acc l) (Ext.refl e3.err e3.sound)
    refine ⟨i1, ?_, ?_⟩
    · rw [i2, hstep]; simp
    · intro lc hlc
      rcases i3 lc hlc with hin | ⟨mid, m1, m2, m3⟩
      · rw [hstep] at hin
        rcases List.mem_append.1 hin with hin | hin
        · exact Or.inl hin
        · simp only [List.mem_singleton] at hin
          exact Or.inr ⟨acc.1, Ext.refl h.err h.sound, e3.trans j1, by rw [hin]⟩
      · exact Or.inr ⟨mid, e3.trans m1, m2, m3⟩

/-- **a round with re-entrant callbacks**: it does not raise, it enters the callback of every listener of its snapshot (the
listener set when it starts) exactly in the snapshot's order, and every listener finds the cache the round started with minus the
records that had run out at a clock reading taken earlier in the round -/
theorem roundR_spec {body : Nat → Nat → Nat → RSt → RSt} (hbody : BodyOK lower body) (depth phase : Nat) {st : RSt}
    (h : st.err = none) (hs : Cache.Sound lower st.cache) :
    Ext lower st (roundR RmCfg.ok order body depth phase st).1
    ∧ (roundR RmCfg.ok order body depth phase st).2.map Prod.fst = order st.live
    ∧ ∀ lc ∈ (roundR RmCfg.ok order body depth phase st).2, SeenIn lower st (roundR RmCfg.ok order body depth phase st).1 lc.2 := by
  rw [roundR_ok_eq]
  obtain ⟨h1, h2, h3⟩ := roundFold_spec hbody depth phase (order st.live) st (st, []) (Ext.refl h hs)
  refine ⟨h1, by simpa using h2, fun lc hlc => ?_⟩
  rcases h3 lc hlc with hin | ⟨mid, m1, m2, m3⟩
  · cases hin
  · exact ⟨mid, m1, m2, m3⟩

/-! ### `async_add_listener(l, question)` from inside a callback -/

theorem purgeRounds_ext {body : Nat → Nat → Nat → RSt → RSt} (hbody : BodyOK lower body) (depth : Nat) (t : Ms) (expired : List Rec)
    {st : RSt} (h : st.err = none) (hs : Cache.Sound lower st.cache) :
    Ext lower st (purgeRounds RmCfg.ok order body depth t expired st) := by
  unfold purgeRounds
  split
  · exact Ext.refl h hs
  · have e0 : Ext lower st { st with log := st.log ++ [NestEv.purge depth t expired] } := Ext.logOnly h hs _
    have e1 := (roundR_spec order hbody depth 1 e0.err e0.sound).1
    rw [RSt.andThen_ok e1.err]
    have e2 := (roundR_spec order hbody depth 2 e1.err e1.sound).1
    exact e0.trans (e1.trans e2)

theorem replayTo_ext {body : Nat → Nat → Nat → RSt → RSt} (hbody : BodyOK lower body) (depth l : Nat) (t : Ms) (qs : List Question)
    {st : RSt} (h : st.err = none) (hs : Cache.Sound lower st.cache) :
    Ext lower st (replayTo lower body depth l t qs st) := by
  unfold replayTo
  simp only []
  split
  · exact Ext.refl h hs
  · have e0 : Ext lower st { st with log := st.log ++ [NestEv.call depth 1 l (replayRecs lower st.cache (Gen.Cache.add_listener_replay_now t) qs)] } :=
      Ext.logOnly h hs _
    have e1 := hbody depth 1 l _ e0.err e0.sound
    rw [RSt.andThen_ok e1.err]
    have e2 := Ext.logOnly (lower := lower) e1.err e1.sound (NestEv.call depth 2 l [])
    have e3 := hbody depth 2 l _ e2.err e2.sound
    exact e0.trans (e1.trans (e2.trans e3))

theorem aliveAt_singleton (t : Ms) : (fun e : Rec => !(e.isExpired t)) = aliveAt [t] := by
  funext e; simp [aliveAt]

/-- **registering a listener with a question from inside a callback** never raises: the purge removes exactly the records whose TTL
has fully elapsed at the clock reading `t`, its rounds and the replay are rounds like any other -/
theorem addWithQuestion_ext {body : Nat → Nat → Nat → RSt → RSt} (hbody : BodyOK lower body) (depth lid l : Nat) (t : Ms) (qs : List Question)
    {st : RSt} (h : st.err = none) (hs : Cache.Sound lower st.cache) :
    Ext lower st (addWithQuestion lower RmCfg.ok order body depth lid l t qs st) := by
  unfold addWithQuestion
  have hp : RmCfg.ok.purgesFirst = true := rfl
  simp only [hp, if_true, add_listener_purge_expire_now_eq]
  obtain ⟨c', ex, he, hs', hq, _⟩ := hs.expire t
  rw [he]
  simp only []
  -- the state after the purge
  have e0 : Ext lower st { st with log := st.log ++ [NestEv.addq depth lid l t], reads := st.reads ++ [t], cache := c' } :=
    ⟨h, hs', ⟨[t], rfl, fun q => by rw [hq q, aliveAt_singleton]⟩, ⟨[], by simp, rfl⟩, ⟨[NestEv.addq depth lid l t], rfl⟩⟩
  have e1 := purgeRounds_ext order hbody (depth + 1) t ex e0.err e0.sound
  rw [RSt.andThen_ok e1.err]
  have e2 := lsAct_ext e1.err e1.sound (ListenerAct.add l)
  have e3 := replayTo_ext hbody (depth + 1) l t qs e2.err e2.sound
  exact e0.trans (e1.trans (e2.trans e3))

theorem doAct_ext {body : Nat → Nat → Nat → RSt → RSt} (hbody : BodyOK lower body) (depth lid : Nat) (a : CbAct)
    {st : RSt} (h : st.err = none) (hs : Cache.Sound lower st.cache) :
    Ext lower st (doAct lower RmCfg.ok order body depth lid st a) := by
  cases a with
  | add l => exact lsAct_ext h hs (.add l)
  | remove l => exact lsAct_ext h hs (.remove l)
  | addQ l t qs => exact addWithQuestion_ext order hbody depth lid l t qs h hs

theorem foldActs_ext {α : Type} (f : RSt → α → RSt) (hf : ∀ st a, st.err = none → Cache.Sound lower st.cache → Ext lower st (f st a)) (l : List α) :
    ∀ {st : RSt}, st.err = none → Cache.Sound lower st.cache → Ext lower st (l.foldl (fun st a => st.andThen (fun st => f st a)) st) := by
  induction l with
  | nil => intro st h hs; exact Ext.refl h hs
  | cons a t ih =>
    intro st h hs
    simp only [List.foldl_cons]
    rw [RSt.andThen_ok h]
    have e1 := hf st a h hs
    exact e1.trans (ih e1.err e1.sound)

/-- **callbacks, to any nesting depth**: whatever the scripts `react` say, a callback returns without raising -/
theorem cbBody_ok (react : Nat → Nat → Nat → List CbAct) (fuel : Nat) : BodyOK lower (cbBody lower RmCfg.ok order react fuel) := by
  induction fuel with
  | zero => intro d p l st h hs; exact Ext.refl h hs
  | succ n ih =>
    intro d p l st h hs
    show Ext lower st ((react d p l).foldl (fun st a => st.andThen (fun st => doAct lower RmCfg.ok order (cbBody lower RmCfg.ok order react n) d l st a)) st)
    exact foldActs_ext _ (fun st a h hs => doAct_ext order ih d l a h hs) _ h hs

end


/-! ### the second half of the ingestion on the cache as the first round left it -/

/-- what the adds make of one identity: the last added copy of it, else what was there -/
def afterAdds (lower : String → String) (A1 A2 : List Rec) (q : Rec) (base : Option Rec) : Option Rec :=
  match (A2.filter (fun r => decide (r.ident lower = q.ident lower))).getLast? with
  | some r => some r
  | none =>
    match (A1.filter (fun r => decide (r.ident lower = q.ident lower))).getLast? with
    | some r => some r
    | none => base

/-- what adds and removes make of one identity, `base` being what the cache holds for it when the first round is over -/
def finishAt (lower : String → String) (a : IngestAcc Cache) (q : Rec) (base : Option Rec) : Option Rec :=
  if a.removes.any (fun r => decide (r.ident lower = q.ident lower)) then none
  else afterAdds lower a.addrAdds a.otherAdds q base

/-- **the adds and removes never raise, whatever the first round purged** (D24 repair): on any sound cache, with work lists
whose `removes` are pairwise different records, `ingestFinish` returns; identity by identity the result is `finishAt` -/
theorem ingestFinish_spec {c1 : Cache} (hs : Cache.Sound lower c1) (a : IngestAcc Cache)
    (hR : a.removes.Pairwise (fun x y => x.ident lower ≠ y.ident lower)) :
    ∃ f, ingestFinish (Cache.ops lower) c1 a = .ok f ∧ Cache.Sound lower f.1
      ∧ ∀ q, f.1.getUnique lower q = finishAt lower a q (c1.getUnique lower q) := by
  obtain ⟨s, hr, hw⟩ := hs
  have h2 := hr.addAll a.addrAdds
  have h3 := h2.1.addAll a.otherAdds
  have hw3 : Flat.WF lower (addAll (Flat.ops lower) (addAll (Flat.ops lower) s a.addrAdds).1 a.otherAdds).1 :=
    Flat.WF.addAll_aux (Flat.WF.addAll_aux hw false _) false _
  have hk := h3.1.keptRemoves a.removes
  generalize hS3 : (addAll (Flat.ops lower) (addAll (Flat.ops lower) s a.addrAdds).1 a.otherAdds).1 = s3 at *
  generalize hC3 : (addAll (Cache.ops lower) (addAll (Cache.ops lower) c1 a.addrAdds).1 a.otherAdds).1 = c3 at *
  -- the kept removes are present and pairwise different
  have hpres : ∀ r ∈ keptRemoves (Flat.ops lower) s3 a.removes, ∃ e ∈ s3, e.beq lower r = true := by
    intro r hrm
    have := (List.mem_filter.1 (by unfold keptRemoves keptRemovesWith at hrm; exact hrm)).2
    rw [removes_keep_test_eq] at this
    have h' : (Flat.getUnique lower s3 r).isSome = true := this
    rw [Flat.getUnique_isSome] at h'
    exact List.any_eq_true.1 h'
  have hdist : (keptRemoves (Flat.ops lower) s3 a.removes).Pairwise (fun x y => x.ident lower ≠ y.ident lower) :=
    (by unfold keptRemoves keptRemovesWith; exact List.Pairwise.filter _ hR)
  have hflat := Flat.removeAll_ok (lower := lower) s3 _ hpres hdist
  have hsim := h3.1.removeAll (keptRemoves (Flat.ops lower) s3 a.removes)
  rw [hflat] at hsim
  cases hc : removeAll (Cache.ops lower) c3 (keptRemoves (Flat.ops lower) s3 a.removes) with
  | error e => rw [hc] at hsim; exact absurd hsim (by simp)
  | ok c4 =>
    rw [hc] at hsim
    simp only [] at hsim
    refine ⟨(c4, (addAll (Cache.ops lower) c1 a.addrAdds).2 || (addAll (Cache.ops lower) (addAll (Cache.ops lower) c1 a.addrAdds).1 a.otherAdds).2), ?_,
      ⟨_, hsim, List.Pairwise.filter _ hw3⟩, fun q => ?_⟩
    · unfold ingestFinish ingestFinishWith
      change (removeAll (Cache.ops lower) (addAll (Cache.ops lower) (addAll (Cache.ops lower) c1 a.addrAdds).1 a.otherAdds).1
        (keptRemoves (Cache.ops lower) (addAll (Cache.ops lower) (addAll (Cache.ops lower) c1 a.addrAdds).1 a.otherAdds).1 a.removes) >>= _) = _
      simp only [hC3, hk, hc]
      rfl
    · -- identity by identity
      show c4.getUnique lower q = _
      rw [hsim.getUnique q]
      have hp : ∀ e : Rec, e.ident lower = q.ident lower →
          (!((keptRemoves (Flat.ops lower) s3 a.removes).any (fun r => e.beq lower r)))
            = !((keptRemoves (Flat.ops lower) s3 a.removes).any (fun r => decide (r.ident lower = q.ident lower))) := by
        intro e he
        congr 2
        funext r
        rw [beq_eq_decide, he]
        exact decide_eq_decide.2 eq_comm
      rw [Flat.getUnique_filter _ _ q _ hp]
      have hs3 : Flat.getUnique lower s3 q = afterAdds lower a.addrAdds a.otherAdds q (c1.getUnique lower q) := by
        rw [← hS3, Flat.getUnique_addAll, Flat.getUnique_addAll, hr.getUnique q]
        rfl
      unfold finishAt
      by_cases hrem : a.removes.any (fun r => decide (r.ident lower = q.ident lower)) = true
      · rw [if_pos hrem]
        by_cases hkept : (keptRemoves (Flat.ops lower) s3 a.removes).any (fun r => decide (r.ident lower = q.ident lower)) = true
        · simp [hkept]
        · -- the withdrawn record of this identity was not kept: it is not cached any more
          obtain ⟨r, hrin, hrid⟩ := List.any_eq_true.1 hrem
          have hrid' : r.ident lower = q.ident lower := by simpa using hrid
          have hnk : r ∉ keptRemoves (Flat.ops lower) s3 a.removes := by
            intro hin
            exact hkept (List.any_eq_true.2 ⟨r, hin, hrid⟩)
          have hnone : Flat.getUnique lower s3 r = none := by
            cases hg : Flat.getUnique lower s3 r with
            | none => rfl
            | some e =>
              exfalso
              apply hnk
              unfold keptRemoves keptRemovesWith
              rw [List.mem_filter]
              refine ⟨hrin, ?_⟩
              rw [removes_keep_test_eq]
              show (Flat.getUnique lower s3 r).isSome = true
              rw [hg]; rfl
          rw [Flat.getUnique_congr s3 hrid'] at hnone
          simp [hnone]
      · have hrem' : a.removes.any (fun r => decide (r.ident lower = q.ident lower)) = false := by simpa using hrem
        have hkept : (keptRemoves (Flat.ops lower) s3 a.removes).any (fun r => decide (r.ident lower = q.ident lower)) = false := by
          rw [Bool.eq_false_iff]
          intro hk'
          obtain ⟨r, hrin, hrid⟩ := List.any_eq_true.1 hk'
          exact hrem (List.any_eq_true.2 ⟨r, (List.mem_filter.1 (by unfold keptRemoves keptRemovesWith at hrin; exact hrin)).1, hrid⟩)
        rw [hrem', hkept, hs3]
        simp

/-- the pure ingestion is the second half applied to the cache of the first call -/
theorem ingest_eq_finish {σ : Type} (ops : CacheOps σ) (c : σ) (now : Ms) (recs : List Rec) :
    ingest lower ops c now recs =
      match ingestFinish ops (ingestPre lower ops c now recs).cache (ingestPre lower ops c now recs) with
      | .ok f => .ok { cache := f.1,
                       call1 := if (ingestPre lower ops c now recs).updates.isEmpty then none
                                else some (livePairs ops (ingestPre lower ops c now recs).cache (ingestPre lower ops c now recs).updates,
                                           (ingestPre lower ops c now recs).cache),
                       call2 := if (ingestPre lower ops c now recs).updates.isEmpty then none else some f.1,
                       notify := f.2 }
      | .error e => .error e := by
  unfold ingest ingestFinish ingestFinishWith keptRemoves
  simp only []
  cases removeAll ops _ _ <;> rfl

/-- facts about the work lists of a datagram on a sound cache -/
theorem ingestPre_facts {c : Cache} (hs : Cache.Sound lower c) (now : Ms) (recs : List Rec) :
    Cache.Sound lower (ingestPre lower (Cache.ops lower) c now recs).cache
    ∧ (ingestPre lower (Cache.ops lower) c now recs).removes.Pairwise (fun x y => x.ident lower ≠ y.ident lower)
    ∧ (∀ q, ((ingestPre lower (Cache.ops lower) c now recs).cache.getUnique lower q).isSome = (c.getUnique lower q).isSome)
    ∧ (∀ r ∈ (ingestPre lower (Cache.ops lower) c now recs).addrAdds ++ (ingestPre lower (Cache.ops lower) c now recs).otherAdds,
        c.getUnique lower r = none) := by
  obtain ⟨s, hr, hw⟩ := hs
  obtain ⟨hc, _, ha, ho, hrm, _⟩ := hr.ingestPre now recs
  obtain ⟨p1, _, p3, p4, p5⟩ := ingestPre_flat (lower := lower) s now recs
  obtain ⟨g1, _, _⟩ := goodbyes_spec (lower := lower) now s (effective now recs)
  refine ⟨⟨_, hc, hw.ingestPre now recs⟩, ?_, fun q => ?_, fun r hrin => ?_⟩
  · rw [hrm, p5]; exact g1
  · rw [hc.getUnique q, hr.getUnique q, Flat.getUnique_isSome, Flat.getUnique_isSome, p1,
      Flat.pres_map _ _ (fun e => ident_markOne now _ e), Flat.pres_map _ _ (fun e => ident_refresh now _ e)]
  · rw [ha, ho, p3, p4] at hrin
    have hnew : isNewAdd lower now s r = true := by
      rcases List.mem_append.1 hrin with h | h
      · have := (List.mem_filter.1 h).2
        simp only [Bool.and_eq_true] at this
        exact this.1
      · have := (List.mem_filter.1 h).2
        simp only [Bool.and_eq_true] at this
        exact this.1
    unfold isNewAdd at hnew
    simp only [Bool.and_eq_true, Bool.not_eq_true'] at hnew
    rw [hr.getUnique r, Flat.getUnique_eq_none]
    exact hnew.2


/-! ### one datagram with re-entrant callbacks -/

theorem SeenIn.spec {st fin : RSt} {cl : Cache} (h : SeenIn lower st fin cl) :
    ∃ ts' ts'', fin.reads = st.reads ++ ts' ++ ts''
      ∧ ∀ q, cl.getUnique lower q = (st.cache.getUnique lower q).filter (aliveAt ts') := by
  obtain ⟨mid, h1, h2, h3⟩ := h
  obtain ⟨ts', hr1, hc1⟩ := h1.cache
  obtain ⟨ts'', hr2, _⟩ := h2.cache
  exact ⟨ts', ts'', by rw [hr2, hr1], fun q => by rw [h3]; exact hc1 q⟩

section
variable (order : List Nat → List Nat) (react : Nat → Nat → Nat → List CbAct) (fuel : Nat)

/-- **the shape of a delivery** on a sound cache, with the code as it is (D18, D23, D24 repaired): nothing raises.  Without
updates nobody is called; with updates round 1 runs on the cache `ingestPre` left, the adds and removes on the cache round 1 left,
round 2 on the result; each round is an `Ext`ension that calls exactly its snapshot. -/
theorem deliverR_shape {c : Cache} (hs : Cache.Sound lower c) (ls : List Nat) (now : Ms) (recs : List Rec)
    (a : IngestAcc Cache) (ha : a = ingestPre lower (Cache.ops lower) c now recs) :
    (a.updates.isEmpty = true →
      ∃ f, ingestFinish (Cache.ops lower) a.cache a = .ok f ∧ Cache.Sound lower f.1
        ∧ (∀ q, f.1.getUnique lower q = finishAt lower a q (a.cache.getUnique lower q))
        ∧ deliverR lower order react fuel c ls now recs
          = { pre := a, r1 := none, fin := some f, r2 := none, cache := f.1, listeners := ls, err := none })
    ∧ (a.updates.isEmpty = false →
      ∃ r1 f r2, r1 = roundR RmCfg.ok order (cbBody lower RmCfg.ok order react fuel) 0 1 { live := ls, cache := a.cache }
        ∧ ingestFinish (Cache.ops lower) r1.1.cache a = .ok f
        ∧ r2 = roundR RmCfg.ok order (cbBody lower RmCfg.ok order react fuel) 0 2 { live := r1.1.live, cache := f.1 }
        ∧ deliverR lower order react fuel c ls now recs
          = { pre := a, r1 := some r1, fin := some f, r2 := some r2, cache := r2.1.cache, listeners := r2.1.live, err := none }
        ∧ Ext lower { live := ls, cache := a.cache } r1.1 ∧ r1.2.map Prod.fst = order ls
        ∧ (∀ lc ∈ r1.2, SeenIn lower { live := ls, cache := a.cache } r1.1 lc.2)
        ∧ Cache.Sound lower f.1 ∧ (∀ q, f.1.getUnique lower q = finishAt lower a q (r1.1.cache.getUnique lower q))
        ∧ Ext lower { live := r1.1.live, cache := f.1 } r2.1 ∧ r2.2.map Prod.fst = order r1.1.live
        ∧ (∀ lc ∈ r2.2, SeenIn lower { live := r1.1.live, cache := f.1 } r2.1 lc.2)) := by
  obtain ⟨hs1, hR, _, _⟩ := ingestPre_facts hs now recs
  rw [← ha] at hs1 hR
  constructor
  · intro he
    obtain ⟨f, hf, hsf, hq⟩ := ingestFinish_spec hs1 a hR
    refine ⟨f, hf, hsf, hq, ?_⟩
    unfold deliverR deliverRWith
    simp only [← ha, he, if_true, RmCfg.code_eq, ingestFinishWith_ok, hf]
  · intro he
    have hb := cbBody_ok (lower := lower) order react fuel
    obtain ⟨e1, c1, s1⟩ := roundR_spec (lower := lower) order hb 0 1 (st := { live := ls, cache := a.cache }) rfl hs1
    obtain ⟨f, hf, hsf, hq⟩ := ingestFinish_spec e1.sound a hR
    obtain ⟨e2, c2, s2⟩ := roundR_spec (lower := lower) order hb 0 2
      (st := { live := (roundR RmCfg.ok order (cbBody lower RmCfg.ok order react fuel) 0 1 { live := ls, cache := a.cache }).1.live, cache := f.1 }) rfl hsf
    refine ⟨_, f, _, rfl, hf, rfl, ?_, e1, c1, s1, hsf, hq, e2, c2, s2⟩
    unfold deliverR deliverRWith
    simp only [← ha, he, Bool.false_eq_true, if_false, RmCfg.code_eq, ingestFinishWith_ok, e1.err, hf, e2.err]

end


/-! ### the post-state with re-entrant callbacks -/

/-- the clock readings of the `async_add_listener(l, question)` calls made while round 1 / round 2 of the datagram ran -/
def DeliveryR.reads1 (d : DeliveryR) : List Ms := (d.r1.map (fun r => r.1.reads)).getD []
def DeliveryR.reads2 (d : DeliveryR) : List Ms := (d.r2.map (fun r => r.1.reads)).getD []

theorem afterAdds_none (A1 A2 : List Rec) (q : Rec) (base : Option Rec) (h : ∀ r ∈ A1 ++ A2, r.ident lower ≠ q.ident lower) :
    afterAdds lower A1 A2 q base = base := by
  have h1 : A1.filter (fun r => decide (r.ident lower = q.ident lower)) = [] := by
    rw [List.filter_eq_nil_iff]; intro r hr; simpa using h r (List.mem_append_left _ hr)
  have h2 : A2.filter (fun r => decide (r.ident lower = q.ident lower)) = [] := by
    rw [List.filter_eq_nil_iff]; intro r hr; simpa using h r (List.mem_append_right _ hr)
  unfold afterAdds
  rw [h1, h2]; rfl

theorem Cache.Sound.getUnique_congr {c : Cache} (hs : Cache.Sound lower c) {q q' : Rec} (h : q.ident lower = q'.ident lower) :
    c.getUnique lower q = c.getUnique lower q' := by
  obtain ⟨s, hr, _⟩ := hs
  rw [hr.getUnique q, hr.getUnique q', Flat.getUnique_congr s h]

section
variable (order : List Nat → List Nat) (react : Nat → Nat → Nat → List CbAct) (fuel : Nat)

/-- **the post-state, whatever the callbacks do**: the delivery does not raise, leaves a sound cache, and identity by identity
the cache holds what the datagram alone would have left (`ingest`, the subject of `C06_post_state` / `C06_flush_exact`) unless
that record's TTL had fully elapsed at a clock reading of a callback that registered a listener with a question — a reading of
either round for a record that was cached before the datagram, of the second round for a record the datagram added -/
theorem deliverR_post {c : Cache} (hs : Cache.Sound lower c) (ls : List Nat) (now : Ms) (recs : List Rec) :
    ∃ out, ingest lower (Cache.ops lower) c now recs = .ok out
      ∧ (deliverR lower order react fuel c ls now recs).err = none
      ∧ Cache.Sound lower (deliverR lower order react fuel c ls now recs).cache
      ∧ ∀ q, (deliverR lower order react fuel c ls now recs).cache.getUnique lower q
          = (out.cache.getUnique lower q).filter (aliveAt
              (if (c.getUnique lower q).isSome then (deliverR lower order react fuel c ls now recs).reads1 ++ (deliverR lower order react fuel c ls now recs).reads2
               else (deliverR lower order react fuel c ls now recs).reads2)) := by
  obtain ⟨hs1, hR, hpres, hnew⟩ := ingestPre_facts hs now recs
  obtain ⟨f0, hf0, hsf0, hq0⟩ := ingestFinish_spec hs1 _ hR
  obtain ⟨m1, m2⟩ := deliverR_shape (lower := lower) order react fuel hs ls now recs _ rfl
  refine ⟨_, by rw [ingest_eq_finish, hf0], ?_⟩
  simp only []
  generalize hA : ingestPre lower (Cache.ops lower) c now recs = a at *
  cases he : a.updates.isEmpty with
  | true =>
    obtain ⟨f, hf, hsf, _, hd⟩ := m1 he
    have hff : f = f0 := by rw [hf] at hf0; exact Except.ok.inj hf0
    rw [hd]
    refine ⟨rfl, hsf, fun q => ?_⟩
    simp only [DeliveryR.reads1, DeliveryR.reads2, Option.map_none, Option.getD_none, List.append_nil, ite_self]
    rw [hff, filter_alive_nil]
  | false =>
    obtain ⟨r1, f, r2, _, hf, _, hd, e1, _, _, hsf, hq, e2, _, _⟩ := m2 he
    rw [hd]
    refine ⟨rfl, e2.sound, fun q => ?_⟩
    simp only [DeliveryR.reads1, DeliveryR.reads2, Option.map_some, Option.getD_some]
    obtain ⟨ts1, hr1, hc1⟩ := e1.cache
    obtain ⟨ts2, hr2, hc2⟩ := e2.cache
    simp only [List.nil_append] at hr1 hr2
    rw [hr1, hr2, hc2 q, hq q, hc1 q, hq0 q]
    by_cases hcq : (c.getUnique lower q).isSome = true
    · -- cached before: no record of its identity is added
      have hno : ∀ r ∈ a.addrAdds ++ a.otherAdds, r.ident lower ≠ q.ident lower := by
        intro r hr hid
        have h1 := hnew r hr
        rw [hs.getUnique_congr hid] at h1
        rw [h1] at hcq; cases hcq
      simp only [hcq, if_true]
      unfold finishAt
      rw [afterAdds_none _ _ _ _ hno, afterAdds_none _ _ _ _ hno]
      split
      · rfl
      · rw [filter_alive_append]
    · -- not cached before: the first round cannot have purged it
      have hnone : a.cache.getUnique lower q = none := by
        have := hpres q
        cases hg : a.cache.getUnique lower q with
        | none => rfl
        | some e => rw [hg] at this; exact absurd this.symm hcq
      simp only [hcq, Bool.false_eq_true, if_false]
      rw [hnone]
      rfl

end

end
end Zc
