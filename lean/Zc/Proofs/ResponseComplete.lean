import Zc.Proofs.Response
/-! `async_response` as a whole, the completeness direction: routing only ever adds to the four sets, so what one
strategy's routing step establishes survives to the `QuestionAnswers` that is returned.  Lifts the per-strategy
statements of C11/C12 to the query. -/
namespace Zc.Reply
open GenFacts

/-- routing a strategy removes nothing from any of the four sets -/
theorem route_mono (us probe : Bool) (seen : SeenMap) (now : Int) (nq q0 : Nat) (qr : QR) (qu : Bool) (answers : Dict) (r : RecId) :
    (r ∈ qr.ucast → r ∈ (qr.route us probe seen now nq q0 qu answers).ucast) ∧
    (r ∈ qr.mcastNow → r ∈ (qr.route us probe seen now nq q0 qu answers).mcastNow) ∧
    (r ∈ qr.mcastAgg → r ∈ (qr.route us probe seen now nq q0 qu answers).mcastAgg) ∧
    (r ∈ qr.mcastLast → r ∈ (qr.route us probe seen now nq q0 qu answers).mcastLast) := by
  simp only [QR.route]
  split
  · obtain ⟨h1, h2, h3, h4⟩ := addQu_sets probe seen now answers qr r
    exact ⟨fun h => h1.mpr (Or.inl h), fun h => h2.mpr (Or.inl h), fun h => h3 ▸ h, fun h => h4 ▸ h⟩
  · cases us
    · obtain ⟨h1, h2, h3, h4⟩ := addMcast_sets probe seen now nq q0 answers qr r
      simp only [Bool.false_eq_true, if_false]
      exact ⟨fun h => h4 ▸ h, fun h => h1.mpr (Or.inl h), fun h => h3.mpr (Or.inl h), fun h => h2.mpr (Or.inl h)⟩
    · obtain ⟨u1, u2, u3, u4⟩ := addUcast_sets answers qr r
      obtain ⟨h1, h2, h3, h4⟩ := addMcast_sets probe seen now nq q0 answers (qr.addUcast answers) r
      simp only [if_true]
      exact ⟨fun h => h4 ▸ u1.mpr (Or.inl h), fun h => h1.mpr (Or.inl (u2 ▸ h)), fun h => h3.mpr (Or.inl (u3 ▸ h)),
             fun h => h2.mpr (Or.inl (u4 ▸ h))⟩

/-- a property that every step preserves and one step of the list establishes holds at the end of the fold -/
theorem foldl_establish {α β : Type} (step : α → β → α) (Q : α → Prop) (hmono : ∀ a b, Q a → Q (step a b))
    {b0 : β} (hstep : ∀ a, Q (step a b0)) : ∀ (l : List β) (acc : α), b0 ∈ l → Q (l.foldl step acc) := by
  have keep : ∀ (l : List β) (acc : α), Q acc → Q (l.foldl step acc) := by
    intro l
    induction l with
    | nil => intro acc h; exact h
    | cons b l ih => intro acc h; exact ih _ (hmono acc b h)
  intro l
  induction l with
  | nil => intro acc h; cases h
  | cons b l ih =>
    intro acc h
    simp only [List.foldl_cons]
    rcases List.mem_cons.mp h with rfl | h
    · exact keep l _ (hstep acc)
    · exact ih _ h

/-- the shape of a successful `async_response` -/
theorem asyncResponse_eq {pkts : List Pkt} {us : Bool} {seen : SeenMap} {qa : QA} (h : asyncResponse pkts us seen = some qa) :
    ∃ first last, pkts.head? = some first ∧ pkts.getLast? = some last ∧
      qa = (List.foldl (fun (qr : QR) it => qr.route us (pkts.any (·.isProbe)) seen last.now first.nq first.q0type it.qu
              (answerSet (unionKnown pkts) it)) {} (pkts.flatMap (·.items))).answers := by
  unfold asyncResponse at h
  simp only at h
  split at h
  · cases h
  · cases hf : pkts.head? with
    | none => rw [hf] at h; cases h
    | some first =>
      cases hl : pkts.getLast? with
      | none => rw [hf, hl] at h; cases h
      | some last =>
        rw [hf, hl] at h
        simp only [Option.some.injEq] at h
        exact ⟨first, last, rfl, rfl, h.symm⟩

/-- **lifting**: whatever the routing step of a strategy `it` of one of the packets establishes about a record's membership in
the four sets — for *every* accumulated state — holds of the `QuestionAnswers` returned for the whole query -/
theorem asyncResponse_lift {pkts : List Pkt} {us : Bool} {seen : SeenMap} {qa : QA} (h : asyncResponse pkts us seen = some qa)
    {p : Pkt} (hp : p ∈ pkts) {it : QItem} (hit : it ∈ p.items) (r : RecId) (inU inN inA inL : Bool)
    (hstep : ∀ (first last : Pkt) (qr : QR), pkts.head? = some first → pkts.getLast? = some last →
      let qr' := qr.route us (pkts.any (·.isProbe)) seen last.now first.nq first.q0type it.qu (answerSet (unionKnown pkts) it)
      (inU = true → r ∈ qr'.ucast) ∧ (inN = true → r ∈ qr'.mcastNow) ∧ (inA = true → r ∈ qr'.mcastAgg) ∧ (inL = true → r ∈ qr'.mcastLast)) :
    (inU = true → r ∈ qa.ucast.keys) ∧ (inN = true → r ∈ qa.mcastNow.keys) ∧ (inA = true → r ∈ qa.mcastAgg.keys) ∧
    (inL = true → r ∈ qa.mcastLast.keys) := by
  obtain ⟨first, last, hf, hl, rfl⟩ := asyncResponse_eq h
  obtain ⟨k1, k2, k3, k4⟩ := answers_keys
    (List.foldl (fun (qr : QR) it => qr.route us (pkts.any (·.isProbe)) seen last.now first.nq first.q0type it.qu
      (answerSet (unionKnown pkts) it)) {} (pkts.flatMap (·.items)))
  rw [k1, k2, k3, k4]
  have hmem : it ∈ pkts.flatMap (·.items) := List.mem_flatMap.mpr ⟨p, hp, hit⟩
  exact foldl_establish
    (fun (qr : QR) it => qr.route us (pkts.any (·.isProbe)) seen last.now first.nq first.q0type it.qu (answerSet (unionKnown pkts) it))
    (fun qr => (inU = true → r ∈ qr.ucast) ∧ (inN = true → r ∈ qr.mcastNow) ∧ (inA = true → r ∈ qr.mcastAgg) ∧ (inL = true → r ∈ qr.mcastLast))
    (fun a b hq => by
      obtain ⟨m1, m2, m3, m4⟩ := route_mono us (pkts.any (·.isProbe)) seen last.now first.nq first.q0type a b.qu (answerSet (unionKnown pkts) b) r
      exact ⟨fun hh => m1 (hq.1 hh), fun hh => m2 (hq.2.1 hh), fun hh => m3 (hq.2.2.1 hh), fun hh => m4 (hq.2.2.2 hh)⟩)
    (fun a => hstep first last a hf hl) _ {} hmem

/-- every key of the answer set given to `route` lands in one of the four sets -/
theorem route_covers (us probe : Bool) (seen : SeenMap) (now : Int) (nq q0 : Nat) (qr : QR) (qu : Bool) (answers : Dict) (r : RecId)
    (hr : r ∈ answers.keys) : (qr.route us probe seen now nq q0 qu answers).mem r := by
  simp only [QR.route, QR.mem]
  split
  · obtain ⟨h1, h2, _, _⟩ := addQu_sets probe seen now answers qr r
    cases hw : withinQuarter (seen.get r) now
    · exact Or.inr (Or.inl (h2.mpr (Or.inr ⟨hr, hw⟩)))
    · exact Or.inl (h1.mpr (Or.inr ⟨hr, Or.inr hw⟩))
  · have key : ∀ q : QR, r ∈ (q.addMcast probe seen now nq q0 answers).mcastNow ∨ r ∈ (q.addMcast probe seen now nq q0 answers).mcastAgg ∨
        r ∈ (q.addMcast probe seen now nq q0 answers).mcastLast := by
      intro q
      obtain ⟨h1, h2, h3, _⟩ := addMcast_sets probe seen now nq q0 answers q r
      cases hroute : mcRoute probe (inLastSecond (seen.get r) now) nq q0
      · exact Or.inl (h1.mpr (Or.inr ⟨hr, hroute⟩))
      · exact Or.inr (Or.inr (h2.mpr (Or.inr ⟨hr, hroute⟩)))
      · exact Or.inr (Or.inl (h3.mpr (Or.inr ⟨hr, hroute⟩)))
    cases us
    · simp only [Bool.false_eq_true, if_false]; exact Or.inr (key qr)
    · simp only [if_true]; exact Or.inr (key _)

/-- `async_response` says something as soon as some packet has a strategy -/
theorem asyncResponse_isSome {pkts : List Pkt} (us : Bool) (seen : SeenMap) {p : Pkt} (hp : p ∈ pkts) {it : QItem} (hit : it ∈ p.items) :
    ∃ qa, asyncResponse pkts us seen = some qa := by
  unfold asyncResponse
  simp only
  have hne : (pkts.flatMap (·.items)).isEmpty = false := by
    cases hl : pkts.flatMap (·.items) with
    | nil => have : it ∈ pkts.flatMap (·.items) := List.mem_flatMap.mpr ⟨p, hp, hit⟩; rw [hl] at this; cases this
    | cons _ _ => rfl
  rw [hne]
  simp only [Bool.false_eq_true, if_false]
  cases pkts with
  | nil => cases hp
  | cons p0 ps =>
    have : ∃ l, (p0 :: ps).getLast? = some l := by
      cases hl : (p0 :: ps).getLast? with
      | none => simp at hl
      | some l => exact ⟨l, rfl⟩
    obtain ⟨l, hl⟩ := this
    rw [hl]
    exact ⟨_, rfl⟩

/-- legacy routing (`ucast_source` true) for the whole query: every unsuppressed candidate is unicast and in a multicast set -/
theorem query_legacy_us {pkts : List Pkt} {seen : SeenMap} {qa : QA} (h : asyncResponse pkts true seen = some qa)
    {p : Pkt} (hp : p ∈ pkts) {it : QItem} (hit : it ∈ p.items) (r : RecId) (hr : r ∈ (answerSet (unionKnown pkts) it).keys) :
    r ∈ qa.ucast.keys ∧ (r ∈ qa.mcastNow.keys ∨ r ∈ qa.mcastAgg.keys ∨ r ∈ qa.mcastLast.keys) := by
  obtain ⟨first, last, hf, hl, _⟩ := asyncResponse_eq h
  have step : ∀ (inN inA inL : Bool),
      (inN = true → mcRoute (pkts.any (·.isProbe)) (inLastSecond (seen.get r) last.now) first.nq first.q0type = .now) →
      (inA = true → mcRoute (pkts.any (·.isProbe)) (inLastSecond (seen.get r) last.now) first.nq first.q0type = .aggregate) →
      (inL = true → mcRoute (pkts.any (·.isProbe)) (inLastSecond (seen.get r) last.now) first.nq first.q0type = .lastSecond) →
      (true = true → r ∈ qa.ucast.keys) ∧ (inN = true → r ∈ qa.mcastNow.keys) ∧ (inA = true → r ∈ qa.mcastAgg.keys) ∧
        (inL = true → r ∈ qa.mcastLast.keys) := by
    intro inN inA inL hN hA hL
    apply asyncResponse_lift h hp hit r true inN inA inL
    intro f l qr hf' hl'
    rw [hf] at hf'; rw [hl] at hl'; cases hf'; cases hl'
    simp only [QR.route, GenFacts.route_qu_only, Bool.not_true, Bool.false_and, Bool.false_eq_true, if_false, if_true]
    obtain ⟨u1, _, _, _⟩ := addUcast_sets (answerSet (unionKnown pkts) it) qr r
    obtain ⟨h1, h2, h3, h4⟩ := addMcast_sets (pkts.any (·.isProbe)) seen last.now first.nq first.q0type
      (answerSet (unionKnown pkts) it) (qr.addUcast (answerSet (unionKnown pkts) it)) r
    exact ⟨fun _ => by rw [h4]; exact u1.mpr (Or.inr hr), fun hh => h1.mpr (Or.inr ⟨hr, hN hh⟩),
           fun hh => h3.mpr (Or.inr ⟨hr, hA hh⟩), fun hh => h2.mpr (Or.inr ⟨hr, hL hh⟩)⟩
  cases hroute : mcRoute (pkts.any (·.isProbe)) (inLastSecond (seen.get r) last.now) first.nq first.q0type
  · obtain ⟨a, b, _, _⟩ := step true false false (fun _ => hroute) (fun hh => nomatch hh) (fun hh => nomatch hh)
    exact ⟨a rfl, Or.inl (b rfl)⟩
  · obtain ⟨a, _, _, d⟩ := step false false true (fun hh => nomatch hh) (fun hh => nomatch hh) (fun _ => hroute)
    exact ⟨a rfl, Or.inr (Or.inr (d rfl))⟩
  · obtain ⟨a, _, c, _⟩ := step false true false (fun hh => nomatch hh) (fun _ => hroute) (fun hh => nomatch hh)
    exact ⟨a rfl, Or.inr (Or.inl (c rfl))⟩

/-- QU question, source port 5353 (`ucast_source` false), for the whole query -/
theorem query_qu_us {pkts : List Pkt} {seen : SeenMap} {qa : QA} (h : asyncResponse pkts false seen = some qa)
    {p : Pkt} (hp : p ∈ pkts) {it : QItem} (hit : it ∈ p.items) (hqu : it.qu = true)
    (r : RecId) (hr : r ∈ (answerSet (unionKnown pkts) it).keys) {last : Pkt} (hl : pkts.getLast? = some last) :
    (withinQuarter (seen.get r) last.now = true → r ∈ qa.ucast.keys) ∧
    (withinQuarter (seen.get r) last.now = false → r ∈ qa.mcastNow.keys) ∧
    (pkts.any (·.isProbe) = true → r ∈ qa.ucast.keys) := by
  have step : ∀ (inU inN : Bool),
      (inU = true → pkts.any (·.isProbe) = true ∨ withinQuarter (seen.get r) last.now = true) →
      (inN = true → withinQuarter (seen.get r) last.now = false) →
      (inU = true → r ∈ qa.ucast.keys) ∧ (inN = true → r ∈ qa.mcastNow.keys) := by
    intro inU inN hU hN
    obtain ⟨a, b, _, _⟩ := asyncResponse_lift h hp hit r inU inN false false (by
      intro f l qr _ hl'
      rw [hl] at hl'; cases hl'
      simp only [QR.route, hqu, GenFacts.route_qu_only, Bool.not_false, Bool.true_and, if_true]
      obtain ⟨h1, h2, _, _⟩ := addQu_sets (pkts.any (·.isProbe)) seen last.now (answerSet (unionKnown pkts) it) qr r
      exact ⟨fun hh => h1.mpr (Or.inr ⟨hr, hU hh⟩), fun hh => h2.mpr (Or.inr ⟨hr, hN hh⟩), (fun hh => nomatch hh), (fun hh => nomatch hh)⟩)
    exact ⟨a, b⟩
  refine ⟨fun hw => ?_, fun hw => ?_, fun hpr => ?_⟩
  · exact (step true false (fun _ => Or.inr hw) (fun hh => nomatch hh)).1 rfl
  · exact (step false true (fun hh => nomatch hh) (fun _ => hw)).2 rfl
  · exact (step true false (fun _ => Or.inl hpr) (fun hh => nomatch hh)).1 rfl

/-- completeness for the whole query: every unsuppressed candidate is in one of the four sets -/
theorem query_complete {pkts : List Pkt} {us : Bool} {seen : SeenMap} {qa : QA}
    (h : asyncResponse pkts us seen = some qa) {p : Pkt} (hp : p ∈ pkts) {it : QItem} (hit : it ∈ p.items)
    (r : RecId) (hr : r ∈ (answerSet (unionKnown pkts) it).keys) :
    r ∈ qa.ucast.keys ∨ r ∈ qa.mcastNow.keys ∨ r ∈ qa.mcastAgg.keys ∨ r ∈ qa.mcastLast.keys := by
  obtain ⟨first, last, _, _, rfl⟩ := asyncResponse_eq h
  obtain ⟨k1, k2, k3, k4⟩ := answers_keys
    (List.foldl (fun (qr : QR) it => qr.route us (pkts.any (·.isProbe)) seen last.now first.nq first.q0type it.qu
      (answerSet (unionKnown pkts) it)) {} (pkts.flatMap (·.items)))
  rw [k1, k2, k3, k4]
  exact foldl_establish
    (fun (qr : QR) it => qr.route us (pkts.any (·.isProbe)) seen last.now first.nq first.q0type it.qu (answerSet (unionKnown pkts) it))
    (fun qr => qr.mem r)
    (fun a b hq => by
      obtain ⟨m1, m2, m3, m4⟩ := route_mono us (pkts.any (·.isProbe)) seen last.now first.nq first.q0type a b.qu (answerSet (unionKnown pkts) b) r
      rcases hq with hq | hq | hq | hq
      · exact Or.inl (m1 hq)
      · exact Or.inr (Or.inl (m2 hq))
      · exact Or.inr (Or.inr (Or.inl (m3 hq)))
      · exact Or.inr (Or.inr (Or.inr (m4 hq))))
    (fun a => route_covers us _ seen last.now first.nq first.q0type a it.qu _ r hr) _ {} (List.mem_flatMap.mpr ⟨p, hp, hit⟩)

/-- a candidate that the known answers cannot or do not suppress is a key of the strategy's answer set -/
theorem answerSet_has (known : List (RecId × Nat)) (it : QItem) (c : Cand) (hc : c ∈ it.cands) (hs : suppresses known c = false) :
    c.id ∈ (answerSet known it).keys := by
  unfold answerSet
  have keep : ∀ (l : List Cand) (d : Dict), c.id ∈ d.keys → c.id ∈ (l.foldl (fun d c => d.set c.id c.adds) d).keys := by
    intro l
    induction l with
    | nil => intro d h; exact h
    | cons y l ih2 => intro d h; exact ih2 _ ((Dict.keys_set _ _ _ _).mpr (Or.inl h))
  have key : ∀ (l : List Cand) (d : Dict), c ∈ l → c.id ∈ (l.foldl (fun d c => d.set c.id c.adds) d).keys := by
    intro l
    induction l with
    | nil => intro d h; cases h
    | cons x l ih =>
      intro d h
      simp only [List.foldl_cons]
      rcases List.mem_cons.mp h with rfl | h
      · exact keep l _ ((Dict.keys_set _ _ _ _).mpr (Or.inr rfl))
      · exact ih _ h
  exact key _ _ (List.mem_filter.mpr ⟨hc, by simp [hs]⟩)

end Zc.Reply
