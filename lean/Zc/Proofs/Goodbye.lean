import Zc.Model.Goodbye
import Zc.GenFacts.Goodbye
import Zc.GenFacts.Register
import Zc.Props.C20
/-! Helper lemmas for C08: the queues never gain a withdrawn record, and the invariant `Clean`. -/
namespace Zc.Goodbye
open Zc Zc.Register Zc.GenFacts.Goodbye

variable (lower : String → String)

/-- unregistering removes the entry of that name, whichever object is passed -/
theorem unregRemove_eq (reg : List Entry) (s : Svc) (oid : Nat) : unregRemove lower reg s oid = regRemove lower reg (key lower s) := by
  simp [unregRemove, remove_by_key.1, remove_by_key.2]

/-- a dict entry none of whose records is (identical to) a record of `W` -/
def EClean (W : List Rec) (e : Rec × List Rec) : Prop := hits lower W e.1 = false ∧ ∀ a ∈ e.2, hits lower W a = false
def DClean (W : List Rec) (d : List (Rec × List Rec)) : Prop := ∀ e ∈ d, EClean lower W e
def QClean (W : List Rec) (q : List Group) : Prop := ∀ g ∈ q, DClean lower W g.answers

/-- no record of the datagram is a record of `W` with a non-zero TTL -/
def PktClean (W : List Rec) (p : Pkt) : Prop :=
  ∀ r ∈ p.answers ++ p.authorities ++ p.additionals, r.ttl = 0 ∨ hits lower W r = false

theorem dictSet_clean (W : List Rec) (d : List (Rec × List Rec)) (k : Rec) (v : List Rec)
    (hd : DClean lower W d) (he : EClean lower W (k, v)) : DClean lower W (dictSet lower d k v) := by
  unfold dictSet
  split
  · intro e hm
    rw [List.mem_map] at hm
    obtain ⟨e0, h0, rfl⟩ := hm
    split
    · exact ⟨(hd e0 h0).1, he.2⟩
    · exact hd e0 h0
  · intro e hm
    rw [List.mem_append] at hm
    rcases hm with hm | hm
    · exact hd e hm
    · simp at hm; subst hm; exact he

theorem dictUpdate_clean (W : List Rec) : ∀ (new d : List (Rec × List Rec)),
    DClean lower W d → DClean lower W new → DClean lower W (dictUpdate lower d new) := by
  intro new
  induction new with
  | nil => intro d hd _; simpa [dictUpdate] using hd
  | cons e rest ih =>
    intro d hd hn
    simp only [dictUpdate, List.foldl_cons]
    exact ih _ (dictSet_clean lower W d e.1 e.2 hd (hn e (by simp))) (fun x hx => hn x (by simp [hx]))

theorem qadd_clean (W : List Rec) (addl agg : Nat) (q : List Group) (now : Int) (draw : Nat) (answers : List (Rec × List Rec))
    (hq : QClean lower W q) (ha : DClean lower W answers) : QClean lower W (qadd lower addl agg q now draw answers) := by
  unfold qadd
  simp only
  split
  · rename_i last hl
    have hlm : last ∈ q := List.mem_of_getLast? hl
    split
    · intro g hg
      rw [List.mem_append] at hg
      rcases hg with hg | hg
      · exact hq g (List.dropLast_subset _ hg)
      · simp at hg; subst hg
        exact dictUpdate_clean lower W _ _ (hq last hlm) ha
    · intro g hg
      rw [List.mem_append] at hg
      rcases hg with hg | hg
      · exact hq g hg
      · simp at hg; subst hg; exact ha
  · intro g hg
    simp at hg; subst hg; exact ha

theorem qpurge_mono (W W' : List Rec) (q : List Group) (hq : QClean lower W' q) : QClean lower W' (qpurge lower W q) := by
  intro g hg
  simp only [qpurge, List.mem_map] at hg
  obtain ⟨g0, h0, rfl⟩ := hg
  intro e he
  simp only [List.mem_filterMap] at he
  obtain ⟨e0, h1, h2⟩ := he
  split at h2
  · simp at h2
  · simp only [Option.some.injEq] at h2
    subst h2
    have := hq g0 h0 e0 h1
    exact ⟨this.1, fun a ha => this.2 a (List.mem_filter.1 ha).1⟩

theorem qpurge_clean (W : List Rec) (q : List Group) : QClean lower W (qpurge lower W q) := by
  intro g hg
  simp only [qpurge, List.mem_map] at hg
  obtain ⟨g0, h0, rfl⟩ := hg
  intro e he
  simp only [List.mem_filterMap] at he
  obtain ⟨e0, h1, h2⟩ := he
  split at h2
  · simp at h2
  · rename_i hk
    simp only [Option.some.injEq] at h2
    subst h2
    refine ⟨by simpa using hk, fun a ha => ?_⟩
    have := (List.mem_filter.1 ha).2
    simpa using this

theorem popReady_sub (now : Int) : ∀ (q : List Group), (∀ g ∈ (popReady now q).1, g ∈ q) ∧ (∀ g ∈ (popReady now q).2, g ∈ q) := by
  intro q
  induction q with
  | nil => simp [popReady]
  | cons g rest ih =>
    unfold popReady
    split
    · simp only
      constructor
      · intro x hx
        simp at hx
        rcases hx with rfl | hx
        · simp
        · exact List.mem_cons_of_mem _ (ih.1 x hx)
      · intro x hx
        exact List.mem_cons_of_mem _ (ih.2 x hx)
    · simp

theorem foldl_update_clean (W : List Rec) : ∀ (gs : List Group) (acc : List (Rec × List Rec)),
    DClean lower W acc → (∀ g ∈ gs, DClean lower W g.answers) →
    DClean lower W (gs.foldl (fun acc g => dictUpdate lower acc g.answers) acc) := by
  intro gs
  induction gs with
  | nil => intro acc h _; simpa using h
  | cons g rest ih =>
    intro acc h hg
    simp only [List.foldl_cons]
    exact ih _ (dictUpdate_clean lower W _ _ h (hg g (by simp))) (fun x hx => hg x (by simp [hx]))

theorem qremoveKeys_clean (W keys : List Rec) (q : List Group) (hq : QClean lower W q) : QClean lower W (qremoveKeys lower keys q) := by
  intro g hg
  simp only [qremoveKeys, List.mem_map] at hg
  obtain ⟨g0, h0, rfl⟩ := hg
  intro e he
  exact hq g0 h0 e (List.mem_filter.1 he).1

theorem foldl_adds_mem (keys : List Rec) : ∀ (l acc : List Rec) (a : Rec),
    a ∈ l.foldl (fun acc a => if hits lower keys a || hits lower acc a then acc else acc ++ [a]) acc → a ∈ acc ∨ a ∈ l := by
  intro l
  induction l with
  | nil => intro acc a h; left; simpa using h
  | cons x rest ih =>
    intro acc a h
    simp only [List.foldl_cons] at h
    have := ih _ a h
    rcases this with h1 | h1
    · split at h1
      · left; exact h1
      · rw [List.mem_append] at h1
        rcases h1 with h1 | h1
        · left; exact h1
        · right; simp at h1; simp [h1]
    · right; simp [h1]

theorem answersPkt_clean (W : List Rec) (d : List (Rec × List Rec)) (hd : DClean lower W d) : PktClean lower W (answersPkt lower d) := by
  intro r hr
  right
  simp only [answersPkt, List.append_nil, List.mem_append] at hr
  rcases hr with hr | hr
  · rw [List.mem_map] at hr
    obtain ⟨e, he, rfl⟩ := hr
    exact (hd e he).1
  · have := foldl_adds_mem lower _ _ _ _ hr
    rcases this with h | h
    · simp at h
    · rw [List.mem_flatMap] at h
      obtain ⟨e, he, hre⟩ := h
      have hem : e ∈ d := (List.mem_mergeSort.1 he)
      exact (hd e hem).2 r hre

theorem qready_clean (W : List Rec) (q : List Group) (now : Int) (hq : QClean lower W q) :
    QClean lower W (qready lower q now).1 ∧ ∀ p, (qready lower q now).2 = some p → PktClean lower W p := by
  have core : ∀ (q : List Group), QClean lower W q →
      let r := (let (ready, rest) := popReady now q
                let d := ready.foldl (fun (acc : List (Rec × List Rec)) (g : Group) => dictUpdate lower acc g.answers) []
                if d.isEmpty then (rest, (none : Option Pkt)) else (qremoveKeys lower (d.map (fun (e : Rec × List Rec) => e.1)) rest, some (answersPkt lower d)))
      QClean lower W r.1 ∧ ∀ p, r.2 = some p → PktClean lower W p := by
    intro q hq
    have hs := popReady_sub now q
    generalize popReady now q = pr at hs
    obtain ⟨ready, rest⟩ := pr
    simp only at hs ⊢
    have hd : DClean lower W (ready.foldl (fun acc g => dictUpdate lower acc g.answers) []) :=
      foldl_update_clean lower W ready [] (by intro e he; simp at he) (fun g hg => hq g (hs.1 g hg))
    have hrest : QClean lower W rest := fun g hg => hq g (hs.2 g hg)
    split
    · exact ⟨hrest, by simp⟩
    · refine ⟨qremoveKeys_clean lower W _ _ hrest, ?_⟩
      intro p hp
      simp only [Option.some.injEq] at hp
      subst hp
      exact answersPkt_clean lower W _ hd
  unfold qready
  split
  · split
    · exact ⟨hq, by simp⟩
    · exact core _ hq
  · exact core _ hq

/-! ### the invariant -/

/-- the service defines a record of `W` -/
def owns (W : List Rec) (s : Svc) : Prop := ∃ r ∈ recs s, hits lower W r = true

/-- nothing in the host can put a record of `W` on the wire with a non-zero TTL any more -/
structure Clean (W : List Rec) (h : Host) : Prop where
  outq : QClean lower W h.outq
  delayq : QClean lower W h.delayq
  tasks : ∀ t ∈ h.tasks, t.ttl = some 0 ∨ (t.ttl = none ∧ (owns lower W t.svc → registeredAs lower h.reg t.svc t.oid = false))
  reg : ∀ e ∈ h.reg, ¬ owns lower W e.svc
  closing : ∀ a ∈ h.closing, ∀ r ∈ a.answers, r.ttl = 0

theorem addrNsec_ttl0 (s : Svc) : ∀ r ∈ s.addrNsec (some 0), r.ttl = 0 := by
  intro r hr
  unfold Svc.addrNsec Svc.addrs at hr
  rw [List.mem_append, List.mem_append] at hr
  rcases hr with (hr | hr) | hr
  · rw [List.mem_map] at hr; obtain ⟨_, _, rfl⟩ := hr; simp [mkRec, ttlOf]
  · rw [List.mem_map] at hr; obtain ⟨_, _, rfl⟩ := hr; simp [mkRec, ttlOf]
  · split at hr
    · simp at hr
    · simp at hr; subst hr; simp [Svc.nsec, mkRec, ttlOf]

theorem broadcast_ttl0 (s : Svc) (b : Bool) : ∀ r ∈ broadcastAnswers s (some 0) b, r.ttl = 0 := by
  intro r hr
  unfold broadcastAnswers at hr
  rw [List.mem_append] at hr
  rcases hr with hr | hr
  · simp at hr
    rcases hr with rfl | rfl | rfl
    · simp [Svc.ptr, mkRec, ttlOf]
    · simp [Svc.srv, mkRec, ttlOf]
    · simp [Svc.txt, mkRec, ttlOf]
  · split at hr
    · exact addrNsec_ttl0 s r hr
    · simp at hr

theorem broadcast_sub_recs (s : Svc) (b : Bool) : ∀ r ∈ broadcastAnswers s none b, r ∈ recs s := by
  intro r hr
  simp only [broadcastAnswers, recs, List.mem_append] at hr ⊢
  rcases hr with hr | hr
  · exact Or.inl hr
  · split at hr
    · exact Or.inr hr
    · simp at hr

theorem hits_unique (W : List Rec) (x : Rec) (u : Bool) : hits lower W { x with unique := u } = hits lower W x := by
  unfold hits
  congr 1
  funext w
  have := (C20_ignores_ttl_created_unique lower x w x.ttl x.created u).2
  simpa using this

theorem live_not_hit (W : List Rec) (reg : List Entry) (hreg : ∀ e ∈ reg, ¬ owns lower W e.svc) (r : Rec)
    (hl : live reg r = true) : hits lower W r = false := by
  unfold live at hl
  rw [List.any_eq_true] at hl
  obtain ⟨e, he, hx⟩ := hl
  rw [List.any_eq_true] at hx
  obtain ⟨x, hxm, hxe⟩ := hx
  have hxe' : { x with unique := r.unique } = r := by simpa using hxe
  rw [← hxe', hits_unique]
  by_cases hh : hits lower W x = true
  · exact absurd ⟨x, hxm, hh⟩ (hreg e he)
  · simpa using hh

theorem emit_mem (h : Host) (p q : Pkt) (hq : q ∈ emit h p) : q = p := by
  unfold emit at hq
  split at hq <;> simp at hq
  exact hq

theorem dropTask_sub (oid : Nat) (ttl : Option Nat) (ad : Bool) (due : Int) : ∀ (tasks : List Task) (t : Task),
    t ∈ dropTask tasks oid ttl ad due → t ∈ tasks := by
  intro tasks
  induction tasks with
  | nil => intro t h; simp [dropTask] at h
  | cons x rest ih =>
    intro t h
    unfold dropTask at h
    split at h
    · exact List.mem_cons_of_mem _ h
    · simp at h
      rcases h with rfl | h
      · simp
      · exact List.mem_cons_of_mem _ (ih t h)

theorem dropAll_sub (due : Int) : ∀ (l : List AllTask) (a : AllTask), a ∈ dropAll l due → a ∈ l := by
  intro l
  induction l with
  | nil => intro a h; simp [dropAll] at h
  | cons x rest ih =>
    intro a h
    unfold dropAll at h
    split at h
    · exact List.mem_cons_of_mem _ h
    · simp at h
      rcases h with rfl | h
      · simp
      · exact List.mem_cons_of_mem _ (ih a h)

/-- `regGet` after an entry with another key was removed or a new entry was appended -/
theorem regGet_remove_ne (reg : List Entry) (k k' : String) (hne : k' ≠ k) :
    regGet lower (regRemove lower reg k) k' = regGet lower reg k' := by
  unfold regGet regRemove
  induction reg with
  | nil => rfl
  | cons e rest ih =>
    by_cases hk : key lower e.svc = k
    · have h1 : (!(key lower e.svc == k)) = false := by simp [hk]
      have h2 : (key lower e.svc == k') = false := by
        rw [hk]; simpa using fun h => hne h.symm
      rw [List.filter_cons_of_neg (by simp [h1]), List.find?_cons_of_neg (by simp [h2])]
      exact ih
    · have h1 : (!(key lower e.svc == k)) = true := by simp [hk]
      rw [List.filter_cons_of_pos (p := fun (e : Entry) => !(key lower e.svc == k)) (by simpa using h1)]
      by_cases hk' : key lower e.svc = k'
      · have h2 : (key lower e.svc == k') = true := by simp [hk']
        simp only [List.find?_cons, h2]
      · have h2 : (key lower e.svc == k') = false := by simp [hk']
        simp only [List.find?_cons, h2]
        exact ih

theorem regGet_remove_eq (reg : List Entry) (k : String) : regGet lower (regRemove lower reg k) k = none := by
  unfold regGet regRemove
  rw [List.find?_eq_none]
  intro e he
  have := (List.mem_filter.1 he).2
  simpa using this

/-- a datagram of a task step is clean -/
theorem task_step_clean (W : List Rec) (reg : List Entry) (t : Task)
    (ht : t.ttl = some 0 ∨ (t.ttl = none ∧ (owns lower W t.svc → registeredAs lower reg t.svc t.oid = false)))
    (p : Pkt) (hp : (t.step (registeredAs lower reg t.svc t.oid)).2 = some p) : PktClean lower W p := by
  unfold Task.step at hp
  rw [announce_stops_eq] at hp
  split at hp
  · simp at hp
  · rename_i hstop
    have hp' : p = broadcastPkt t.svc t.ttl t.addresses := by
      split at hp <;> simp at hp <;> exact hp.symm
    subst hp'
    intro r hr
    simp only [broadcastPkt, List.append_nil] at hr
    rcases ht with h0 | ⟨hn, hown⟩
    · left
      rw [h0] at hr
      exact broadcast_ttl0 t.svc t.addresses r hr
    · right
      rw [hn] at hr
      have hrm := broadcast_sub_recs t.svc t.addresses r hr
      have hreg : registeredAs lower reg t.svc t.oid = true := by
        simp [hn] at hstop
        simpa using hstop
      by_cases hh : hits lower W r = true
      · have := hown ⟨r, hrm, hh⟩
        rw [hreg] at this
        simp at this
      · simpa using hh

theorem registeredAs_append (reg : List Entry) (s' : Svc) (oid' : Nat) (ts : Svc) (oid : Nat)
    (h : registeredAs lower (reg ++ [⟨s', oid'⟩]) ts oid = true) :
    registeredAs lower reg ts oid = true ∨ (key lower s' = key lower ts ∧ oid' = oid) := by
  unfold registeredAs regGet at h ⊢
  rw [List.find?_append] at h
  cases hf : List.find? (fun e => key lower e.svc == key lower ts) reg with
  | some e => left; simpa [hf] using h
  | none =>
    right
    simp only [hf, Option.none_or, List.find?_cons, List.find?_nil] at h
    by_cases hk : key lower s' = key lower ts
    · have hb : (key lower s' == key lower ts) = true := by simpa using hk
      simp only [hb] at h
      exact ⟨hk, by simpa using h⟩
    · have hb : (key lower s' == key lower ts) = false := by simpa using hk
      simp only [hb] at h
      simp at h

theorem registeredAs_remove (reg : List Entry) (k : String) (ts : Svc) (oid : Nat)
    (h : registeredAs lower (regRemove lower reg k) ts oid = true) : registeredAs lower reg ts oid = true := by
  unfold registeredAs at h ⊢
  by_cases hk : key lower ts = k
  · rw [hk, regGet_remove_eq] at h
    simp at h
  · rw [regGet_remove_ne lower reg k _ hk] at h
    exact h

theorem regRemove_sub (reg : List Entry) (k : String) (e : Entry) (h : e ∈ regRemove lower reg k) : e ∈ reg :=
  (List.mem_filter.1 h).1

/-- the continuation of a task keeps service, identity and TTL override -/
theorem task_step_cont (t t' : Task) (b : Bool) (h : (t.step b).1 = some t') : t'.svc = t.svc ∧ t'.oid = t.oid ∧ t'.ttl = t.ttl := by
  unfold Task.step at h
  split at h
  · simp at h
  · split at h
    · simp at h; subst h; simp
    · simp at h

/-- a block that (re-)registers a service defining a record of `W`: the obligation "never again" ends there -/
def reRegisters (W : List Rec) : Block → Prop
  | .register s _ _ => owns lower W s
  | .update s _ _ => owns lower W s
  | _ => False

theorem allPkt_ttl0 (W : List Rec) (answers : List Rec) (h : ∀ r ∈ answers, r.ttl = 0) : PktClean lower W (allPkt answers) := by
  intro r hr
  simp only [allPkt, List.append_nil] at hr
  exact Or.inl (h r hr)

theorem step_clean (W : List Rec) (h h' : Host) (b : Block) (out : List Pkt) (hc : Clean lower W h)
    (hb : ¬ reRegisters lower W b) (hs : h.step lower b = some (h', out)) :
    Clean lower W h' ∧ ∀ p ∈ out, PktClean lower W p := by
  cases b with
  | register s oid now =>
    simp only [Host.step] at hs
    split at hs
    · simp at hs
    split at hs
    · simp at hs
    rename_i hmut
    simp only [Option.some.injEq, Prod.mk.injEq] at hs
    obtain ⟨rfl, rfl⟩ := hs
    have hb' : ¬ owns lower W s := hb
    refine ⟨⟨hc.outq, hc.delayq, ?_, ?_, hc.closing⟩, by simp⟩
    · intro t ht
      simp only [List.mem_append, List.mem_singleton] at ht
      rcases ht with ht | rfl
      · rcases hc.tasks t ht with h0 | ⟨hn, hown⟩
        · exact Or.inl h0
        · refine Or.inr ⟨hn, fun ho => ?_⟩
          by_cases hr : registeredAs lower (h.reg ++ [⟨s, oid⟩]) t.svc t.oid = true
          · rcases registeredAs_append lower _ _ _ _ _ hr with h1 | ⟨_, h2⟩
            · rw [hown ho] at h1; simp at h1
            · exfalso
              have hts : t.svc = s := by
                by_cases hne : t.svc = s
                · exact hne
                · exfalso
                  apply hmut
                  rw [List.any_eq_true]
                  exact ⟨t, ht, by simp [h2, hne]⟩
              exact hb' (hts ▸ ho)
          · simpa using hr
      · exact Or.inr ⟨rfl, fun ho => absurd ho hb'⟩
    · intro e he
      simp only [List.mem_append, List.mem_singleton] at he
      rcases he with he | rfl
      · exact hc.reg e he
      · exact hb'
  | update s oid now =>
    simp only [Host.step] at hs
    split at hs
    · simp at hs
    rename_i hmut
    simp only [Option.some.injEq, Prod.mk.injEq] at hs
    obtain ⟨rfl, rfl⟩ := hs
    have hb' : ¬ owns lower W s := hb
    refine ⟨⟨hc.outq, hc.delayq, ?_, ?_, hc.closing⟩, by simp⟩
    · intro t ht
      simp only [List.mem_append, List.mem_singleton] at ht
      rcases ht with ht | rfl
      · rcases hc.tasks t ht with h0 | ⟨hn, hown⟩
        · exact Or.inl h0
        · refine Or.inr ⟨hn, fun ho => ?_⟩
          by_cases hr : registeredAs lower (regRemove lower h.reg (key lower s) ++ [⟨s, oid⟩]) t.svc t.oid = true
          · rcases registeredAs_append lower _ _ _ _ _ hr with h1 | ⟨_, h2⟩
            · have := registeredAs_remove lower _ _ _ _ h1
              rw [hown ho] at this; simp at this
            · exfalso
              have hts : t.svc = s := by
                by_cases hne : t.svc = s
                · exact hne
                · exfalso
                  apply hmut
                  rw [List.any_eq_true]
                  exact ⟨t, ht, by simp [h2, hne]⟩
              exact hb' (hts ▸ ho)
          · simpa using hr
      · exact Or.inr ⟨rfl, fun ho => absurd ho hb'⟩
    · intro e he
      simp only [List.mem_append, List.mem_singleton] at he
      rcases he with he | rfl
      · exact hc.reg e (regRemove_sub lower _ _ _ he)
      · exact hb'
  | unregister s oid now =>
    simp only [Host.step, unregRemove_eq, unregister_purges, if_true, Option.some.injEq, Prod.mk.injEq] at hs
    obtain ⟨rfl, rfl⟩ := hs
    refine ⟨⟨qpurge_mono lower _ W _ hc.outq, qpurge_mono lower _ W _ hc.delayq, ?_, ?_, hc.closing⟩, by simp⟩
    · intro t ht
      simp only [List.mem_append, List.mem_singleton] at ht
      rcases ht with ht | rfl
      · rcases hc.tasks t ht with h0 | ⟨hn, hown⟩
        · exact Or.inl h0
        · refine Or.inr ⟨hn, fun ho => ?_⟩
          by_cases hr : registeredAs lower (regRemove lower h.reg (key lower s)) t.svc t.oid = true
          · have := registeredAs_remove lower _ _ _ _ hr
            rw [hown ho] at this; simp at this
          · simpa using hr
      · exact Or.inl rfl
    · intro e he
      exact hc.reg e (regRemove_sub lower _ _ _ he)
  | task oid ttl ad due =>
    simp only [Host.step] at hs
    split at hs
    · simp at hs
    rename_i t hf
    have htm : t ∈ h.tasks := List.mem_of_find?_eq_some hf
    have htc := hc.tasks t htm
    generalize hst : t.step (registeredAs lower h.reg t.svc t.oid) = st at hs
    obtain ⟨t', p⟩ := st
    simp only [Option.some.injEq, Prod.mk.injEq] at hs
    obtain ⟨rfl, rfl⟩ := hs
    refine ⟨⟨hc.outq, hc.delayq, ?_, hc.reg, hc.closing⟩, ?_⟩
    · intro x hx
      have hcont : ∀ t'', t' = some t'' → x = t'' →
          x.ttl = some 0 ∨ (x.ttl = none ∧ (owns lower W x.svc → registeredAs lower h.reg x.svc x.oid = false)) := by
        intro t'' h1 h2
        have := task_step_cont t t'' _ (by rw [hst]; exact h1)
        subst h2
        rw [this.1, this.2.1, this.2.2]
        exact htc
      cases t' with
      | none => exact hc.tasks x (dropTask_sub _ _ _ _ _ x hx)
      | some t'' =>
        simp only [List.mem_append, List.mem_singleton] at hx
        rcases hx with hx | hx
        · exact hc.tasks x (dropTask_sub _ _ _ _ _ x hx)
        · exact hcont t'' rfl hx
    · intro q hq
      cases p with
      | none => simp at hq
      | some p =>
        have := emit_mem _ _ _ hq
        subst this
        exact task_step_clean lower W h.reg t htc q (by rw [hst])
  | answer rs =>
    simp only [Host.step] at hs
    split at hs
    · rename_i hl
      simp only [Option.some.injEq, Prod.mk.injEq] at hs
      obtain ⟨rfl, rfl⟩ := hs
      refine ⟨hc, ?_⟩
      intro q hq
      have := emit_mem _ _ _ hq
      subst this
      intro r hr
      simp only [List.append_nil] at hr
      right
      rw [List.all_eq_true] at hl
      exact live_not_hit lower W h.reg hc.reg r (hl r hr)
    · simp at hs
  | enqueue delayed now draw answers =>
    simp only [Host.step] at hs
    split at hs
    · rename_i hl
      rw [List.all_eq_true] at hl
      have hd : DClean lower W answers := by
        intro e he
        have := hl e he
        simp only [Bool.and_eq_true, List.all_eq_true] at this
        exact ⟨live_not_hit lower W h.reg hc.reg _ this.1, fun a ha => live_not_hit lower W h.reg hc.reg _ (this.2 a ha)⟩
      split at hs
      · simp only [Option.some.injEq, Prod.mk.injEq] at hs
        obtain ⟨rfl, rfl⟩ := hs
        exact ⟨⟨hc.outq, qadd_clean lower W _ _ _ _ _ _ hc.delayq hd, hc.tasks, hc.reg, hc.closing⟩, by simp⟩
      · simp only [Option.some.injEq, Prod.mk.injEq] at hs
        obtain ⟨rfl, rfl⟩ := hs
        exact ⟨⟨qadd_clean lower W _ _ _ _ _ _ hc.outq hd, hc.delayq, hc.tasks, hc.reg, hc.closing⟩, by simp⟩
    · simp at hs
  | ready delayed now =>
    simp only [Host.step] at hs
    split at hs
    · have hq := qready_clean lower W h.delayq now hc.delayq
      generalize qready lower h.delayq now = r at hs hq
      obtain ⟨q, p⟩ := r
      simp only [Option.some.injEq, Prod.mk.injEq] at hs
      obtain ⟨rfl, rfl⟩ := hs
      refine ⟨⟨hc.outq, hq.1, hc.tasks, hc.reg, hc.closing⟩, ?_⟩
      intro x hx
      cases p with
      | none => simp at hx
      | some p => have := emit_mem _ _ _ hx; subst this; exact hq.2 _ rfl
    · have hq := qready_clean lower W h.outq now hc.outq
      generalize qready lower h.outq now = r at hs hq
      obtain ⟨q, p⟩ := r
      simp only [Option.some.injEq, Prod.mk.injEq] at hs
      obtain ⟨rfl, rfl⟩ := hs
      refine ⟨⟨hq.1, hc.delayq, hc.tasks, hc.reg, hc.closing⟩, ?_⟩
      intro x hx
      cases p with
      | none => simp at hx
      | some p => have := emit_mem _ _ _ hx; subst this; exact hq.2 _ rfl
  | unregisterAll now =>
    simp only [Host.step, unregister_all_purges, if_true] at hs
    split at hs
    · simp only [Option.some.injEq, Prod.mk.injEq] at hs
      obtain ⟨rfl, rfl⟩ := hs
      exact ⟨hc, by simp⟩
    · simp only [Option.some.injEq, Prod.mk.injEq] at hs
      obtain ⟨rfl, rfl⟩ := hs
      have h0 : ∀ r ∈ h.reg.flatMap (fun e => broadcastAnswers e.svc (some 0) true), r.ttl = 0 := by
        intro r hr
        rw [List.mem_flatMap] at hr
        obtain ⟨e, _, hre⟩ := hr
        exact broadcast_ttl0 e.svc true r hre
      refine ⟨⟨qpurge_mono lower _ W _ hc.outq, qpurge_mono lower _ W _ hc.delayq, ?_, by simp, ?_⟩, ?_⟩
      · intro t ht
        rcases hc.tasks t ht with h1 | ⟨hn, _⟩
        · exact Or.inl h1
        · exact Or.inr ⟨hn, fun _ => by simp [registeredAs, regGet]⟩
      · intro a ha
        simp only [List.mem_append, List.mem_singleton] at ha
        rcases ha with ha | rfl
        · exact hc.closing a ha
        · exact h0
      · intro q hq
        have := emit_mem _ _ _ hq
        subst this
        exact allPkt_ttl0 lower W _ h0
  | allStep due =>
    simp only [Host.step] at hs
    split at hs
    · simp at hs
    rename_i a hf
    have ham : a ∈ h.closing := List.mem_of_find?_eq_some hf
    simp only [Option.some.injEq, Prod.mk.injEq] at hs
    obtain ⟨rfl, rfl⟩ := hs
    refine ⟨⟨hc.outq, hc.delayq, hc.tasks, hc.reg, ?_⟩, ?_⟩
    · intro x hx
      split at hx
      · simp only [List.mem_append, List.mem_singleton] at hx
        rcases hx with hx | rfl
        · exact hc.closing x (dropAll_sub _ _ x hx)
        · exact hc.closing a ham
      · exact hc.closing x (dropAll_sub _ _ x hx)
    · intro q hq
      have := emit_mem _ _ _ hq
      subst this
      exact allPkt_ttl0 lower W _ (hc.closing a ham)
  | close =>
    simp only [Host.step, unregRemove_eq, Option.some.injEq, Prod.mk.injEq] at hs
    obtain ⟨rfl, rfl⟩ := hs
    exact ⟨⟨hc.outq, hc.delayq, hc.tasks, hc.reg, hc.closing⟩, by simp⟩

theorem run_clean (W : List Rec) : ∀ (bs : List Block) (h h' : Host) (out : List Pkt), Clean lower W h →
    (∀ b ∈ bs, ¬ reRegisters lower W b) → h.run lower bs = some (h', out) →
    Clean lower W h' ∧ ∀ p ∈ out, PktClean lower W p := by
  intro bs
  induction bs with
  | nil =>
    intro h h' out hc _ hr
    simp only [Host.run, Option.some.injEq, Prod.mk.injEq] at hr
    obtain ⟨rfl, rfl⟩ := hr
    exact ⟨hc, by simp⟩
  | cons b bs ih =>
    intro h h' out hc hb hr
    simp only [Host.run] at hr
    split at hr
    · simp at hr
    rename_i h1 out1 hs
    split at hr
    · simp at hr
    rename_i h2 out2 hr2
    simp only [Option.some.injEq, Prod.mk.injEq] at hr
    obtain ⟨rfl, rfl⟩ := hr
    have s1 := step_clean lower W h h1 b out1 hc (hb b (by simp)) hs
    have s2 := ih h1 h2 out2 s1.1 (fun x hx => hb x (by simp [hx])) hr2
    refine ⟨s2.1, ?_⟩
    intro p hp
    rw [List.mem_append] at hp
    rcases hp with hp | hp
    · exact s1.2 p hp
    · exact s2.2 p hp

/-! ### well-formedness of reachable hosts -/

/-- invariants of every host reachable from `Host.init`: broadcast tasks either announce (no TTL override) or say goodbye
(TTL 0); a task and a registry entry for the same name and the same info object describe the same service; the close
sequences only carry TTL 0 -/
structure WF (h : Host) : Prop where
  ttl : ∀ t ∈ h.tasks, t.ttl = none ∨ t.ttl = some 0
  coherent : ∀ t ∈ h.tasks, ∀ e ∈ h.reg, key lower e.svc = key lower t.svc → e.oid = t.oid → e.svc = t.svc
  closing : ∀ a ∈ h.closing, ∀ r ∈ a.answers, r.ttl = 0

theorem wf_init : WF lower Host.init := ⟨by simp [Host.init], by simp [Host.init], by simp [Host.init]⟩

theorem wf_step (h h' : Host) (b : Block) (out : List Pkt) (hw : WF lower h) (hs : h.step lower b = some (h', out)) : WF lower h' := by
  cases b with
  | register s oid now =>
    simp only [Host.step] at hs
    split at hs
    · simp at hs
    rename_i hkey
    split at hs
    · simp at hs
    rename_i hmut
    simp only [Option.some.injEq, Prod.mk.injEq] at hs
    obtain ⟨rfl, _⟩ := hs
    have hnone : regGet lower h.reg (key lower s) = none := by simpa using hkey
    refine ⟨?_, ?_, hw.closing⟩
    · intro t ht
      simp only [List.mem_append, List.mem_singleton] at ht
      rcases ht with ht | rfl
      · exact hw.ttl t ht
      · exact Or.inl rfl
    · intro t ht e he hk ho
      simp only [List.mem_append, List.mem_singleton] at ht he
      rcases he with he | rfl
      · rcases ht with ht | rfl
        · exact hw.coherent t ht e he hk ho
        · -- an old entry with the key of the new service: excluded by the duplicate test
          exfalso
          unfold regGet at hnone
          rw [List.find?_eq_none] at hnone
          have := hnone e he
          simp only [announceTask] at hk
          simp [hk] at this
      · rcases ht with ht | rfl
        · by_cases hne : t.svc = s
          · exact hne.symm
          · exfalso
            apply hmut
            rw [List.any_eq_true]
            exact ⟨t, ht, by simp [← ho, hne]⟩
        · rfl
  | update s oid now =>
    simp only [Host.step] at hs
    split at hs
    · simp at hs
    rename_i hmut
    simp only [Option.some.injEq, Prod.mk.injEq] at hs
    obtain ⟨rfl, _⟩ := hs
    refine ⟨?_, ?_, hw.closing⟩
    · intro t ht
      simp only [List.mem_append, List.mem_singleton] at ht
      rcases ht with ht | rfl
      · exact hw.ttl t ht
      · exact Or.inl rfl
    · intro t ht e he hk ho
      simp only [List.mem_append, List.mem_singleton] at ht he
      rcases he with he | rfl
      · have hem := regRemove_sub lower _ _ _ he
        rcases ht with ht | rfl
        · exact hw.coherent t ht e hem hk ho
        · exfalso
          have := (List.mem_filter.1 he).2
          simp only [announceTask] at hk
          simp [hk] at this
      · rcases ht with ht | rfl
        · by_cases hne : t.svc = s
          · exact hne.symm
          · exfalso
            apply hmut
            rw [List.any_eq_true]
            exact ⟨t, ht, by simp [← ho, hne]⟩
        · rfl
  | unregister s oid now =>
    simp only [Host.step, unregRemove_eq, Option.some.injEq, Prod.mk.injEq] at hs
    obtain ⟨rfl, _⟩ := hs
    refine ⟨?_, ?_, hw.closing⟩
    · intro t ht
      simp only [List.mem_append, List.mem_singleton] at ht
      rcases ht with ht | rfl
      · exact hw.ttl t ht
      · exact Or.inr rfl
    · intro t ht e he hk ho
      have hem := regRemove_sub lower _ _ _ he
      simp only [List.mem_append, List.mem_singleton] at ht
      rcases ht with ht | rfl
      · exact hw.coherent t ht e hem hk ho
      · exfalso
        have := (List.mem_filter.1 he).2
        simp only at hk
        simp [hk] at this
  | task oid ttl ad due =>
    simp only [Host.step] at hs
    split at hs
    · simp at hs
    rename_i t hf
    have htm : t ∈ h.tasks := List.mem_of_find?_eq_some hf
    generalize hst : t.step (registeredAs lower h.reg t.svc t.oid) = st at hs
    obtain ⟨t', p⟩ := st
    simp only [Option.some.injEq, Prod.mk.injEq] at hs
    obtain ⟨rfl, _⟩ := hs
    have hsub : ∀ x, x ∈ (match t' with | some t' => dropTask h.tasks oid ttl ad due ++ [t'] | none => dropTask h.tasks oid ttl ad due) →
        ∃ y ∈ h.tasks, x.svc = y.svc ∧ x.oid = y.oid ∧ x.ttl = y.ttl := by
      intro x hx
      cases t' with
      | none => exact ⟨x, dropTask_sub _ _ _ _ _ x hx, rfl, rfl, rfl⟩
      | some t'' =>
        simp only [List.mem_append, List.mem_singleton] at hx
        rcases hx with hx | rfl
        · exact ⟨x, dropTask_sub _ _ _ _ _ x hx, rfl, rfl, rfl⟩
        · exact ⟨t, htm, task_step_cont t x _ (by rw [hst])⟩
    refine ⟨?_, ?_, hw.closing⟩
    · intro x hx
      obtain ⟨y, hy, _, _, h3⟩ := hsub x hx
      rw [h3]; exact hw.ttl y hy
    · intro x hx e he hk ho
      obtain ⟨y, hy, h1, h2, _⟩ := hsub x hx
      rw [h1]
      exact hw.coherent y hy e he (by rw [← h1]; exact hk) (by rw [← h2]; exact ho)
  | answer rs =>
    simp only [Host.step] at hs
    split at hs
    · simp only [Option.some.injEq, Prod.mk.injEq] at hs
      obtain ⟨rfl, _⟩ := hs
      exact hw
    · simp at hs
  | enqueue delayed now draw answers =>
    simp only [Host.step] at hs
    split at hs
    · split at hs <;>
      · simp only [Option.some.injEq, Prod.mk.injEq] at hs
        obtain ⟨rfl, _⟩ := hs
        exact ⟨hw.ttl, hw.coherent, hw.closing⟩
    · simp at hs
  | ready delayed now =>
    simp only [Host.step] at hs
    split at hs <;>
    · generalize qready lower _ now = r at hs
      obtain ⟨q, p⟩ := r
      simp only [Option.some.injEq, Prod.mk.injEq] at hs
      obtain ⟨rfl, _⟩ := hs
      exact ⟨hw.ttl, hw.coherent, hw.closing⟩
  | unregisterAll now =>
    simp only [Host.step] at hs
    split at hs
    · simp only [Option.some.injEq, Prod.mk.injEq] at hs
      obtain ⟨rfl, _⟩ := hs
      exact hw
    · simp only [Option.some.injEq, Prod.mk.injEq] at hs
      obtain ⟨rfl, _⟩ := hs
      refine ⟨hw.ttl, by simp, ?_⟩
      intro a ha
      simp only [List.mem_append, List.mem_singleton] at ha
      rcases ha with ha | rfl
      · exact hw.closing a ha
      · intro r hr
        rw [List.mem_flatMap] at hr
        obtain ⟨e, _, hre⟩ := hr
        exact broadcast_ttl0 e.svc true r hre
  | allStep due =>
    simp only [Host.step] at hs
    split at hs
    · simp at hs
    rename_i a hf
    have ham : a ∈ h.closing := List.mem_of_find?_eq_some hf
    simp only [Option.some.injEq, Prod.mk.injEq] at hs
    obtain ⟨rfl, _⟩ := hs
    refine ⟨hw.ttl, hw.coherent, ?_⟩
    intro x hx
    split at hx
    · simp only [List.mem_append, List.mem_singleton] at hx
      rcases hx with hx | rfl
      · exact hw.closing x (dropAll_sub _ _ x hx)
      · exact hw.closing a ham
    · exact hw.closing x (dropAll_sub _ _ x hx)
  | close =>
    simp only [Host.step, unregRemove_eq, Option.some.injEq, Prod.mk.injEq] at hs
    obtain ⟨rfl, _⟩ := hs
    exact ⟨hw.ttl, hw.coherent, hw.closing⟩

theorem wf_run : ∀ (bs : List Block) (h h' : Host) (out : List Pkt), WF lower h → h.run lower bs = some (h', out) → WF lower h' := by
  intro bs
  induction bs with
  | nil => intro h h' out hw hr; simp only [Host.run, Option.some.injEq, Prod.mk.injEq] at hr; obtain ⟨rfl, _⟩ := hr; exact hw
  | cons b bs ih =>
    intro h h' out hw hr
    simp only [Host.run] at hr
    split at hr
    · simp at hr
    rename_i h1 out1 hs
    split at hr
    · simp at hr
    rename_i h2 out2 hr2
    simp only [Option.some.injEq, Prod.mk.injEq] at hr
    obtain ⟨rfl, _⟩ := hr
    exact ih h1 h2 out2 (wf_step lower h h1 b out1 hw hs) hr2

theorem mem_addrNsec (s : Svc) (o : Option Nat) (w : Rec) (h : w ∈ s.addrNsec o) :
    (∃ a, w = mkRec s.server Gen.typeA Gen.classInUnique (ttlOf o s.hostTtl) (.addr a none)) ∨
    (∃ a, w = mkRec s.server Gen.typeAaaa Gen.classInUnique (ttlOf o s.hostTtl) (.addr a none)) ∨ w = s.nsec o := by
  unfold Svc.addrNsec Svc.addrs at h
  rw [List.mem_append, List.mem_append] at h
  rcases h with (h | h) | h
  · rw [List.mem_map] at h; obtain ⟨a, _, rfl⟩ := h; exact Or.inl ⟨a, rfl⟩
  · rw [List.mem_map] at h; obtain ⟨a, _, rfl⟩ := h; exact Or.inr (Or.inl ⟨a, rfl⟩)
  · split at h
    · simp at h
    · simp at h; exact Or.inr (Or.inr h)

/-- **registry separation**: a service registered under another name defines none of the records withdrawn for `s`
(instance-named records differ in the name; address records are withdrawn only when no registered service uses the host) -/
theorem separated (reg : List Entry) (s : Svc) (e : Entry) (he : e ∈ reg) (hk : key lower e.svc ≠ key lower s) :
    ¬ owns lower (withdrawn s (hostShared lower reg s)) e.svc := by
  intro ⟨r, hr, hh⟩
  unfold hits at hh
  rw [List.any_eq_true] at hh
  obtain ⟨w, hw, hb⟩ := hh
  rw [C20_eq_iff] at hb
  obtain ⟨hkind, hspec⟩ := hb
  have hshared : Gen.Register.goodbye_addresses (hostShared lower reg s) = true → serverKey lower e.svc ≠ serverKey lower s := by
    intro hg hsk
    rw [goodbye_addresses_eq] at hg
    have : hostShared lower reg s = true := by
      unfold hostShared; rw [List.any_eq_true]; exact ⟨e, he, by simp [hsk]⟩
    simp [this] at hg
  unfold key at hk
  unfold serverKey at hshared
  have hw' : w = s.ptr none ∨ w = s.srv none ∨ w = s.txt none ∨
      (Gen.Register.goodbye_addresses (hostShared lower reg s) = true ∧
        ((∃ a, w = mkRec s.server Gen.typeA Gen.classInUnique (ttlOf none s.hostTtl) (.addr a none)) ∨
         (∃ a, w = mkRec s.server Gen.typeAaaa Gen.classInUnique (ttlOf none s.hostTtl) (.addr a none)) ∨ w = s.nsec none)) := by
    unfold withdrawn at hw
    rw [List.mem_append] at hw
    rcases hw with h | h
    · simp at h
      rcases h with h | h | h
      · exact Or.inl h
      · exact Or.inr (Or.inl h)
      · exact Or.inr (Or.inr (Or.inl h))
    · right; right; right
      split at h
      · rename_i hg
        exact ⟨hg, mem_addrNsec s none w h⟩
      · simp at h
  have hr' : r = e.svc.ptr none ∨ r = e.svc.srv none ∨ r = e.svc.txt none ∨
      (∃ a, r = mkRec e.svc.server Gen.typeA Gen.classInUnique (ttlOf none e.svc.hostTtl) (.addr a none)) ∨
      (∃ a, r = mkRec e.svc.server Gen.typeAaaa Gen.classInUnique (ttlOf none e.svc.hostTtl) (.addr a none)) ∨ r = e.svc.nsec none := by
    unfold recs at hr
    rw [List.mem_append] at hr
    rcases hr with h | h
    · simp at h
      rcases h with h | h | h
      · exact Or.inl h
      · exact Or.inr (Or.inl h)
      · exact Or.inr (Or.inr (Or.inl h))
    · exact Or.inr (Or.inr (Or.inr (mem_addrNsec e.svc none r h)))
  rcases hr' with rfl | rfl | rfl | ⟨a, rfl⟩ | ⟨a, rfl⟩ | rfl <;>
  rcases hw' with rfl | rfl | rfl | ⟨hg, (⟨b, rfl⟩ | ⟨b, rfl⟩ | rfl)⟩ <;>
  simp [Svc.ptr, Svc.srv, Svc.txt, Svc.nsec, mkRec, RData.kind, Rec.specIdent, RData.ident] at hkind hspec <;>
  first
    | exact hk hspec.1
    | exact hk hspec.2.1
    | exact hk hspec.2.2.2
    | exact hshared hg hspec.1
    | exact hk (by simp_all)
    | exact hshared hg (by simp_all)

/-- **the unregister block establishes the invariant** for the records it withdraws, provided no service that stays
registered defines one of them (`hsep`, see `separated`) -/
theorem unregister_clean (h h' : Host) (s : Svc) (oid : Nat) (now : Int) (out : List Pkt) (hw : WF lower h)
    (hs : h.step lower (.unregister s oid now) = some (h', out))
    (hsep : ∀ e ∈ h'.reg, ¬ owns lower (withdrawn s (hostShared lower h'.reg s)) e.svc) :
    Clean lower (withdrawn s (hostShared lower h'.reg s)) h' ∧ out = [] := by
  simp only [Host.step, unregRemove_eq, unregister_purges, if_true, Option.some.injEq, Prod.mk.injEq] at hs
  obtain ⟨rfl, rfl⟩ := hs
  simp only at hsep ⊢
  refine ⟨⟨qpurge_clean lower _ _, qpurge_clean lower _ _, ?_, hsep, hw.closing⟩, trivial⟩
  intro t ht
  simp only [List.mem_append, List.mem_singleton] at ht
  rcases ht with ht | rfl
  · rcases hw.ttl t ht with hn | h0
    · refine Or.inr ⟨hn, fun ho => ?_⟩
      by_cases hr : registeredAs lower (regRemove lower h.reg (key lower s)) t.svc t.oid = true
      · exfalso
        unfold registeredAs at hr
        cases hg : regGet lower (regRemove lower h.reg (key lower s)) (key lower t.svc) with
        | none => simp [hg] at hr
        | some e =>
          simp only [hg] at hr
          have hem : e ∈ regRemove lower h.reg (key lower s) := List.mem_of_find?_eq_some hg
          have hk : key lower e.svc = key lower t.svc := by
            have := List.find?_some hg
            simpa using this
          have hsv := hw.coherent t ht e (regRemove_sub lower _ _ _ hem) hk (by simpa using hr)
          exact hsep e hem (hsv ▸ ho)
      · simpa using hr
    · exact Or.inl h0
  · exact Or.inl rfl

end Zc.Goodbye
