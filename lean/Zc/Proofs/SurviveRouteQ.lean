import Zc.Model.SurviveRouteQ
import Zc.Proofs.SurviveRoute
import Zc.Proofs.ResponseComplete
import Zc.Props.C20
/-! `DownOK` for the downstream with per-question routing (`Survive.RouteQ.downQ`), and the chain from "question `q` asks for
record `r` of a registered service" to "a record identical to `r` is in the set the routing rule names". -/
namespace Zc.Survive.RouteQ
open Zc Zc.Survive Zc.Survive.Comp Zc.Survive.Route

section
variable (lower : String → String) (ettl : Nat)

/-! ### the per-question strategies under C03's registry invariant -/

/-- what `perQuestions` computes when the registry lookups do not raise -/
def pureQ (reg : Registry) (known : List Rec) (qs : List Question) : List StratAns :=
  qs.flatMap (fun q => (pureStrategies lower reg q).map (fun st => (q.unique, st.answer lower ettl known)))

theorem perQuestions_ok {reg : Registry} (hi : IndexInv lower reg) (known : List Rec) (qs : List Question) :
    perQuestions lower ettl reg known qs = .ok (pureQ lower ettl reg known qs) := by
  induction qs with
  | nil => rfl
  | cons q qs ih => simp [perQuestions, strategiesFor_ok lower hi q, ih, pureQ]

theorem perPacket_ok {reg : Registry} (hi : IndexInv lower reg) (known : List Rec) (ks : List Survive.Pkt) :
    perPacket lower ettl reg known ks = .ok (ks.map (fun k => pureQ lower ettl reg known (msgOf k).questions)) := by
  induction ks with
  | nil => rfl
  | cons k ks ih => simp [perPacket, perQuestions_ok lower ettl hi, ih]

/-! ### the routing hands out only records of the merged answer map -/

theorem routeQ_sub (st : RState) (c : Cache) (ks : List Survive.Pkt) (u : Bool) (dict : DictRS) (items : List (List StratAns)) :
    ∀ x ∈ dictRecords (routeQ lower st c ks u dict items).2.ucast ++ dictRecords (routeQ lower st c ks u dict items).2.mcastNow,
      x ∈ dictRecords dict := by
  intro x hx
  have : ∀ sel, sel = (routeQ lower st c ks u dict items).2 →
      ∀ y ∈ dictRecords sel.ucast ++ dictRecords sel.mcastNow, y ∈ dictRecords dict := by
    intro sel hsel y hy
    unfold routeQ at hsel
    dsimp only at hsel
    split at hsel
    · subst hsel; simp [emptyRouted, dictRecords] at hy
    · subst hsel
      rcases List.mem_append.mp hy with hy | hy <;> exact decode_sub lower _ _ _ y hy
  exact this _ rfl x hx

theorem routeQ_queues (st : RState) (c : Cache) (ks : List Survive.Pkt) (u : Bool) (dict : DictRS) (items : List (List StratAns)) :
    (routeQ lower st c ks u dict items).1.outQ = st.outQ ∧ (routeQ lower st c ks u dict items).1.delayQ = st.delayQ := by
  unfold routeQ; dsimp only; split <;> exact ⟨rfl, rfl⟩

end

/-! ### `DownOK` -/

section
variable (lower : String → String) (possible : String → List String) (ettl : Nat) (orc : Oracle)
variable {ρ₀ ω : Type} (B : Base ρ₀ ω) (I₀ : ρ₀ → Prop)

theorem downQ_downOK (hB : BaseOK B I₀) :
    DownOK (downQ lower ettl possible orc B) (CInv lower ettl (Route.Inv I₀)) QASafe := by
  refine ⟨?_, ?_, ?_⟩
  · intro d k hI hk
    exact comp_ingestOK lower possible ettl (Route.rest lower (fun _ _ => true) orc B) (Route.Inv I₀)
      (Route.listenersOK lower (fun _ _ => true) orc B I₀ hB) d k hI hk
  · intro d ks u hI _ _
    show ∃ d' qa, answerQ lower ettl d ks u = .ok (d', qa) ∧ _
    unfold answerQ
    rcases Zc.respond_ok lower ettl hI.reg (ks.map msgOf) with ⟨_, hr⟩ | ⟨_, hr⟩
    · rw [hr]
      exact ⟨_, none, rfl, ⟨hI.cache, hI.reg, hI.names, hI.fields, hI.fresh, hI.safe, hI.scheds, hI.browsers, hI.rest⟩, by intro q hq; cases hq⟩
    · rw [hr]
      dsimp only
      rw [perPacket_ok lower ettl hI.reg]
      dsimp only
      have hown := respond_records_own lower ettl hI.reg hI.fresh (ks.map msgOf) hr
      obtain ⟨q1, q2⟩ := routeQ_queues lower d.rest.2 d.cache ks u (answerMap lower ettl d.reg (ks.map msgOf))
        (ks.map (fun k => pureQ lower ettl d.reg (knownOf (ks.map msgOf)) (msgOf k).questions))
      refine ⟨_, _, rfl, ⟨hI.cache, warmed_inv lower hI.reg _, hI.names, hI.fields,
        fun s hs => warmed_memo lower (ks.map msgOf) (lower s.name) (fun o ho _ => hI.fresh o ho) s hs rfl,
        regSafe_of_fields lower ettl (warmed_fields lower d.reg _) hI.safe, hI.scheds, hI.browsers,
        ⟨hI.rest.1, by show QShape _; rw [q1]; exact hI.rest.2.1, by show QShape _; rw [q2]; exact hI.rest.2.2⟩⟩, ?_⟩
      intro q hq
      cases hq
      have hsafe : ∀ x ∈ dictRecords (routeQ lower d.rest.2 d.cache ks u (answerMap lower ettl d.reg (ks.map msgOf))
            (ks.map (fun k => pureQ lower ettl d.reg (knownOf (ks.map msgOf)) (msgOf k).questions))).2.ucast ++
          dictRecords (routeQ lower d.rest.2 d.cache ks u (answerMap lower ettl d.reg (ks.map msgOf))
            (ks.map (fun k => pureQ lower ettl d.reg (knownOf (ks.map msgOf)) (msgOf k).questions))).2.mcastNow,
          RecSafe (wireOfRec x) 0 := by
        intro x hx
        obtain ⟨s, hs, hxs⟩ := hown x (routeQ_sub lower d.rest.2 d.cache ks u _ _ x hx)
        exact hI.safe s hs x hxs
      exact ⟨setOf_safe lower _ (fun x hx => hsafe x (List.mem_append_left _ hx)),
             setOf_safe lower _ (fun x hx => hsafe x (List.mem_append_right _ hx))⟩
  · intro d t q hI
    exact comp_enqueueOK lower possible ettl (Route.rest lower (fun _ _ => true) orc B) (Route.Inv I₀)
      (Route.queueOK lower (fun _ _ => true) orc B I₀) d t q hI

end

/-! ### records ↔ ids -/

section ids
variable (lower : String → String)

theorem beq_congr {a b : Rec} (h : a.beq lower b = true) (x : Rec) : x.beq lower a = x.beq lower b := by
  obtain ⟨_, hsymm, htrans⟩ := C20_equivalence lower
  cases hxa : x.beq lower a with
  | true => exact (htrans x a b hxa h).symm
  | false =>
    cases hxb : x.beq lower b with
    | false => rfl
    | true => rw [htrans x b a hxb (hsymm a b h)] at hxa; cases hxa

theorem idOf_congr (tbl : List Rec) {a b : Rec} (h : a.beq lower b = true) : idOf lower tbl a = idOf lower tbl b := by
  unfold idOf
  congr 1
  funext x
  exact beq_congr lower h x

theorem intern_any_mono (tbl : List Rec) (x r : Rec) (h : tbl.any (fun y => y.beq lower r) = true) :
    (intern lower tbl x).any (fun y => y.beq lower r) = true := by
  unfold intern
  split
  · exact h
  · simp only [List.any_append, h, Bool.true_or]

theorem intern_has (tbl : List Rec) (x : Rec) : (intern lower tbl x).any (fun y => y.beq lower x) = true := by
  unfold intern
  split
  · rename_i h; exact h
  · simp [List.any_append, (C20_equivalence lower).1 x]

theorem internAll_any (rs : List Rec) : ∀ (tbl : List Rec) (r : Rec),
    (r ∈ rs ∨ tbl.any (fun y => y.beq lower r) = true) → (internAll lower tbl rs).any (fun y => y.beq lower r) = true := by
  induction rs with
  | nil => intro tbl r h; rcases h with h | h; cases h; exact h
  | cons x rs ih =>
    intro tbl r h
    simp only [internAll, List.foldl_cons]
    apply ih
    rcases h with h | h
    · rcases List.mem_cons.mp h with rfl | h
      · exact Or.inr (intern_has lower tbl r)
      · exact Or.inl h
    · exact Or.inr (intern_any_mono lower tbl x r h)

theorem idOf_lt {tbl : List Rec} {r : Rec} (h : tbl.any (fun y => y.beq lower r) = true) : idOf lower tbl r < tbl.length := by
  unfold idOf
  rw [List.findIdx_lt_length]
  obtain ⟨y, hy, hb⟩ := List.any_eq_true.mp h
  exact ⟨y, hy, hb⟩

theorem idOf_beq {tbl : List Rec} {r : Rec} (h : idOf lower tbl r < tbl.length) : (tbl[idOf lower tbl r]).beq lower r = true := by
  unfold idOf at h ⊢
  exact List.findIdx_getElem (w := h)

/-- two interned records with the same id are the same record -/
theorem same_id_beq {tbl : List Rec} {x y : Rec} (hx : tbl.any (fun z => z.beq lower x) = true)
    (hy : tbl.any (fun z => z.beq lower y) = true) (h : idOf lower tbl x = idOf lower tbl y) : x.beq lower y = true := by
  obtain ⟨_, hsymm, htrans⟩ := C20_equivalence lower
  have h1 := idOf_beq lower (idOf_lt lower hx)
  have h2 := idOf_beq lower (idOf_lt lower hy)
  have h2' : (tbl[idOf lower tbl x]'(idOf_lt lower hx)).beq lower y = true := by
    have : ∀ (i j : Nat) (hi : i < tbl.length) (hj : j < tbl.length), i = j → tbl[i] = tbl[j] := by
      intro i j hi hj hij; subst hij; rfl
    rw [this _ _ (idOf_lt lower hx) (idOf_lt lower hy) h]; exact h2
  exact htrans x _ y (hsymm _ x h1) h2'

theorem decode_key {tbl : List Rec} {dict : DictRS} {d : Reply.Dict} {i : Nat} (hi : i ∈ d.keys) {r'' : Rec}
    (hr : recOfId lower tbl dict i = some r'') : r'' ∈ keysOf (decode lower tbl dict d) := by
  simp only [Reply.Dict.keys, List.mem_map] at hi
  obtain ⟨e, he, rfl⟩ := hi
  simp only [keysOf, decode, List.mem_map, List.mem_filterMap]
  exact ⟨(r'', e.2.filterMap (recOfId lower tbl dict)), ⟨e, he, by rw [hr]; rfl⟩, rfl⟩

end ids

/-! ### from "question `q` asks for `r`" to "`r` is in the set the routing rule names" -/

section reach
variable (lower : String → String) (ettl : Nat)

theorem zipWith_map_self {α β γ : Type} (f : α → β → γ) (g : α → β) (l : List α) :
    List.zipWith f l (l.map g) = l.map (fun x => f x (g x)) := by
  induction l with
  | nil => rfl
  | cons x l ih => simp [ih]

/-- **Per-question routing reaches the asked record.**  Let `q` be a question of packet `k0` of the query, `st0` one of its
strategies and `a` a key of what it answers, identical (C20) to the record `r`, and let the merged answer map contain a key
identical to `r` (C03: `answerMap_complete`).  Then the sets selected by `routeQ` contain a record `r''` identical to `r`:
in one of the four sets in any case; for a legacy source in the unicast reply *and* a multicast set; for a QU question from
port 5353 in the unicast reply if the cache has seen it within a quarter of its TTL at the last packet's arrival, in the
immediate multicast otherwise. -/
theorem routeQ_reaches (st : RState) (c : Cache) (ks : List Survive.Pkt) (u : Bool) (dict : DictRS) (reg : Registry) (known : List Rec)
    {k0 : Survive.Pkt} (hk0 : k0 ∈ ks) {q : Question} (hq : q ∈ (msgOf k0).questions)
    {st0 : Strategy} (hst : st0 ∈ pureStrategies lower reg q) {a : Rec} (ha : a ∈ keysOf (st0.answer lower ettl known))
    {r : Rec} (har : a.beq lower r = true) (hdict : ∃ k' ∈ keysOf dict, k'.beq lower r = true) :
    ∃ r'', r''.beq lower r = true ∧
      let items := ks.map (fun k => pureQ lower ettl reg known (msgOf k).questions)
      let sel := (routeQ lower st c ks u dict items).2
      let tbl := internAll lower st.recs (dictRecords dict ++ stratRecords items)
      (r'' ∈ keysOf sel.ucast ∨ r'' ∈ keysOf sel.mcastNow ∨ r'' ∈ keysOf sel.aggregate ∨ r'' ∈ keysOf sel.aggregateLast) ∧
      (u = true → r'' ∈ keysOf sel.ucast ∧ (r'' ∈ keysOf sel.mcastNow ∨ r'' ∈ keysOf sel.aggregate ∨ r'' ∈ keysOf sel.aggregateLast)) ∧
      (u = false → q.unique = true → ∀ last, ks.getLast? = some last →
        (Reply.withinQuarter ((seenOf lower c tbl).get (idOf lower tbl r)) last.now = true → r'' ∈ keysOf sel.ucast) ∧
        (Reply.withinQuarter ((seenOf lower c tbl).get (idOf lower tbl r)) last.now = false → r'' ∈ keysOf sel.mcastNow)) := by
  obtain ⟨_, hsymm, htrans⟩ := C20_equivalence lower
  -- abbreviations
  generalize hitems : ks.map (fun k => pureQ lower ettl reg known (msgOf k).questions) = items
  generalize htbl : internAll lower st.recs (dictRecords dict ++ stratRecords items) = tbl
  have hpk : List.zipWith (toPktQ lower tbl) ks items = ks.map (fun k => toPktQ lower tbl k (pureQ lower ettl reg known (msgOf k).questions)) := by
    rw [← hitems]; exact zipWith_map_self _ _ _
  -- the packet, the strategy item and the candidate
  have hp0 : toPktQ lower tbl k0 (pureQ lower ettl reg known (msgOf k0).questions) ∈ List.zipWith (toPktQ lower tbl) ks items := by
    rw [hpk]; exact List.mem_map_of_mem hk0
  obtain ⟨pa, hpa, hpa1⟩ := List.mem_map.mp ha
  have hsa : (q.unique, st0.answer lower ettl known) ∈ pureQ lower ettl reg known (msgOf k0).questions :=
    List.mem_flatMap.mpr ⟨q, hq, List.mem_map_of_mem hst⟩
  obtain ⟨it, hitqu, hit, cnd, hcid, hcsup, hcand⟩ : ∃ it : Reply.QItem, it.qu = q.unique ∧
      it ∈ (toPktQ lower tbl k0 (pureQ lower ettl reg known (msgOf k0).questions)).items ∧
      ∃ cnd : Reply.Cand, cnd.id = idOf lower tbl a ∧ cnd.sup = false ∧ cnd ∈ it.cands := by
    refine ⟨{ qu := q.unique, cands := (st0.answer lower ettl known).map (fun p =>
        { id := idOf lower tbl p.1, ttl := p.1.ttl, adds := p.2.map (idOf lower tbl), sup := false }) }, rfl, ?_,
      { id := idOf lower tbl pa.1, ttl := pa.1.ttl, adds := pa.2.map (idOf lower tbl), sup := false }, by rw [hpa1], rfl,
      List.mem_map_of_mem hpa⟩
    simp only [toPktQ, toItemsQ]
    exact List.mem_map.mpr ⟨_, hsa, rfl⟩
  obtain ⟨qa, hqa⟩ := Reply.asyncResponse_isSome u (seenOf lower c tbl) hp0 hit
  have hkey := Reply.answerSet_has (Reply.unionKnown (List.zipWith (toPktQ lower tbl) ks items)) it cnd hcand
    (by simp [Reply.suppresses, hcsup])
  rw [hcid] at hkey
  -- the record object the id decodes to
  obtain ⟨k', hk', hk'r⟩ := hdict
  have hk'rec : k' ∈ dictRecords dict := by
    obtain ⟨pk, hpk', rfl⟩ := List.mem_map.mp hk'
    exact List.mem_flatMap.mpr ⟨pk, hpk', List.mem_cons_self⟩
  have hida : idOf lower tbl a = idOf lower tbl r := idOf_congr lower tbl har
  have hidk : idOf lower tbl k' = idOf lower tbl a := by rw [hida]; exact idOf_congr lower tbl hk'r
  have hsome : (recOfId lower tbl dict (idOf lower tbl a)).isSome = true := by
    unfold recOfId
    rw [List.find?_isSome]
    exact ⟨k', hk'rec, by simp [hidk]⟩
  obtain ⟨r'', hr''⟩ := Option.isSome_iff_exists.mp hsome
  have hr''mem : r'' ∈ dictRecords dict := recOfId_mem lower hr''
  have hr''id : idOf lower tbl r'' = idOf lower tbl a := by
    have := List.find?_some hr''
    simpa using this
  -- both are interned, so equal ids mean the same record
  have hint : ∀ x, x ∈ dictRecords dict ++ stratRecords items → tbl.any (fun z => z.beq lower x) = true := by
    intro x hx; rw [← htbl]; exact internAll_any lower _ _ _ (Or.inl hx)
  have ha_strat : a ∈ stratRecords items := by
    rw [← hitems]
    refine List.mem_flatMap.mpr ⟨_, List.mem_map_of_mem hk0, List.mem_flatMap.mpr ⟨_, hsa, ?_⟩⟩
    exact List.mem_flatMap.mpr ⟨pa, hpa, by rw [hpa1]; exact List.mem_cons_self⟩
  have hr''a : r''.beq lower a = true :=
    same_id_beq lower (hint r'' (List.mem_append_left _ hr''mem)) (hint a (List.mem_append_right _ ha_strat)) hr''id
  refine ⟨r'', htrans r'' a r hr''a har, ?_⟩
  -- unfold the routing with the response we know
  have hsel : (routeQ lower st c ks u dict items).2 = ⟨decode lower tbl dict qa.ucast, decode lower tbl dict qa.mcastNow,
      decode lower tbl dict qa.mcastAgg, decode lower tbl dict qa.mcastLast⟩ := by
    unfold routeQ; simp only [htbl, hqa]
  simp only [hsel, htbl]
  rw [← hida]
  refine ⟨?_, ?_, ?_⟩
  · rcases Reply.query_complete hqa hp0 hit _ hkey with h | h | h | h
    · exact Or.inl (decode_key lower h hr'')
    · exact Or.inr (Or.inl (decode_key lower h hr''))
    · exact Or.inr (Or.inr (Or.inl (decode_key lower h hr'')))
    · exact Or.inr (Or.inr (Or.inr (decode_key lower h hr'')))
  · intro hu
    subst hu
    obtain ⟨h1, h2⟩ := Reply.query_legacy_us hqa hp0 hit _ hkey
    refine ⟨decode_key lower h1 hr'', ?_⟩
    rcases h2 with h | h | h
    · exact Or.inl (decode_key lower h hr'')
    · exact Or.inr (Or.inl (decode_key lower h hr''))
    · exact Or.inr (Or.inr (decode_key lower h hr''))
  · intro hu hqu last hlast
    subst hu
    have hl : (List.zipWith (toPktQ lower tbl) ks items).getLast? =
        some (toPktQ lower tbl last (pureQ lower ettl reg known (msgOf last).questions)) := by
      rw [hpk, List.getLast?_map, hlast]; rfl
    obtain ⟨h1, h2, _⟩ := Reply.query_qu_us hqa hp0 hit (by rw [hitqu]; exact hqu) _ hkey hl
    exact ⟨fun hw => decode_key lower (h1 hw) hr'', fun hw => decode_key lower (h2 hw) hr''⟩

end reach

end Zc.Survive.RouteQ
