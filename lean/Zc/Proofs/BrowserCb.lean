import Zc.Model.BrowserCb
import Zc.GenFacts.Cache
/-! The pending-callback dictionary of a service browser (`_pending_handlers`, `_enqueue_callback`). -/
namespace Zc

abbrev Pending := List ((String × String) × Change)

theorem pendingGet_set_self (p : Pending) (key : String × String) (v : Change) : pendingGet (pendingSet p key v) key = some v := by
  induction p with
  | nil => simp [pendingSet, pendingGet]
  | cons kv t ih =>
    obtain ⟨k, w⟩ := kv
    by_cases h : k = key <;> simp [pendingSet, pendingGet, h, ih]

theorem pendingGet_set_ne (p : Pending) {key k : String × String} (h : k ≠ key) (v : Change) :
    pendingGet (pendingSet p key v) k = pendingGet p k := by
  induction p with
  | nil => simp [pendingSet, pendingGet, Ne.symm h]
  | cons kv t ih =>
    obtain ⟨k2, w⟩ := kv
    by_cases h2 : k2 = key
    · subst h2; simp [pendingSet, pendingGet, Ne.symm h]
    · by_cases h3 : k2 = k
      · subst h3; simp [pendingSet, pendingGet, h2]
      · simp [pendingSet, pendingGet, h2, h3, ih]

def pendingKeys (p : Pending) : List (String × String) := p.map Prod.fst

theorem pendingKeys_set (p : Pending) (key : String × String) (v : Change) :
    pendingKeys (pendingSet p key v) = if key ∈ pendingKeys p then pendingKeys p else pendingKeys p ++ [key] := by
  induction p with
  | nil => simp [pendingSet, pendingKeys]
  | cons kv t ih =>
    obtain ⟨k2, w⟩ := kv
    by_cases h2 : k2 = key
    · subst h2; simp [pendingSet, pendingKeys]
    · have ih' : List.map Prod.fst (pendingSet t key v) = if key ∈ List.map Prod.fst t then List.map Prod.fst t else List.map Prod.fst t ++ [key] := ih
      simp only [pendingSet, h2, if_false, pendingKeys, List.map_cons, List.mem_cons, ih', Ne.symm h2, false_or]
      split <;> simp

theorem pendingKeys_set_nodup (p : Pending) (key : String × String) (v : Change) (h : (pendingKeys p).Nodup) :
    (pendingKeys (pendingSet p key v)).Nodup := by
  rw [pendingKeys_set]
  split
  · exact h
  · rename_i hk
    rw [List.nodup_append]
    refine ⟨h, by simp, ?_⟩
    intro a ha b hb
    simp at hb; subst hb
    intro heq; subst heq; exact hk ha

theorem pendingGet_of_mem (p : Pending) (h : (pendingKeys p).Nodup) {k : String × String} {w : Change} (hm : (k, w) ∈ p) :
    pendingGet p k = some w := by
  induction p with
  | nil => cases hm
  | cons kv t ih =>
    obtain ⟨k2, w2⟩ := kv
    simp only [pendingKeys, List.map_cons, List.nodup_cons] at h
    rcases List.mem_cons.1 hm with heq | hin
    · cases heq; simp [pendingGet]
    · have hk : k ∈ List.map Prod.fst t := List.mem_map.2 ⟨(k, w), hin, rfl⟩
      have hne : k2 ≠ k := fun e => h.1 (e ▸ hk)
      simp only [pendingGet, hne, if_false]
      exact ih h.2 hin

theorem mem_of_pendingGet (p : Pending) {k : String × String} {w : Change} (h : pendingGet p k = some w) : (k, w) ∈ p := by
  induction p with
  | nil => simp [pendingGet] at h
  | cons kv t ih =>
    obtain ⟨k2, w2⟩ := kv
    by_cases h2 : k2 = k
    · simp [pendingGet, h2] at h; subst h2; subst h; simp
    · simp only [pendingGet, h2, if_false] at h
      exact List.mem_cons_of_mem _ (ih h)

namespace Browser

@[simp] theorem enqueue_types (b : Browser) (ch : Change) (t n : String) : (b.enqueue ch t n).types = b.types := by
  unfold enqueue; dsimp only; split <;> rfl

theorem enqueue_keys_nodup (b : Browser) (ch : Change) (t n : String) (h : (pendingKeys b.pending).Nodup) :
    (pendingKeys (b.enqueue ch t n).pending).Nodup := by
  unfold enqueue; dsimp only; split
  · exact pendingKeys_set_nodup _ _ _ h
  · exact h

/-- `_enqueue_callback`, on the key it is called with: Added always wins; Removed unless an Added is pending;
Updated only if nothing is pending -/
theorem pendingGet_enqueue_self (b : Browser) (ch : Change) (t n : String) :
    pendingGet (b.enqueue ch t n).pending (n, t) =
      match ch, pendingGet b.pending (n, t) with
      | .added, _ => some .added
      | .removed, some .added => some .added
      | .removed, _ => some .removed
      | .updated, none => some .updated
      | .updated, some x => some x := by
  unfold enqueue
  simp only []
  cases ch <;> cases hg : pendingGet b.pending (n, t) with
  | none => simp [enqueue_test_iff, pendingGet_set_self, hg]
  | some x => cases x <;> simp [enqueue_test_iff, pendingGet_set_self, hg]

/-- … and leaves every other key alone -/
theorem pendingGet_enqueue_ne (b : Browser) (ch : Change) (t n : String) {k : String × String} (h : k ≠ (n, t)) :
    pendingGet (b.enqueue ch t n).pending k = pendingGet b.pending k := by
  unfold enqueue
  simp only []
  split
  · exact pendingGet_set_ne _ h _
  · rfl

/-- an Added is pending for `k` -/
def A (b : Browser) (k : String × String) : Prop := pendingGet b.pending k = some .added
/-- a Removed is pending for `k` -/
def R (b : Browser) (k : String × String) : Prop := pendingGet b.pending k = some .removed

theorem A_enqueue (b : Browser) (ch : Change) (t n : String) (k : String × String) :
    A (b.enqueue ch t n) k ↔ A b k ∨ (ch = .added ∧ k = (n, t)) := by
  unfold A
  by_cases hk : k = (n, t)
  · subst hk
    rw [pendingGet_enqueue_self]
    cases ch <;> cases hg : pendingGet b.pending (n, t) with
    | none => simp
    | some x => cases x <;> simp
  · rw [pendingGet_enqueue_ne b ch t n hk]; simp [hk]

theorem R_enqueue (b : Browser) (ch : Change) (t n : String) (k : String × String) :
    R (b.enqueue ch t n) k ↔ (R b k ∧ ¬ (ch = .added ∧ k = (n, t))) ∨ (ch = .removed ∧ k = (n, t) ∧ ¬ A b k) := by
  unfold R A
  by_cases hk : k = (n, t)
  · subst hk
    rw [pendingGet_enqueue_self]
    cases ch <;> cases hg : pendingGet b.pending (n, t) with
    | none => simp
    | some x => cases x <;> simp
  · rw [pendingGet_enqueue_ne b ch t n hk]; simp [hk]

/-- enqueueing one change for one name under several types -/
theorem AR_foldl_types (ch : Change) (n : String) (ts : List String) (b : Browser) (k : String × String) :
    (A (ts.foldl (fun b t => b.enqueue ch t n) b) k ↔ A b k ∨ (ch = .added ∧ k.1 = n ∧ k.2 ∈ ts))
    ∧ (R (ts.foldl (fun b t => b.enqueue ch t n) b) k ↔
        (R b k ∧ ¬ (ch = .added ∧ k.1 = n ∧ k.2 ∈ ts)) ∨ (ch = .removed ∧ k.1 = n ∧ k.2 ∈ ts ∧ ¬ A b k)) := by
  induction ts generalizing b with
  | nil => simp
  | cons t rest ih =>
    simp only [List.foldl_cons]
    obtain ⟨ihA, ihR⟩ := ih (b.enqueue ch t n)
    rw [ihA, ihR, A_enqueue, R_enqueue]
    have hk : k = (n, t) ↔ (k.1 = n ∧ k.2 = t) := by
      obtain ⟨a, c⟩ := k; simp
    rw [hk]
    simp only [List.mem_cons]
    constructor
    · constructor
      · rintro ((h | ⟨h1, h2, h3⟩) | ⟨h1, h2, h3⟩)
        · exact Or.inl h
        · exact Or.inr ⟨h1, h2, Or.inl h3⟩
        · exact Or.inr ⟨h1, h2, Or.inr h3⟩
      · rintro (h | ⟨h1, h2, h3 | h3⟩)
        · exact Or.inl (Or.inl h)
        · exact Or.inl (Or.inr ⟨h1, h2, h3⟩)
        · exact Or.inr ⟨h1, h2, h3⟩
    · cases ch <;> simp <;> grind

/-- Updated enqueues never change whether an Added or a Removed is pending -/
theorem AR_enqueue_updated (b : Browser) (t n : String) (k : String × String) :
    (A (b.enqueue .updated t n) k ↔ A b k) ∧ (R (b.enqueue .updated t n) k ↔ R b k) := by
  rw [A_enqueue, R_enqueue]; simp

theorem AR_foldl_updated_types (n : String) (ts : List String) (b : Browser) (k : String × String) :
    (A (ts.foldl (fun b t => b.enqueue .updated t n) b) k ↔ A b k) ∧ (R (ts.foldl (fun b t => b.enqueue .updated t n) b) k ↔ R b k) := by
  have := AR_foldl_types .updated n ts b k
  simpa using this

theorem foldl_preserves {α β} (P : β → Prop) (f : β → α → β) (h : ∀ b x, P b → P (f b x)) (l : List α) (b : β) (hb : P b) :
    P (l.foldl f b) := by
  induction l generalizing b with
  | nil => exact hb
  | cons x t ih => exact ih _ (h b x hb)

section
variable (lower : String → String) (possible : String → List String)

/-- the pair announces a pointer record that was not cached: Added is enqueued under `k = (alias, type)` -/
def AddsAt (types : List String) (u : Rec × Option Rec) (k : String × String) : Prop :=
  u.1.type = Gen.typePtr ∧ u.2 = none ∧ u.1.rdata = .ptr k.1 ∧ k.2 ∈ types.filter (fun t => (possible u.1.name).contains t)

/-- the pair withdraws (goodbye or purge) a cached pointer record: Removed is enqueued under `k` -/
def RemsAt (now : Ms) (types : List String) (u : Rec × Option Rec) (k : String × String) : Prop :=
  u.1.type = Gen.typePtr ∧ u.2 ≠ none ∧ u.1.isExpired now = true ∧ u.1.rdata = .ptr k.1
    ∧ k.2 ∈ types.filter (fun t => (possible u.1.name).contains t)

/-- invariants every step keeps: the browsed types, and `_pending_handlers` being a dict -/
def Good (types : List String) (b : Browser) : Prop := b.types = types ∧ (pendingKeys b.pending).Nodup

theorem good_enqueue {types : List String} {b : Browser} (h : Good types b) (ch : Change) (t n : String) : Good types (b.enqueue ch t n) :=
  ⟨by rw [enqueue_types]; exact h.1, enqueue_keys_nodup b ch t n h.2⟩

/-- anything every `_enqueue_callback` keeps, `async_update_records` keeps -/
theorem updateOne_preserves (P : Browser → Prop) (hP : ∀ b ch t n, P b → P (b.enqueue ch t n)) {b : Browser} (h : P b)
    (c : Cache) (now : Ms) (u : Rec × Option Rec) : P (updateOne lower possible c now b u) := by
  unfold Browser.updateOne
  dsimp only
  split
  · split
    · apply foldl_preserves P _ _ _ _ h
      intro b t hb
      split
      · exact hP _ _ _ _ hb
      · split
        · exact hP _ _ _ _ hb
        · exact hb
    · exact h
  · split
    · exact h
    · split
      · apply foldl_preserves P _ _ _ _ h
        intro b name hb
        apply foldl_preserves P _ _ _ _ hb
        intro b t hb; exact hP _ _ _ _ hb
      · apply foldl_preserves P _ _ _ _ h
        intro b t hb; exact hP _ _ _ _ hb

theorem good_updateOne {types : List String} {b : Browser} (h : Good types b) (c : Cache) (now : Ms) (u : Rec × Option Rec) :
    Good types (updateOne lower possible c now b u) :=
  updateOne_preserves lower possible (Good types) (fun _ ch t n hb => good_enqueue hb ch t n) h c now u

theorem types_updateOne {types : List String} {b : Browser} (h : b.types = types) (c : Cache) (now : Ms) (u : Rec × Option Rec) :
    (updateOne lower possible c now b u).types = types :=
  updateOne_preserves lower possible (fun b => b.types = types) (fun b ch t n hb => by rw [enqueue_types]; exact hb) h c now u

theorem good_updateRecords {types : List String} {b : Browser} (h : Good types b) (c : Cache) (now : Ms) (us : List (Rec × Option Rec)) :
    Good types (updateRecords lower possible c now b us) :=
  foldl_preserves (Good types) _ (fun b u hb => good_updateOne lower possible hb c now u) us b h

/-- what one `RecordUpdate` does to the pending Added/Removed of any key -/
theorem updateOne_AR {types : List String} {b : Browser} (h : b.types = types) (c : Cache) (now : Ms) (u : Rec × Option Rec) (k : String × String) :
    (A (updateOne lower possible c now b u) k ↔ A b k ∨ AddsAt possible types u k)
    ∧ (R (updateOne lower possible c now b u) k ↔
        (R b k ∧ ¬ AddsAt possible types u k) ∨ (RemsAt possible now types u k ∧ ¬ A b k)) := by
  obtain ⟨r, old⟩ := u
  unfold updateOne AddsAt RemsAt
  dsimp only
  by_cases hty : r.type = Gen.typePtr
  · simp only [hty, if_true, true_and]
    cases hrd : r.rdata with
    | ptr alias =>
      simp only [matching, h]
      cases old with
      | none =>
        have := AR_foldl_types .added alias (types.filter (fun t => (possible r.name).contains t)) b k
        simp only [true_and] at this
        rw [this.1, this.2]
        simp only [RData.ptr.injEq, ne_eq, not_true_eq_false, false_and, or_false, reduceCtorEq]
        grind
      | some o =>
        by_cases hx : r.isExpired now = true
        · simp only [hx, if_true]
          have := AR_foldl_types .removed alias (types.filter (fun t => (possible r.name).contains t)) b k
          simp only [reduceCtorEq, false_and, or_false, not_false_eq_true, and_true, true_and] at this
          rw [this.1, this.2]
          simp only [reduceCtorEq, false_and, or_false, not_false_eq_true, and_true, ne_eq, RData.ptr.injEq, true_and]
          constructor
          · rintro (h1 | ⟨h1, h2, h3⟩); exact Or.inl h1; exact Or.inr ⟨⟨h1.symm, h2⟩, h3⟩
          · rintro (h1 | ⟨⟨h1, h2⟩, h3⟩); exact Or.inl h1; exact Or.inr ⟨h1.symm, h2, h3⟩
        · have hid : (types.filter (fun t => (possible r.name).contains t)).foldl (fun (b : Browser) (_ : String) => b) b = b := by
            generalize types.filter (fun t => (possible r.name).contains t) = l
            induction l with
            | nil => rfl
            | cons _ _ ih => exact ih
          simp only [hx, if_false, Bool.false_eq_true, hid]
          simp
    | addr _ _ => simp
    | hinfo _ _ => simp
    | txt _ => simp
    | srv _ _ _ _ => simp
    | nsec _ _ => simp
  · simp only [hty, if_false, false_and, or_false, not_false_eq_true, and_true]
    split
    · exact ⟨Iff.rfl, Iff.rfl⟩
    · split
      · -- address record: Updated for every service on that host
        generalize dedupStr ((c.entriesWithServer lower r.name).map (fun s => s.name)) = names
        induction names generalizing b with
        | nil => exact ⟨Iff.rfl, Iff.rfl⟩
        | cons n rest ih =>
          simp only [List.foldl_cons]
          have h1 := AR_foldl_updated_types n (b.matching possible n) b k
          have hb' : (List.foldl (fun b t => b.enqueue Change.updated t n) b (b.matching possible n)).types = types := by
            have := foldl_preserves (fun b : Browser => b.types = types) (fun b t => b.enqueue Change.updated t n)
              (fun b t hb => by rw [enqueue_types]; exact hb) (b.matching possible n) b h
            exact this
          have h2 := ih hb'
          exact ⟨h2.1.trans h1.1, h2.2.trans h1.2⟩
      · exact AR_foldl_updated_types r.name (b.matching possible r.name) b k

theorem updateRecords_types {types : List String} {b : Browser} (h : b.types = types) (c : Cache) (now : Ms) (us : List (Rec × Option Rec)) :
    (updateRecords lower possible c now b us).types = types :=
  foldl_preserves (fun b : Browser => b.types = types) _ (fun b u hb => types_updateOne lower possible hb c now u) us b h

/-- **the order-independent outcome of the pending-callback dedup**: after any list of record updates, an
Added is pending for `k` iff one was pending before or some update adds at `k`; a Removed is pending iff no
Added is and one was pending before or some update removes at `k` -/
theorem updateRecords_AR {types : List String} {b : Browser} (h : b.types = types) (c : Cache) (now : Ms)
    (us : List (Rec × Option Rec)) (k : String × String) :
    (A (updateRecords lower possible c now b us) k ↔ A b k ∨ ∃ u ∈ us, AddsAt possible types u k)
    ∧ (R (updateRecords lower possible c now b us) k ↔
        ¬ A (updateRecords lower possible c now b us) k ∧ (R b k ∨ ∃ u ∈ us, RemsAt possible now types u k)) := by
  induction us generalizing b with
  | nil =>
    simp only [updateRecords, List.foldl_nil, List.not_mem_nil, false_and, exists_false, or_false]
    unfold A R
    grind
  | cons u t ih =>
    obtain ⟨h1a, h1r⟩ := updateOne_AR lower possible h c now u k
    have ht := types_updateOne lower possible h c now u
    obtain ⟨h2a, h2r⟩ := ih ht
    have hexcl : AddsAt possible types u k → ¬ RemsAt possible now types u k := by
      rintro ⟨_, hn, _⟩ ⟨_, hs, _⟩; exact hs hn
    have hfun : A b k → ¬ R b k := by
      unfold A R; intro ha hr; rw [ha] at hr; cases hr
    simp only [updateRecords, List.foldl_cons] at h2a h2r ⊢
    simp only [List.mem_cons, exists_eq_or_imp]
    constructor
    · rw [h2a, h1a]; grind
    · rw [h2r, h2a, h1a, h1r]; grind

end
end Browser
end Zc
