import Zc.Model.RespScope
import Zc.Proofs.Transmit
/-! C03 / D25: the querier's known answers as they are on the wire versus as `_answer_question` sees them. -/
namespace Zc

theorem Rec.unscope_ttl (r : Rec) : r.unscope.ttl = r.ttl := rfl

theorem Rec.unscope_idem (r : Rec) : r.unscope.unscope = r.unscope := by
  obtain ⟨n, t, c, u, ttl, cr, rd⟩ := r
  cases rd <;> rfl

/-- a record whose `unscope` differs is an address record with a scope id -/
theorem Rec.scoped_of_unscope_ne {r : Rec} (h : r.unscope ≠ r) : ∃ a n, r.rdata = .addr a (some n) := by
  obtain ⟨nm, t, c, u, ttl, cr, rd⟩ := r
  cases rd with
  | addr a s =>
    cases s with
    | none => exact absurd rfl h
    | some n => exact ⟨a, n, rfl⟩
  | _ => exact absurd rfl h

section
variable (lower : String → String) (ettl : Nat)

/-- the records a service owns never carry a scope id (`ServiceInfo._dns_addresses` passes none) -/
theorem own_unscoped {s : Svc} {r : Rec} (h : r ∈ RespSpec.own lower ettl s) : r.unscope = r := by
  rcases (mem_own lower ettl s r).mp h with h | h | h | h | h | h
  · subst h; rfl
  · subst h; rfl
  · subst h; rfl
  · subst h; rfl
  · simp only [RespSpec.addrsOf, List.mem_append, List.mem_map] at h
    rcases h with ⟨a, _, rfl⟩ | ⟨a, _, rfl⟩ <;> rfl
  · unfold RespSpec.nsecOf at h
    split at h
    · simp at h
    · simp only [List.mem_singleton] at h; subst h; rfl

/-- identity compares the scope id (C20): a scoped record is never the same record as an unscoped one -/
theorem beq_scoped_unscoped {k r : Rec} (hk : k.unscope ≠ k) (hr : r.unscope = r) : k.beq lower r = false := by
  cases hb : k.beq lower r with
  | false => rfl
  | true =>
    exfalso
    obtain ⟨a, n, hka⟩ := Rec.scoped_of_unscope_ne hk
    have hid := ((C20_eq_iff lower k r).mp hb).2
    have hrd : k.rdata.ident lower = r.rdata.ident lower := by
      have := congrArg (fun x => x.2.2.2) hid
      simpa [Rec.specIdent] using this
    rw [hka] at hrd
    obtain ⟨nm, t, c, u, ttl, cr, rd⟩ := r
    cases rd with
    | addr a' s' =>
      simp only [RData.ident, RData.addr.injEq] at hrd
      obtain ⟨_, hs⟩ := hrd
      subst hs
      simp [Rec.unscope] at hr
    | _ => simp [RData.ident] at hrd

theorem any_congr_mem {α : Type} {l : List α} {f g : α → Bool} (h : ∀ a ∈ l, f a = g a) : l.any f = l.any g := by
  induction l with
  | nil => rfl
  | cons x r ih =>
    simp only [List.any_cons]
    rw [h x (by simp), ih (fun a ha => h a (by simp [ha]))]

theorem all_congr_mem {α : Type} {l : List α} {f g : α → Bool} (h : ∀ a ∈ l, f a = g a) : l.all f = l.all g := by
  induction l with
  | nil => rfl
  | cons x r ih =>
    simp only [List.all_cons]
    rw [h x (by simp), ih (fun a ha => h a (by simp [ha]))]

/-- the two known-answer lists give one verdict on `r` when each listed record is the same record as `r` with and without
its scope id -/
theorem sup_map_unscope {known : List Rec} {r : Rec} (h : ∀ k ∈ known, (k.unscope).beq lower r = k.beq lower r) :
    RespSpec.supAny lower (known.map Rec.unscope) r = RespSpec.supAny lower known r
    ∧ RespSpec.supAll lower (known.map Rec.unscope) r = RespSpec.supAll lower known r := by
  constructor
  · unfold RespSpec.supAny
    rw [List.any_map]
    apply any_congr_mem
    intro k hk
    show (k.unscope.beq lower r && decide (r.ttl < 2 * k.unscope.ttl)) = _
    rw [h k hk]; rfl
  · unfold RespSpec.supAll
    rw [List.any_map, List.all_map]
    have h1 : known.any ((fun k => k.beq lower r) ∘ Rec.unscope) = known.any (fun k => k.beq lower r) :=
      any_congr_mem (fun k hk => by
        show k.unscope.beq lower r = _
        rw [h k hk])
    have h2 : known.all ((fun k => !(k.beq lower r) || decide (r.ttl < 2 * k.ttl)) ∘ Rec.unscope)
        = known.all (fun k => !(k.beq lower r) || decide (r.ttl < 2 * k.ttl)) :=
      all_congr_mem (fun k hk => by
        show (!(k.unscope.beq lower r) || decide (r.ttl < 2 * k.unscope.ttl)) = _
        rw [h k hk]; rfl)
    rw [h1, h2]

/-- under the negated input class of D25, scoped and unscoped listings agree on every record of a registered service -/
theorem sup_wire_eq {svcs : List Svc} {ps : List QPkt} (hn : NoScopedKnownOfOwn lower ettl svcs ps)
    {s : Svc} (hs : s ∈ svcs) {r : Rec} (hr : r ∈ RespSpec.own lower ettl s) :
    RespSpec.supAny lower (wireKnown ps) r = RespSpec.supAny lower (knownOf (ps.map (·.msg))) r
    ∧ RespSpec.supAll lower (wireKnown ps) r = RespSpec.supAll lower (knownOf (ps.map (·.msg))) r := by
  apply sup_map_unscope
  intro k hk
  by_cases hku : k.unscope = k
  · rw [hku]
  · rw [hn k hk hku s hs r hr, beq_scoped_unscoped lower hku (own_unscoped lower ettl hr)]

theorem candidatesS_sub_own {s : Svc} {q : Question} {a : Rec} (h : a ∈ RespSpec.candidatesS lower ettl s q) :
    a ∈ RespSpec.own lower ettl s := by
  unfold RespSpec.candidatesS at h
  rcases List.mem_append.mp h with h1 | h1
  · exact candidates_sub_own lower ettl h1
  · split at h1
    · rw [mem_own]; exact Or.inr (Or.inr (Or.inr (Or.inr (Or.inl h1))))
    · simp at h1

theorem mem_candidatesS_of_mem {s : Svc} {q : Question} {a : Rec} (h : a ∈ RespSpec.candidates lower ettl s q) :
    a ∈ RespSpec.candidatesS lower ettl s q := List.mem_append.mpr (Or.inl h)

/-- the specification predicates depend on the known-answer list only through the verdicts on records of registered services -/
theorem soundAnswer_congr {svcs : List Svc} {qs : List Question} {k1 k2 : List Rec} {a : Rec}
    (h : ∀ s ∈ svcs, ∀ r ∈ RespSpec.own lower ettl s, RespSpec.supAll lower k1 r = RespSpec.supAll lower k2 r)
    (hs : RespSpec.soundAnswer lower ettl svcs qs k1 a = true) : RespSpec.soundAnswer lower ettl svcs qs k2 a = true := by
  unfold RespSpec.soundAnswer at hs ⊢
  rw [Bool.and_eq_true] at hs ⊢
  refine ⟨hs.1, ?_⟩
  obtain ⟨h1, h2⟩ := hs
  rw [List.any_eq_true] at h1
  obtain ⟨q, _, h1⟩ := h1
  rw [List.any_eq_true] at h1
  obtain ⟨s, hsm, hc⟩ := h1
  rw [← h s hsm a (candidatesS_sub_own lower ettl (List.contains_iff_mem.mp hc))]
  exact h2

theorem completePerService_congr {svcs : List Svc} {qs : List Question} {k1 k2 off : List Rec}
    (h : ∀ s ∈ svcs, ∀ r ∈ RespSpec.own lower ettl s, RespSpec.supAny lower k1 r = RespSpec.supAny lower k2 r)
    (hc : RespSpec.completePerService lower ettl svcs qs k1 off = true) : RespSpec.completePerService lower ettl svcs qs k2 off = true := by
  unfold RespSpec.completePerService at hc ⊢
  simp only [List.all_eq_true] at hc ⊢
  intro q hq s hs r hr
  rw [← h s hs r (candidates_sub_own lower ettl hr)]
  exact hc q hq s hs r hr

/-! ### the two views of one query -/

theorem questionsOf_ownView (u : Bool → Bool) (ps : List QPkt) : questionsOf (ownView u ps) = questionsOf (ps.map (·.msg)) := by
  unfold ownView
  split
  · simp [questionsOf, List.flatMap_map]
  · rfl

theorem knownOf_map_unscope (ps : List QPkt) :
    knownOf (ps.map (fun p => { p.msg with answers := p.msg.answers.map Rec.unscope })) = (knownOf (ps.map (·.msg))).map Rec.unscope := by
  unfold knownOf
  induction ps with
  | nil => rfl
  | cons p r ih =>
    simp only [List.map_cons, List.filter_cons]
    cases hp : p.msg.isProbe
    · simp only [Bool.not_false, if_true, List.flatMap_cons, List.map_append]
      rw [ih]
    · simp only [Bool.not_true]
      exact ih

theorem knownOf_ownView (u : Bool → Bool) (ps : List QPkt) :
    knownOf (ownView u ps) = if u (lastScoped ps) then wireKnown ps else knownOf (ps.map (·.msg)) := by
  unfold ownView
  split
  · exact knownOf_map_unscope ps
  · rfl

theorem knownOf_unscoped_id (ps : List QPkt) (h : ∀ p ∈ ps, ∀ a ∈ p.msg.answers, a.unscope = a) :
    (knownOf (ps.map (·.msg))).map Rec.unscope = knownOf (ps.map (·.msg)) := by
  unfold knownOf
  induction ps with
  | nil => rfl
  | cons p r ih =>
    have ihr := ih (fun q hq => h q (by simp [hq]))
    simp only [List.map_cons, List.filter_cons]
    cases hp : p.msg.isProbe
    · simp only [Bool.not_false, if_true, List.flatMap_cons, List.map_append]
      rw [ihr]
      congr 1
      calc p.msg.answers.map Rec.unscope = p.msg.answers.map id :=
            List.map_congr_left (fun a ha => h p (by simp) a ha)
        _ = p.msg.answers := List.map_id _
    · simp only [Bool.not_true]
      exact ihr

/-- packets that were parsed without a scope id list their known answers as they are on the wire -/
theorem wireKnown_unscoped {ps : List QPkt} (hw : WellStamped ps) (hl : lastScoped ps = false) :
    wireKnown ps = knownOf (ps.map (·.msg)) := by
  unfold wireKnown
  apply knownOf_unscoped_id
  intro p hp a ha
  exact hw.2 p hp (by rw [hw.1 p hp, hl]) a ha

/-- on the repaired code the suppression looks at exactly the wire-level list -/
theorem knownOf_ownView_repaired {ps : List QPkt} (hw : WellStamped ps) : knownOf (ownView id ps) = wireKnown ps := by
  rw [knownOf_ownView]
  cases hl : lastScoped ps
  · simp [wireKnown_unscoped hw hl]
  · simp

end
end Zc
