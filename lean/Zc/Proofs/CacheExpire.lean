import Zc.Proofs.CacheReaders
/-! `async_expire` / `async_remove_records` against the flat reference store. -/
namespace Zc

section
variable {lower : String → String}

/-- iterating the buckets visits every record of the flat store exactly once -/
theorem IndexRefines.allRecs_perm {m : Index} {s : List Rec} (h : IndexRefines (nameKey lower) m s) :
    (m.flatMap (fun kb => kb.2)).Perm s := by
  induction m generalizing s with
  | nil =>
    have : s = [] := by
      cases s with
      | nil => rfl
      | cons e t =>
        have hg := h.get (lower e.name)
        have : e ∈ List.filter (fun r => decide (nameKey lower r = some (lower e.name))) (e :: t) :=
          List.mem_filter.2 ⟨by simp, by simp [nameKey]⟩
        rw [← hg] at this
        cases this
    subst this
    exact List.Perm.refl _
  | cons kb t ih =>
    obtain ⟨k, b⟩ := kb
    have hkeys := h.keys
    simp only [Index.keys, List.map_cons, List.nodup_cons] at hkeys
    have hb : b = s.filter (fun r => decide (nameKey lower r = some k)) := by
      rw [← h.get k]; simp [Index.get, Index.find?_cons]
    have hk_notin : Index.find? t k = none := by
      cases hf : Index.find? t k with
      | none => rfl
      | some b' =>
        have : k ∈ Index.keys t := (Index.mem_keys_iff t k).2 (by simp [hf])
        exact absurd this hkeys.1
    have ht : IndexRefines (nameKey lower) t (s.filter (fun r => !decide (nameKey lower r = some k))) := by
      refine ⟨fun k' => ?_, hkeys.2, fun k' b' hb' => ?_⟩
      · by_cases hkk : k' = k
        · subst hkk
          rw [Index.get, hk_notin, List.filter_filter]
          simp
        · have hg := h.get k'
          simp only [Index.get, Index.find?_cons, Ne.symm hkk, if_false] at hg
          rw [Index.get, hg, filter_filter_comm]
          symm
          apply filter_filter_of_imp
          intro e _ he
          simp only [decide_eq_true_eq] at he
          simp [he, hkk]
      · have hne : k ≠ k' := by
          intro e; subst e; rw [hk_notin] at hb'; cases hb'
        exact h.nonempty k' b' (by simp [Index.find?_cons, hne, hb'])
    have := ih ht
    simp only [List.flatMap_cons]
    rw [hb]
    exact (List.Perm.append (List.Perm.refl _) this).trans (List.filter_append_perm _ s)

theorem Refines.allRecs_perm {c : Cache} {s : List Rec} (h : Refines lower c s) : c.allRecs.Perm s :=
  h.byName.allRecs_perm

/-- removing a list of present, pairwise different records from the flat store succeeds and is a filter -/
theorem Flat.removeAll_ok (s : List Rec) (l : List Rec)
    (hpres : ∀ r ∈ l, ∃ e ∈ s, e.beq lower r = true)
    (hdist : l.Pairwise (fun a b => a.ident lower ≠ b.ident lower)) :
    removeAll (Flat.ops lower) s l = .ok (s.filter (fun e => !(l.any (fun r => e.beq lower r)))) := by
  induction l generalizing s with
  | nil =>
    simp only [removeAll, List.foldlM_nil, pure, Except.pure, List.any_nil, Bool.not_false]
    rw [List.filter_eq_self.2 (fun _ _ => rfl)]
  | cons r t ih =>
    rw [List.pairwise_cons] at hdist
    obtain ⟨e0, he0, hb0⟩ := hpres r (by simp)
    have hany : s.any (fun e => e.beq lower r) = true := List.any_eq_true.2 ⟨e0, he0, hb0⟩
    have hstep : (Flat.ops lower).remove s r = .ok (s.filter (fun e => !(e.beq lower r))) := by
      simp [Flat.ops, Flat.remove, hany]
    have hpres' : ∀ r' ∈ t, ∃ e ∈ s.filter (fun e => !(e.beq lower r)), e.beq lower r' = true := by
      intro r' hr'
      obtain ⟨e, he, hb⟩ := hpres r' (by simp [hr'])
      refine ⟨e, List.mem_filter.2 ⟨he, ?_⟩, hb⟩
      have h1 := (beq_iff_ident lower e r').1 hb
      have h2 := hdist.1 r' hr'
      cases hbr : e.beq lower r
      · rfl
      · exact absurd ((beq_iff_ident lower e r).1 hbr ▸ h1 : r.ident lower = r'.ident lower) h2
    have := ih (s.filter (fun e => !(e.beq lower r))) hpres' hdist.2
    simp only [removeAll] at this ⊢
    rw [List.foldlM_cons, hstep]
    simp only [bind, Except.bind]
    rw [this, List.filter_filter]
    congr 1
    exact List.filter_congr (fun x _ => by simp [List.any_cons, Bool.and_comm])

theorem Refines.removeAll {c : Cache} {s : List Rec} (h : Refines lower c s) (l : List Rec) :
    match Zc.removeAll (Cache.ops lower) c l, Zc.removeAll (Flat.ops lower) s l with
    | .ok c', .ok s' => Refines lower c' s'
    | .error e, .error e' => e = e'
    | _, _ => False := by
  induction l generalizing c s with
  | nil => simp only [Zc.removeAll, List.foldlM_nil, pure, Except.pure]; exact h
  | cons r t ih =>
    have hr := h.remove r
    simp only [Zc.removeAll, List.foldlM_cons] at ih ⊢
    change match (Cache.remove lower c r >>= fun c' => List.foldlM (Cache.ops lower).remove c' t),
      (Flat.remove lower s r >>= fun s' => List.foldlM (Flat.ops lower).remove s' t) with
      | .ok c', .ok s' => Refines lower c' s' | .error e, .error e' => e = e' | _, _ => False
    cases hc : Cache.remove lower c r <;> cases hs : Flat.remove lower s r <;> simp only [hc, hs] at hr
    · simpa [bind, Except.bind] using hr
    · simp only [bind, Except.bind]
      exact ih hr

/-- **purge**: `async_expire` never raises, removes exactly the expired records and reports each of them once -/
theorem Refines.expire {c : Cache} {s : List Rec} (h : Refines lower c s) (hw : Flat.WF lower s) (now : Ms) :
    ∃ c' l, Zc.expire (Cache.ops lower) c now = .ok (c', l)
      ∧ l.Perm (s.filter (fun e => e.isExpired now))
      ∧ Refines lower c' (s.filter (fun e => !(e.isExpired now))) := by
  have hperm : (c.allRecs.filter (fun r => r.isExpired now)).Perm (s.filter (fun e => e.isExpired now)) :=
    List.Perm.filter _ h.allRecs_perm
  have hmem : ∀ r, r ∈ c.allRecs.filter (fun r => r.isExpired now) ↔ r ∈ s ∧ r.isExpired now = true := by
    intro r; rw [hperm.mem_iff, List.mem_filter]
  have hdist : (c.allRecs.filter (fun r => r.isExpired now)).Pairwise (fun a b => a.ident lower ≠ b.ident lower) :=
    hperm.symm.pairwise (List.Pairwise.filter _ hw) (fun hxy => fun e => hxy e.symm)
  have hflat := Flat.removeAll_ok (lower := lower) s (c.allRecs.filter (fun r => r.isExpired now))
    (fun r hr => ⟨r, ((hmem r).1 hr).1, beq_refl lower r⟩) hdist
  have hsim := h.removeAll (c.allRecs.filter (fun r => r.isExpired now))
  rw [hflat] at hsim
  have hfilter : s.filter (fun e => !((c.allRecs.filter (fun r => r.isExpired now)).any (fun r => e.beq lower r)))
      = s.filter (fun e => !(e.isExpired now)) := by
    apply List.filter_congr
    intro e he
    congr 1
    rw [Bool.eq_iff_iff, List.any_eq_true]
    constructor
    · rintro ⟨r, hr, hb⟩
      have hr' := (hmem r).1 hr
      have : e = r := hw.eq_of_beq he hr'.1 hb
      rw [this]; exact hr'.2
    · intro hexp
      exact ⟨e, (hmem e).2 ⟨he, hexp⟩, beq_refl lower e⟩
  cases hc : Zc.removeAll (Cache.ops lower) c (c.allRecs.filter (fun r => r.isExpired now)) with
  | error e => simp [hc] at hsim
  | ok c' =>
    simp only [hc] at hsim
    refine ⟨c', c.allRecs.filter (fun r => r.isExpired now), ?_, hperm, hfilter ▸ hsim⟩
    show (Zc.removeAll (Cache.ops lower) c (c.allRecs.filter (fun r => r.isExpired now)) >>= fun c' =>
      pure (c', c.allRecs.filter (fun r => r.isExpired now))) = _
    rw [hc]; rfl

/-- the reference store purges by filtering -/
theorem Flat.expire_eq {s : List Rec} (hw : Flat.WF lower s) (now : Ms) :
    Zc.expire (Flat.ops lower) s now = .ok (s.filter (fun e => !(e.isExpired now)), s.filter (fun e => e.isExpired now)) := by
  have hflat := Flat.removeAll_ok (lower := lower) s (s.filter (fun r => r.isExpired now))
    (fun r hr => ⟨r, (List.mem_filter.1 hr).1, beq_refl lower r⟩) (List.Pairwise.filter _ hw)
  have hfilter : s.filter (fun e => !((s.filter (fun r => r.isExpired now)).any (fun r => e.beq lower r)))
      = s.filter (fun e => !(e.isExpired now)) := by
    apply List.filter_congr
    intro e he
    congr 1
    rw [Bool.eq_iff_iff, List.any_eq_true]
    constructor
    · rintro ⟨r, hr, hb⟩
      have hr' := List.mem_filter.1 hr
      have : e = r := hw.eq_of_beq he hr'.1 hb
      rw [this]; exact hr'.2
    · intro hexp
      exact ⟨e, List.mem_filter.2 ⟨he, hexp⟩, beq_refl lower e⟩
  show (Zc.removeAll (Flat.ops lower) s (s.filter (fun r => r.isExpired now)) >>= fun c' =>
    pure (c', s.filter (fun r => r.isExpired now))) = _
  rw [hflat, hfilter]; rfl

end
end Zc
