import Zc.Model.Register
import Zc.GenFacts.Register
/-! Helper lemmas for C09: the inner rename loop of `async_check_service`. -/
namespace Zc.Register
open Zc Zc.GenFacts.Register

/-- candidates `nextInst .. n-1` are all valid names and all taken -/
def Chain (env : Env) (st : PState) (n : Nat) : Prop :=
  ∀ m, st.nextInst ≤ m → m < n →
    conflict env.bucket st.now (mkName st.inst m st.svc.type) = true ∧ env.valid (mkName st.inst m st.svc.type) = true

/-- the locals after the rename to candidate `n` -/
def renamedTo (st : PState) (n : Nat) : PState :=
  { st with svc := { st.svc with name := mkName st.inst n st.svc.type }, nextInst := n + 1, nextTime := st.now, i := 0 }

/-- the possible results of the inner rename loop -/
inductive RenameRes (env : Env) (st : PState) : PState × Option Outcome → Prop
  | free : conflict env.bucket st.now st.svc.name = false → RenameRes env st (st, none)
  | nonUnique : conflict env.bucket st.now st.svc.name = true → env.allow = false →
      RenameRes env st (st, some (.raised .nonUnique))
  | renamed (n : Nat) : conflict env.bucket st.now st.svc.name = true → env.allow = true → st.nextInst ≤ n → Chain env st n →
      env.valid (mkName st.inst n st.svc.type) = true → conflict env.bucket st.now (mkName st.inst n st.svc.type) = false →
      RenameRes env st (renamedTo st n, none)
  | badType (n : Nat) (st' : PState) : conflict env.bucket st.now st.svc.name = true → env.allow = true → st.nextInst ≤ n → Chain env st n →
      env.valid (mkName st.inst n st.svc.type) = false → st'.svc.name = mkName st.inst n st.svc.type →
      RenameRes env st (st', some (.raised .badType))
  | stuck (st' : PState) : RenameRes env st (st', some .stuck)

theorem rename_res (env : Env) : ∀ (f : Nat) (st : PState), RenameRes env st (rename env f st) := by
  intro f
  induction f with
  | zero => intro st; exact .stuck st
  | succ f ih =>
    intro st
    unfold rename
    by_cases hc : conflict env.bucket st.now st.svc.name = true
    · by_cases ha : env.allow = true
      · by_cases hv : env.valid (mkName st.inst st.nextInst st.svc.type) = true
        · simp only [hc, ha, hv, if_true, Bool.not_true, Bool.false_eq_true, if_false]
          have h1 := ih { st with svc := { st.svc with name := mkName st.inst st.nextInst st.svc.type }, nextInst := st.nextInst + 1,
                                   nextTime := st.now, i := 0 }
          generalize hr : rename env f _ = r at h1 ⊢
          cases h1 with
          | free hfree =>
            have := RenameRes.renamed (env := env) (st := st) st.nextInst hc ha (Nat.le_refl _) (by intro m h1 h2; omega) hv hfree
            simpa [renamedTo] using this
          | nonUnique _ hna => simp [ha] at hna
          | renamed n hc1 _ hle hch hv1 hf1 =>
            have hch' : Chain env st n := by
              intro m h1 h2
              by_cases hm : m = st.nextInst
              · subst hm; exact ⟨hc1, hv⟩
              · exact hch m (by simp; omega) h2
            have := RenameRes.renamed (env := env) (st := st) n hc ha (by simp at hle; omega) hch' hv1 hf1
            simpa [renamedTo] using this
          | badType n st' hc1 _ hle hch hv1 hn =>
            have hch' : Chain env st n := by
              intro m h1 h2
              by_cases hm : m = st.nextInst
              · subst hm; exact ⟨hc1, hv⟩
              · exact hch m (by simp; omega) h2
            exact RenameRes.badType n st' hc ha (by simp at hle; omega) hch' hv1 hn
          | stuck st' => exact .stuck st'
        · simp only [hc, ha, hv, if_true, Bool.not_true, Bool.false_eq_true, if_false, Bool.not_false]
          exact RenameRes.badType st.nextInst _ hc ha (Nat.le_refl _) (by intro m h1 h2; omega) (by simpa using hv) rfl
      · have ha' : env.allow = false := by simpa using ha
        simp only [hc, ha', if_true, Bool.not_false]
        exact .nonUnique hc ha'
    · have hc' : conflict env.bucket st.now st.svc.name = false := by simpa using hc
      simp only [hc', Bool.false_eq_true, if_false]
      exact .free hc'

theorem rename_free (env : Env) (f : Nat) (st : PState) (h : conflict env.bucket st.now st.svc.name = false) :
    rename env (f + 1) st = (st, none) := by
  unfold rename; simp [h]

end Zc.Register
